#!/usr/bin/env python3
"""print the prompt for an independent mutation-seeding sub-agent for one property (no /verif knowledge)"""
import json, sys
pid = sys.argv[1]
n = int(sys.argv[2]) if len(sys.argv) > 2 else 4
rnd = sys.argv[3] if len(sys.argv) > 3 else ''
p = next(json.loads(l) for l in open('/verif/properties.jsonl') if json.loads(l)['id'] == pid)
anch = '; '.join(f"{m['name']} @ {m['where']}" for m in p['anchors'].get('mechanism', []))
EXTRA = ''
if rnd:
    EXTRA = ("This is a SECOND round: an earlier author already tried plain sign slips, swapped indices, changed tolerances/thresholds, dtype leaks through np.empty_like/np.asarray, shape confusions for N == 3/4, caches with incomplete keys and `x or default` falsy-zero slips. Be more inventive: aim for (1) a change confined to a code path reached only through a rarely used but documented option or entry point, (2) a change whose effect depends on object state carried between calls or on call order, (3) a numerically subtle change (loss of precision, a formula valid only on part of the domain, a wrong branch of a multi-valued function, an 'equivalent' algebraic rewrite that is not equivalent at an edge), (4) a change that only matters for a specific combination of two options or two inputs. Avoid duplicates of each other.\n\n")
print(f"""You are testing how well an (undisclosed) verification suite detects realistic regressions in the Python library Mayitzin/ahrs. You get ONLY the text of one semantic property and a scratch git worktree of the repository. Do not look at or use anything under /verif. Do not touch /repo itself.

Setup: create your own worktree: `git -C /repo worktree add --detach /tmp/seed{rnd}-{pid} HEAD` and work only inside /tmp/seed{rnd}-{pid}. Run python as `cd /tmp/seed{rnd}-{pid} && PYTHONPATH=/tmp/seed{rnd}-{pid} /venv/bin/python ...` (check `import ahrs; print(ahrs.__file__)` points into /tmp/seed{rnd}-{pid}). The existing test-suite is run with `cd /tmp/seed{rnd}-{pid} && PYTHONPATH=/tmp/seed{rnd}-{pid} /venv/bin/python -m pytest -q -p no:cacheprovider tests` (about 15 s, 250 tests).

Property {pid} — "{p['title']}": {p['statement']}
Quantified over: {p['quantifier']['text']}.
Why the tests cannot settle it: {p['why_tests_cant']}
Code anchors: {anch}. Observe at: {'; '.join(p['anchors'].get('observe_at', []))}.

{EXTRA}Task: produce {n} different source changes (mutations) to the library, each of which breaks this property while the package still imports and the ENTIRE existing test-suite still passes. Prefer changes that need something specific to manifest — a particular region of inputs, a particular mode/option/frame/method, a multi-step sequence of calls, an unusual but legal input, or two cooperating sites that each look fine alone — rather than ones any ordinary call would expose at once. At least one should be a subtle numerical/branch/threshold change (not a plain sign flip), and they should touch different functions. Each must be a plausible slip a maintainer could make (refactor, "optimisation", shortcut, copy-paste), and small (a few lines).

For each mutation i = 1..{n} deliver in /tmp/seed{rnd}-{pid}-out/m<i>/: `patch.diff` (output of `git diff` in the worktree, applying cleanly to /repo HEAD with `git apply`), `demo.py` (a small standalone program that exits 0 on the unmodified library and exits 1 — printing what went wrong — with the mutation applied; it must import ahrs from the current PYTHONPATH), and `meta.json` with keys: property ("{pid}"), summary, what_it_needs_to_manifest, files_changed, tests_pass (true after you really ran the suite with the mutation), demo_fails_with_patch (true), demo_passes_without_patch (true). Reset the worktree (`git checkout -- .`) between mutations. When finished remove the worktree: `git -C /repo worktree remove --force /tmp/seed{rnd}-{pid}`. Report a one-paragraph summary per mutation.""")
