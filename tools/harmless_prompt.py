#!/usr/bin/env python3
"""prompt for an independent sub-agent that writes behaviour-PRESERVING rewrites of the code a property is anchored in
(used to measure false alarms; the agent knows nothing of /verif)"""
import json, sys
grp = sys.argv[1]; pids = sys.argv[2:]
P = {json.loads(l)['id']: json.loads(l) for l in open('/verif/properties.jsonl')}
parts = []
for pid in pids:
    p = P[pid]
    anch = '; '.join(f"{m['name']} @ {m['where']}" for m in p['anchors'].get('mechanism', []))
    parts.append(f"Property {pid} — \"{p['title']}\": {p['statement']}\nCode anchors: {anch}.")
props = "\n\n".join(parts)
print(f"""You are helping measure the FALSE-ALARM rate of an (undisclosed) verification suite for the Python library Mayitzin/ahrs. You get the text of a few semantic properties and a scratch git worktree. Do not look at or use anything under /verif. Do not touch /repo itself. Do not use `git stash`.

Setup: `git -C /repo worktree add --detach /tmp/harm-{grp} HEAD`; work only inside /tmp/harm-{grp}. Run python as `cd /tmp/harm-{grp} && PYTHONPATH=/tmp/harm-{grp} /venv/bin/python ...`. Test-suite: `cd /tmp/harm-{grp} && PYTHONPATH=/tmp/harm-{grp} /venv/bin/python -m pytest -q -p no:cacheprovider tests` (about 15 s, 250 tests).

{props}

Task: for EACH property above produce 3 different HARMLESS rewrites of the code the property is anchored in: realistic maintainer refactors that keep the property true and keep the public behaviour the same for every input (up to floating-point rounding of a few ulp). Examples of the kind wanted: rename local variables; extract a helper function or inline one; reorder independent statements; replace `x**2` by `x*x` or `np.sqrt(a)/b` by an equivalent expression; replace an explicit loop by a vectorised expression or vice versa; replace `np.array([...])` construction by element assignment into `np.zeros`; change `if a: ... else: ...` into an early return; hoist a common sub-expression; replace `np.linalg.norm(v)` by `np.sqrt(v@v)`; use `np.where`/`np.clip` instead of a scalar branch where really equivalent; add an assertion-free fast path that returns the SAME value; reformat, add comments and type hints; rewrite a comparison `a < b` as `b > a`. Make them moderately sized (5–30 changed lines), touching the functions the property names — not trivial whitespace. Each must truly preserve behaviour on ALL inputs, including edge cases (zeros, negative scalar part, N == 3/4 batches, NaN handling, dtype and shape of results, exceptions raised and their types, in-place/aliasing behaviour, attribute state): think carefully, and verify numerically by comparing old and new outputs on a few thousand random and edge inputs (bit-for-bit or within 4 ulp) before you keep one. The full test-suite must pass.

For each rewrite deliver /tmp/harm-{grp}-out/<PID>-h<i>/ (i = 1..3) with `patch.diff` (output of `git diff`, applying cleanly to /repo HEAD with `git apply`) and `meta.json` with keys: property, summary, why_equivalent, max_observed_difference (e.g. "0 ulp" or "2 ulp"), tests_pass (true after really running the suite). Reset the worktree (`git checkout -- .`) between rewrites. When finished remove the worktree: `git -C /repo worktree remove --force /tmp/harm-{grp}`. Report a one-line summary per rewrite.""")
