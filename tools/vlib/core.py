"""Common machinery of every property check: build directory, regeneration, Coq builds,
float correspondence through vm_compute, search oracles, known findings, replays, evidence."""
from __future__ import annotations
import os, sys, json, time, shutil, subprocess, hashlib, re, math, traceback, struct
from concurrent.futures import ThreadPoolExecutor
import numpy as np

VERIF = os.environ.get('VERIF_ROOT', '/verif')
REPO = os.environ.get('AHRS_REPO', '/repo')
COQLIB = os.path.join(VERIF, 'coq', 'lib')
COQMODEL = os.path.join(VERIF, 'coq', 'model')
PROPS = os.path.join(VERIF, 'coq', 'props')
CACHE = os.path.join(VERIF, 'cache')

ALLOWED_AXIOMS = {
    # real numbers of the standard library
    'ClassicalDedekindReals.sig_forall_dec', 'ClassicalDedekindReals.sig_not_dec',
    'FunctionalExtensionality.functional_extensionality_dep',
    # classical logic used by the stdlib's own analysis (Ranalysis, Rtrigo, Coquelicot, Interval)
    'Classical_Prop.classic', 'ClassicalEpsilon.constructive_indefinite_description',
    'ProofIrrelevance.proof_irrelevance', 'PropExtensionality.propositional_extensionality',
    'Eqdep.Eq_rect_eq.eq_rect_eq', 'JMeq.JMeq_eq',
}
ALLOWED_AXIOM_PREFIXES = ('Uint63.', 'PrimInt63.', 'PrimFloat.', 'FloatAxioms.', 'Sint63.', 'Coq.Numbers.Cyclic.Int63',
                          'Coq.Floats', 'Uint63Axioms.', 'Coq.Numbers')

FORBIDDEN = re.compile(r'\b(Admitted|admit|Axiom|Parameter|Conjecture|Unset Guard|bypass_check|Admit Obligations|'
                       r'Unset Positivity|Unset Universe)\b')


def sha(s: str) -> str:
    return hashlib.sha256(s.encode()).hexdigest()


class Violation:
    def __init__(self, oracle, tag, input, observed=None, expected=None, note=''):
        self.oracle, self.tag, self.input = oracle, tag, input
        self.observed, self.expected, self.note = observed, expected, note

    def to_json(self):
        return {'oracle': self.oracle, 'tag': self.tag, 'input': self.input,
                'observed': _js(self.observed), 'expected': _js(self.expected), 'note': self.note}


def _js(x):
    if isinstance(x, np.ndarray):
        return _js(x.tolist())
    if isinstance(x, (list, tuple)):
        return [_js(v) for v in x]
    if isinstance(x, dict):
        return {str(k): _js(v) for k, v in x.items()}
    if isinstance(x, (np.floating, float)):
        x = float(x)
        return x if math.isfinite(x) else repr(x)
    if isinstance(x, (np.integer,)):
        return int(x)
    if isinstance(x, (np.bool_,)):
        return bool(x)
    if isinstance(x, complex):
        return repr(x)
    if x is None or isinstance(x, (int, str, bool)):
        return x
    return repr(x)


def call_outcome(f, *a, **k):
    """run an implementation call -> ('val', value) | ('raise', ExceptionClassName, msg)"""
    try:
        with np.errstate(all='ignore'):
            import warnings
            with warnings.catch_warnings():
                warnings.simplefilter('ignore')
                return ('val', f(*a, **k))
    except Exception as e:        # noqa: the outcome *is* the observation
        return ('raise', type(e).__name__, str(e)[:200])


def flat_floats(x):
    out = []

    def rec(o):
        if isinstance(o, np.ndarray):
            for v in np.asarray(o).reshape(-1):
                rec(v)
        elif isinstance(o, (list, tuple)):
            for v in o:
                rec(v)
        elif isinstance(o, (bool, np.bool_)):
            out.append(float(o))
        elif isinstance(o, complex) or isinstance(o, np.complexfloating):
            out.append(float('nan') if o.imag != 0 else float(o.real))
        elif o is None:
            pass
        else:
            out.append(float(o))
    rec(x)
    return out


class Ctx:
    """state of one check run"""

    def __init__(self, pid, tier, seed, replay=None):
        self.pid, self.tier, self.seed = pid, tier, seed
        self.t0 = time.time()
        self.build = os.path.join(VERIF, 'build', f"{pid}.{os.getpid()}")
        shutil.rmtree(self.build, ignore_errors=True)
        os.makedirs(os.path.join(self.build, 'gen'))
        os.makedirs(os.path.join(self.build, 'props'))
        self.rng = np.random.default_rng(seed)
        self.refuted_failed = []
        self.broken = []           # list of dicts: what no longer checks (translation / proof / correspondence)
        self.violations = []       # Violation objects found by search / correspondence with concrete input
        self.log = []
        self.targets_meta = {}
        self.targets = {}
        self.theorems = []         # (file, name)
        self.discharged = 0
        self.obligations = 0
        self.axioms = {}
        self.corr_stats = {}
        self.search_stats = {}
        self.samples = []
        self.evaluations = 0
        self.nontrivial = set()

    def say(self, *a):
        msg = ' '.join(str(x) for x in a)
        self.log.append(msg)
        print(msg, flush=True)

    def quick(self):
        return self.tier == 'quick'

    def n(self, quick, thorough):
        return quick if self.tier == 'quick' else thorough

    # ---------------------------------------------------------------- regeneration
    def generate(self, targets, modname):
        sys.path.insert(0, os.path.join(VERIF, 'tools'))
        from pysym import gen
        t0 = time.time()
        meta = gen.generate(targets, os.path.join(self.build, 'gen'), modname)
        self.targets_meta.update(meta)
        for t in targets:
            self.targets[t.name] = t
            t.genmod = modname + '_F'
            if t.error:
                self.broken.append({'kind': 'translation', 'target': t.name, 'error': t.error,
                                    'detail': meta[t.name].get('trace', '')})
                self.say(f"[gen] target {t.name} FAILED to translate: {t.error}")
        ok = True
        for suf in ('_R', '_F'):
            r = self.coqc(os.path.join(self.build, 'gen', modname + suf + '.v'))
            if r['rc'] != 0:
                ok = False
                self.broken.append({'kind': 'translation', 'target': modname + suf, 'error': 'generated file does not compile',
                                    'detail': r['err'][-2000:]})
                self.say(f"[gen] {modname}{suf}.v does not compile:\n{r['err'][-1500:]}")
        self.model_lines = {k: sorted(v) for k, v in gen.LINES.items()}
        self.say(f"[gen] {len(targets)} targets -> {modname}_R.v/{modname}_F.v in {time.time()-t0:.1f}s "
                 f"({sum(1 for t in targets if not t.error)} translated)")
        return ok

    # ---------------------------------------------------------------- coq
    def coq_args(self):
        return ['-Q', COQLIB, 'AhrsLib', '-Q', COQMODEL, 'AhrsModel',
                '-Q', os.path.join(self.build, 'gen'), 'AhrsGen',
                '-Q', os.path.join(self.build, 'props'), 'AhrsProps']

    def coqc(self, path, timeout=900):
        t0 = time.time()
        try:
            p = subprocess.run(['coqc'] + self.coq_args() + [path], capture_output=True, text=True,
                               timeout=timeout, cwd=os.path.dirname(path))
            return {'rc': p.returncode, 'out': p.stdout, 'err': p.stderr, 's': time.time() - t0}
        except subprocess.TimeoutExpired as e:
            return {'rc': 124, 'out': (e.stdout or b'').decode() if isinstance(e.stdout, bytes) else (e.stdout or ''),
                    'err': f'TIMEOUT after {timeout}s', 's': time.time() - t0}

    def prove(self, stages, subdir=None, timeout=900):
        """copy coq/props/<subdir>/<file> into the build dir and compile, stage by stage.
        stages: list of lists of file names; files of one stage are compiled in parallel."""
        subdir = subdir or self.pid
        src = os.path.join(PROPS, subdir)
        witness_of = {}
        norm = []
        for stage in stages:
            st = []
            for f in stage:
                if isinstance(f, (tuple, list)):
                    witness_of[f[0]] = f[1]['finding']
                    f = f[0]
                st.append(f)
            norm.append(st)
        stages = norm
        for stage in stages:
            for f in stage:
                text = open(os.path.join(src, f)).read()
                m = FORBIDDEN.search(re.sub(r'\(\*.*?\*\)', '', text, flags=re.S))
                if m:
                    self.broken.append({'kind': 'proof', 'file': f, 'error': f'forbidden vernacular {m.group(0)}'})
                    self.say(f"[coq] {f}: forbidden vernacular {m.group(0)}")
                shutil.copy(os.path.join(src, f), os.path.join(self.build, 'props', f))
        for stage in stages:
            with ThreadPoolExecutor(max_workers=min(8, len(stage))) as ex:
                res = list(ex.map(lambda f: (f, self.coqc(os.path.join(self.build, 'props', f), timeout)), stage))
            for f, r in res:
                text = open(os.path.join(self.build, 'props', f)).read()
                thms = re.findall(r'^\s*(?:Theorem|Lemma|Example|Corollary|Fact)\s+([A-Za-z_][\w\']*)', text, flags=re.M)
                self.obligations += len(thms)
                if r['rc'] == 0:
                    self.discharged += len(thms)
                    for th in thms:
                        self.theorems.append((f, th))
                    self._axioms(f, r['out'])
                    self.say(f"[coq] {f}: {len(thms)} statements checked in {r['s']:.1f}s")
                else:
                    err = (r['err'] or r['out'])[-2500:]
                    rec = {'kind': 'proof', 'file': f, 'error': 'coqc failed', 'detail': err, 'theorems': thms}
                    if f in witness_of:
                        # a *_refuted file exhibits a known finding inside the model; whether its failure matters
                        # is decided in finish(): only if the finding still reproduces on the implementation
                        rec['finding'] = witness_of[f]
                        self.refuted_failed.append(rec)
                    else:
                        self.broken.append(rec)
                    self.say(f"[coq] {f}: FAILED ({r['s']:.1f}s)\n{err[-1200:]}")

    def coqchk(self, modname, timeout=1500):
        """thorough tier: re-check the compiled property file and everything it depends on with the
        independent checker and record the axioms it reports"""
        t0 = time.time()
        try:
            p = subprocess.run(['coqchk', '-silent', '-o'] + self.coq_args() + [f'AhrsProps.{modname}'],
                               capture_output=True, text=True, timeout=timeout, cwd=self.build)
            out = p.stdout + p.stderr
            rc = p.returncode
        except subprocess.TimeoutExpired:
            out, rc = 'TIMEOUT', 124
        ax = re.findall(r'^\s{4}(\S+)\s*$', out.split('* Axioms:')[1].split('* Constants')[0], flags=re.M) if '* Axioms:' in out else []
        self.coqchk_result = {'rc': rc, 'axioms': ax, 's': round(time.time() - t0, 1),
                              'type_in_type': '<none>' in out.split('type-in-type:')[1][:20] if 'type-in-type:' in out else None}
        self.say(f"[coqchk] AhrsProps.{modname}: rc={rc} axioms={ax} in {time.time()-t0:.0f}s")
        if rc == 124:
            self.say(f"[coqchk] timed out after {timeout}s (cone too large for the independent checker in the time allowed): recorded, not counted")
        elif rc != 0:
            self.broken.append({'kind': 'proof', 'file': modname, 'error': 'coqchk failed', 'detail': out[-1500:]})

    def _axioms(self, f, out):
        # blocks printed by Print Assumptions: "Axioms:" then entries starting in column 0
        names = set()
        inblock = False
        for line in out.splitlines():
            if line.startswith('Axioms:'):
                inblock = True
                continue
            if inblock:
                if not line.strip():
                    continue
                if line[0] in ' \t':
                    continue
                mm = re.match(r'^([A-Za-z_][\w\.\']*)\s*(:|$)', line)
                if mm:
                    names.add(mm.group(1))
                else:
                    inblock = False
        self.axioms[f] = sorted(names)
        for nme in names:
            if nme in ALLOWED_AXIOMS or nme.startswith(ALLOWED_AXIOM_PREFIXES):
                continue
            self.broken.append({'kind': 'proof', 'file': f, 'error': f'axiom outside the allow-list: {nme}'})
            self.say(f"[coq] {f}: axiom outside the allow-list: {nme}")

    # ---------------------------------------------------------------- float correspondence
    def correspond(self, tname, cases, impl, tol_ulp=64, scale_floor=1.0, label=None, abs_tol=0.0,
                   up_to_sign=False):
        """cases: list of dict var->float.  impl(case) -> value | raises.  The regenerated
        float definition <tname>_F is evaluated inside Coq (vm_compute) on the same bits, with
        transcendental sub-terms supplied as oracle parameters computed by NumPy, and compared
        with the implementation's public entry point."""
        from pysym import emit
        label = label or tname
        t = self.targets.get(tname)
        st = self.corr_stats.setdefault(label, {'cases': 0, 'disagree': 0, 'max_ulp': 0.0, 'paths': {},
                                                 'raise': 0})
        if t is None or t.error:
            self.say(f"[corr] {label}: target not translated; correspondence skipped")
            return
        lines = ['From Coq Require Import List. From Coq Require Import Uint63. From Coq Require Import PrimFloat.',
                 'From AhrsLib Require Import FBase.', 'From AhrsGen Require Import %s.' % t.genmod,
                 'Import ListNotations.', 'Open Scope float_scope.']
        P = t.printerF
        pyres = []
        margins = []
        for c in cases:
            kind, val, path, memo = emit.run_tree(t.tree, c)
            margins.append(emit.LAST_MARGIN[0])
            # oracle values for this case: evaluate (some may be off-path; evaluate defensively)
            ovals = []
            for e in P.oracles:
                try:
                    ovals.append(float(emit.evalf(e, c, memo)))
                except Exception:
                    ovals.append(float('nan'))
            args = [emit._hexf(float(c[v])) if math.isfinite(float(c[v])) else '(0/0)%float' for v in t.inputs]
            args += [emit._hexf(o) if math.isfinite(o) else 'nan' for o in ovals]
            lines.append(f"Eval vm_compute in ({tname}_F {' '.join(args)}).")
            pyres.append((kind, val, path))
        fn = os.path.join(self.build, 'props', f"corr_{re.sub(r'[^A-Za-z0-9_]', '_', label)}.v")
        with open(fn, 'w') as fh:
            fh.write('\n'.join(lines) + '\n')
        r = self.coqc(fn)
        if r['rc'] != 0:
            self.broken.append({'kind': 'correspondence', 'target': tname, 'error': 'model evaluation failed',
                                'detail': (r['err'] or r['out'])[-1500:]})
            self.say(f"[corr] {label}: coqc failed\n{(r['err'] or r['out'])[-800:]}")
            return
        outs = parse_evals(r['out'])
        if len(outs) != len(cases):
            self.broken.append({'kind': 'correspondence', 'target': tname,
                                'error': f'parsed {len(outs)} results for {len(cases)} cases'})
            return
        for c, co, (pk, pv, path), margin in zip(cases, outs, pyres, margins):
            st['cases'] += 1
            st['paths'][path] = st['paths'].get(path, 0) + 1
            io = call_outcome(impl, c)
            self.evaluations += 1
            bad = None
            if co[0] == 'val' and io[0] == 'raise' and any(isinstance(x, float) and math.isnan(x) for x in co[1]) \
                    and io[1] == 'ValueError' and re.search(r'NaN|finite|nan', io[2] if len(io) > 2 else ''):
                # the float model produced NaN where the implementation's constructors refuse NaN: symbols stand for finite
                # reals in the tracer (np.isfinite(symbol) is True), so the refusal is not part of the model. Same outcome.
                st['nan_rejected'] = st.get('nan_rejected', 0) + 1
            elif co[0] == 'raise' or io[0] == 'raise':
                st['raise'] += 1
                if co[0] != io[0]:
                    bad = f"model {co[:2]} vs implementation {io[:2] if io[0]=='raise' else 'value'}"
                elif co[1] != io[1] and not (co[1] == 'OtherError'):
                    bad = f"model raises {co[1]} vs implementation raises {io[1]}"
            else:
                iv = flat_floats(io[1])
                cv = co[1]
                if len(iv) != len(cv):
                    bad = f"model returns {len(cv)} numbers, implementation {len(iv)}"
                else:
                    sc = max([scale_floor] + [abs(x) for x in iv if math.isfinite(x)] +
                             [abs(float(v)) for v in c.values() if math.isfinite(float(v))])
                    ulp = sc * 2.0 ** -52

                    def dist(sign):
                        worst = 0.0
                        for a, b in zip(cv, iv):
                            b = sign * b
                            if math.isnan(a) and math.isnan(b):
                                continue
                            if math.isnan(a) != math.isnan(b) or math.isinf(a) != math.isinf(b):
                                return math.inf
                            if math.isinf(a):
                                if a != b:
                                    return math.inf
                                continue
                            worst = max(worst, max(0.0, abs(a - b) - abs_tol) / ulp)
                        return worst
                    d = dist(1.0)
                    if up_to_sign:
                        d = min(d, dist(-1.0))
                    st['max_ulp'] = max(st['max_ulp'], d if math.isfinite(d) else 1e300)
                    if d > tol_ulp:
                        bad = f"outputs differ by {d:.3g} ulp-units (> {tol_ulp})"
            if bad:
                insc = max([1.0] + [abs(float(v)) for v in c.values() if math.isfinite(float(v))])
                if margin < 1e-10 * insc:
                    # the case sits on a branch boundary (some decision's two sides differ by less than 1e-10 of the
                    # data scale but not exactly 0): evaluation order decides the branch in binary64, so model and
                    # implementation may legitimately take different sides.  Counted, not reported.
                    st['boundary_skipped'] = st.get('boundary_skipped', 0) + 1
                    bad = None
            if bad:
                st['disagree'] += 1
                if st['disagree'] <= 3:
                    self.say(f"[corr] {label}: DISAGREE on {c}: {bad}\n   model={co[1] if co[0]=='val' else co}\n   impl ={flat_floats(io[1]) if io[0]=='val' else io}")
                self.broken.append({'kind': 'correspondence', 'target': tname, 'label': label, 'error': bad, 'input': _js(c),
                                    'model': _js(co), 'impl': _js(flat_floats(io[1]) if io[0] == 'val' else io)})
            if len(self.samples) < 4 and not bad:
                self.samples.append({'kind': 'correspondence', 'target': label, 'input': _js(c), 'path': path,
                                     'model': _js(co[1] if co[0] == 'val' else co)})
        self.say(f"[corr] {label}: {st['cases']} cases, {st['disagree']} disagreements, max {st['max_ulp']:.3g} ulp-units, "
                 f"{len(st['paths'])} paths hit, {st['raise']} raising")

    def coq_eval(self, label, preamble, exprs, timeout=900):
        """Evaluate Gallina expressions of a hand-written model inside Coq (vm_compute).
        preamble: list of vernacular lines (Requires, Open Scope...).  Returns one whitespace-
        normalised result string per expression (the text Coq prints between '= ' and ': type'),
        or None when the file does not compile (the failure is recorded as a broken correspondence)."""
        fn = os.path.join(self.build, 'props', f"eval_{re.sub(r'[^A-Za-z0-9_]', '_', label)}.v")
        with open(fn, 'w') as fh:
            fh.write('\n'.join(preamble) + '\n')
            for e in exprs:
                fh.write(f"Eval vm_compute in ({e}).\n")
        r = self.coqc(fn, timeout)
        if r['rc'] != 0:
            self.broken.append({'kind': 'correspondence', 'target': label, 'error': 'model evaluation failed',
                                'detail': (r['err'] or r['out'])[-1500:]})
            self.say(f"[corr] {label}: coqc failed\n{(r['err'] or r['out'])[-800:]}")
            return None
        outs = []
        for chunk in re.split(r'^\s*= ', r['out'], flags=re.M)[1:]:
            body = re.split(r'\n\s*: ', chunk)[0]
            outs.append(' '.join(body.split()))
        if len(outs) != len(exprs):
            self.broken.append({'kind': 'correspondence', 'target': label,
                                'error': f'parsed {len(outs)} results for {len(exprs)} expressions'})
            return None
        return outs

    def disagree(self, label, inp, model, impl, note=''):
        """record a disagreement between a hand model and the implementation"""
        st = self.corr_stats.setdefault(label, {'cases': 0, 'disagree': 0})
        st['disagree'] += 1
        self.broken.append({'kind': 'correspondence', 'target': label, 'error': note or 'model and implementation differ',
                            'input': _js(inp), 'model': _js(model), 'impl': _js(impl)})
        if st['disagree'] <= 3:
            self.say(f"[corr] {label}: DISAGREE on {_js(inp)}: model={_js(model)} impl={_js(impl)} {note}")

    def agree(self, label, n=1):
        st = self.corr_stats.setdefault(label, {'cases': 0, 'disagree': 0})
        st['cases'] += n
        self.evaluations += n

    # ---------------------------------------------------------------- search
    def check(self, oracle, inp, res, nontrivial_key=None):
        """record the result of one oracle evaluation.  res is None (holds) or a dict with tag/observed/expected"""
        self.evaluations += 1
        s = self.search_stats.setdefault(oracle, {'evaluations': 0, 'failures': 0})
        s['evaluations'] += 1
        if nontrivial_key is not None:
            self.nontrivial.add((oracle, nontrivial_key))
        if res is not None:
            s['failures'] += 1
            self.violations.append(Violation(oracle, res.get('tag', oracle), _js(inp), res.get('observed'),
                                             res.get('expected'), res.get('note', '')))

    # ---------------------------------------------------------------- finish
    def finish(self, module, level='proof', trusted=(), partial='', assumptions=()):
        kf = load_findings(self.pid)
        known = [k for k in kf if k.get('status', 'known') == 'known']
        exit_code = 0
        out_lines = []
        # 1. replay known findings
        reproduced = []
        for k in known:
            orc = module.ORACLES.get(k['oracle'])
            if orc is None:
                self.say(f"[findings] oracle {k['oracle']} of a known finding does not exist any more")
                continue
            res = call_outcome(orc, k['witness'])
            if res[0] == 'raise':
                r = {'tag': k['tag'], 'observed': res[1:]} if k.get('expect_raise') else {'tag': f"{k['oracle']}/oracle-crash", 'observed': res[1:]}
            else:
                r = res[1]
            if r is not None and r.get('tag') == k['tag']:
                reproduced.append(k)
                out_lines.append(f"KNOWN-FINDING: property={self.pid} {k['what']}")
            else:
                self.say(f"[findings] known finding no longer reproduces (repaired?): {k['what']} -> {r}")
        rtags = {k['tag'] for k in reproduced}
        for rec in self.refuted_failed:
            if rec['finding'] in rtags:
                self.broken.append(rec)     # the finding persists but the model no longer exhibits it
            else:
                self.obligations -= len(rec.get('theorems', []))
                self.say(f"[findings] {rec['file']} (witness of finding {rec['finding']}) no longer compiles and the finding "
                         f"no longer reproduces: treated as repaired, not as a violation")
        # 2. classify violations
        unknown = []
        suppressed = 0
        ktags = {(k['oracle'], k['tag']) for k in known}
        for v in self.violations:
            if (v.oracle, v.tag) in ktags:
                suppressed += 1
            else:
                unknown.append(v)
        os.makedirs(os.path.join(VERIF, 'replays'), exist_ok=True)
        seen = set()
        for v in unknown:
            if (v.oracle, v.tag) in seen:
                continue
            seen.add((v.oracle, v.tag))
            body = {'property': self.pid, 'kind': 'concrete-input', 'seed': self.seed, 'tier': self.tier,
                    **v.to_json(), 'replay_cmd': f"bin/check {self.pid} --replay <this file>"}
            path = self._write_replay(body)
            out_lines.append(f"VIOLATION property={self.pid} replay={path}")
            exit_code = 1
        # 3. broken obligations / correspondence / translation without a concrete failing input
        if self.broken and not unknown:
            body = {'property': self.pid, 'kind': 'broken-obligation', 'seed': self.seed, 'tier': self.tier,
                    'broken': self.broken[:20],
                    'note': 'no concrete failing input was found by the search over the model and the implementation; '
                            'the property is no longer shown to hold'}
            path = self._write_replay(body)
            out_lines.append(f"VIOLATION property={self.pid} replay={path} no-failing-input-found")
            exit_code = 1
        elif self.broken and unknown:
            self.say(f"[report] {len(self.broken)} broken obligations accompany the concrete violation(s)")
        wall = time.time() - self.t0
        ev = {
            'property_id': self.pid, 'tier': self.tier, 'seed': int(self.seed), 'level': level,
            'coverage': {
                'obligations': int(self.obligations), 'discharged': int(self.discharged),
                'checker_cmd': 'coqc (Coq 8.16.1) ' + ' '.join(self.coq_args()[:4]) + ' ... <props>/*.v  (full .vo build of the regenerated model and the property files)',
                'trusted_base': list(trusted),
                'evaluations': int(self.evaluations),
                'distinct_nontrivial': int(len(self.nontrivial)),
                'rule': getattr(module, 'RULE', ''),
                'samples': self.samples[:8] or [{'note': 'no sample recorded'}],
                'theorems': [f"{f}:{t}" for f, t in self.theorems],
                'axioms': self.axioms,
                'targets': {k: {a: b for a, b in v.items() if a not in ('trace',)} for k, v in self.targets_meta.items()},
                'correspondence': self.corr_stats,
                'search': self.search_stats,
                'known_findings_reproduced': [k['what'] for k in reproduced],
                'suppressed_by_known_findings': suppressed,
                'broken': [{k: v for k, v in b.items() if k != 'detail'} for b in self.broken[:10]],
                'partial': partial,
                'coqchk': getattr(self, 'coqchk_result', None),
                'source_lines_inside_model': {k: _ranges(v) for k, v in getattr(self, 'model_lines', {}).items()},
            },
            'assumptions': list(assumptions),
            'wall_s': round(wall, 2),
            'violations': len(seen) + (1 if (self.broken and not unknown) else 0),
        }
        # evidence under /verif/evidence describes /repo only; a run against a scratch worktree (AHRS_REPO) writes elsewhere
        evdir = os.path.join(VERIF, 'evidence') if os.path.realpath(REPO) == '/repo' else os.path.join(VERIF, 'build', 'scratch-evidence')
        os.makedirs(evdir, exist_ok=True)
        with open(os.path.join(evdir, f"{self.pid}.json"), 'w') as fh:
            json.dump(_js(ev), fh, indent=1)
        for l in out_lines:
            print(l, flush=True)
        self.say(f"[done] {self.pid} tier={self.tier} obligations={self.obligations} discharged={self.discharged} "
                 f"evaluations={self.evaluations} violations={ev['violations']} known={len(reproduced)} wall={wall:.1f}s")
        if not os.environ.get('VERIF_KEEP'):
            shutil.rmtree(self.build, ignore_errors=True)
        return exit_code

    def _write_replay(self, body):
        h = sha(json.dumps(_js(body), sort_keys=True))[:12]
        path = os.path.join(VERIF, 'replays', f"{self.pid}-{h}.json")
        with open(path, 'w') as fh:
            json.dump(_js(body), fh, indent=1)
        return path


_FLOAT = r'[-+]?(?:\d+\.?\d*(?:[eE][-+]?\d+)?|\.\d+(?:[eE][-+]?\d+)?|nan|infinity|neg_infinity|inf)'


def parse_evals(out):
    """parse the output of a sequence of `Eval vm_compute in (f ...)` of type outcome float"""
    res = []
    for chunk in re.split(r'^\s*= ', out, flags=re.M)[1:]:
        body = chunk.split('\n     : ')[0]
        body = ' '.join(body.split())
        m = re.match(r'Raise (\w+)', body)
        if m:
            res.append(('raise', m.group(1)))
            continue
        m = re.match(r'Val \[(.*)\]', body)
        if not m:
            res.append(('raise', 'ParseError:' + body[:60]))
            continue
        toks = [t.strip() for t in m.group(1).split(';') if t.strip()]
        vals = []
        for t in toks:
            t = t.replace('%float', '').strip('() ')
            if t == 'nan':
                vals.append(float('nan'))
            elif t == 'infinity':
                vals.append(float('inf'))
            elif t == 'neg_infinity':
                vals.append(float('-inf'))
            else:
                t = t.replace(' ', '')
                vals.append(float.fromhex(t) if 'x' in t else float(t))
        res.append(('val', vals))
    return res


def _ranges(xs):
    """[1,2,3,7,8] -> '1-3,7-8'"""
    out, i = [], 0
    while i < len(xs):
        j = i
        while j + 1 < len(xs) and xs[j + 1] == xs[j] + 1:
            j += 1
        out.append(f"{xs[i]}-{xs[j]}" if j > i else str(xs[i]))
        i = j + 1
    return ','.join(out)


def load_findings(pid):
    p = os.path.join(VERIF, 'known_findings.jsonl')
    out = []
    if os.path.exists(p):
        for line in open(p):
            line = line.strip()
            if not line or line.startswith('#') or line.startswith('fixed:'):
                continue      # 'fixed: property=<id> <commit> <what failed>' lines suppress nothing
            d = json.loads(line)
            if d.get('property') == pid:
                out.append(d)
    return out


def run_replay(module, path):
    body = json.load(open(path))
    if body.get('kind') != 'concrete-input':
        print(f"replay {path}: kind={body.get('kind')}; broken obligations:")
        for b in body.get('broken', []):
            print('  -', {k: (v if k != 'detail' else v[-400:]) for k, v in b.items()})
        print("re-run the check itself to see whether they still fail")
        return 1
    orc = module.ORACLES[body['oracle']]
    res = call_outcome(orc, body['input'])
    print(f"oracle={body['oracle']} input={json.dumps(body['input'])[:600]}")
    if res[0] == 'raise':
        print(f"  oracle raised {res[1:]}")
        return 1
    if res[1] is None:
        print("  property holds on this input now")
        return 0
    print(f"  STILL FAILS: tag={res[1].get('tag')} observed={_js(res[1].get('observed'))} expected={_js(res[1].get('expected'))}")
    return 1
