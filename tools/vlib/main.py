"""bin/check <ID> [--tier quick|thorough] [--replay file]"""
import sys, os, argparse, importlib, traceback, json, time
from . import core


def main():
    ap = argparse.ArgumentParser()
    ap.add_argument('pid')
    ap.add_argument('--tier', default=os.environ.get('VERIF_TIER', 'quick'), choices=['quick', 'thorough'])
    ap.add_argument('--replay')
    ap.add_argument('--keep', action='store_true', help='keep the build directory')
    a = ap.parse_args()
    seed = int(os.environ.get('VERIF_SEED', '20260930'))
    mod = importlib.import_module(f'props.{a.pid}')
    if a.replay:
        sys.exit(core.run_replay(mod, a.replay))
    os.environ['VERIF_TIER_EFFECTIVE'] = a.tier
    ctx = core.Ctx(a.pid, a.tier, seed)
    try:
        # 1. regenerate the model from /repo and compile it
        tg = mod.targets() if hasattr(mod, 'targets') else []
        if tg:
            ctx.generate(tg, f'{a.pid}gen')
        if hasattr(mod, 'pregen'):
            mod.pregen(ctx)
        # 2. proofs
        if getattr(mod, 'STAGES', None):
            stages = list(mod.STAGES)
            if a.tier == 'thorough' and getattr(mod, 'STAGES_THOROUGH', None):
                # extra proof files that are too slow for the quick tier (same rules, same obligations accounting)
                stages = stages + list(mod.STAGES_THOROUGH)
            ctx.prove(stages, timeout=getattr(mod, 'COQ_TIMEOUT', 900))
            if a.tier == 'thorough' and not any(b['kind'] == 'proof' for b in ctx.broken):
                # the property file (<ID>.v, the one holding the stated theorems) and its whole cone
                names = [(f[0] if isinstance(f, (tuple, list)) else f) for st in mod.STAGES for f in st]
                last = getattr(mod, 'COQCHK', None) or (f'{a.pid}.v' if f'{a.pid}.v' in names else names[-1])
                ctx.coqchk(last[:-2], timeout=getattr(mod, 'COQCHK_TIMEOUT', 1200))
        # 3. correspondence model <-> implementation
        if hasattr(mod, 'correspondence'):
            mod.correspondence(ctx)
        # 4. search oracle on the implementation
        if hasattr(mod, 'search'):
            mod.search(ctx, 1 if a.tier == 'quick' else 10)
            known = {(k['oracle'], k['tag']) for k in core.load_findings(a.pid) if k.get('status', 'known') == 'known'}
            fresh = [v for v in ctx.violations if (v.oracle, v.tag) not in known]
            if ctx.broken and not fresh and a.tier == 'quick':
                ctx.say('[search] an obligation is broken and no failing input is known yet: searching at the thorough budget')
                mod.search(ctx, 10)
    except Exception as e:
        ctx.broken.append({'kind': 'harness', 'error': f'{type(e).__name__}: {e}', 'detail': traceback.format_exc()[-3000:]})
        ctx.say('[harness] exception:\n' + traceback.format_exc())
    rc = ctx.finish(mod, level='proof', trusted=getattr(mod, 'TRUSTED', []), partial=getattr(mod, 'PARTIAL', ''),
                    assumptions=getattr(mod, 'ASSUMPTIONS', []))
    sys.exit(rc)


if __name__ == '__main__':
    main()
