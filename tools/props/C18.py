"""C18 — rotation metrics are bi-invariant distances with their closed forms."""
import math
import numpy as np
from pysym.gen import Target
from . import common as cm

PID = 'C18'
P = ['a', 'b', 'c', 'd']
Q = ['w', 'x', 'y', 'z']
MA = [f'r{i}{j}' for i in (1, 2, 3) for j in (1, 2, 3)]
MB = [f's{i}{j}' for i in (1, 2, 3) for j in (1, 2, 3)]


def _rspec(v, n):
    """textbook rotation matrix of the symbolic unit quaternion named by n, built inside the trace"""
    from pysym import symnp
    w, x, y, z = (v[k] for k in n)
    return symnp.array([[1 - 2 * (y * y + z * z), 2 * (x * y - w * z), 2 * (x * z + w * y)],
                        [2 * (x * y + w * z), 1 - 2 * (x * x + z * z), 2 * (y * z - w * x)],
                        [2 * (x * z - w * y), 2 * (w * x + y * z), 1 - 2 * (x * x + y * y)]])


def _stack(*ms):
    from pysym import symnp
    return symnp.array([m.tolist() for m in ms])


def _rows4(v):
    from pysym import symnp
    p, q = v.vec(*P), v.vec(*Q)
    return symnp.array([p.tolist(), q.tolist(), (-p).tolist(), q.tolist()]), symnp.array([q.tolist(), p.tolist(), q.tolist(), (-p).tolist()])


def _mat(v, names):
    return v.mat([names[0:3], names[3:6], names[6:9]])


def targets():
    U = lambda A: A.utils.metrics
    mk = lambda n, i, f, doc='', **k: Target(f'C18_{n}', i, f, doc=doc, **k)
    return [
        # matrix metrics on arbitrary 3x3 arrays (no SO(3) gate inside chordal / identity_deviation)
        mk('chordal_M', MA + MB, lambda A, v: U(A).chordal(_mat(v, MA), _mat(v, MB)), 'chordal(R1, R2), arbitrary 3x3 entries'),
        mk('iddev_M', MA + MB, lambda A, v: U(A).identity_deviation(_mat(v, MA), _mat(v, MB)),
           'identity_deviation(R1, R2), arbitrary 3x3 entries'),
        mk('chordal_M_batch', MA + MB, lambda A, v: U(A).chordal(_stack(_mat(v, MA), _mat(v, MB), _mat(v, MA)),
                                                               _stack(_mat(v, MB), _mat(v, MA), _mat(v, MA))),
           'chordal([R1,R2,R1], [R2,R1,R1]): the N-row branch with N = 3 (a 3x3x3 array)'),
        # matrix metrics on the textbook matrices of two symbolic unit quaternions
        mk('chordal', P + Q, lambda A, v: U(A).chordal(_rspec(v, P), _rspec(v, Q)), 'chordal(R(p), R(q))'),
        mk('iddev', P + Q, lambda A, v: U(A).identity_deviation(_rspec(v, P), _rspec(v, Q)), 'identity_deviation(R(p), R(q))'),
        mk('angdist', P + Q, lambda A, v: U(A).angular_distance(_rspec(v, P), _rspec(v, Q)),
           'angular_distance(R(p), R(q)) through the DCM constructor gate and DCM.log', max_paths=4096),
        # quaternion metrics, 1-D branch (normalisation + allclose shortcuts) and N-row branch
        mk('qdist', P + Q, lambda A, v: U(A).qdist(v.vec(*P), v.vec(*Q))),
        mk('qeip', P + Q, lambda A, v: U(A).qeip(v.vec(*P), v.vec(*Q))),
        mk('qcip', P + Q, lambda A, v: U(A).qcip(v.vec(*P), v.vec(*Q))),
        mk('qad', P + Q, lambda A, v: U(A).qad(v.vec(*P), v.vec(*Q))),
        # N = 4 rows (a 4x4 array, where an axis mix-up does not change the shape): (p,q), (q,p), (-p,q), (q,-p)
        mk('qdist_batch', P + Q, lambda A, v: U(A).qdist(*_rows4(v)), 'four rows: (p,q), (q,p), (-p,q), (q,-p)'),
        mk('qeip_batch', P + Q, lambda A, v: U(A).qeip(*_rows4(v))),
        mk('qcip_batch', P + Q, lambda A, v: U(A).qcip(*_rows4(v))),
        mk('qad_batch', P + Q, lambda A, v: U(A).qad(*_rows4(v))),
    ]


STAGES = []
