"""C18 — rotation metrics are bi-invariant distances with their closed forms."""
import math
import numpy as np
from pysym.gen import Target
from . import common as cm

PID = 'C18'
P = ['a', 'b', 'c', 'd']
Q = ['w', 'x', 'y', 'z']
MA = [f'r{i}{j}' for i in (1, 2, 3) for j in (1, 2, 3)]
MB = [f's{i}{j}' for i in (1, 2, 3) for j in (1, 2, 3)]


def _rspec(v, n):
    """textbook rotation matrix of the symbolic unit quaternion named by n, built inside the trace"""
    from pysym import symnp
    w, x, y, z = (v[k] for k in n)
    return symnp.array([[1 - 2 * (y * y + z * z), 2 * (x * y - w * z), 2 * (x * z + w * y)],
                        [2 * (x * y + w * z), 1 - 2 * (x * x + z * z), 2 * (y * z - w * x)],
                        [2 * (x * z - w * y), 2 * (w * x + y * z), 1 - 2 * (x * x + y * y)]])


def _stack(*ms):
    from pysym import symnp
    return symnp.array([m.tolist() for m in ms])


def _rows4(v):
    from pysym import symnp
    p, q = v.vec(*P), v.vec(*Q)
    return symnp.array([p.tolist(), q.tolist(), (-p).tolist(), q.tolist()]), symnp.array([q.tolist(), p.tolist(), q.tolist(), (-p).tolist()])


def _mat(v, names):
    return v.mat([names[0:3], names[3:6], names[6:9]])


def targets():
    U = lambda A: A.utils.metrics
    mk = lambda n, i, f, doc='', **k: Target(f'C18_{n}', i, f, doc=doc, **k)
    return [
        # matrix metrics on arbitrary 3x3 arrays (no SO(3) gate inside chordal / identity_deviation)
        mk('chordal_M', MA + MB, lambda A, v: U(A).chordal(_mat(v, MA), _mat(v, MB)), 'chordal(R1, R2), arbitrary 3x3 entries'),
        mk('iddev_M', MA + MB, lambda A, v: U(A).identity_deviation(_mat(v, MA), _mat(v, MB)),
           'identity_deviation(R1, R2), arbitrary 3x3 entries'),
        mk('chordal_M_batch', MA + MB, lambda A, v: U(A).chordal(_stack(_mat(v, MA), _mat(v, MB), _mat(v, MA)),
                                                               _stack(_mat(v, MB), _mat(v, MA), _mat(v, MA))),
           'chordal([R1,R2,R1], [R2,R1,R1]): the N-row branch with N = 3 (a 3x3x3 array)'),
        # matrix metrics on the textbook matrices of two symbolic unit quaternions
        mk('chordal', P + Q, lambda A, v: U(A).chordal(_rspec(v, P), _rspec(v, Q)), 'chordal(R(p), R(q))'),
        mk('iddev', P + Q, lambda A, v: U(A).identity_deviation(_rspec(v, P), _rspec(v, Q)), 'identity_deviation(R(p), R(q))'),
        mk('angdist', P + Q, lambda A, v: U(A).angular_distance(_rspec(v, P), _rspec(v, Q)),
           'angular_distance(R(p), R(q)) through the DCM constructor gate and DCM.log', max_paths=4096),
        # quaternion metrics, 1-D branch (normalisation + allclose shortcuts) and N-row branch
        mk('qdist', P + Q, lambda A, v: U(A).qdist(v.vec(*P), v.vec(*Q))),
        mk('qeip', P + Q, lambda A, v: U(A).qeip(v.vec(*P), v.vec(*Q))),
        mk('qcip', P + Q, lambda A, v: U(A).qcip(v.vec(*P), v.vec(*Q))),
        mk('qad', P + Q, lambda A, v: U(A).qad(v.vec(*P), v.vec(*Q))),
        # N = 4 rows (a 4x4 array, where an axis mix-up does not change the shape): (p,q), (q,p), (-p,q), (q,-p)
        mk('qdist_batch', P + Q, lambda A, v: U(A).qdist(*_rows4(v)), 'four rows: (p,q), (q,p), (-p,q), (q,-p)'),
        mk('qeip_batch', P + Q, lambda A, v: U(A).qeip(*_rows4(v))),
        mk('qcip_batch', P + Q, lambda A, v: U(A).qcip(*_rows4(v))),
        mk('qad_batch', P + Q, lambda A, v: U(A).qad(*_rows4(v))),
    ]


STAGES = [['C18_norm.v'],
          ['C18_matrix.v', 'C18_quat.v', 'C18_angdist.v', ('C18_refuted.v', {'finding': 'angular_distance/exact-half-turn'})],
          ['C18_main.v'], ['C18.v']]

LEVEL_TEXT = ("Coq theorems over the regenerated seven metrics (2-D/1-D and N-row branches, DCM constructor gate and DCM.log included): "
              "closed forms in the relative angle, bi-invariance, symmetry, sign invariance, zero set, triangle inequality of the three "
              "true metrics, inertness of the allclose shortcuts for t >= 1e-4; angular_distance at an exactly symmetric half-turn is a "
              "known finding exhibited by a refuted theorem")
TECHNIQUE = "pysym regeneration + Coq (ring/field/nra, stdlib trigonometry) + vm_compute correspondence + numeric search"
RULE = ("pairs and triples of rotations with relative angles 1e-4 .. pi (thin regions: 1e-4, 5.5e-3 around the old DCM.log shortcut, "
        "pi-1e-6, pi-1e-9, exact half-turns, antipodal representatives p.q < 0, exactly equal arguments), single and N-row inputs "
        "with N in {1,2,3,4,5,7}, float64 / float32 / integer / list operands; non-trivial = the two rotations differ")
TRUSTED = ["Coq 8.16.1 kernel; vm_compute for the float copies", "pysym tracing translator (incl. its numpy.linalg.norm, isclose, "
           "min/max-along-axis semantics)", "stdlib real-number axioms + Classical_Prop.classic (stdlib trigonometry)",
           "real arithmetic stands for binary64 (measured by correspondence and search)",
           "matrix metrics are traced on textbook matrices of unit quaternions (angular_distance) or on arbitrary 3x3 entries (chordal, identity_deviation)"]
PARTIAL = ("angular_distance at an exactly symmetric half-turn returns 0 (known finding, DCM.log owned by C10): theorem for 0 <= t < pi; "
           "symmetry/invariance theorems are stated for relative angles >= 1e-4 (inside 2e-5 the 1-D allclose shortcut is not symmetric); "
           "triangle inequality proved for chordal, identity_deviation, qdist only (the angle metrics qcip/qad/angular_distance: explored by search); "
           "identity_deviation and angular_distance have no working N-row form (they raise ValueError on (N,3,3) input): observed, not claimed")


# ------------------------------------------------------------------------------------------
# implementation entry points
# ------------------------------------------------------------------------------------------
QM = ('qdist', 'qeip', 'qcip', 'qad')
MM = ('chordal', 'identity_deviation', 'angular_distance')


def _M():
    from ahrs.utils import metrics
    return metrics


def _pq(c):
    return np.array([c[k] for k in P], float), np.array([c[k] for k in Q], float)


def _rows4_np(p, q):
    return np.array([p, q, -p, q]), np.array([q, p, q, -p])


def _mats(c):
    return np.array([c[k] for k in MA], float).reshape(3, 3), np.array([c[k] for k in MB], float).reshape(3, 3)


def _pairs(ctx, n):
    """unit quaternion pairs (p, q) with named relative angles first, then random ones; both representatives of q"""
    out = []
    ts = [1e-4, 1.0000001e-4, 1.3e-4, 2e-4, 3e-4, 5e-4, 7.7e-4, 1e-3, 2e-3, 3e-3, 5e-3, 5.4e-3, 5.6e-3, 7e-3, 1e-2, 0.1, 0.5, 1.0, math.pi / 2, 2.0, 3.0, 3.1, math.pi - 1e-3,
          math.pi - 1e-6, math.pi - 1e-9, math.pi]
    rng = ctx.rng
    for i, t in enumerate(ts):
        p = cm.rand_unit_quat(rng)
        ax = ([1, 0, 0], [0, 1, 0], [0, 0, 1], [1, 2, 3], [-1, 1, 0.5])[i % 5] if i % 2 == 0 else rng.standard_normal(3)
        q = cm.unit(cm.qmul(p, cm.axang_q(ax, t)))
        out.append((t, p, q if i % 3 else -q))
    while len(out) < n:
        t = float(rng.choice([10 ** rng.uniform(-4, 0), rng.uniform(0, math.pi), math.pi - 10 ** rng.uniform(-9, -1)]))
        p = cm.rand_unit_quat(rng)
        q = cm.unit(cm.qmul(p, cm.axang_q(rng.standard_normal(3), t)))
        out.append((t, p, q if rng.random() < 0.5 else -q))
    return out


EXACT = [([1, 0, 0, 0], [0, 1, 0, 0]), ([1, 0, 0, 0], [0, 0, 0, 1]), ([0, 1, 0, 0], [0, 0, 1, 0]), ([1, 0, 0, 0], [1, 0, 0, 0]),
         ([1, 0, 0, 0], [-1, 0, 0, 0]), ([0.5, 0.5, 0.5, 0.5], [0.5, -0.5, 0.5, 0.5]), ([0.5, 0.5, 0.5, 0.5], [-0.5, -0.5, -0.5, -0.5]),
         ([0, 0.6, 0.8, 0], [1, 0, 0, 0]), ([0.6, 0, 0.8, 0], [0.8, 0, -0.6, 0])]


def correspondence(ctx):
    M = _M()
    n = ctx.n(30, 300)
    prs = _pairs(ctx, n)
    cases = [{**cm.d(P, p), **cm.d(Q, q)} for _, p, q in prs]
    cases += [{**cm.d(P, p), **cm.d(Q, q)} for p, q in EXACT]
    # shortcut region (both sides must return exactly 0), scaled (the code normalises) inputs
    for t in (0.0, 1e-9, 1e-6):
        p = cm.rand_unit_quat(ctx.rng)
        q = cm.unit(cm.qmul(p, cm.axang_q([1, -2, 0.5], t)))
        cases.append({**cm.d(P, p), **cm.d(Q, q)})
    qcases = cases + [{**cm.d(P, np.array([c[k] for k in P]) * 3.0), **cm.d(Q, np.array([c[k] for k in Q]) * 0.25)} for c in cases[:8]]
    for name in QM:
        f = getattr(M, name)
        acos = name in ('qcip', 'qad')
        ctx.correspond(f'C18_{name}', qcases, (lambda c, f=f: f(*_pq(c))), tol_ulp=256, abs_tol=2e-7 if acos else 0.0)
        ctx.correspond(f'C18_{name}_batch', qcases, (lambda c, f=f: f(*_rows4_np(*_pq(c)))), tol_ulp=256, abs_tol=2e-7 if acos else 0.0)
    R = cm.Rspec
    ctx.correspond('C18_chordal', cases, lambda c: M.chordal(R(_pq(c)[0]), R(_pq(c)[1])), tol_ulp=256)
    ctx.correspond('C18_iddev', cases, lambda c: M.identity_deviation(R(_pq(c)[0]), R(_pq(c)[1])), tol_ulp=256)
    ctx.correspond('C18_angdist', cases, lambda c: M.angular_distance(R(_pq(c)[0]), R(_pq(c)[1])), tol_ulp=256, abs_tol=1e-12)
    mc = []
    for i, (_, p, q) in enumerate(prs[:ctx.n(20, 120)]):
        A, B = R(p), R(q)
        if i % 3 == 0:
            A = A + ctx.rng.standard_normal((3, 3)) * 0.1        # arbitrary 3x3 arrays: no SO(3) gate in these two functions
        mc.append({**cm.d(MA, A.reshape(-1)), **cm.d(MB, B.reshape(-1))})
    ctx.correspond('C18_chordal_M', mc, lambda c: M.chordal(*_mats(c)), tol_ulp=256)
    ctx.correspond('C18_iddev_M', mc, lambda c: M.identity_deviation(*_mats(c)), tol_ulp=256)
    ctx.correspond('C18_chordal_M_batch', mc, lambda c: (lambda A, B: M.chordal(np.array([A, B, A]), np.array([B, A, A])))(*_mats(c)), tol_ulp=256)


# ------------------------------------------------------------------------------------------
# search oracles: the property statement evaluated on the implementation
# ------------------------------------------------------------------------------------------
def rel_angle(p, q):
    """relative rotation angle in [0, pi], accurate at both ends"""
    r = cm.qmul(cm.qconj(p), q)
    return 2.0 * math.atan2(float(np.linalg.norm(r[1:])), abs(float(r[0])))


def closed(t):
    s4 = math.sin(t / 4)
    return {'chordal': 2 * math.sqrt(2) * math.sin(t / 2), 'identity_deviation': 2 * math.sqrt(2) * math.sin(t / 2),
            'angular_distance': math.sqrt(2) * t, 'qdist': 2 * s4, 'qeip': 2 * s4 * s4, 'qcip': t / 2, 'qad': t}


TOL = {'chordal': 1e-10, 'identity_deviation': 1e-10, 'angular_distance': 1e-10, 'qdist': 1e-10, 'qeip': 1e-10, 'qcip': 1e-7, 'qad': 1e-7}


def ctol(k, t):
    """absolute tolerance of the closed-form comparison of metric k at relative angle t: >= 10x the error the unmodified code
    shows (calibrated on 15 000 pairs per decade of t, 1-D and N-row branch), i.e. a few 1e-15 for the metrics that are
    well conditioned and eps/sin for the two arccos metrics; it is a RELATIVE 3e-6 for qeip at t = 1e-4 and 3e-8 at 1e-3"""
    if k in ('qdist', 'qeip'):
        return 5e-15
    if k in ('chordal', 'identity_deviation'):
        return 2e-14
    if k == 'angular_distance':
        return 5e-14
    if k == 'qcip':                      # arccos(|d|), |d| = cos(t/2): error eps / sin(t/2)
        return min(1e-7, 5e-15 + 1e-14 / max(math.sin(t / 2), 1e-300))
    if k == 'qad':                       # arccos(cos t): error eps / sin t at both ends, at most sqrt(2 eps) = 2e-8
        return min(1e-7, 5e-15 + 2e-14 / max(math.sin(t), 1e-300))
    raise KeyError(k)


def _cast(a, form):
    a = np.asarray(a, float)
    if form == 'list':
        return a.tolist()
    if form == 'int-list':
        return [[int(v) for v in r] for r in a.tolist()] if a.ndim > 1 else [int(v) for v in a.tolist()]
    if form == 'int':
        return a.astype(np.int64)
    if form == 'float32':
        return a.astype(np.float32)
    return a.copy()


def _all7(p, q, form='float64'):
    """the seven metrics on one pair, through the public entry points (matrix metrics on the textbook matrices)"""
    M = _M()
    out = {}
    A, B = cm.Rspec(p), cm.Rspec(q)
    for k in QM + MM:
        x, y = (p, q) if k in QM else (A, B)
        try:
            out[k] = float(getattr(M, k)(_cast(x, form), _cast(y, form)))
        except Exception as e:            # an exception of one entry point is a violation of that entry point
            raise MetricRaises(f"{k}/raises-{type(e).__name__}" + ('' if form == 'float64' else f'-{form}'))
    return out


class MetricRaises(Exception):
    pass


def _ang_region(p, q, t):
    A = cm.Rspec(p) @ cm.Rspec(q).T
    return 'exact-half-turn' if (t > 3.0 and np.array_equal(A, A.T)) else 'closed-form'


def o_pair(inp):
    """one pair (p, q) and a third rotation r: non-negativity, closed forms, symmetry, sign invariance, left/right invariance"""
    p, q, r = (np.array(inp[k], float) for k in 'pqr')
    form = inp.get('form', 'float64')
    t = rel_angle(p, q)
    exp = closed(t)
    v = _all7(p, q, form)
    for k, x in v.items():
        if not math.isfinite(x) or x < 0:
            return {'tag': f'{k}/negative-or-nonfinite', 'observed': x, 'expected': exp[k]}
    for k, x in v.items():
        if abs(x - exp[k]) > ctol(k, t):
            kind = _ang_region(p, q, t) if k == 'angular_distance' else ('closed-form' if form == 'float64' else f'closed-form-{form}')
            return {'tag': f'{k}/{kind}', 'observed': x, 'expected': exp[k], 'note': f't={t!r}'}
    if t < 1e-4 and t != 0.0:
        return None          # inside the shortcut window only non-negativity and the closed forms of the matrix metrics are claimed
    half = _ang_region(p, q, t) == 'exact-half-turn'
    others = {'symmetry': (q, p), 'sign': (-p, q), 'sign2': (p, -q),
              'left-invariance': (cm.unit(cm.qmul(r, p)), cm.unit(cm.qmul(r, q))),
              'right-invariance': (cm.unit(cm.qmul(p, r)), cm.unit(cm.qmul(q, r)))}
    for kind, (p2, q2) in others.items():
        v2 = _all7(p2, q2, 'float64' if kind.endswith('invariance') else form)
        for k in v:
            if k == 'angular_distance' and (half or _ang_region(p2, q2, t) == 'exact-half-turn'):
                continue
            if abs(v2[k] - v[k]) > 10 * TOL[k] * max(1.0, exp[k]):
                return {'tag': f'{k}/{kind.rstrip("2")}', 'observed': v2[k], 'expected': v[k], 'note': f't={t!r}'}
    return None


def o_coincide(inp):
    """equal rotations (q = p and q = -p) are at distance exactly 0; every metric is symmetric there too"""
    p = np.array(inp['p'], float)
    form = inp.get('form', 'float64')
    for sgn in (1.0, -1.0):
        v = _all7(p, sgn * p, form)
        for k, x in v.items():
            lim = 0.0 if k in ('qdist', 'qeip', 'qcip', 'qad', 'chordal') else 1e-12
            if not (abs(x) <= lim):
                return {'tag': f'{k}/nonzero-at-coincide', 'observed': x, 'expected': 0.0}
    return None


def o_triangle(inp):
    """triangle inequality of the three true metrics (chordal, identity_deviation, qdist) and, explored, of the angle metrics"""
    p, q, r = (np.array(inp[k], float) for k in 'pqr')
    a, b, c = _all7(p, r), _all7(p, q), _all7(q, r)
    for k in ('chordal', 'identity_deviation', 'qdist', 'qcip', 'qad', 'angular_distance'):
        if k == 'angular_distance' and any(_ang_region(*pr, rel_angle(*pr)) == 'exact-half-turn' for pr in ((p, r), (p, q), (q, r))):
            continue
        if a[k] > b[k] + c[k] + (1e-7 if k in ('qcip', 'qad') else 1e-10):
            return {'tag': f'{k}/triangle', 'observed': a[k], 'expected': f'<= {b[k] + c[k]}'}
    return None


def _coincident(p, q):
    """q is a non-zero real multiple of p (same rotation), decided exactly on the given floats where possible"""
    pn, qn = cm.unit(p), cm.unit(q)
    return min(np.max(np.abs(pn - qn)), np.max(np.abs(pn + qn))) <= 4e-16


def o_rows(inp):
    """N-row inputs (quaternion metrics and chordal): finite output of shape (N,), every row equals the closed form of that row,
    coincident rows (identical / negated / scaled copies) give 0 and all other rows a positive value"""
    M = _M()
    Pn, Qn = np.array(inp['P'], float), np.array(inp['Q'], float)
    form = inp.get('form', 'float64')
    sfx = '' if form == 'float64' else f'-{form}'
    N = Pn.shape[0]
    Pu, Qu = np.array([cm.unit(x) for x in Pn]), np.array([cm.unit(x) for x in Qn])
    ts = [0.0 if _coincident(Pn[i], Qn[i]) else rel_angle(Pu[i], Qu[i]) for i in range(N)]
    A = np.array([cm.Rspec(x) for x in Pu]); B = np.array([cm.Rspec(x) for x in Qu])
    mform = form if form != 'int-list' else 'float64'
    for k in QM + ('chordal',):
        x, y, f = (Pn, Qn, form) if k in QM else (A, B, mform)
        try:
            got = np.asarray(getattr(M, k)(_cast(x, f), _cast(y, f)), float)
        except Exception as e:
            raise MetricRaises(f"{k}/rows-raises-{type(e).__name__}{sfx}")
        if got.shape != (N,):
            return {'tag': f'{k}/rows-shape-N{N}', 'observed': list(got.shape), 'expected': [N]}
        if not np.all(np.isfinite(got)):
            return {'tag': f'{k}/rows-nonfinite', 'observed': got.tolist(), 'expected': 'finite', 'note': f'N={N}, rows {np.where(~np.isfinite(got))[0].tolist()}'}
        if np.any(got < -1e-12):          # 1 - |p.q| of a coincident row is -2e-16 by rounding: noise, not a violation
            return {'tag': f'{k}/rows-negative', 'observed': got.tolist(), 'expected': '>= 0'}
        for i in range(N):
            e = closed(ts[i])[k]
            tol = 2 * ctol(k, ts[i])
            if ts[i] == 0.0:
                if not got[i] <= (1e-7 if k in ('qcip', 'qad') else 1e-12):
                    return {'tag': f'{k}/rows-nonzero-at-coincide', 'observed': got.tolist(), 'expected': 0.0, 'note': f'row {i}'}
                continue
            if not abs(got[i] - e) <= tol:
                return {'tag': f'{k}/rows-N{N}{sfx}', 'observed': got.tolist(), 'expected': e, 'note': f'row {i}, t={ts[i]!r}'}
            if ts[i] >= 1e-4 and not got[i] > 0:
                return {'tag': f'{k}/rows-zero-in-range', 'observed': got.tolist(), 'expected': e, 'note': f'row {i}'}
            if ts[i] >= 1e-4:
                # the N-row branch agrees with the single call on the same row (same formula, same rounding scale)
                one = float(getattr(M, k)(_cast(x[i], f), _cast(y[i], f)))
                if not abs(one - got[i]) <= tol:
                    return {'tag': f'{k}/rows-vs-single', 'observed': float(got[i]), 'expected': one, 'note': f'row {i}, t={ts[i]!r}'}
    return None


ORACLES = {'pair': o_pair, 'coincide': o_coincide, 'triangle': o_triangle, 'rows': o_rows}


def _call(f, inp):
    from vlib.core import call_outcome
    r = call_outcome(f, inp)
    if r[0] == 'raise' and r[1] == 'MetricRaises':
        return {'tag': r[2], 'observed': 'exception'}
    if r[0] == 'raise':
        form = inp.get('form', 'float64')
        return {'tag': f"{f.__name__[2:]}/raises-{r[1]}" + ('' if form == 'float64' else f'-{form}'), 'observed': [str(x)[:200] for x in r[1:]]}
    return r[1]


def search(ctx, scale):
    rng = ctx.rng
    prs = _pairs(ctx, 60 * scale)
    key = lambda *xs: tuple(tuple(np.round(np.asarray(x, float), 6).reshape(-1)) for x in xs)
    for i, (t, p, q) in enumerate(prs):
        r = cm.rand_unit_quat(rng) if i % 4 else cm.axang_q([0, 0, 1], math.pi)
        inp = {'p': p.tolist(), 'q': q.tolist(), 'r': r.tolist()}
        ctx.check('pair', inp, _call(o_pair, inp), nontrivial_key=key(p, q))
        inp = {'p': p.tolist()}
        ctx.check('coincide', inp, _call(o_coincide, inp), nontrivial_key=None)
        r2 = cm.unit(cm.qmul(q, cm.axang_q(rng.standard_normal(3), float(rng.choice([1e-4, 1e-2, 1.0, 3.0, math.pi])))))
        inp = {'p': p.tolist(), 'q': q.tolist(), 'r': r2.tolist()}
        ctx.check('triangle', inp, _call(o_triangle, inp), nontrivial_key=key(p, q, r2))
    # exactly representable rotations in every operand form (exact half-turns, exact equality, antipodes)
    for form in ('float64', 'list', 'int-list', 'int', 'float32'):
        for p, q in EXACT:
            if form in ('int', 'int-list') and any(float(v) != int(v) for v in p + q):
                continue
            if form == 'float32' and any(float(np.float32(v)) != float(v) for v in p + q):
                continue          # only operands that are exact in the narrower type
            inp = {'p': list(map(float, p)), 'q': list(map(float, q)), 'r': [0.5, 0.5, -0.5, 0.5], 'form': form}
            ctx.check('pair', inp, _call(o_pair, inp), nontrivial_key=(form,) + key(p, q))
            inp = {'p': list(map(float, p)), 'form': form}
            ctx.check('coincide', inp, _call(o_coincide, inp), nontrivial_key=None)
    # N-row inputs
    for N in (1, 2, 3, 4, 5, 7):
        for rep in range(2 * scale):
            sel = [prs[int(j)] for j in rng.integers(0, len(prs), N)]
            Pn = np.array([s[1] for s in sel]); Qn = np.array([s[2] for s in sel])
            inp = {'P': Pn.tolist(), 'Q': Qn.tolist()}
            ctx.check('rows', inp, _call(o_rows, inp), nontrivial_key=(N,) + key(Pn, Qn))
        # small-angle rows (several per decade between 1e-4 and 1e-2), where a relative error is visible
        for rep in range(2 * scale):
            rows = []
            for i in range(N):
                t = float(rng.choice([1e-4, 1.3e-4, 2e-4, 3e-4, 5e-4, 7.7e-4, 1e-3, 2e-3, 3e-3, 5e-3, 7e-3, 1e-2])) * float(rng.uniform(1.0, 1.2))
                pp = cm.rand_unit_quat(rng)
                qq = cm.unit(cm.qmul(pp, cm.axang_q(rng.standard_normal(3), t)))
                rows.append((pp, qq if rng.random() < 0.5 else -qq))
            inp = {'P': [r[0].tolist() for r in rows], 'Q': [r[1].tolist() for r in rows]}
            ctx.check('rows', inp, _call(o_rows, inp), nontrivial_key=(N, 'small', rep))
        # batches that mix generic rows with coincident rows (identical, negated, scaled copies) and exact half-turns
        kinds = ('same', 'generic', 'neg', 'scaled', 'half-turn', 'neg-scaled', 'same')
        for rep in range(4 * scale):
            rows = []
            for i in range(N):
                kind = kinds[(i + rep) % len(kinds)]
                pp = cm.rand_unit_quat(rng)
                if kind == 'generic':
                    _, pp, qq = prs[int(rng.integers(0, len(prs)))]
                elif kind == 'same':
                    qq = pp.copy()
                elif kind == 'neg':
                    qq = -pp
                elif kind == 'scaled':
                    qq = pp * float(rng.choice([2.0, 0.5, 3.0, 1e-3, 7.0]))
                elif kind == 'neg-scaled':
                    qq = pp * float(rng.choice([-2.0, -0.25, -5.0]))
                else:
                    pp, qq = (np.array(v, float) for v in EXACT[int(rng.integers(0, 3))]) if i % 2 else (pp, cm.unit(cm.qmul(pp, cm.axang_q(rng.standard_normal(3), math.pi))))
                rows.append((pp, qq))
            inp = {'P': [r[0].tolist() for r in rows], 'Q': [r[1].tolist() for r in rows]}
            ctx.check('rows', inp, _call(o_rows, inp), nontrivial_key=(N, 'mixed', rep))
        ex = [EXACT[j % len(EXACT)] for j in range(N)]
        for form in ('int', 'list', 'float32'):
            rows = [e for e in ex if all((float(v) == int(v)) if form == 'int' else (float(np.float32(v)) == float(v)) for v in e[0] + e[1])] or [EXACT[0]]
            rows = (rows * N)[:N]
            inp = {'P': [list(map(float, e[0])) for e in rows], 'Q': [list(map(float, e[1])) for e in rows], 'form': form}
            ctx.check('rows', inp, _call(o_rows, inp), nontrivial_key=(N, form))
    # one larger batch of coincident rows only (rounding pushes 2(q1.q2)^2 - 1 above 1 on about 40 % of random versors)
    pc = [cm.rand_unit_quat(rng) for _ in range(24)]
    inp = {'P': [x.tolist() for x in pc], 'Q': [(x * c).tolist() for x, c in zip(pc, [1.0, -1.0, 2.0, -0.5] * 6)]}
    ctx.check('rows', inp, _call(o_rows, inp), nontrivial_key=(24, 'coincident'))
    ctx.samples.append({'kind': 'search', 'oracle': 'pair', 'input': {'p': prs[4][1].tolist(), 'q': prs[4][2].tolist(), 'r': [0.5, 0.5, -0.5, 0.5]}})
