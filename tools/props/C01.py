"""C01 — quaternions and rotation matrices are one rotation group."""
import numpy as np, math
from pysym.gen import Target
from . import common as cm

PID = 'C01'
Q = ['w', 'x', 'y', 'z']
P = ['a', 'b', 'c', 'd']
VV = ['v0', 'v1', 'v2']

def rows4(n):
    return [[f'{c}{i}' for c in 'wxyz'] for i in range(n)]


def Q4x(n):
    return [x for r in rows4(n) for x in r]


LEVEL_TEXT = ("Coq theorems, for all unit quaternions (and, for the object routes, all non-zero quaternions: the constructor's normalisation is part of the "
              "proved behaviour), over 23 regenerated public routes: every quaternion->matrix route (Quaternion, scalar-last "
              "Quaternion, QuaternionArray incl. N=3/N=4 batches, DCM(q=) through its SO(3) gate, from_quaternion single/batch, q2R v1/v2 single/batch) "
              "returns the textbook matrix, which is in SO(3); homomorphism through every product entry point; -q and conjugate; rotate = matrix = sandwich; "
              "q_rot = inverse rotation; plus vm_compute float correspondence and search oracles (routes, batches, memory layouts, dtypes, object state, extreme vectors)")
LEVEL_NOTE = ("theorems are over exact reals (orthogonality in binary64 is a few-ulp residual, explored only); trusted: Coq kernel, pysym translator, "
              "stdlib real-number axioms")
TECHNIQUE = "pysym regeneration through the real constructors + Coq (ring modulo unit-norm hypotheses) + vm_compute correspondence + search oracle"
RULE = ("unit quaternions from the named thin regions (identity, axis-aligned/oblique half-turns, near-identity "
        "1e-9..1e-3, near-half-turn 1e-12, pure, denormal components, antipodes) followed by uniform draws on S^3; "
        "a case is non-trivial when its quaternion is not the identity; distinct = distinct (route, region, rounded input)")

TRUSTED = [
    "Coq 8.16.1 kernel and vm_compute (used only to run the float copies)",
    "pysym tracing translator (/verif/tools/pysym): NumPy proxy semantics, Gallina printer",
    "real arithmetic stands for binary64 (gap measured by the correspondence, not proved)",
    "axioms: the standard library's real-number axioms (sig_forall_dec, sig_not_dec, functional_extensionality_dep) and Classical_Prop.classic where nsatz/field use them",
]
PARTIAL = ("orthogonality in floating point is a residual of a few ulp, explored only; theorems are over exact reals")


def targets():
    def mk(name, inputs, fn, doc=''):
        return Target(f"C01_{name}", inputs, fn, doc=doc)
    O = lambda A: A.common.orientation
    return [
        mk('Q_to_DCM', Q, lambda A, v: A.Quaternion(v.vec(*Q)).to_DCM(), 'Quaternion(q).to_DCM()'),
        mk('Q_to_DCM_S', Q, lambda A, v: A.Quaternion(v.vec('x', 'y', 'z', 'w'), order='S').to_DCM(),
           "Quaternion([x,y,z,w], order='S').to_DCM()"),
        mk('QA_to_DCM', Q, lambda A, v: A.QuaternionArray(v.mat([Q])).to_DCM()[0], 'QuaternionArray([q]).to_DCM()[0]'),
        mk('DCM_q', Q, lambda A, v: A.DCM(q=v.vec(*Q)), 'DCM(q=q) (through the SO(3) gate)'),
        mk('DCM_fromq', Q, lambda A, v: A.DCM().from_quaternion(v.vec(*Q)), 'DCM().from_quaternion(q)'),
        mk('DCM_fromq_batch', Q, lambda A, v: A.DCM().from_quaternion(v.mat([Q]))[0], 'DCM().from_quaternion(q[None])[0]'),
        mk('q2R_v1', Q, lambda A, v: O(A).q2R(v.vec(*Q), version=1)),
        mk('q2R_v2', Q, lambda A, v: O(A).q2R(v.vec(*Q), version=2)),
        mk('q2R_v1_batch', Q, lambda A, v: O(A).q2R(v.mat([Q]), version=1)[0]),
        mk('q2R_v2_batch', Q, lambda A, v: O(A).q2R(v.mat([Q]), version=2)[0]),
        # batch routes with N = 4 and N = 3 rows (square / vector-like shapes are where shape logic goes wrong)
        mk('QA_to_DCM_N4', Q4x(4), lambda A, v: A.QuaternionArray(v.mat(rows4(4))).to_DCM(), 'QuaternionArray(4 rows).to_DCM()'),
        mk('DCM_fromq_batch_N4', Q4x(4), lambda A, v: A.DCM().from_quaternion(v.mat(rows4(4)))),
        mk('q2R_v1_batch_N4', Q4x(4), lambda A, v: O(A).q2R(v.mat(rows4(4)), version=1)),
        mk('q2R_v2_batch_N4', Q4x(4), lambda A, v: O(A).q2R(v.mat(rows4(4)), version=2)),
        mk('QA_to_DCM_N3', Q4x(3), lambda A, v: A.QuaternionArray(v.mat(rows4(3))).to_DCM(), 'QuaternionArray(3 rows).to_DCM()'),
        mk('DCM_fromq_batch_N3', Q4x(3), lambda A, v: A.DCM().from_quaternion(v.mat(rows4(3)))),
        mk('q2R_v1_batch_N3', Q4x(3), lambda A, v: O(A).q2R(v.mat(rows4(3)), version=1)),
        mk('product', P + Q, lambda A, v: A.Quaternion(v.vec(*P)).product(v.vec(*Q)), 'Quaternion(p).product(q), q raw'),
        mk('mul', P + Q, lambda A, v: A.Quaternion(v.vec(*P), versor=False) * A.Quaternion(v.vec(*Q), versor=False),
           'Quaternion(p,versor=False) * Quaternion(q,versor=False) (result is re-normalised by the constructor)'),
        mk('q_prod', P + Q, lambda A, v: O(A).q_prod(v.vec(*P), v.vec(*Q))),
        mk('rotate', Q + VV, lambda A, v: A.Quaternion(v.vec(*Q)).rotate(v.vec(*VV)), 'Quaternion(q).rotate(v)'),
        mk('q_rot', Q + VV, lambda A, v: O(A).q_rot(v.vec(*Q), v.vec(*VV)), 'orientation.q_rot(q, v) (inverse rotation)'),
        mk('rotate_by', P + Q, lambda A, v: A.QuaternionArray(v.mat([P])).rotate_by(v.vec(*Q))[0],
           'QuaternionArray([p]).rotate_by(q)[0]'),
    ]


STAGES = [['C01_routes.v'], ['C01_nonunit.v'], ['C01.v']]


# ------------------------------------------------------------------------------------------
# implementation routes (public entry points on floats)
# ------------------------------------------------------------------------------------------
def _routes():
    import ahrs
    from ahrs.common import orientation as O
    return {
        'Q_to_DCM': lambda q: ahrs.Quaternion(q).to_DCM(),
        'Q_to_DCM_S': lambda q: ahrs.Quaternion(np.array([q[1], q[2], q[3], q[0]]), order='S').to_DCM(),
        'QA_to_DCM': lambda q: ahrs.QuaternionArray(np.array([q])).to_DCM()[0],
        'DCM_q': lambda q: np.asarray(ahrs.DCM(q=np.array(q))),
        'DCM_fromq': lambda q: ahrs.DCM().from_quaternion(np.array(q)),
        'DCM_fromq_batch': lambda q: ahrs.DCM().from_quaternion(np.array([q]))[0],
        'q2R_v1': lambda q: O.q2R(np.array(q), version=1),
        'q2R_v2': lambda q: O.q2R(np.array(q), version=2),
        'q2R_v1_batch': lambda q: O.q2R(np.array([q]), version=1)[0],
        'q2R_v2_batch': lambda q: O.q2R(np.array([q]), version=2)[0],
    }


def _products():
    import ahrs
    from ahrs.common import orientation as O
    return {
        'product': lambda p, q: ahrs.Quaternion(p).product(np.array(q)),
        'mul': lambda p, q: np.asarray(ahrs.Quaternion(p, versor=False) * ahrs.Quaternion(q, versor=False)),
        'matmul': lambda p, q: np.asarray(ahrs.Quaternion(p, versor=False) @ ahrs.Quaternion(q, versor=False)),
        'q_prod': lambda p, q: O.q_prod(np.array(p), np.array(q)),
    }


def correspondence(ctx):
    n = ctx.n(40, 400)
    qs = cm.quats(ctx.rng, n)
    R = _routes()
    for name, f in R.items():
        cases = [cm.d(Q, q) for _, q in qs]
        # also non-normalised inputs: the routes normalise
        cases += [cm.d(Q, q * s) for (_, q), s in zip(qs[:10], [2.0, 0.5, 1e-3, 1e3, 7.0, 1e-8, 3.0, 1e8, 0.1, 10.0])]
        ctx.correspond(f"C01_{name}", cases, (lambda c, f=f: f([c[k] for k in Q])), tol_ulp=64)
    import ahrs as _ahrs
    from ahrs.common import orientation as _O
    batch = {'QA_to_DCM': lambda M: _ahrs.QuaternionArray(M).to_DCM(), 'DCM_fromq_batch': lambda M: _ahrs.DCM().from_quaternion(M),
             'q2R_v1_batch': lambda M: _O.q2R(M, version=1), 'q2R_v2_batch': lambda M: _O.q2R(M, version=2)}
    for nrows, names in ((4, ('QA_to_DCM', 'DCM_fromq_batch', 'q2R_v1_batch', 'q2R_v2_batch')), (3, ('QA_to_DCM', 'DCM_fromq_batch', 'q2R_v1_batch'))):
        bc = []
        for i in range(ctx.n(12, 100)):
            rows = [qs[(i * 5 + k * 3) % len(qs)][1] for k in range(nrows)]
            bc.append(cm.d(Q4x(nrows), np.concatenate(rows)))
        for name in names:
            f = batch[name]
            ctx.correspond(f"C01_{name}_N{nrows}", bc, (lambda c, f=f, nrows=nrows: f(np.array([[c[k] for k in r] for r in rows4(nrows)]))), tol_ulp=64)
    Pr = _products()
    cases = []
    for i in range(n):
        cases.append({**cm.d(P, qs[i][1]), **cm.d(Q, qs[(7 * i + 3) % len(qs)][1])})
    for name in ('product', 'mul', 'q_prod'):
        f = Pr[name]
        ctx.correspond(f"C01_{name}", cases, (lambda c, f=f: f([c[k] for k in P], [c[k] for k in Q])), tol_ulp=64)
    import ahrs
    from ahrs.common import orientation as O
    vcases = []
    for i in range(n):
        v = ctx.rng.standard_normal(3) * 10 ** ctx.rng.uniform(-3, 3)
        vcases.append({**cm.d(Q, qs[i][1]), **cm.d(VV, v)})
    ctx.correspond('C01_rotate', vcases, lambda c: ahrs.Quaternion([c[k] for k in Q]).rotate(np.array([c[k] for k in VV])), tol_ulp=256)
    ctx.correspond('C01_q_rot', vcases, lambda c: O.q_rot(np.array([c[k] for k in Q]), np.array([c[k] for k in VV])), tol_ulp=256)
    ctx.correspond('C01_rotate_by', cases, lambda c: ahrs.QuaternionArray(np.array([[c[k] for k in P]])).rotate_by(np.array([c[k] for k in Q]))[0], tol_ulp=64)


# ------------------------------------------------------------------------------------------
# search oracles: the property statement evaluated on the implementation
# ------------------------------------------------------------------------------------------
TOL = 1e-12


def o_route(inp):
    """one conversion route on one unit quaternion: proper rotation, equals the textbook matrix, q and -q agree,
    conjugate gives the transpose"""
    route, q = inp['route'], np.array(inp['q'], dtype=float)
    f = _routes()[route]
    M = np.asarray(f(q.copy()), dtype=float)
    region = inp.get('region', 'generic')
    if M.shape != (3, 3) or cm.bad(M):
        return {'tag': f'{route}/shape-or-nonfinite', 'observed': M}
    r = max(cm.maxabs(M @ M.T, np.eye(3)), abs(np.linalg.det(M) - 1))
    if r > TOL:
        return {'tag': f'{route}/not-SO3', 'observed': r, 'expected': f'<= {TOL}'}
    r = cm.maxabs(M, cm.Rspec(q))
    if r > TOL:
        return {'tag': f'{route}/differs-from-spec', 'observed': M, 'expected': cm.Rspec(q)}
    r = cm.maxabs(np.asarray(f(-q), dtype=float), M)
    if r > TOL:
        return {'tag': f'{route}/neg-differs', 'observed': r}
    r = cm.maxabs(np.asarray(f(cm.qconj(q)), dtype=float), M.T)
    if r > TOL:
        return {'tag': f'{route}/conj-not-transpose', 'observed': r}
    return None


def o_hom(inp):
    """M(p*q) = M(p) M(q) through every product entry point and every route"""
    p, q = np.array(inp['p'], float), np.array(inp['q'], float)
    route, prod = inp['route'], inp['prod']
    f = _routes()[route]
    g = _products()[prod]
    pq = np.asarray(g(p.copy(), q.copy()), dtype=float)
    if pq.shape != (4,) or cm.bad(pq):
        return {'tag': f'{prod}/shape-or-nonfinite', 'observed': pq}
    if cm.maxabs(pq, cm.qmul(p, q)) > TOL:
        return {'tag': f'{prod}/not-hamilton', 'observed': pq, 'expected': cm.qmul(p, q)}
    lhs = np.asarray(f(pq), float)
    rhs = np.asarray(f(p.copy()), float) @ np.asarray(f(q.copy()), float)
    if cm.maxabs(lhs, rhs) > 10 * TOL:
        return {'tag': f'{route}+{prod}/hom', 'observed': cm.maxabs(lhs, rhs)}
    return None


def o_rotate(inp):
    """q.rotate(v) = M(q) v = vec(q v q*);  q_rot is the inverse rotation;  rotate_by is a product"""
    import ahrs
    from ahrs.common import orientation as O
    q, v = np.array(inp['q'], float), np.array(inp['v'], float)
    sc = max(1.0, float(np.max(np.abs(v))))
    M = cm.Rspec(q)
    r = np.asarray(ahrs.Quaternion(q).rotate(v.copy()), float)
    sand = cm.qmul(cm.qmul(q, np.array([0.0, *v])), cm.qconj(q))[1:]
    if cm.maxabs(r, M @ v) > 1e-11 * sc or cm.maxabs(r, sand) > 1e-11 * sc:
        return {'tag': 'rotate/not-matrix-or-sandwich', 'observed': r, 'expected': M @ v}
    r2 = np.asarray(O.q_rot(q.copy(), v.copy()), float)
    if cm.maxabs(r2, M.T @ v) > 1e-11 * sc:
        return {'tag': 'q_rot/not-inverse-rotation', 'observed': r2, 'expected': M.T @ v}
    # q (0,v) q* through the implementation's own products taking a plain array operand (the pure quaternion (0,v) is not a
    # unit quaternion and may be the zero vector: it must be multiplied, not validated)
    pv = np.array([0.0, *v])
    for name in ('product', 'q_prod'):
        g = _products()[name]
        try:
            t = np.asarray(g(q.copy(), pv.copy()), float)
            sw = np.asarray(O.q_prod(t, cm.qconj(q)), float)[1:]
        except Exception as e:
            return {'tag': f'{name}/sandwich-raises', 'observed': [type(e).__name__, str(e)[:100]]}
        if sw.shape != (3,) or cm.bad(sw) or cm.maxabs(sw, M @ v) > 1e-11 * sc:
            return {'tag': f'{name}/sandwich-differs-from-matrix', 'observed': sw, 'expected': M @ v}
    # 3xN arrays rotate column-wise
    A = np.stack([v, 2 * v, -v], axis=1)
    r3 = np.asarray(ahrs.Quaternion(q).rotate(A), float)
    if r3.shape != (3, 3) or cm.maxabs(r3, M @ A) > 1e-11 * sc * 2:
        return {'tag': 'rotate/3xN', 'observed': r3, 'expected': M @ A}
    return None


def _batch_routes():
    import ahrs
    from ahrs.common import orientation as O
    return {
        'QA_to_DCM': lambda M: ahrs.QuaternionArray(M).to_DCM(),
        'DCM_fromq_batch': lambda M: ahrs.DCM().from_quaternion(M),
        'DCM_q_batch': lambda M: np.asarray(ahrs.DCM(q=M)) if M.shape[0] > 0 else None,
        'q2R_v1_batch': lambda M: O.q2R(M, version=1),
        'q2R_v2_batch': lambda M: O.q2R(M, version=2),
    }


def o_batch(inp):
    """N-row batch routes: row i of the result is the textbook matrix of row i, for every N (incl. N = 3, 4)"""
    route, M = inp['route'], np.array(inp['rows'], dtype=float)
    if route == 'DCM_q_batch':
        return None          # DCM(q=NxN4) is not an offered route (DCM is a single 3x3); kept out
    R = np.asarray(_batch_routes()[route](M.copy()), float)
    n = M.shape[0]
    if R.shape != (n, 3, 3) or cm.bad(R):
        return {'tag': f'{route}/N={n}/shape-or-nonfinite', 'observed': list(R.shape)}
    for i in range(n):
        if cm.maxabs(R[i], cm.Rspec(M[i])) > TOL:
            return {'tag': f'{route}/batch-row-differs-from-spec', 'observed': R[i], 'expected': cm.Rspec(M[i]), 'note': f'N={n} row {i}'}
    return None


def o_dtype(inp):
    """unit quaternions given as integer arrays, Python lists or float32 arrays are the same quaternions"""
    kind, q, p = inp['kind'], inp['q'], inp['p']
    conv = {'int': lambda x: np.array(x, dtype=int), 'list': lambda x: [float(v) for v in x], 'intlist': lambda x: [int(v) for v in x],
            'float32': lambda x: np.array(x, dtype=np.float32)}[kind]
    qf, pf = np.array(q, float), np.array(p, float)
    for name, f in _routes().items():
        try:
            M = np.asarray(f(conv(q) if not isinstance(conv(q), list) or name not in ('q2R_v1', 'q2R_v2', 'q2R_v1_batch', 'q2R_v2_batch') else np.array(conv(q), dtype=float)), float)
        except (TypeError, ValueError, AttributeError):
            continue            # a route may refuse a container type; it must not return a wrong matrix
        if M.shape == (3, 3) and cm.maxabs(M, cm.Rspec(qf)) > (1e-6 if kind == 'float32' else TOL):
            return {'tag': f'{name}/dtype-{kind}', 'observed': M, 'expected': cm.Rspec(qf)}
    for name, g in _products().items():
        for a, b, tag in ((conv(q), pf, 'left'), (qf, conv(p), 'right')):
            try:
                if isinstance(a, list) and name == 'q_prod':
                    a = np.array(a)
                if isinstance(b, list) and name == 'q_prod':
                    b = np.array(b)
                r = np.asarray(g(a, b), float)
            except (TypeError, ValueError, AttributeError):
                continue
            ref = cm.qmul(np.array(a, float), np.array(b, float))
            if r.shape != (4,) or cm.maxabs(r, ref) > (1e-6 if kind == 'float32' else TOL):
                return {'tag': f'{name}/dtype-{kind}-{tag}', 'observed': r, 'expected': ref}
    return None


def o_state(inp):
    """routes that multiply or rotate must see ONE quaternion per object: after normalize(), for either storage order
    of either operand, and across repeated calls of the free functions (shared with C09)"""
    from . import C09
    r = C09.o_state(inp)
    if r is None:
        r = C09.o_operands({'p': inp['p'], 'q': inp['q']})
    if r is None:
        import ahrs
        from ahrs.common import orientation as O
        q, v = np.array(inp['q'], float), np.array(inp['r'], float)[1:]
        o = ahrs.Quaternion(q, versor=False)
        o.normalize()
        u = q / np.linalg.norm(q)
        got = np.asarray(O.q_rot(o, v), float)
        if cm.maxabs(got, cm.Rspec(u).T @ v) > 1e-11 * max(1.0, float(np.max(np.abs(v)))):
            return {'tag': 'normalize/then-q_rot', 'observed': got, 'expected': cm.Rspec(u).T @ v}
        got = np.asarray(O.q2R(np.asarray(o)), float)
        if cm.maxabs(got, cm.Rspec(u)) > TOL:
            return {'tag': 'normalize/then-q2R', 'observed': got, 'expected': cm.Rspec(u)}
    return r


def _laid_out(M, layout):
    """the same N x 4 values in a different memory layout"""
    if layout == 'F':
        return np.asfortranarray(M)
    if layout == 'T':                       # transpose of a C-ordered 4 x N array (np.vstack([w, x, y, z]).T)
        return np.ascontiguousarray(M.T).T
    if layout == 'rowstride':               # every second row of a larger array
        big = np.full((2 * M.shape[0], 4), 7.25)
        big[::2] = M
        return big[::2]
    if layout == 'colstride':               # four columns of a wider array
        big = np.full((M.shape[0], 9), -3.5)
        big[:, 1:9:2] = M
        return big[:, 1:9:2]
    if layout == 'reversed':                # negative row stride
        return np.ascontiguousarray(M[::-1])[::-1]
    raise KeyError(layout)


LAYOUTS = ('F', 'T', 'rowstride', 'colstride', 'reversed')


def o_layout(inp):
    """an N x 4 array is the same batch of quaternions whatever its memory layout: every route that reads the QuaternionArray
    object, its .array, its components or the raw array gives the textbook matrix of row i"""
    import ahrs
    from ahrs.common import orientation as O
    M = np.array(inp['rows'], dtype=float)
    A = _laid_out(M, inp['layout'])
    if not np.array_equal(A, M):
        raise AssertionError('layout helper changed the values')
    n = M.shape[0]
    unit = M / np.linalg.norm(M, axis=1)[:, None]
    spec = np.array([cm.Rspec(r) for r in unit])        # every route normalises first (theorem C01_routes_normalise_first)
    Qa = ahrs.QuaternionArray(A)
    views = {'asarray': np.asarray(Qa), 'array': Qa.array, 'wxyz': np.c_[Qa.w, Qa.x, Qa.y, Qa.z], 'to_array': Qa.to_array(), 'rows': np.array([np.asarray(Qa[i]) for i in range(n)])}
    for k, v in views.items():
        v = np.asarray(v, float)
        if v.shape != (n, 4) or cm.maxabs(v, unit) > TOL:
            return {'tag': f'QuaternionArray/{k}-differs-for-layout', 'observed': v, 'expected': unit}
    got = {'QA_to_DCM': lambda: Qa.to_DCM(), 'DCM_fromq(object)': lambda: ahrs.DCM().from_quaternion(Qa), 'q2R(object)': lambda: O.q2R(Qa),
           'DCM_fromq(raw)': lambda: ahrs.DCM().from_quaternion(A), 'q2R_v1(raw)': lambda: O.q2R(A, version=1), 'q2R_v2(raw)': lambda: O.q2R(A, version=2),
           'Q_to_DCM(row view)': lambda: np.array([ahrs.Quaternion(A[i]).to_DCM() for i in range(n)]),
           'DCM_q(row view)': lambda: np.array([np.asarray(ahrs.DCM(q=A[i])) for i in range(n)])}
    for k, f in got.items():
        R = np.asarray(f(), float)
        if R.shape != (n, 3, 3) or cm.bad(R) or cm.maxabs(R, spec) > TOL:
            return {'tag': f'{k}/memory-layout', 'observed': R, 'expected': spec}
    return None


ORACLES = {'layout': o_layout, 'route': o_route, 'hom': o_hom, 'rotate': o_rotate, 'batch': o_batch, 'dtype': o_dtype, 'state': o_state}


def search(ctx, scale):
    n = 60 * scale
    qs = cm.quats(ctx.rng, n)
    routes = list(_routes())
    prods = list(_products())
    for i, (region, q) in enumerate(qs):
        for route in routes:
            inp = {'route': route, 'q': q.tolist(), 'region': region}
            r = cm_call(o_route, inp)
            ctx.check('route', inp, r, nontrivial_key=(route, region, tuple(np.round(q, 6))) if abs(abs(q[0]) - 1) > 1e-15 else None)
        p = qs[(5 * i + 1) % len(qs)][1]
        inp = {'route': routes[i % len(routes)], 'prod': prods[i % len(prods)], 'p': p.tolist(), 'q': q.tolist()}
        ctx.check('hom', inp, cm_call(o_hom, inp), nontrivial_key=(inp['route'], inp['prod'], tuple(np.round(q, 6)), tuple(np.round(p, 6))))
        v = ctx.rng.standard_normal(3) * 10 ** ctx.rng.uniform(-3, 3)
        inp = {'q': q.tolist(), 'v': v.tolist()}
        ctx.check('rotate', inp, cm_call(o_rotate, inp), nontrivial_key=(tuple(np.round(q, 6)), tuple(np.round(v, 6))))
    for i in range(8 * scale):
        s3 = 1.0 if i % 2 else 10 ** ctx.rng.uniform(-2, 2)
        inp = {'q': (qs[(3 * i + 1) % len(qs)][1] * s3).tolist(), 'p': qs[(5 * i + 2) % len(qs)][1].tolist(), 'r': qs[(7 * i + 3) % len(qs)][1].tolist()}
        ctx.check('state', inp, cm_call(o_state, inp), nontrivial_key=('state', i))
    # batches of every small N
    for N in (1, 2, 3, 4, 5, 7):
        for rep in range(2 * scale):
            rows = [qs[(rep * 13 + 3 * k + N) % len(qs)][1].tolist() for k in range(N)]
            for route in _batch_routes():
                inp = {'route': route, 'rows': rows}
                ctx.check('batch', inp, cm_call(o_batch, inp), nontrivial_key=(route, N, rep))
    # the same batches in other memory layouts (Fortran order, transposed 4xN, strided and reversed views)
    for N in (1, 2, 3, 4, 6):
        for li, layout in enumerate(LAYOUTS):
            for rep in range(scale):
                rows = [(qs[(rep * 17 + 5 * k + N + li) % len(qs)][1] * (1.0 if k % 2 else 1.5)).tolist() for k in range(N)]
                inp = {'rows': rows, 'layout': layout}
                ctx.check('layout', inp, cm_call(o_layout, inp), nontrivial_key=(layout, N, rep))
    # rotating the zero vector and vectors of extreme magnitude (the sandwich must multiply, not validate, the pure quaternion)
    for i, v in enumerate(([0.0, 0.0, 0.0], [1e-170, -2e-170, 3e-171], [1e-200, 0.0, 0.0], [3e154, -1e155, 2e154], [0.0, 0.0, 1e160])):
        q = qs[(7 * i + 2) % len(qs)][1]
        inp = {'q': q.tolist(), 'v': v}
        ctx.check('rotate', inp, cm_call(o_rotate, inp), nontrivial_key=('extreme-v', i))
    # integer / list / float32 operands: axis-aligned and half-integer units are exactly representable
    exact = [[1, 0, 0, 0], [0, 1, 0, 0], [0, 0, -1, 0], [0, 0, 0, 1], [-1, 0, 0, 0]]
    others = [[0.5, 0.5, 0.5, 0.5], [0.5, -0.5, 0.5, -0.5], qs[-1][1].tolist(), qs[-2][1].tolist()]
    for kind in ('int', 'intlist', 'list', 'float32'):
        for i, q in enumerate(exact):
            for p in others[: (2 if scale == 1 else 4)]:
                inp = {'kind': kind, 'q': q, 'p': p}
                ctx.check('dtype', inp, cm_call(o_dtype, inp), nontrivial_key=(kind, i, tuple(np.round(p, 6))))
    if len(ctx.samples) < 8:
        ctx.samples.append({'kind': 'search', 'oracle': 'route', 'input': {'route': routes[0], 'q': qs[5][1].tolist(), 'region': qs[5][0]}})


def cm_call(f, inp):
    from vlib.core import call_outcome
    r = call_outcome(f, inp)
    if r[0] == 'raise':
        return {'tag': f"{inp.get('route', inp.get('prod', f.__name__))}/raises-{r[1]}", 'observed': list(r[1:])}
    return r[1]
