"""Generators and helpers shared by the property modules."""
import math
import numpy as np


def unit(v):
    v = np.asarray(v, dtype=float)
    return v / np.linalg.norm(v)


def rand_unit_quat(rng):
    return unit(rng.standard_normal(4))


def axang_q(axis, angle):
    a = unit(axis)
    return np.array([math.cos(angle / 2), *(math.sin(angle / 2) * a)])


def edge_quats(rng):
    """named thin regions of SO(3): identity, half-turns (axis-aligned and oblique), near-identity,
    near-half-turn, pure, real, near-antipodal, denormal-component quaternions"""
    out = []
    out.append(('identity', np.array([1.0, 0, 0, 0])))
    out.append(('neg-identity', np.array([-1.0, 0, 0, 0])))
    for ax in ([1, 0, 0], [0, 1, 0], [0, 0, 1]):
        out.append(('half-turn-axis', axang_q(ax, math.pi)))
        out.append(('quarter-turn-axis', axang_q(ax, math.pi / 2)))
    for ax in ([1, 1, 0], [1, 2, 3], [-1, 1, 1], [0, 1, -1]):
        out.append(('half-turn-oblique', axang_q(ax, math.pi)))
        out.append(('near-half-turn', axang_q(ax, math.pi - 1e-12)))
        out.append(('near-half-turn-1e-6', axang_q(ax, math.pi - 1e-6)))
        out.append(('near-identity-1e-9', axang_q(ax, 1e-9)))
        out.append(('near-identity-1e-4', axang_q(ax, 1e-4)))
        out.append(('small-1e-3', axang_q(ax, 1e-3)))
        out.append(('neg-angle', axang_q(ax, -2.0)))
    out.append(('pure', unit([0.0, 1, 2, 3])))
    out.append(('pure', unit([0.0, -1, 1e-3, 0.5])))
    out.append(('denormal-component', unit([1.0, 5e-324, 1e-310, 0.5])))
    out.append(('tiny-component', unit([1e-160, 1.0, 1e-200, 0.3])))
    for _ in range(4):
        q = rand_unit_quat(rng)
        out.append(('generic', q))
        out.append(('generic-neg', -q))
    return out


def quats(rng, n):
    """n unit quaternions: the edge set first, then uniform draws"""
    e = edge_quats(rng)
    out = list(e)
    while len(out) < n:
        out.append(('generic', rand_unit_quat(rng)))
    return out[:max(n, len(e))]


def Rspec(q):
    w, x, y, z = q
    return np.array([[1 - 2 * (y * y + z * z), 2 * (x * y - w * z), 2 * (x * z + w * y)],
                     [2 * (x * y + w * z), 1 - 2 * (x * x + z * z), 2 * (y * z - w * x)],
                     [2 * (x * z - w * y), 2 * (w * x + y * z), 1 - 2 * (x * x + y * y)]])


def qmul(p, q):
    pw, px, py, pz = p
    qw, qx, qy, qz = q
    return np.array([pw * qw - px * qx - py * qy - pz * qz,
                     pw * qx + px * qw + py * qz - pz * qy,
                     pw * qy - px * qz + py * qw + pz * qx,
                     pw * qz + px * qy - py * qx + pz * qw])


def qconj(q):
    return np.array([q[0], -q[1], -q[2], -q[3]])


def d(names, vals):
    return {n: float(v) for n, v in zip(names, vals)}


def maxabs(a, b=0.0):
    a = np.asarray(a, dtype=complex if np.iscomplexobj(a) else float)
    return float(np.max(np.abs(a - b))) if a.size else 0.0


def bad(x):
    """True when x contains NaN/inf or is complex"""
    x = np.asarray(x)
    if np.iscomplexobj(x):
        return True
    return not bool(np.all(np.isfinite(x)))
