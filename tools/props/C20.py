"""C20 — synthetic sensor data agree with their own ground truth (ahrs.utils.sensors.Sensors)."""
import math
import numpy as np
from pysym.gen import Target
from . import common as cm

PID = 'C20'
N = 3                                     # rows of the regenerated generic trajectory
QR = [[f'q{i}{c}' for c in 'wxyz'] for i in range(N)]
QN = [n for r in QR for n in r]
AR = [[f'{c}{i}' for c in ('ro', 'pi', 'ya')] for i in range(N)]   # roll, pitch, yaw of row i
AN = [n for r in AR for n in r]
G, MREF, U = ['g0', 'g1', 'g2'], ['m0', 'm1', 'm2'], ['u0', 'u1', 'u2']
DRAW = {k: [f'{k}{i}{j}' for i in range(N) for j in range(3)] for k in ('ng', 'na', 'nm', 'nd', 'ne')}
SIG = ['sg', 'sa', 'sm']
ALL_DRAWS = U + DRAW['ng'] + DRAW['na'] + DRAW['nm'] + DRAW['nd'] + DRAW['ne']
TAG_MAG0 = 'Sensors.generate/mag-noise-overridden'

LEVEL_TEXT = ("Coq theorems over the regenerated model of the whole Sensors(...) construction (constructor + generate(), the "
              "module-level random generator replaced by a stream of symbolic draws) for a generic three-row trajectory, both "
              "trajectory sources (given quaternions / roll-pitch-yaw angles), both gyroscope units and the normalised "
              "magnetometer option; gyro re-integration is explored numerically against the proved per-step truncation bound")
TECHNIQUE = "pysym regeneration with symbolic RNG draws + ring/field proofs modulo unit-norm hypotheses + seeded float correspondence + search oracle"
RULE = ("trajectories of 10..60 samples: given quaternion trajectories of bounded rate (constant-axis, smooth random-axis, "
        "stationary, near half-turn steps) and random ones (num_samples), all 8 combinations of zero/non-zero noise levels, "
        "degrees/radians, normalised magnetometer on/off, default and custom reference vectors; a case is non-trivial when "
        "the trajectory is not stationary; distinct = distinct (kind, settings, seed)")
TRUSTED = [
    "Coq 8.16.1 kernel and vm_compute (used only to run the float copies)",
    "pysym tracing translator (/verif/tools/pysym): NumPy proxy semantics incl. the C20 addition np.ptp -> Rmax/Rmin fold, Gallina printer",
    "the stream stub standing for ahrs.utils.sensors.GENERATOR in the traced private copy (random(3), standard_normal((N,3)) x5 in "
    "call order) - validated on every run by the seeded correspondence with the real numpy Generator",
    "random_angpos as an external source of N-by-3 angle arrays (stubbed in the trace; exercised by the search oracle)",
    "real arithmetic stands for binary64 (gap measured by the correspondence, not proved)",
    "stdlib real-number axioms; Classical_Prop.classic where stdlib trigonometry uses it",
]
LEVEL_NOTE = ("needs /repo commit f81ca90 (fixes/C20-mag-noise-override.patch) for C20_mag_is_body_field; on a tree without it the "
              "check exhibits the defect (C20_refuted.v) and proves only the _partial magnetometer theorems")
PARTIAL = ("theorems are for a generic 3-row trajectory at freq 100 Hz (each row of the outputs depends on its own and the "
           "previous quaternion row only; ptp couples rows only through the bias scale): uniformity in N and in the frequency, "
           "the glue of the random route (C20_rand_acc/_repr are regenerated and float-validated but carry no theorem; the "
           "theorems are on QuaternionArray(rpy=...) plus the given-quaternion pipeline), random_angpos itself, and "
           "'integrating the gyro reproduces the trajectory' are explored by the search oracle at N >= 10 against the proved "
           "per-step bound th - 2 sin(th/2) <= th^3/24, not proved for all N; rounding is measured, not proved")


class StubGen:
    """stands for the module-level numpy Generator inside the traced private copy: the draws are symbolic inputs, named
    in call order (bias: random(3); then gyr, acc, mag, mag_nd, mag_enu noise: standard_normal((N,3)))"""
    def __init__(self):
        self.k = 0

    def random(self, n):
        from pysym import symnp
        from pysym.sym import S, Unsupported
        if n != 3:
            raise Unsupported(f"GENERATOR.random({n})")
        return symnp.array([S.var(x) for x in U])

    def standard_normal(self, shape):
        from pysym import symnp
        from pysym.sym import S, Unsupported
        key = ('ng', 'na', 'nm', 'nd', 'ne')[self.k] if self.k < 5 else None
        self.k += 1
        if key is None or tuple(shape) != (N, 3):
            raise Unsupported(f"GENERATOR.standard_normal({shape}) call #{self.k}")
        return symnp.array([[S.var(f'{key}{i}{j}') for j in range(3)] for i in range(N)])

    def __getattr__(self, name):
        from pysym.sym import Unsupported
        raise Unsupported(f"GENERATOR.{name} inside a symbolic trace")


def _sensors(A, v, given=True, freq=100.0, **kw):
    M = A.utils.sensors
    M.GENERATOR = StubGen()
    kw.setdefault('gyr_noise', v['sg']); kw.setdefault('acc_noise', v['sa']); kw.setdefault('mag_noise', v['sm'])
    kw.setdefault('reference_gravitational_vector', v.vec(*G))
    kw.setdefault('reference_magnetic_vector', v.vec(*MREF))
    if given:
        return M.Sensors(quaternions=v.mat(QR), freq=freq, **kw)
    saved = M.random_angpos
    M.random_angpos = lambda **k: v.mat(AR)
    try:
        return M.Sensors(num_samples=N, freq=100.0, **kw)
    finally:
        M.random_angpos = saved


def targets():
    mk = lambda n, i, f, doc='': Target(f'C20_{n}', i, f, doc=doc)
    gin = QN + ['sg', 'sm'] + MREF + U + DRAW['ng']
    return [
        mk('acc', QN + G + MREF + ['sa', 'sm'] + DRAW['na'], lambda A, v: _sensors(A, v).accelerometers,
           'Sensors(quaternions=Q, ...).accelerometers'),
        mk('mag', QN + MREF + ['sm'] + DRAW['nm'], lambda A, v: (lambda s: [s.magnetometers, s.mag_noise])(_sensors(A, v)),
           '[.magnetometers, .mag_noise] (mag_noise is the attribute reported after generate())'),
        mk('mag_norm', QN + MREF + ['sm'] + DRAW['nm'],
           lambda A, v: (lambda s: [s.magnetometers, s.mag_noise])(_sensors(A, v, normalized_mag=True)), 'normalized_mag=True'),
        mk('gyro_rad', gin, lambda A, v: (lambda s: [s.gyroscopes, s.biases_gyroscopes, s.ang_vel])(_sensors(A, v, in_degrees=False)),
           '[.gyroscopes, .biases_gyroscopes, .ang_vel], radians'),
        mk('gyro_deg', gin, lambda A, v: (lambda s: [s.gyroscopes, s.biases_gyroscopes, s.ang_vel])(_sensors(A, v, in_degrees=True)),
           '[.gyroscopes, .biases_gyroscopes, .ang_vel], degrees'),
        mk('gyro_rad_50', gin, lambda A, v: (lambda s: [s.gyroscopes, s.biases_gyroscopes, s.ang_vel])(_sensors(A, v, in_degrees=False, freq=50.0)),
           'the same at freq=50.0'),
        mk('gyro_rad_333', gin, lambda A, v: (lambda s: [s.gyroscopes, s.biases_gyroscopes, s.ang_vel])(_sensors(A, v, in_degrees=False, freq=333.0)),
           'the same at freq=333.0'),
        mk('gyro_deg_333', gin, lambda A, v: (lambda s: [s.gyroscopes, s.biases_gyroscopes, s.ang_vel])(_sensors(A, v, in_degrees=True, freq=333.0)),
           'degrees at freq=333.0'),
        mk('repr', QN + MREF + ['sm'], lambda A, v: (lambda s: [np.asarray(s.quaternions), s.rotations, s.ang_pos])(_sensors(A, v)),
           '[.quaternions, .rotations, .ang_pos] for a given trajectory'),
        mk('from_rpy', ['ro', 'pi', 'ya'],
           lambda A, v: (lambda Q: [np.asarray(Q), Q.to_DCM()])(A.QuaternionArray(rpy=v.mat([['ro', 'pi', 'ya']]))),
           'QuaternionArray(rpy=[[roll, pitch, yaw]]) (the constructor Sensors uses for a random trajectory) and its to_DCM()'),
        mk('arstep', ['w', 'x', 'y', 'z', 'g0', 'g1', 'g2'],
           lambda A, v: A.filters.AngularRate().update(v.vec('w', 'x', 'y', 'z'), v.vec('g0', 'g1', 'g2'), method='closed', dt=0.01),
           "AngularRate().update(q, gyr, method='closed', dt=0.01): the integrator step used by the re-integration clause"),
        mk('rand_acc', AN + G + MREF + ['sa', 'sm'] + DRAW['na'], lambda A, v: _sensors(A, v, given=False).accelerometers,
           'Sensors(num_samples=3) with random_angpos -> symbolic angles: .accelerometers'),
        mk('rand_yaw', AN + ['yw'] + MREF + ['sm'],
           lambda A, v: (lambda s: [np.asarray(s.quaternions), s.ang_pos, s.ang_vel])(_sensors(A, v, given=False, yaw=v['yw'])),
           'Sensors(num_samples=3, yaw=yw): [.quaternions, .ang_pos, .ang_vel] - the rates must be those of the REPORTED quaternions'),
        mk('rand_full', AN + ['yw'] + G + MREF + ['sa', 'sm'] + DRAW['na'],
           lambda A, v: (lambda s: [np.asarray(s.quaternions), s.ang_pos, s.ang_vel, s.rotations, s.accelerometers])(
               _sensors(A, v, given=False, yaw=v['yw'])),
           'the same with .rotations and .accelerometers (theorem in the thorough tier)'),
        mk('rand_repr', AN + MREF + ['sm'],
           lambda A, v: (lambda s: [np.asarray(s.quaternions), s.rotations, s.ang_pos, s.ang_vel])(_sensors(A, v, given=False)),
           '[.quaternions, .rotations, .ang_pos, .ang_vel] for the angle-generated trajectory'),
    ]



def _finding_live():
    """does the recorded magnetometer-noise override still reproduce on the implementation under check?"""
    try:
        r = o_sensors(WITNESS_MAG0)
        return r is not None and r.get('tag') == TAG_MAG0
    except Exception:
        return True


def _stages():
    """While the magnetometer-noise override reproduces on the implementation, the model must exhibit it (C20_refuted.v)
    and the magnetometer clause is only the `_partial` theorem; when it does not (fixes/C20-mag-noise-override.patch,
    committed to /repo as f81ca90) the positive theorem C20_mag_is_body_field (C20_magfix.v, C20_fixed.v) is an
    obligation instead.  The finding is recorded as `fixed`, so a tree on which it reproduces again is a VIOLATION."""
    live = _finding_live()
    # slowest first: the pool runs 8 files at a time
    st2 = ['C20_randyaw.v', 'C20_gyro_rad.v', 'C20_gyro_deg.v', 'C20_rand.v', 'C20_firstorder.v', 'C20_magnorm.v',
           'C20_repr.v', 'C20_arstep.v', 'C20_mag.v', 'C20_acc.v', 'C20_euler.v', 'C20_rows.v']
    st3 = ['C20_integrate.v']
    st2.insert(2, ('C20_refuted.v', {'finding': TAG_MAG0}) if live else 'C20_magfix.v')
    out = [['C20_spec.v'], st2, st3, ['C20.v', 'C20_any_length.v'] + ([] if live else ['C20_fixed.v'])]
    return out


# ------------------------------------------------------------------------------------------
# the real implementation with a controlled generator state
# ------------------------------------------------------------------------------------------
def _mod():
    import ahrs.utils.sensors as M
    return M


def _reseed(seed):
    """put the module-level numpy Generator of the REAL package into the state default_rng(seed) starts in
    (harness-side only; /repo is untouched)"""
    _mod().GENERATOR.bit_generator.state = np.random.default_rng(int(seed)).bit_generator.state


def _draws(seed, n, skip=None):
    """the values generate() will draw for a given-quaternion trajectory of n rows after _reseed(seed):
    bias uniforms, then gyr/acc/mag/mag_nd/mag_enu normal draws, in the call order of the code"""
    g = np.random.default_rng(int(seed))
    if skip is not None:
        g.bit_generator.state = skip
    out = {'u': g.random(3)}
    for k in ('ng', 'na', 'nm', 'nd', 'ne'):
        out[k] = g.standard_normal((n, 3))
    return out


def _impl_given(c, seed, what, freq=100.0, **kw):
    import ahrs
    _reseed(seed)
    Q = np.array([[c[x] for x in r] for r in QR])
    args = dict(gyr_noise=c.get('sg', 0.25), acc_noise=c.get('sa', 0.125), mag_noise=c['sm'],
                reference_magnetic_vector=np.array([c[x] for x in MREF]))
    if 'g0' in c:
        args['reference_gravitational_vector'] = np.array([c[x] for x in G])
    s = ahrs.Sensors(quaternions=Q, freq=freq, **args, **kw)
    return what(s)


def _impl_rand(c, seed, what, **kw):
    import ahrs
    M = _mod()
    _reseed(seed)
    ang = np.array([[c[x] for x in r] for r in AR])
    saved = M.random_angpos
    M.random_angpos = lambda **k: ang.copy()         # the trajectory source is external to the property
    try:
        args = dict(gyr_noise=0.25, acc_noise=c.get('sa', 0.125), mag_noise=c['sm'],
                    reference_magnetic_vector=np.array([c[x] for x in MREF]))
        if 'g0' in c:
            args['reference_gravitational_vector'] = np.array([c[x] for x in G])
        s = ahrs.Sensors(num_samples=N, freq=100.0, **args, **kw)
    finally:
        M.random_angpos = saved
    return what(s)


def _cases(ctx, n, names, rand=False):
    """seeded cases: quaternion rows (mostly unit, some not normalised, one zero row), reference vectors (the package
    defaults and random ones), noise levels on both sides of every gate (0, small, above ptp), and the generator's draws"""
    M = _mod()
    out, seeds = [], []
    for k in range(n):
        seed = int(ctx.rng.integers(1, 2**31))
        d = _draws(seed, N)
        c = {}
        if rand:
            ang = ctx.rng.uniform(-np.pi, np.pi, (N, 3))
            if k % 5 == 0:
                ang[1] = ang[0]
            c.update(cm.d(AN, ang.reshape(-1)))
        else:
            Q = np.array([cm.rand_unit_quat(ctx.rng) for _ in range(N)])
            if k % 7 == 1:
                Q[:] = Q[0]                                  # stationary
            if k % 7 == 2:
                Q *= ctx.rng.uniform(0.1, 10, (N, 1))        # the constructor normalises
            if k % 7 == 3:
                Q = np.array([cm.axang_q([1, 2, 3], 0.01 * i) for i in range(N)])
            if k == 11:
                Q[1] = 0.0                                   # rejected: ValueError on both sides
            c.update(cm.d(QN, Q.reshape(-1)))
        mref = M.REFERENCE_MAGNETIC_VECTOR if k % 2 == 0 else ctx.rng.standard_normal(3) * 10 ** ctx.rng.uniform(-1, 4)
        gref = M.REFERENCE_GRAVITY_VECTOR if k % 3 == 0 else ctx.rng.standard_normal(3) * 9.8
        c.update(cm.d(MREF, mref)); c.update(cm.d(G, gref))
        c['sg'] = [0.0, 0.3, 2.5][k % 3]
        c['sa'] = [0.0, 0.05][k % 2]
        c['sm'] = [0.0, 1e-3, 40.0, 1e6, 3e5][k % 5]
        c.update(cm.d(U, d['u']))
        for key in ('ng', 'na', 'nm'):
            c.update(cm.d(DRAW[key], d[key].reshape(-1)))
        out.append({x: c[x] for x in names})
        seeds.append(seed)
    return out, seeds


def _leaf_vars(tree):
    """per output index, the union over all value leaves of the input variables the output depends on; and the variables
    of the branch conditions"""
    from pysym.sym import Leaf
    from pysym import emit
    outs, conds = {}, set()

    def vars_of(e):
        acc, order = {}, []
        emit._deps(e, acc, order)
        return {x.args[0] for x in order if x.op == 'var'}

    def rec(t):
        if isinstance(t, Leaf):
            if t.kind == 'val':
                for i, e in enumerate(t.flat):
                    outs.setdefault(i, set()).update(vars_of(e))
            return
        for a in t.cond.args:
            conds.update(vars_of(a))
        rec(t.t); rec(t.f)
    rec(tree)
    return outs, conds


def row_locality(ctx):
    """structural check on the regenerated DAGs: which input symbols each output row depends on.  The code is row-wise
    when row i of the output mentions only row i's quaternion and draw (plus the shared references / levels); that is
    what lets the three-row theorems speak for every trajectory length (C20_rows.v).  Recorded in the evidence; a row that
    reaches into another row's symbols breaks the argument and is reported as a broken obligation."""
    rowq = lambda i: set(QR[i])
    spec = {
        'C20_acc': lambda i: (range(3 * i, 3 * i + 3), rowq(i) | set(G) | {'sa'} | {f'na{i}{j}' for j in range(3)}),
        'C20_mag': lambda i: (range(3 * i, 3 * i + 3), rowq(i) | set(MREF) | {'sm'} | {f'nm{i}{j}' for j in range(3)}),
        'C20_mag_norm': lambda i: (range(3 * i, 3 * i + 3), rowq(i) | set(MREF) | {'sm'} | {f'nm{i}{j}' for j in range(3)}),
        'C20_repr': lambda i: (list(range(4 * i, 4 * i + 4)) + list(range(12 + 9 * i, 21 + 9 * i)) + list(range(39 + 3 * i, 42 + 3 * i)), rowq(i)),
        'C20_gyro_rad': lambda i: (range(12 + 3 * i, 15 + 3 * i), (rowq(i - 1) | rowq(i)) if i else set()),
        'C20_gyro_deg': lambda i: (range(12 + 3 * i, 15 + 3 * i), (rowq(i - 1) | rowq(i)) if i else set()),
    }
    for name, f in spec.items():
        t = ctx.targets.get(name)
        if t is None or t.error:
            continue
        outs, conds = _leaf_vars(t.tree)
        rep = {'rows': {}, 'gate_symbols': sorted(conds)}
        ok = True
        for i in range(N):
            idx, allowed = f(i)
            used = set().union(*[outs.get(k, set()) for k in idx])
            rep['rows'][str(i)] = sorted(used)
            if not used <= allowed:
                ok = False
                ctx.broken.append({'kind': 'translation', 'target': name,
                                   'error': f'row {i} of the regenerated output depends on symbols of other rows: {sorted(used - allowed)}'})
                ctx.say(f"[locality] {name}: row {i} depends on {sorted(used - allowed)} (not row-wise)")
        rep['row_wise'] = ok
        ctx.targets_meta.setdefault(name, {})['row_locality'] = rep
    ctx.say("[locality] " + ', '.join(f"{k}: {'row-wise' if v.get('row_locality', {}).get('row_wise') else '?'}"
                                      for k, v in ctx.targets_meta.items() if 'row_locality' in v))


def windowed(ctx):
    """uniformity in N, tied through the model: real runs with N in 10..64 rows; every window of three consecutive rows
    (first, second, middle, last) of the real accelerometer / magnetometer / representation arrays must equal the
    three-row regenerated float model evaluated on those rows' quaternions and draws (the arrays are row-wise)."""
    import ahrs
    M = _mod()
    T = {t.name: t for t in targets()}
    live = _finding_live()
    plan = {'C20_acc': ('na', lambda s, i: s.accelerometers[i:i + 3], {}),
            'C20_repr': (None, lambda s, i: [np.asarray(s.quaternions)[i:i + 3], s.rotations[i:i + 3], s.ang_pos[i:i + 3]], {})}
    if not live:          # with the override present the gate compares against the ptp of ALL rows: not window-local
        plan['C20_mag'] = ('nm', lambda s, i: [s.magnetometers[i:i + 3], s.mag_noise], {})
        plan['C20_mag_norm'] = ('nm', lambda s, i: [s.magnetometers[i:i + 3], s.mag_noise], {'normalized_mag': True})
    for name, (dkey, what, kw) in plan.items():
        names = T[name].inputs
        cases, exp = [], {}
        for k, n in enumerate([10, 11, 17, 64][:ctx.n(3, 4)]):
            seed = int(ctx.rng.integers(1, 2**31))
            Q = np.array([cm.rand_unit_quat(ctx.rng) for _ in range(n)])
            lv = {'sg': 0.3, 'sa': [0.0, 0.05][k % 2], 'sm': [0.0, 25.0][(k + 1) % 2]}
            mref = M.REFERENCE_MAGNETIC_VECTOR if k % 2 else ctx.rng.standard_normal(3) * 100
            gref = ctx.rng.standard_normal(3) * 9.8
            _reseed(seed)
            s = ahrs.Sensors(quaternions=Q, freq=100.0, gyr_noise=lv['sg'], acc_noise=lv['sa'], mag_noise=lv['sm'],
                             reference_magnetic_vector=mref, reference_gravitational_vector=gref, **kw)
            D = _draws(seed, n)
            for i in sorted({0, 1, n // 2, n - 3}):
                c = {**cm.d(QN, Q[i:i + 3].reshape(-1)), **cm.d(MREF, mref), **cm.d(G, gref), **lv, **cm.d(U, D['u'])}
                for key in ('ng', 'na', 'nm'):
                    c.update(cm.d(DRAW[key], D[key][i:i + 3].reshape(-1)))
                c = {x: c[x] for x in names}
                cases.append(c)
                exp[id(c)] = what(s, i)
        ctx.correspond(name, cases, lambda c: exp[id(c)], tol_ulp=256, label=name + '@window')


def correspondence(ctx):
    n = ctx.n(24, 200)
    row_locality(ctx)
    windowed(ctx)
    T = {t.name: t for t in targets()}

    def run(name, impl_fn, what, rand=False, **kw):
        names = T[name].inputs
        cases, seeds = _cases(ctx, n, names, rand)
        key = {id(c): sd for c, sd in zip(cases, seeds)}
        ctx.correspond(name, cases, (lambda c: impl_fn(c, key[id(c)], what, **kw)), tol_ulp=256)
    run('C20_acc', _impl_given, lambda s: s.accelerometers)
    run('C20_mag', _impl_given, lambda s: [s.magnetometers, s.mag_noise])
    run('C20_mag_norm', _impl_given, lambda s: [s.magnetometers, s.mag_noise], normalized_mag=True)
    run('C20_gyro_rad', _impl_given, lambda s: [s.gyroscopes, s.biases_gyroscopes, s.ang_vel], in_degrees=False)
    run('C20_gyro_deg', _impl_given, lambda s: [s.gyroscopes, s.biases_gyroscopes, s.ang_vel], in_degrees=True)
    gy = lambda s: [s.gyroscopes, s.biases_gyroscopes, s.ang_vel]
    run('C20_gyro_rad_50', _impl_given, gy, in_degrees=False, freq=50.0)
    run('C20_gyro_rad_333', _impl_given, gy, in_degrees=False, freq=333.0)
    run('C20_gyro_deg_333', _impl_given, gy, in_degrees=True, freq=333.0)
    run('C20_repr', _impl_given, lambda s: [np.asarray(s.quaternions), s.rotations, s.ang_pos])
    import ahrs
    ang = [cm.d(['ro', 'pi', 'ya'], ctx.rng.uniform(-np.pi, np.pi, 3)) for _ in range(n)] + \
          [cm.d(['ro', 'pi', 'ya'], a) for a in ([0.0, 0.0, 0.0], [np.pi, 0.0, 0.0], [0.0, np.pi / 2, 0.0], [0.3, -np.pi / 2, 2.0], [-np.pi, np.pi, -np.pi])]
    ctx.correspond('C20_from_rpy', ang, lambda c: (lambda Q: [np.asarray(Q), Q.to_DCM()])(
        ahrs.QuaternionArray(rpy=np.array([[c['ro'], c['pi'], c['ya']]]))), tol_ulp=256)
    arc = []
    for k in range(n):
        q = cm.rand_unit_quat(ctx.rng) * (1.0 if k % 3 else 2.5)
        g = ctx.rng.standard_normal(3) * 10 ** ctx.rng.uniform(-3, 2) if k % 6 else np.zeros(3)
        arc.append({**cm.d(['w', 'x', 'y', 'z'], q), **cm.d(['g0', 'g1', 'g2'], g)})
    ctx.correspond('C20_arstep', arc, lambda c: ahrs.filters.AngularRate().update(
        np.array([c[k] for k in 'wxyz']), np.array([c['g0'], c['g1'], c['g2']]), method='closed', dt=0.01), tol_ulp=256)
    run('C20_rand_acc', _impl_rand, lambda s: s.accelerometers, rand=True)
    for tname, what in (('C20_rand_yaw', lambda s: [np.asarray(s.quaternions), s.ang_pos, s.ang_vel]),
                        ('C20_rand_full', lambda s: [np.asarray(s.quaternions), s.ang_pos, s.ang_vel, s.rotations, s.accelerometers])):
        names = T[tname].inputs
        ycases, yseeds = _cases(ctx, n, [x for x in names if x != 'yw'], True)
        for k, c in enumerate(ycases):
            c['yw'] = [0.0, 37.5, -120.0, 90.0, 0.25][k % 5]
        ykey = {id(c): sd for c, sd in zip(ycases, yseeds)}
        ctx.correspond(tname, ycases, lambda c, what=what, ykey=ykey: _impl_rand(c, ykey[id(c)], what, yaw=c['yw']), tol_ulp=256)
    run('C20_rand_repr', _impl_rand, lambda s: [np.asarray(s.quaternions), s.rotations, s.ang_pos, s.ang_vel], rand=True)


# ------------------------------------------------------------------------------------------
# search oracle: the property statement evaluated on the implementation, N >= 10
# ------------------------------------------------------------------------------------------
def _trajectory(inp):
    """given-quaternion trajectories of bounded rate, from a few named families"""
    r = np.random.default_rng(int(inp['tseed']))
    n, kind, th = int(inp['n']), inp['traj'], float(inp.get('theta', 0.05))
    q = cm.rand_unit_quat(r) if kind != 'from-identity' else np.array([1.0, 0, 0, 0])
    Q = [q]
    axis = cm.unit(r.standard_normal(3))
    for t in range(1, n):
        if kind == 'stationary':
            d = np.array([1.0, 0, 0, 0])
        elif kind in ('const-axis', 'from-identity'):
            d = cm.axang_q(axis, th)
        elif kind == 'smooth':
            axis = cm.unit(axis + 0.3 * r.standard_normal(3))
            d = cm.axang_q(axis, th * r.uniform(0.2, 1.0))
        elif kind == 'pause-then-turn':          # exact zeros in the rate, then motion
            d = np.array([1.0, 0, 0, 0]) if t < n // 2 else cm.axang_q(axis, th)
        elif kind == 'random-unit':
            Q.append(cm.rand_unit_quat(r)); continue
        elif kind == 'int-axes':                  # exactly representable integer quaternions (quarter/half turns, 120-degree turns)
            pool = [[1, 0, 0, 0], [1, 1, 0, 0], [0, 1, 0, 0], [1, 0, 1, 0], [1, 1, 1, 1], [0, 0, 0, 1], [1, 0, 0, -1], [2, 0, 0, 0]]
            Q.append(np.array(pool[int(r.integers(0, len(pool)))], float)); continue
        else:
            raise ValueError(kind)
        Q.append(cm.unit(cm.qmul(Q[-1], d)))
    Q = np.array(Q)
    if kind == 'int-axes':
        Q[0] = [1, 0, 0, 0]
        return Q                                   # raw integers; the caller normalises for the comparison
    if inp.get('flip'):                            # q and -q are the same attitude: antipodal representative on some rows
        Q[1::3] *= -1.0
    return Q


def _qangle(p, q):
    return 2.0 * math.acos(min(1.0, abs(float(np.dot(p, q)))))


def _euler_R(a):
    cr, sr, cp, sp, cy, sy = math.cos(a[0]), math.sin(a[0]), math.cos(a[1]), math.sin(a[1]), math.cos(a[2]), math.sin(a[2])
    Rx = np.array([[1, 0, 0], [0, cr, -sr], [0, sr, cr]])
    Ry = np.array([[cp, 0, sp], [0, 1, 0], [-sp, 0, cp]])
    Rz = np.array([[cy, -sy, 0], [sy, cy, 0], [0, 0, 1]])
    return Rz @ Ry @ Rx


def o_sensors(inp):
    """one Sensors(...) construction: every clause of C20 on its public attributes"""
    import ahrs
    M = _mod()
    E = 'Sensors'
    n, seed = int(inp['n']), int(inp['seed'])
    deg, nrm, freq = bool(inp.get('in_degrees')), bool(inp.get('normalized_mag')), inp.get('freq', 100.0)
    kw = {}
    for k_in, k_kw in (('sg', 'gyr_noise'), ('sa', 'acc_noise'), ('sm', 'mag_noise')):
        if inp.get(k_in) is not None:
            kw[k_kw] = inp[k_in]
    if inp.get('in_degrees') is not None:
        kw['in_degrees'] = deg
    if inp.get('normalized_mag') is not None:
        kw['normalized_mag'] = nrm
    if inp.get('mref') is not None:
        kw['reference_magnetic_vector'] = list(inp['mref']) if inp.get('ref_as_list') else np.array(inp['mref'], float)
    if inp.get('gref') is not None:
        kw['reference_gravitational_vector'] = list(inp['gref']) if inp.get('ref_as_list') else np.array(inp['gref'], float)
    if inp.get('yaw') is not None:
        kw['yaw'] = inp['yaw']
    if inp.get('span') is not None:
        kw['span'] = tuple(inp['span']) if inp.get('span_as_tuple', True) else list(inp['span'])
    given = inp['kind'] == 'given'
    _reseed(seed)
    if given:
        Q = _trajectory(inp)
        form = inp.get('qform', 'array')
        if inp['traj'] == 'int-axes':
            arg = Q.astype(int).tolist() if form == 'list' else Q.astype(int)       # integer operands
            Q = Q / np.linalg.norm(Q, axis=1, keepdims=True)
        elif form == 'float32':
            arg = Q.astype(np.float32)
            Q = arg.astype(float); Q = Q / np.linalg.norm(Q, axis=1, keepdims=True)
        else:
            arg = Q.tolist() if form == 'list' else ahrs.QuaternionArray(Q) if form == 'QuaternionArray' else \
                Q * 3.0 if form == 'scaled' else Q.copy()
        s = ahrs.Sensors(quaternions=arg, freq=freq, **kw)
        D = _draws(seed, n)
    else:
        s = ahrs.Sensors(num_samples=n, freq=freq, **kw)
        Q, D = None, None
    if inp.get('twice'):                     # a second construction must not depend on the first one's leftovers
        _reseed(seed)
        s = ahrs.Sensors(quaternions=arg, freq=freq, **kw) if given else ahrs.Sensors(num_samples=n, freq=freq, **kw)
    dt = 1.0 / freq
    gref = np.asarray(s.reference_gravitational_vector, float)
    mref = np.asarray(s.reference_magnetic_vector, float)
    qs, Rm, ap, av = (np.asarray(x, float) for x in (s.quaternions, s.rotations, s.ang_pos, s.ang_vel))
    acc, mag, gyr, bias = (np.asarray(x, float) for x in (s.accelerometers, s.magnetometers, s.gyroscopes, s.biases_gyroscopes))
    if not (qs.shape == (n, 4) and Rm.shape == (n, 3, 3) and ap.shape == (n, 3) and av.shape == (n, 3) and acc.shape == (n, 3)
            and mag.shape == (n, 3) and gyr.shape == (n, 3) and bias.shape == (3,) and s.num_samples == n):
        return {'tag': f'{E}/shapes', 'observed': [list(x.shape) for x in (qs, Rm, ap, av, acc, mag, gyr, bias)]}
    if any(cm.bad(x) for x in (qs, Rm, ap, av, acc, mag, gyr, bias)):
        return {'tag': f'{E}/non-finite', 'observed': 'nan/inf in outputs'}
    # ---- trajectory keywords of the random route mean what they say (and are ignored by the given route)
    if not given and inp.get('yaw') is not None and cm.maxabs(ap[:, 2], float(inp['yaw']) * math.pi / 180.0) > 1e-12:
        return {'tag': f'{E}.ang_pos/yaw-keyword-not-applied', 'observed': ap[:3, 2], 'expected': float(inp['yaw']) * math.pi / 180.0}
    if not given and inp.get('span') is not None:
        lo, hi = min(0.0, float(inp['span'][0])), max(0.0, float(inp['span'][1]))
        cols = ap[:, :2] if inp.get('yaw') is not None else ap
        if cols.min() < lo - 1e-9 or cols.max() > hi + 1e-9:
            return {'tag': f'{E}.ang_pos/outside-span', 'observed': [float(cols.min()), float(cols.max())], 'expected': [lo, hi]}
    # ---- representations agree
    if given and cm.maxabs(qs, Q) > 1e-12:
        return {'tag': f'{E}.quaternions/not-the-given-trajectory', 'observed': cm.maxabs(qs, Q)}
    if cm.maxabs(np.linalg.norm(qs, axis=1), 1.0) > 1e-12:
        return {'tag': f'{E}.quaternions/not-unit', 'observed': cm.maxabs(np.linalg.norm(qs, axis=1), 1.0)}
    Rs = np.array([cm.Rspec(q) for q in qs])
    i = int(np.argmax(np.abs(Rm - Rs).reshape(n, -1).max(axis=1)))
    if cm.maxabs(Rm[i], Rs[i]) > 1e-12:
        return {'tag': f'{E}.rotations/not-matrix-of-quaternion', 'observed': Rm[i], 'expected': Rs[i], 'note': f'row {i}'}
    for i in range(n):
        lim = 1e-9 / max(1e-3, abs(math.cos(ap[i, 1])))
        if abs(math.cos(ap[i, 1])) > 1e-6 and cm.maxabs(_euler_R(ap[i]), Rs[i]) > lim:
            return {'tag': f'{E}.ang_pos/not-angles-of-quaternion', 'observed': _euler_R(ap[i]), 'expected': Rs[i], 'note': f'row {i}'}
    # ---- accelerometers / magnetometers
    body = lambda v: np.array([Rs[i].T @ v for i in range(n)])
    pending = None
    for name, val, ref, lvl_req, lvl_rep, key in (('acc', acc, gref, inp.get('sa'), s.acc_noise, 'na'),
                                                  ('mag', mag, mref, inp.get('sm'), s.mag_noise, 'nm')):
        sc = max(1e-300, float(np.linalg.norm(ref)))
        clean = body(ref)
        if lvl_req is not None and np.ndim(lvl_rep) == 0 and float(lvl_rep) != float(lvl_req):
            tag = TAG_MAG0 if name == 'mag' else f'{E}.generate/{name}-noise-attribute-not-the-requested'
            fail = {'tag': tag, 'observed': float(lvl_rep), 'expected': float(lvl_req),
                    'note': f'requested {name}_noise is replaced; residual {cm.maxabs(val, clean):.6g}'}
            if name != 'mag':
                return fail
            pending = fail           # keep checking the other clauses (with the reported level): a different failure wins
        lvl = float(lvl_rep)
        if name == 'mag' and nrm:
            nr = np.linalg.norm(val, axis=1)
            if cm.maxabs(nr, 1.0) > 1e-12:
                return {'tag': f'{E}.generate/mag-normalised-not-unit', 'observed': cm.maxabs(nr, 1.0)}
            if lvl == 0.0:
                exp = clean / np.linalg.norm(clean, axis=1, keepdims=True)
                if cm.maxabs(val, exp) > 1e-12:
                    return {'tag': f'{E}.generate/mag-normalised-zero-noise', 'observed': cm.maxabs(val, exp)}
            elif D is not None:
                raw = clean + D[key] * lvl
                exp = raw / np.linalg.norm(raw, axis=1, keepdims=True)
                if cm.maxabs(val, exp) > 1e-12 + 1e-9 * min(1.0, lvl / sc):
                    return {'tag': f'{E}.generate/mag-normalised-noise', 'observed': cm.maxabs(val, exp)}
            continue
        res = val - clean
        i = int(np.argmax(np.abs(res).max(axis=1)))
        if lvl == 0.0:
            if cm.maxabs(res) > 1e-12 * sc:
                return {'tag': f'{E}.generate/{name}-zero-noise-not-body-frame-reference', 'observed': val[i], 'expected': clean[i],
                        'note': f'row {i} of {n}'}
        elif D is not None:
            if cm.maxabs(res, D[key] * lvl) > 1e-13 * sc + 1e-9 * lvl:     # far below the level even when level << |ref|
                # the draws may legitimately be consumed in another order: fall back to a distribution bound
                z = res / lvl
                if abs(z.mean()) > 6 / math.sqrt(z.size) or not (1 - 6 / math.sqrt(2 * z.size) < z.std() < 1 + 6 / math.sqrt(2 * z.size)) \
                        or abs(z).max() > 7:
                    return {'tag': f'{E}.generate/{name}-noise-not-the-reported-level', 'observed': [float(z.mean()), float(z.std())],
                            'expected': [0.0, 1.0], 'note': f'reported {name}_noise = {lvl}'}
        else:
            z = res / lvl
            if abs(z.mean()) > 6 / math.sqrt(z.size) or not (1 - 6 / math.sqrt(2 * z.size) < z.std() < 1 + 6 / math.sqrt(2 * z.size)) \
                    or abs(z).max() > 7:
                return {'tag': f'{E}.generate/{name}-noise-not-the-reported-level', 'observed': [float(z.mean()), float(z.std())],
                        'expected': [0.0, 1.0], 'note': f'reported {name}_noise = {lvl}'}
    # ---- ground-truth angular velocity = what angular_velocities computes on consecutive attitudes
    w = np.array([2.0 / dt * cm.qmul(cm.qconj(qs[t - 1]), qs[t])[1:] for t in range(1, n)])
    wsc = max(1.0, float(np.abs(w).max()))
    if cm.maxabs(av[1:], w) > 1e-12 * wsc * max(1.0, freq / 100):
        i = int(np.argmax(np.abs(av[1:] - w).max(axis=1))) + 1
        return {'tag': f'{E}.ang_vel/not-rate-between-consecutive-attitudes', 'observed': av[i], 'expected': w[i - 1], 'note': f'row {i}'}
    first = np.zeros(3) if given else w[0]
    if cm.maxabs(av[0], first) > 1e-12 * wsc:
        return {'tag': f'{E}.ang_vel/first-row', 'observed': av[0], 'expected': first}
    # ---- gyroscopes: bias-corrected samples are the true rates (in the output unit) plus the reported noise
    unit = 180.0 / math.pi if deg else 1.0
    nsc = 1.0 if deg else math.pi / 180.0            # gyr_noise is a level in deg/s
    sg_req = inp.get('sg')
    if sg_req is not None and (np.ndim(s.gyr_noise) != 0 or float(s.gyr_noise) != float(sg_req)):
        return {'tag': f'{E}.generate/gyr-noise-attribute-not-the-requested', 'observed': s.gyr_noise, 'expected': sg_req}
    corrected = gyr - bias
    res = corrected - unit * av
    gsc = unit * wsc
    P = float(np.ptp(av * (180.0 / math.pi)))
    blim = P / 400.0 * (1.0 if deg else (math.pi / 180.0) ** 2)
    if np.abs(bias).max() > blim * (1 + 1e-12) + 1e-300:
        return {'tag': f'{E}.generate/bias-outside-the-stated-range', 'observed': bias, 'expected': f'|b| <= {blim}'}
    if sg_req is not None and float(sg_req) == 0.0:
        if cm.maxabs(res) > 1e-11 * gsc:
            i = int(np.argmax(np.abs(res).max(axis=1)))
            return {'tag': f'{E}.generate/reported-bias-is-not-the-applied-bias', 'observed': corrected[i], 'expected': unit * av[i],
                    'note': f'row {i}; reported bias {bias.tolist()}'}
    elif D is not None and sg_req is not None:
        expb = (D['u'] - 0.5) * P / 200.0 * (1.0 if deg else (math.pi / 180.0) ** 2)
        if cm.maxabs(bias, expb) > 1e-9 * max(1e-300, blim) and cm.maxabs(res, D['ng'] * float(sg_req) * nsc) > (1e-13 * gsc + 1e-9 * float(sg_req) * nsc):
            z = res / (float(sg_req) * nsc)
            if abs(z.mean()) > 6 / math.sqrt(z.size) or not (1 - 6 / math.sqrt(2 * z.size) < z.std() < 1 + 6 / math.sqrt(2 * z.size)):
                return {'tag': f'{E}.generate/gyr-noise-or-bias-not-the-reported', 'observed': [float(z.mean()), float(z.std())], 'expected': [0.0, 1.0]}
        elif cm.maxabs(res, D['ng'] * float(sg_req) * nsc) > (1e-13 * gsc + 1e-9 * float(sg_req) * nsc):
            i = int(np.argmax(np.abs(res - D['ng'] * float(sg_req) * nsc).max(axis=1)))
            return {'tag': f'{E}.generate/reported-bias-is-not-the-applied-bias', 'observed': corrected[i],
                    'expected': unit * av[i] + D['ng'][i] * float(sg_req) * nsc, 'note': f'row {i}'}
    # ---- integrating the bias-corrected, noise-free gyroscope from the first attitude reproduces the trajectory
    if sg_req is not None and float(sg_req) == 0.0:
        th = np.array([_qangle(qs[t - 1], qs[t]) for t in range(1, n)])
        smooth = (given and inp['traj'] not in ('random-unit', 'int-axes') and not inp.get('flip')) or (not given and n >= 100)
        if th.size and th.max() <= 2.5 and smooth:
            # consecutive attitudes less than 2.5 rad apart: the reported quaternions must not jump to the antipodal
            # representative, because angular_velocities is NOT sign-robust (vec(q* (-q')) = -vec(q* q')): the gyroscope
            # would be minus the rate of the attitudes.  The unchanged tree satisfies sign continuity of the reported
            # quaternions on the random route (half-angle quaternions of continuous, unwrapped angles) and for given
            # trajectories that are sign-continuous themselves.
            dots = np.einsum('ij,ij->i', qs[:-1], qs[1:])
            t = int(np.argmin(dots))
            if dots[t] < 0.0:
                wrob = -2.0 / dt * cm.qmul(cm.qconj(qs[t]), qs[t + 1])[1:]
                return {'tag': f'{E}.gyroscopes/minus-the-rate-of-the-attitudes-at-a-quaternion-sign-jump', 'observed': corrected[t + 1] / unit,
                        'expected': wrob, 'note': f'samples {t}->{t + 1} of {n}: q.q\' = {dots[t]:.4g} although the attitudes are {th[t]:.3g} rad apart'}
        if th.size and th.max() <= 1.0 and not inp.get('flip'):     # sign jumps: the quaternion curve has no bounded rate
            est = ahrs.filters.AngularRate(gyr=corrected / unit, q0=qs[0].copy(), frequency=float(freq))
            Qh = np.asarray(est.Q, float)
            bound = np.concatenate([[0.0], np.cumsum(th ** 3 / 24.0)])
            for t in range(n):
                dist = _qangle(Qh[t], qs[t])
                if dist > bound[t] * (1 + 1e-6) + 2e-7:
                    return {'tag': f'{E}+AngularRate/re-integration-leaves-the-trajectory', 'observed': dist, 'expected': f'<= {bound[t]}',
                            'note': f'sample {t} of {n}; max step angle {th.max():.4g} rad'}
    return pending


# how every keyword of Sensors(...) is exercised.  The constructor takes **kwargs, so the list is enumerated from
# inspect.signature(Sensors.__init__) plus every key the class body reads from `kwargs` (ast); a key that is read by the
# code and is not in this table is reported as a broken obligation (kind 'coverage'), never silently skipped.
KEYWORDS = {
    'quaternions': "given route; search: 7 trajectory families x array/list/QuaternionArray/unnormalised/float32/int forms; traced symbolically (3 generic rows)",
    'num_samples': "random route; search: 13 fixed sizes 10..128 + random 10..400; the traced random-route targets use 3 rows (random_angpos stubbed)",
    'freq': "both routes; search: 1, 10, 50, 100 (float and int), 200 Hz with the ang_vel and re-integration clauses; traced at 100, 50, 333 Hz",
    'in_degrees': "both routes; search: False/True/absent x every other option; traced False and True",
    'normalized_mag': "both routes; search: False/True/absent; traced False and True",
    'reference_gravitational_vector': "both routes; search: default / random float array / list of ints; traced symbolically",
    'reference_magnetic_vector': "both routes; search: default / random float array / list of ints / (0.5,0.5,0.5); traced symbolically",
    'gyr_noise': "both routes; search: 0, 0.3, 1, 2, default (3-vector); traced symbolically",
    'acc_noise': "both routes; search: 0, 0.05, default; traced symbolically",
    'mag_noise': "both routes; search: 0, 40, 3e5, 1e6, default; traced symbolically",
    'span': "random route (ignored by the given route, where it is passed as a no-op); search: absent, (0,pi/2), [-pi/2,pi/2], (-0.3,0.3), "
            "wide spans crossing +-pi / more than one turn (-2pi,2pi), (-3pi,3pi), (pi/2,3pi), (-pi,2.5pi) on N >= 400 with in_degrees both ways, "
            "(-pi,pi) with every clause incl. ang_vel-vs-quaternions and re-integration; clause: ang_pos inside hull(span, 0)",
    'yaw': "random route (no-op on the given route); search: absent, 0.0, 37.5, -120.0, 90 (int) with every clause incl. "
           "ang_vel-vs-reported-quaternions and re-integration; clause: ang_pos[:,2] = yaw*DEG2RAD; traced symbolically: C20_rand_yaw",
}
_NOT_KEYWORDS = {'self', 'kwargs'}


def constructor_keywords():
    """every keyword Sensors(...) understands: named parameters + keys read from **kwargs anywhere in the class"""
    import ast, inspect, textwrap
    M = _mod()
    names = [p for p in inspect.signature(M.Sensors.__init__).parameters if p not in _NOT_KEYWORDS]
    tree = ast.parse(textwrap.dedent(inspect.getsource(M.Sensors)))
    for node in ast.walk(tree):
        key = None
        if isinstance(node, ast.Call) and isinstance(node.func, ast.Attribute) and node.func.attr in ('get', 'pop', 'setdefault') \
                and isinstance(node.func.value, ast.Name) and node.func.value.id == 'kwargs' and node.args:
            key = node.args[0]
        elif isinstance(node, ast.Subscript) and isinstance(node.value, ast.Name) and node.value.id == 'kwargs':
            key = node.slice
        elif isinstance(node, ast.Compare) and len(node.comparators) == 1 and isinstance(node.comparators[0], ast.Name) \
                and node.comparators[0].id == 'kwargs' and isinstance(node.ops[0], (ast.In, ast.NotIn)):
            key = node.left
        if isinstance(key, ast.Constant) and isinstance(key.value, str) and key.value not in names:
            names.append(key.value)
    return names


def keyword_coverage(ctx):
    found = constructor_keywords()
    missing = [k for k in found if k not in KEYWORDS]
    ctx.targets_meta['_constructor_keywords'] = {'found': found, 'covered': {k: KEYWORDS[k] for k in found if k in KEYWORDS},
                                                 'not_exercised': missing}
    for k in missing:
        ctx.broken.append({'kind': 'coverage', 'target': 'Sensors.__init__',
                           'error': f"constructor keyword '{k}' is read by the code but exercised by no oracle of C20"})
        ctx.say(f"[keywords] Sensors(...) understands '{k}', which no C20 oracle exercises")
    ctx.say(f"[keywords] Sensors(...): {len(found)} keywords enumerated from the signature and the kwargs reads, {len(found) - len(missing)} exercised")


ORACLES = {'sensors': o_sensors}
WITNESS_MAG0 = {'kind': 'given', 'traj': 'stationary', 'n': 10, 'tseed': 1, 'seed': 7, 'sg': 0.0, 'sa': 0.0, 'sm': 0.0,
                'in_degrees': False, 'normalized_mag': False}


def sens_call(inp):
    from vlib.core import call_outcome
    r = call_outcome(o_sensors, inp)
    if r[0] == 'raise':
        return {'tag': f"Sensors/raises-{r[1]}", 'observed': list(r[1:])}
    return r[1]


def search(ctx, scale):
    """every attribute of a case is drawn independently (seeded), so that no option, size or noise pattern is tied to
    another one; the first cases enumerate sizes x zero-noise settings exhaustively"""
    r = ctx.rng
    if hasattr(ctx, 'broken'):
        keyword_coverage(ctx)
    sizes = [10, 11, 12, 13, 16, 20, 25, 32, 50, 51, 64, 100, 128]
    trajs = ['const-axis', 'smooth', 'stationary', 'pause-then-turn', 'from-identity', 'random-unit', 'int-axes']
    levels = [(0.0, 0.0, 0.0), (0.0, 0.0, 1e6), (0.3, 0.05, 0.0), (0.0, 0.05, 40.0), (2.0, 0.0, 3e5), (0.0, 0.0, 0.0), (0.0, 0.0, 0.0)]
    pick = lambda xs: xs[int(r.integers(0, len(xs)))]

    def given(n, lv, deg, nrm, traj):
        inp = {'kind': 'given', 'traj': traj, 'n': int(n), 'tseed': int(r.integers(1, 2**31)), 'seed': int(r.integers(1, 2**31)),
               'theta': float(pick([0.002, 0.05, 0.3, 0.9])), 'freq': pick([100.0, 50.0, 10.0, 200.0, 1.0, 100]),
               'sg': lv[0], 'sa': lv[1], 'sm': lv[2], 'in_degrees': deg, 'normalized_mag': nrm,
               'qform': pick(['array', 'list', 'QuaternionArray', 'scaled', 'float32']), 'flip': bool(r.integers(0, 5) == 0),
               'twice': bool(r.integers(0, 6) == 0)}
        if r.integers(0, 3) == 0:
            inp['mref'] = (r.standard_normal(3) * 10 ** r.uniform(-1, 4)).tolist()
            inp['gref'] = (r.standard_normal(3) * 9.8).tolist()
        if r.integers(0, 8) == 0:
            inp['mref'] = [int(x) for x in r.integers(-40000, 40000, 3)]; inp['gref'] = [0, 0, 10]; inp['ref_as_list'] = True
        if r.integers(0, 12) == 0:
            inp['mref'] = [0.5, 0.5, 0.5]; inp['sm'] = 0.0; inp['traj'] = 'stationary'    # ptp(magnetometers) = 0
        if r.integers(0, 5) == 0:                     # random-route keywords must be no-ops here
            inp['yaw'] = pick([0.0, 45.0]); inp['span'] = [0.0, 1.0]
        ctx.check('sensors', inp, sens_call(inp),
                  nontrivial_key=None if inp['traj'] == 'stationary' else ('given', inp['traj'], deg, nrm, inp['seed']))

    yaws = [None, None, 0.0, 37.5, -120.0, 90]
    spans = [None, None, [0.0, math.pi / 2], [-math.pi / 2, math.pi / 2], [-0.3, 0.3], [-math.pi, math.pi]]

    def rand(n, lv, deg, nrm, yaw='pick', span='pick'):
        inp = {'kind': 'random', 'n': int(n), 'seed': int(r.integers(1, 2**31)), 'freq': pick([100.0, 50.0, 100.0, 200.0, 10.0, 100]),
               'sg': lv[0], 'sa': lv[1], 'sm': lv[2], 'in_degrees': deg, 'normalized_mag': nrm, 'twice': bool(r.integers(0, 6) == 0),
               'yaw': pick(yaws) if yaw == 'pick' else yaw, 'span': pick(spans) if span == 'pick' else span,
               'span_as_tuple': bool(r.integers(0, 2))}
        if r.integers(0, 3) == 0:
            inp['mref'] = (r.standard_normal(3) * 10 ** r.uniform(-1, 4)).tolist()
            inp['gref'] = (r.standard_normal(3) * 9.8).tolist()
            inp['ref_as_list'] = bool(r.integers(0, 4) == 0)
        ctx.check('sensors', inp, sens_call(inp), nontrivial_key=('random', deg, nrm, inp['seed']))

    for n in sizes:                                   # exhaustive: size x units x normalisation at zero noise
        for deg in (False, True):
            for nrm in (False, True):
                given(n, (0.0, 0.0, 1e6 if nrm else 0.0), deg, nrm, pick(trajs[:2]))
                rand(n, (0.0, 0.0, 1e6), deg, nrm)
    for yaw in yaws[2:]:                              # exhaustive: yaw x span x units on the random route, noise-free gyro
        for span in spans[1:]:
            for deg in (False, True):
                rand(pick([51, 64, 100, 128, 200]), (0.0, 0.0, 1e6), deg, pick([False, True]), yaw=yaw, span=span)
    # unit systems: magnetic reference in tesla / gauss / nT, gravity in g / m s^-2, noise levels over 15 decades in those
    # units (at least 1e-9 of the reference so that it is far above the rounding of the sample): the spread of
    # sample - R^T ref must be the requested level - exactly zero only for level 0
    munits = [('tesla', 1e-9), ('gauss', 1e-5), ('nT', 1.0)]
    gunits = [('g', 1.0 / 9.80665), ('m/s2', 1.0)]
    M = _mod()

    def unit_case(route):
        mu, gu = pick(munits), pick(gunits)
        mref = (np.asarray(M.REFERENCE_MAGNETIC_VECTOR, float) if r.integers(0, 2) else r.standard_normal(3) * 3e4) * mu[1]
        gref = np.array([0.0, 0.0, 9.80665]) * gu[1] if r.integers(0, 2) else r.standard_normal(3) * 9.8 * gu[1]
        def level(ref):
            nr = float(np.linalg.norm(ref))
            lv = float(10 ** r.uniform(-12, 3)) if r.integers(0, 2) else nr * float(10 ** r.uniform(-8.5, 1))
            return max(lv, 1e-9 * nr)
        sm, sa = level(mref), level(gref)
        if r.integers(0, 6) == 0:
            sm = 0.0
        if r.integers(0, 6) == 0:
            sa = 0.0
        sg = pick([0.0, 1e-9, 1e-6, 1e-3, 0.5])
        common = {'sg': sg, 'sa': sa, 'sm': sm, 'in_degrees': pick([False, True]), 'normalized_mag': bool(r.integers(0, 4) == 0),
                  'mref': mref.tolist(), 'gref': gref.tolist(), 'units': [mu[0], gu[0]], 'seed': int(r.integers(1, 2**31)),
                  'freq': pick([100.0, 50.0])}
        if route == 'given':
            inp = {'kind': 'given', 'traj': pick(['const-axis', 'smooth', 'stationary']), 'n': int(pick([64, 200, 400])),
                   'tseed': int(r.integers(1, 2**31)), 'theta': 0.05, **common}
        else:
            inp = {'kind': 'random', 'n': int(pick([200, 400])), **common}
        ctx.check('sensors', inp, sens_call(inp), nontrivial_key=(route, 'units', inp['seed']))

    for _ in range(30 * scale):
        unit_case('given'); unit_case('random')
    # spans that make the angles cross +-pi and exceed one turn, on records long enough for crossings to occur, noise-free gyro
    wide = [[-2 * math.pi, 2 * math.pi], [-3 * math.pi, 3 * math.pi], [math.pi / 2, 3 * math.pi], [-math.pi, 2.5 * math.pi]]
    for k in range(12 * scale):
        rand(pick([400, 500, 800]), (0.0, pick([0.0, 0.05]), 1e6), pick([False, True]), pick([False, True]),
             yaw=None if k % 4 else 30.0, span=wide[k % len(wide)])
    for _ in range(300 * scale):
        n = pick(sizes) if r.integers(0, 4) else int(r.integers(10, 300))
        given(n, pick(levels), pick([False, True]), pick([False, True]), pick(trajs))
    rlevels = [(0.0, 0.0, 0.0), (0.0, 0.0, 1e6), (None, None, None), (0.0, 0.05, 1e6), (1.0, 0.0, 0.0), (0.0, None, 3e5), (0.0, 0.0, 1e6)]
    for _ in range(120 * scale):
        n = pick(sizes) if r.integers(0, 4) else int(r.integers(10, 400))
        rand(n, pick(rlevels), pick([False, True, None]), pick([False, True, None]))
    ctx.samples.append({'kind': 'search', 'oracle': 'sensors', 'input': WITNESS_MAG0})


STAGES = _stages()
# thorough tier only: the other traced sampling rates (20-55 s per file)
STAGES_THOROUGH = [['C20_gyro_rad_50.v', 'C20_gyro_rad_333.v', 'C20_gyro_deg_333.v', 'C20_randfull.v'], ['C20_thorough.v']]
