"""C20 — synthetic sensor data agree with their own ground truth (ahrs.utils.sensors.Sensors)."""
import math
import numpy as np
from pysym.gen import Target
from . import common as cm

PID = 'C20'
N = 3                                     # rows of the regenerated generic trajectory
QR = [[f'q{i}{c}' for c in 'wxyz'] for i in range(N)]
QN = [n for r in QR for n in r]
AR = [[f'{c}{i}' for c in ('ro', 'pi', 'ya')] for i in range(N)]   # roll, pitch, yaw of row i
AN = [n for r in AR for n in r]
G, MREF, U = ['g0', 'g1', 'g2'], ['m0', 'm1', 'm2'], ['u0', 'u1', 'u2']
DRAW = {k: [f'{k}{i}{j}' for i in range(N) for j in range(3)] for k in ('ng', 'na', 'nm', 'nd', 'ne')}
SIG = ['sg', 'sa', 'sm']
ALL_DRAWS = U + DRAW['ng'] + DRAW['na'] + DRAW['nm'] + DRAW['nd'] + DRAW['ne']
TAG_MAG0 = 'Sensors.generate/mag-zero-noise-overridden'

LEVEL_TEXT = ("Coq theorems over the regenerated model of the whole Sensors(...) construction (constructor + generate(), the "
              "module-level random generator replaced by a stream of symbolic draws) for a generic three-row trajectory, both "
              "trajectory sources (given quaternions / roll-pitch-yaw angles), both gyroscope units and the normalised "
              "magnetometer option; gyro re-integration is explored numerically against the proved per-step truncation bound")
TECHNIQUE = "pysym regeneration with symbolic RNG draws + ring/field proofs modulo unit-norm hypotheses + seeded float correspondence + search oracle"
RULE = ("trajectories of 10..60 samples: given quaternion trajectories of bounded rate (constant-axis, smooth random-axis, "
        "stationary, near half-turn steps) and random ones (num_samples), all 8 combinations of zero/non-zero noise levels, "
        "degrees/radians, normalised magnetometer on/off, default and custom reference vectors; a case is non-trivial when "
        "the trajectory is not stationary; distinct = distinct (kind, settings, seed)")
TRUSTED = [
    "Coq 8.16.1 kernel and vm_compute (used only to run the float copies)",
    "pysym tracing translator (/verif/tools/pysym): NumPy proxy semantics incl. the C20 addition np.ptp -> Rmax/Rmin fold, Gallina printer",
    "the stream stub standing for ahrs.utils.sensors.GENERATOR in the traced private copy (random(3), standard_normal((N,3)) x5 in "
    "call order) - validated on every run by the seeded correspondence with the real numpy Generator",
    "random_angpos as an external source of N-by-3 angle arrays (stubbed in the trace; exercised by the search oracle)",
    "real arithmetic stands for binary64 (gap measured by the correspondence, not proved)",
    "stdlib real-number axioms; Classical_Prop.classic where stdlib trigonometry uses it",
]
PARTIAL = ("theorems are for a generic 3-row trajectory at freq 100 Hz (each row of the outputs depends on its own and the "
           "previous quaternion row only; ptp couples rows only through the bias scale and the magnetometer-noise gate): "
           "uniformity in N, other frequencies and 'integrating the gyro reproduces the trajectory' are explored by the "
           "search oracle at N >= 10 against the proved per-step bound, not proved for all N")


class StubGen:
    """stands for the module-level numpy Generator inside the traced private copy: the draws are symbolic inputs, named
    in call order (bias: random(3); then gyr, acc, mag, mag_nd, mag_enu noise: standard_normal((N,3)))"""
    def __init__(self):
        self.k = 0

    def random(self, n):
        from pysym import symnp
        from pysym.sym import S, Unsupported
        if n != 3:
            raise Unsupported(f"GENERATOR.random({n})")
        return symnp.array([S.var(x) for x in U])

    def standard_normal(self, shape):
        from pysym import symnp
        from pysym.sym import S, Unsupported
        key = ('ng', 'na', 'nm', 'nd', 'ne')[self.k] if self.k < 5 else None
        self.k += 1
        if key is None or tuple(shape) != (N, 3):
            raise Unsupported(f"GENERATOR.standard_normal({shape}) call #{self.k}")
        return symnp.array([[S.var(f'{key}{i}{j}') for j in range(3)] for i in range(N)])

    def __getattr__(self, name):
        from pysym.sym import Unsupported
        raise Unsupported(f"GENERATOR.{name} inside a symbolic trace")


def _sensors(A, v, given=True, **kw):
    M = A.utils.sensors
    M.GENERATOR = StubGen()
    kw.setdefault('gyr_noise', v['sg']); kw.setdefault('acc_noise', v['sa']); kw.setdefault('mag_noise', v['sm'])
    kw.setdefault('reference_gravitational_vector', v.vec(*G))
    kw.setdefault('reference_magnetic_vector', v.vec(*MREF))
    if given:
        return M.Sensors(quaternions=v.mat(QR), freq=100.0, **kw)
    saved = M.random_angpos
    M.random_angpos = lambda **k: v.mat(AR)
    try:
        return M.Sensors(num_samples=N, freq=100.0, **kw)
    finally:
        M.random_angpos = saved


def targets():
    mk = lambda n, i, f, doc='': Target(f'C20_{n}', i, f, doc=doc)
    gin = QN + ['sg', 'sm'] + MREF + U + DRAW['ng']
    return [
        mk('acc', QN + G + MREF + ['sa', 'sm'] + DRAW['na'], lambda A, v: _sensors(A, v).accelerometers,
           'Sensors(quaternions=Q, ...).accelerometers'),
        mk('mag', QN + MREF + ['sm'] + DRAW['nm'], lambda A, v: (lambda s: [s.magnetometers, s.mag_noise])(_sensors(A, v)),
           '[.magnetometers, .mag_noise] (mag_noise is the attribute reported after generate())'),
        mk('mag_norm', QN + MREF + ['sm'] + DRAW['nm'],
           lambda A, v: (lambda s: [s.magnetometers, s.mag_noise])(_sensors(A, v, normalized_mag=True)), 'normalized_mag=True'),
        mk('gyro_rad', gin, lambda A, v: (lambda s: [s.gyroscopes, s.biases_gyroscopes, s.ang_vel])(_sensors(A, v, in_degrees=False)),
           '[.gyroscopes, .biases_gyroscopes, .ang_vel], radians'),
        mk('gyro_deg', gin, lambda A, v: (lambda s: [s.gyroscopes, s.biases_gyroscopes, s.ang_vel])(_sensors(A, v, in_degrees=True)),
           '[.gyroscopes, .biases_gyroscopes, .ang_vel], degrees'),
        mk('repr', QN + MREF + ['sm'], lambda A, v: (lambda s: [np.asarray(s.quaternions), s.rotations, s.ang_pos])(_sensors(A, v)),
           '[.quaternions, .rotations, .ang_pos] for a given trajectory'),
        mk('rand_acc', AN + G + MREF + ['sa', 'sm'] + DRAW['na'], lambda A, v: _sensors(A, v, given=False).accelerometers,
           'Sensors(num_samples=3) with random_angpos -> symbolic angles: .accelerometers'),
        mk('rand_repr', AN + MREF + ['sm'],
           lambda A, v: (lambda s: [np.asarray(s.quaternions), s.rotations, s.ang_pos, s.ang_vel])(_sensors(A, v, given=False)),
           '[.quaternions, .rotations, .ang_pos, .ang_vel] for the angle-generated trajectory'),
    ]


STAGES = []
ORACLES = {}


def correspondence(ctx):
    pass


def search(ctx, scale):
    pass
