"""C14 — WMM output equals the spherical-harmonic synthesis of the shipped coefficients."""
import os, math, re, subprocess, datetime
from fractions import Fraction as Fr
import numpy as np
from pysym.gen import Target
from vlib.core import call_outcome, VERIF, COQLIB, COQMODEL

PID = 'C14'
REPO = os.environ.get('AHRS_REPO', '/repo')
NMAX = 12
YEARS = (2015, 2020, 2025)
GEN_DATES = {2017: 2017.3, 2022: 2022.5, 2027: 2027.8}     # one regenerated whole-pipeline term per coefficient file

LEVEL_TEXT = ("Coq theorems over the hand model of ahrs/utils/wmm.py (generic in the number type; float instance run against the "
              "implementation on every check): the code's S[m,n]*P[m,n] and S[m,n]*dP[m,n] equal the Schmidt semi-normalised "
              "associated Legendre functions of the explicit Rodrigues formula and their latitude derivative for all n<=12, m<=n "
              "and all latitudes (decided by polynomial normal forms over Q, vm_compute reflection), hence X',Y',Z' and X,Y,Z "
              "equal the degree-12 synthesis sums for every coefficient table, date offset and position with cos(phi')<>0; "
              "packing round-trip, multiple-angle recursion, epoch selection; data regenerated from the shipped COF files")
LEVEL_NOTE = ("the polar branch (cos phi' == 0 exactly) is unreachable in binary64 and not covered by the synthesis theorem; "
              "np.genfromtxt parsing and libm are covered by correspondence only")
TECHNIQUE = "hand model + reflection (Poly over Q) + pysym whole-pipeline terms for float correspondence + independent NumPy series"
RULE = ("lat in [-90,90] incl. the poles and 90-1e-3..1e-12, lon in [-180,180] incl. the ends, h in [-1,850] km incl. the ends, "
        "dates on the 0.1-year grid 2015.0..2030.0 incl. 2020.0 and 2025.0 and off-grid dates next to them; every point also through "
        "the other documented entry forms (constructor, height omitted on fresh/reused objects, positional, keyword, int/date dates); the official test "
        "tables; a case is non-trivial when the field is non-zero (always); distinct = distinct rounded input")
TRUSTED = ["Coq 8.16.1 kernel; vm_compute (polynomial normal forms over Q; the float copies)",
           "hand model coq/model/C14_wmm.v tied to wmm.py by the float correspondence (bit-faithful operation order, "
           "measured <= 1e-12 relative)", "pysym tracing translator for the regenerated whole-pipeline and geodetic2spherical terms",
           "stdlib real-number axioms; real arithmetic stands for binary64 (measured by correspondence)",
           "np.genfromtxt and libm sin/cos/arcsin/pow (correspondence only)"]
PARTIAL = ("synthesis theorem holds under cos(phi') <> 0; the code's polar branch is dead in binary64 (cos never returns 0) and is "
           "not proved equal to the limit; the whole-pipeline regenerated terms are tied by float correspondence, the theorems "
           "are about the hand model")
COQ_TIMEOUT = 600


# ------------------------------------------------------------------------------------------------
# shipped data -> gen/C14data.v (exact decimal rationals; the float tables are derived from them in Coq)
# ------------------------------------------------------------------------------------------------
def parse_cof(path):
    """independent of np.genfromtxt: header `epoch name date`, rows `n m g h gd hd`, terminated by a 9999... line"""
    lines = open(path).read().split('\n')
    head = lines[0].split()
    rows = []
    for ln in lines[1:]:
        tk = ln.split()
        if not tk:
            continue
        if tk[0].startswith('999999'):
            break
        rows.append((int(tk[0]), int(tk[1])) + tuple(Fr(x) for x in tk[2:6]))
    return Fr(head[0]), head[1], rows


_FILES = {}


def files():
    if not _FILES:
        for y in YEARS:
            _FILES[y] = parse_cof(os.path.join(REPO, 'ahrs', 'utils', f'WMM{y}', 'WMM.COF'))
    return _FILES


def _q(f):
    return f"({f.numerator} # {f.denominator})%Q"


def data_v():
    out = ["(* GENERATED on every run from <repo>/ahrs/utils/WMM*/WMM.COF — do not edit. *)",
           "From Coq Require Import List ZArith QArith.", "From AhrsModel Require Import C14_wmm.",
           "Import ListNotations.", "Close Scope Q_scope."]
    for y, (t0, name, rows) in files().items():
        out.append(f"Definition wmm{y}_t0 : Q := {_q(t0)}.")
        out.append(f"Definition wmm{y} : list (row Q) := [\n  " +
                   ";\n  ".join(f"mkRow {n} {m} {_q(g)} {_q(h)} {_q(gd)} {_q(hd)}" for n, m, g, h, gd, hd in rows) + "].")
    return '\n'.join(out) + '\n'


def _fresh_vo(ctx, path, extra=()):
    vo = path[:-2] + '.vo'
    if not os.path.exists(vo) or os.path.getmtime(vo) < os.path.getmtime(path):
        p = subprocess.run(['coqc', '-Q', COQLIB, 'AhrsLib', '-Q', COQMODEL, 'AhrsModel', path], capture_output=True, text=True)
        if p.returncode != 0:
            ctx.broken.append({'kind': 'proof', 'file': os.path.basename(path), 'error': 'library file does not compile',
                               'detail': p.stderr[-1500:]})
            ctx.say(f"[coq] {path} does not compile:\n{p.stderr[-800:]}")


def _ssa(t):
    """the DAG of a single-path regenerated target as a straight-line program over the atoms sin(x), cos(x) (same argument x):
    -> (Coq text of the instruction list, output indices, Gallina text of x).  Anything else raises."""
    from pysym import emit
    from pysym.sym import S, Leaf
    if not isinstance(t.tree, Leaf) or t.tree.kind != 'val':
        raise ValueError('target has more than one path')
    P = emit.Printer('R')
    idx, prog, arg = {}, [], [None]

    def q(f):
        return f"({f.numerator} # {f.denominator})%Q"

    def rec(e):
        if e.uid in idx:
            return idx[e.uid]
        op, a = e.op, e.args
        if op == 'const':
            ins = f"IC {q(a[0])}"
        elif op == 'fn' and a[0] in ('sin', 'cos') and len(a) == 2:
            txt = P.expr_raw(a[1])
            if arg[0] is None:
                arg[0] = txt
            elif arg[0] != txt:
                raise ValueError('sin/cos of two different arguments')
            ins = 'IA 0' if a[0] == 'sin' else 'IA 1'
        elif op in ('add', 'sub', 'mul'):
            i, j = rec(a[0]), rec(a[1])
            ins = f"{ {'add': 'IAdd', 'sub': 'ISub', 'mul': 'IMul'}[op] } {i} {j}"
        elif op == 'neg':
            ins = f"INeg {rec(a[0])}"
        elif op == 'pow':
            ins = f"IPow {rec(a[0])} {int(a[1])}"
        else:
            raise ValueError(f'node {op} {a[0] if op == "fn" else ""} is not polynomial in sin/cos')
        prog.append(ins)
        idx[e.uid] = len(prog) - 1
        return idx[e.uid]
    outs = [rec(e) for e in t.tree.flat]
    return '[' + ';\n  '.join(prog) + ']', outs, arg[0] or '0'


def prog_v(ctx):
    out = ["(* GENERATED on every run: the DAGs of the regenerated targets C14_legendre and C14_cpsp as straight-line programs. *)",
           "From Coq Require Import Reals List ZArith QArith.", "From AhrsModel Require Import C14_wmm.",
           "Import ListNotations.", "Close Scope Q_scope."]
    for name, var in (('C14_legendre', 'phi'), ('C14_cpsp', 'lon')):
        t = ctx.targets.get(name)
        if t is None or t.error:
            raise ValueError(f'{name} was not translated')
        prog, outs, arg = _ssa(t)
        out.append(f"Definition {name}_prog : list instr :=\n  {prog}.")
        out.append(f"Definition {name}_outs : list nat := [{'; '.join(map(str, outs))}].")
        out.append(f"Definition {name}_arg ({var} : R) : R := ({arg})%R.")
    return '\n'.join(out) + '\n'


def pregen(ctx):
    _fresh_vo(ctx, os.path.join(COQLIB, 'SphHarm.v'))
    _fresh_vo(ctx, os.path.join(COQMODEL, 'C14_wmm.v'))
    fn = os.path.join(ctx.build, 'gen', 'C14data.v')
    with open(fn, 'w') as fh:
        fh.write(data_v())
    r = ctx.coqc(fn)
    if r['rc'] != 0:
        ctx.broken.append({'kind': 'translation', 'target': 'C14data', 'error': 'data file does not compile', 'detail': r['err'][-1500:]})
        ctx.say(f"[gen] C14data.v does not compile:\n{r['err'][-800:]}")
    else:
        ctx.say(f"[gen] C14data.v: {sum(len(v[2]) for v in files().values())} coefficient rows of {len(files())} files")
    try:
        fn = os.path.join(ctx.build, 'gen', 'C14prog.v')
        with open(fn, 'w') as fh:
            fh.write(prog_v(ctx))
        r = ctx.coqc(fn)
        if r['rc'] != 0:
            raise ValueError('C14prog.v does not compile: ' + r['err'][-600:])
    except Exception as e:
        ctx.broken.append({'kind': 'translation', 'target': 'C14prog', 'error': f'{type(e).__name__}: {e}'})
        ctx.say(f"[gen] C14prog.v not written: {e}")
    ctx.targets_meta['C14data'] = {'tie': 'regenerated-data', 'rows': {str(y): len(v[2]) for y, v in files().items()}}
    ctx.targets_meta['C14_wmm (hand model)'] = {'tie': 'hand+correspondence'}


# ------------------------------------------------------------------------------------------------
# regenerated terms
# ------------------------------------------------------------------------------------------------
def _field(date):
    def f(A, v):
        w = A.utils.wmm.WMM(date=date, latitude=0.0, longitude=0.0)
        w.magnetic_field(v.lat, v.lon, v.h, date=date)
        return [w.X, w.Y, w.Z]
    return f


def _legendre(A, v):
    w = A.utils.wmm.WMM(date=2022.5, latitude=0.0, longitude=0.0)
    w.load_coefficients(w.wmm_filename)
    w.denormalize_coefficients(v.phi)
    return [[w.P[m, n] for n in range(NMAX + 1) for m in range(n + 1)],
            [w.dP[m, n] for n in range(NMAX + 1) for m in range(n + 1)]]


def _cpsp(A, v):
    w = A.utils.wmm.WMM(date=2022.5, latitude=0.0, longitude=0.0)
    w.magnetic_field(0.0, v.lon, 0.0, date=2022.5)
    return [[w.cp[m] for m in range(NMAX + 1)], [w.sp[m] for m in range(NMAX + 1)]]


def targets():
    ts = [Target(f'C14_field_{k}', ['lat', 'lon', 'h'], _field(d),
                 doc=f'WMM().magnetic_field(lat, lon, h, date={d}) then X, Y, Z (degrees, km)') for k, d in GEN_DATES.items()]
    ts.append(Target('C14_g2s', ['lat', 'lon', 'h'], lambda A, v: A.utils.wmm.geodetic2spherical(v.lat, v.lon, v.h),
                     doc='geodetic2spherical(lat, lon, h) (radians, km)'))
    ts.append(Target('C14_cpsp', ['lon'], _cpsp, doc='cp[m], sp[m] (m <= 12) left by magnetic_field(0, lon, 0, date=2022.5), lon in degrees'))
    ts.append(Target('C14_legendre', ['phi'], _legendre,
                     doc='P[m,n], dP[m,n] (n<=12, m<=n, row-major in n) after denormalize_coefficients(phi)'))
    return ts


STAGES = [['C14_poly.v', 'C14_data.v'], ['C14_synth.v', 'C14_ssa.v'], ['C14_tie.v', 'C14_polar.v'], ['C14.v']]


# ------------------------------------------------------------------------------------------------
# implementation entry points
# ------------------------------------------------------------------------------------------------
FORMS = ('method', 'ctor', 'ctor-pos', 'noheight', 'noheight-reused', 'positional', 'keyword', 'bare')


def impl_field(lat, lon, h, date, frame='NED', prev=None, form='method', full=False):
    """the documented ways of asking for the field at (date, lat, lon, h); every call carries an explicit date.
    method          WMM(date, 0, 0).magnetic_field(lat, lon, h, date=date)           (after `prev`, if given)
    ctor / ctor-pos WMM(date=, latitude=, longitude=, height=, frame=) / the same positionally, then .X .Y .Z
    noheight        fresh WMM(date=date).magnetic_field(lat, lon, date=date): documented default height 0
    noheight-reused the same after a call at another height on the same object (`prev`, or 600 km)
    positional      WMM().magnetic_field(lat, lon, h, date)   (date positional, object built with no argument)
    keyword         magnetic_field(latitude=, longitude=, height=, date=)
    bare            WMM() (today's date, Munich) then magnetic_field(lat, lon, h, date=date)
    Returns X, Y, Z (with full=True also a description of what else the object reports inconsistently: .magnetic_elements,
    .geodetic_vector, the stored position)."""
    from ahrs.utils.wmm import WMM
    hh = h
    if form == 'ctor':
        w = WMM(date=date, latitude=lat, longitude=lon, height=h, frame=frame)
    elif form == 'ctor-pos':
        w = WMM(date, lat, lon, h, frame)
    elif form in ('noheight', 'noheight-reused'):
        w = WMM(date=date, frame=frame)
        if form == 'noheight-reused':
            pv = prev if prev is not None else [lat, lon, 600.0, date]
            w.magnetic_field(pv[0], pv[1], pv[2] if pv[2] else 600.0, date=pv[3])
        w.magnetic_field(lat, lon, date=date)
        hh = 0.0
    elif form == 'positional':
        w = WMM(frame=frame) if frame != 'NED' else WMM()
        w.magnetic_field(lat, lon, h, date)
    elif form == 'keyword':
        w = WMM(date=date, latitude=0.0, longitude=0.0, frame=frame)
        w.magnetic_field(latitude=lat, longitude=lon, height=h, date=date)
    elif form == 'bare':
        w = WMM(frame=frame) if frame != 'NED' else WMM()
        w.magnetic_field(lat, lon, h, date=date)
    else:
        w = WMM(date=date, latitude=0.0, longitude=0.0, frame=frame)
        if prev is not None:
            w.magnetic_field(prev[0], prev[1], prev[2], date=prev[3])
        w.magnetic_field(lat, lon, h, date=date)
    out = np.array([w.X, w.Y, w.Z], dtype=float)
    me = w.magnetic_elements
    note = None
    if [me['X'], me['Y'], me['Z']] != [w.X, w.Y, w.Z] or list(w.geodetic_vector) != [w.X, w.Y, w.Z]:
        note = 'magnetic_elements / geodetic_vector differ from X, Y, Z'
    elif float(w.height) != float(hh) or float(w.latitude) != float(lat) or float(w.longitude) != float(lon):
        note = f'object reports position ({w.latitude}, {w.longitude}, {w.height}), asked for ({lat}, {lon}, {hh})'
    return (out, note) if full else out


def _hx(x):
    x = float(x)
    if x != x or x in (math.inf, -math.inf):
        return '(0/0)%float'
    if x == 0:
        return '0%float' if math.copysign(1, x) > 0 else '(-0)%float'
    h = float.hex(abs(x))
    return f"({h})%float" if x > 0 else f"(- {h})%float"


PRE_F = """From Coq Require Import List ZArith QArith. From Coq Require Import Uint63. From Coq Require Import PrimFloat.
From AhrsModel Require Import C14_wmm. From AhrsGen Require Import C14data.
Import ListNotations. Close Scope Q_scope.
Definition frow (r : row Q) : row float := mkRow (rn r) (rm r) (fQ (rg r)) (fQ (rh r)) (fQ (rgd r)) (fQ (rhd r)).
Definition tab (M : mat float) : list (list float) := map (fun i => map (fun j => M i j) (seq 0 14)) (seq 0 14).
Definition lk (t : list (list float)) (i j : nat) : float := nth j (nth i t nil) 0%float.
Definition tabs (rows : list (row Q)) := let '(c, cd) := load OpsF (map frow rows) in (tab c, tab cd).
Definition T2015 := Eval vm_compute in tabs wmm2015.
Definition T2020 := Eval vm_compute in tabs wmm2020.
Definition T2025 := Eval vm_compute in tabs wmm2025.
Definition t0s := Eval vm_compute in [fQ wmm2015_t0; fQ wmm2020_t0; fQ wmm2025_t0].
Definition run (date t s c sl cl ar cpsi spsi : float) :=
  let e := epoch_of_date PrimFloat.ltb (fZ 2020) (fZ 2025) date in
  let '(tc, tcd) := nth e [T2015; T2020; T2025] T2015 in
  let '(x, y, z) := core OpsF (lk tc) (lk tcd) (PrimFloat.sub t (nth e t0s 0%float)) s c sl cl ar cpsi spsi in
  [x; y; z].
""".split('\n')

_FNUM = re.compile(r'[-+]?(?:\d+\.?\d*(?:e[-+]?\d+)?|nan|infinity|neg_infinity)')


def _floats(txt):
    out = []
    for t in _FNUM.findall(txt.replace('%float', '')):
        out.append(float('nan') if t == 'nan' else float('inf') if t == 'infinity' else float('-inf') if t == 'neg_infinity' else float(t))
    return out


def model_inputs(lat, lon, h, date):
    """the trigonometric values the implementation feeds into its double loop, computed with the implementation's own
    public geodetic2spherical and NumPy (these are the oracle parameters of the float instance of the hand model)"""
    from ahrs.utils.wmm import geodetic2spherical
    from ahrs.common.constants import DEG2RAD, EARTH_MEAN_RADIUS
    latr, lonr = lat * DEG2RAD, lon * DEG2RAD
    lp, _, r = geodetic2spherical(latr, lonr, h)
    a = EARTH_MEAN_RADIUS / 1000.0
    return [float(date), round(float(date), 1), np.sin(lp), np.cos(lp), np.sin(lonr), np.cos(lonr), a / r,
            np.cos(lp - latr), np.sin(lp - latr)]


def gen_cases(rng, n):
    """(lat, lon, h, date) over the property's domain, thin regions first (poles, epoch boundaries, negative heights,
    longitudes 0/+-180, integer-typed arguments)"""
    grid = [round(2015.0 + 0.1 * k, 1) for k in range(151)]
    out = []
    U = lambda a, b: float(rng.uniform(a, b))
    edge_lat = [90.0, -90.0, 0.0, 90 - 1e-3, -90 + 1e-3, 90 - 1e-6, -90 + 1e-6, 90 - 1e-9, 90 - 1e-12, -90 + 1e-12, 55.0, -55.0, 45.0]
    edge_lon = [0.0, 180.0, -180.0, 90.0, -90.0, 11.575508]
    edge_h = [0.0, -1.0, 850.0, 100.0, -0.5]
    edge_date = [2015.0, 2019.9, 2020.0, 2020.1, 2024.9, 2025.0, 2025.1, 2030.0, 2017.5, 2022.5]
    k = 0
    for la in edge_lat:
        out.append((la, edge_lon[k % len(edge_lon)], edge_h[k % len(edge_h)], edge_date[k % len(edge_date)]))
        k += 1
    # the poles again, at generic longitudes / heights / every coefficient file
    for la in (90.0, -90.0):
        for d in (2016.4, 2020.0, 2027.9):
            out.append((la, U(-180, 180), U(-1, 850), d))
    for d in edge_date:
        out.append((U(-90, 90), U(-180, 180), U(-1, 850), d))
        out.append((U(-90, 90), edge_lon[k % len(edge_lon)], U(-1, 0), d))
        k += 1
    for lo in edge_lon:
        out.append((U(-90, 90), lo, U(-1, 850), grid[int(rng.integers(0, 151))]))
        out.append((U(-90, 90), lo, U(-1, 0), grid[int(rng.integers(0, 151))]))
    # integer-typed arguments (Python ints), incl. integer dates on the epoch boundaries
    for la, lo, hh, d in ((45, 90, 0, 2020), (-30, -180, 100, 2025), (0, 0, 0, 2015), (90, 0, 0, 2022), (-90, 180, 850, 2030),
                          (10, -20, -1, 2019), (60, 180, 5, 2024.9), (-45.5, 30, 12, 2020.0), (33, 77.7, 0, 2017.5)):
        out.append((la, lo, hh, d))
    # off-grid dates: the model is evaluated at round(date, 1), the file is chosen by the unrounded date
    for d in (2019.96, 2020.04, 2024.97, 2025.03, 2016.3141, 2029.77):
        out.append((U(-90, 90), U(-180, 180), U(-1, 850), d))
    base = len(out)
    while len(out) < n:
        lat = float(np.degrees(np.arcsin(rng.uniform(-1, 1)))) if rng.random() < 0.3 else U(-90, 90)
        h = U(-1, 0) if rng.random() < 0.1 else U(-1, 850)
        out.append((lat, U(-180, 180), h, grid[int(rng.integers(0, 151))]))
    return out[:max(n, base)]


def _corr_model(ctx, cases, label):
    """float instance of the hand model (vm_compute) vs WMM().magnetic_field"""
    exprs, ok = [], []
    for c in cases:
        v = model_inputs(*c)
        exprs.append('run ' + ' '.join(_hx(x) for x in v))
    outs = ctx.coq_eval(label, PRE_F, exprs)
    if outs is None:
        return
    worst = 0.0
    for c, o in zip(cases, outs):
        m = np.array(_floats(o))
        io = call_outcome(impl_field, *c)
        if io[0] == 'raise' or m.shape != (3,):
            ctx.disagree(label, dict(zip(('lat', 'lon', 'h', 'date'), c)), m, io[1:], 'implementation raised / model output malformed')
            continue
        a = io[1]
        sc = max(1.0, float(np.linalg.norm(a)))
        d = float(np.max(np.abs(a - m))) / sc if np.all(np.isfinite(m)) and np.all(np.isfinite(a)) else math.inf
        worst = max(worst, d)
        if d > 1e-11:
            ctx.disagree(label, dict(zip(('lat', 'lon', 'h', 'date'), c)), m, a, f'relative difference {d:.3g} > 1e-11')
        else:
            ctx.agree(label)
    st = ctx.corr_stats.setdefault(label, {'cases': 0, 'disagree': 0})
    st['max_rel'] = max(st.get('max_rel', 0.0), worst)
    ctx.say(f"[corr] {label}: {len(cases)} cases, {st['disagree']} disagreements, max relative difference {worst:.3g}")
    if len(ctx.samples) < 6:
        ctx.samples.append({'kind': 'correspondence', 'target': label, 'input': dict(zip(('lat', 'lon', 'h', 'date'), cases[-1])),
                            'model': _floats(outs[-1])})


def _corr_epoch(ctx):
    """date -> (file, t0): hand model on floats vs reset_date / get_properties"""
    from ahrs.utils.wmm import WMM
    dates = [2015.0, 2015.05, 2017.5, 2019.9, 2019.96, 2019.999999, 2020.0, 2020.000001, 2020.04, 2022.5, 2024.9, 2024.97,
             2024.999999, 2025.0, 2025.03, 2027.7, 2029.9, 2030.0, 2031.4, 2040.0]
    dates += [float(x) for x in np.round(ctx.rng.uniform(2015, 2032, ctx.n(20, 200)), 4)]
    exprs = [f"(epoch_of_date PrimFloat.ltb (fZ 2020) (fZ 2025) {_hx(d)}, nth (epoch_of_date PrimFloat.ltb (fZ 2020) (fZ 2025) {_hx(d)}) t0s 0%float)" for d in dates]
    outs = ctx.coq_eval('C14_epoch', PRE_F, exprs)
    if outs is None:
        return
    names = ['WMM2015/WMM.COF', 'WMM2020/WMM.COF', 'WMM2025/WMM.COF']
    for d, o in zip(dates, outs):
        mm = re.match(r'\((\d+), (.*)\)', o)
        e, t0 = int(mm.group(1)), _floats(mm.group(2))[0]
        io = call_outcome(lambda: (lambda w: [w.wmm_filename, float(w.epoch)])(WMM(date=d, latitude=0.0, longitude=0.0)))
        if io[0] == 'raise' or io[1] != [names[e], t0]:
            ctx.disagree('C14_epoch', {'date': d}, [names[e], t0], io[1:] if io[0] == 'raise' else io[1])
        else:
            ctx.agree('C14_epoch')
    ctx.say(f"[corr] C14_epoch: {len(dates)} dates, {ctx.corr_stats.get('C14_epoch', {}).get('disagree', 0)} disagreements")


def _corr_data(ctx):
    """gen/C14data.v (parsed here, independently of np.genfromtxt) vs the arrays load_coefficients builds: all three files,
    all 90 rows x 4 numbers each compared exactly, plus the complete 13x13 packed matrices (np.genfromtxt is input-free here,
    so this correspondence is exhaustive)"""
    from ahrs.utils.wmm import WMM
    for y, (t0, name, rows) in files().items():
        w = WMM(date=float(y) + 0.5, latitude=0.0, longitude=0.0)
        w.load_coefficients(w.wmm_filename)
        bad = None
        if float(w.epoch) != float(t0) or w.degree != NMAX or len(rows) != NMAX * (NMAX + 3) // 2:
            bad = ('header/degree', [float(w.epoch), w.degree, len(rows)])
        for n, m, g, h, gd, hd in rows:
            got = [w.c[m, n], w.cd[m, n]] + ([w.c[n, m - 1], w.cd[n, m - 1]] if m else [])
            exp = [float(g), float(gd)] + ([float(h), float(hd)] if m else [])
            if got != exp:
                bad = ((n, m), got, exp)
        # exhaustive: the whole packed matrices, not only the cells the rows name (nothing else may be written)
        ec, ecd = np.zeros((NMAX + 1, NMAX + 1)), np.zeros((NMAX + 1, NMAX + 1))
        for n, m, g, h, gd, hd in rows:
            ec[m, n], ecd[m, n] = float(g), float(gd)
            if m:
                ec[n, m - 1], ecd[n, m - 1] = float(h), float(hd)
        if not bad and not (np.array_equal(np.asarray(w.c, float), ec) and np.array_equal(np.asarray(w.cd, float), ecd)):
            bad = ('packed matrices differ', np.argwhere(np.asarray(w.c, float) != ec).tolist()[:5])
        if bad:
            ctx.disagree('C14_data', {'file': y}, bad, 'load_coefficients')
        else:
            ctx.agree('C14_data', len(rows))
    ctx.say(f"[corr] C14_data: 3 files, {ctx.corr_stats.get('C14_data', {}).get('disagree', 0)} disagreements")


def _corr_tables(ctx):
    """the objects of the centrepiece theorem: P[m,n], dP[m,n], S[m,n] of the float hand model vs the arrays
    denormalize_coefficients leaves behind (S is read off by setting every coefficient to 1)"""
    from ahrs.utils.wmm import WMM
    lats = [0.0, 90.0, -90.0, 45.0, -30.0, 89.999999, 1e-9] + [float(x) for x in ctx.rng.uniform(-90, 90, ctx.n(8, 60))]
    idx = "(flat_map (fun n => map (fun m => (n, m)) (seq 0 (S n))) (seq 0 13))"
    exprs = []
    for la in lats:
        phi = math.radians(la)
        s_, c_ = _hx(np.sin(phi)), _hx(np.cos(phi))
        exprs.append(f"map (fun nm => Pmn (rops_of OpsF) {s_} {c_} (fst nm) (snd nm)) {idx} ++ "
                     f"map (fun nm => dPmn (rops_of OpsF) {s_} {c_} (fst nm) (snd nm)) {idx}")
    exprs.append(f"map (fun nm => Smn OpsF (fst nm) (snd nm)) {idx}")
    outs = ctx.coq_eval('C14_tables', PRE_F, exprs)
    if outs is None:
        return
    pairs = [(n, m) for n in range(NMAX + 1) for m in range(n + 1)]
    worst = 0.0
    for la, o in zip(lats + [None], outs):
        w = WMM(date=2022.5, latitude=0.0, longitude=0.0)
        w.load_coefficients(w.wmm_filename)
        if la is None:
            w.c[:] = 1.0
            w.denormalize_coefficients(0.3)
            impl = np.array([w.c[m, n] for n, m in pairs])
        else:
            w.denormalize_coefficients(math.radians(la))
            impl = np.array([w.P[m, n] for n, m in pairs] + [w.dP[m, n] for n, m in pairs])
        mod = np.array(_floats(o))
        if mod.shape != impl.shape:
            ctx.disagree('C14_tables', {'lat': la}, mod.shape, impl.shape, 'shape')
            continue
        d = float(np.max(np.abs(mod - impl) / np.maximum(1.0, np.abs(impl))))
        worst = max(worst, d)
        if d > 1e-14:
            k = int(np.argmax(np.abs(mod - impl)))
            ctx.disagree('C14_tables', {'lat': la, 'index': k}, mod[k], impl[k], f'relative difference {d:.3g}')
        else:
            ctx.agree('C14_tables', len(impl))
    ctx.say(f"[corr] C14_tables: {len(lats)} latitudes x 182 Legendre values + 91 Schmidt factors, "
            f"{ctx.corr_stats.get('C14_tables', {}).get('disagree', 0)} disagreements, max relative difference {worst:.3g}")


def correspondence(ctx):
    cases = gen_cases(ctx.rng, ctx.n(60, 400))
    for k, d in GEN_DATES.items():
        cs = [{'lat': c[0], 'lon': c[1], 'h': c[2]} for c in cases]
        ctx.correspond(f'C14_field_{k}', cs, (lambda c, d=d: impl_field(c['lat'], c['lon'], c['h'], d)), tol_ulp=512,
                       scale_floor=6e4)
    from ahrs.utils.wmm import geodetic2spherical
    ctx.correspond('C14_g2s', [{'lat': math.radians(c[0]), 'lon': math.radians(c[1]), 'h': c[2]} for c in cases],
                   lambda c: geodetic2spherical(c['lat'], c['lon'], c['h']), tol_ulp=64)

    def leg(c):
        from ahrs.utils.wmm import WMM
        w = WMM(date=2022.5, latitude=0.0, longitude=0.0)
        w.load_coefficients(w.wmm_filename)
        w.denormalize_coefficients(c['phi'])
        return [[w.P[m, n] for n in range(NMAX + 1) for m in range(n + 1)], [w.dP[m, n] for n in range(NMAX + 1) for m in range(n + 1)]]
    ctx.correspond('C14_legendre', [{'phi': math.radians(c[0])} for c in cases[:ctx.n(30, 200)]], leg, tol_ulp=256, scale_floor=16.0)
    n = ctx.n(1000, 20000)
    allc = gen_cases(ctx.rng, n)
    parts = [(_corr_data, (ctx,)), (_corr_epoch, (ctx,)), (_corr_tables, (ctx,))]
    parts += [(_corr_model, (ctx, allc[i:i + 2500], 'C14_model_float')) for i in range(0, len(allc), 2500)]
    for f, a in parts:
        # an exception of the implementation inside a correspondence is a broken correspondence, not a harness failure:
        # the search below must still run and name the concrete input
        try:
            f(*a)
        except Exception as e:
            ctx.broken.append({'kind': 'correspondence', 'target': f.__name__, 'error': f'{type(e).__name__}: {e}'[:300]})
            ctx.say(f"[corr] {f.__name__}: implementation raised {type(e).__name__}: {str(e)[:160]}")


# ------------------------------------------------------------------------------------------------
# search oracle: independent evaluator of the degree-12 Schmidt series
# ------------------------------------------------------------------------------------------------
A_WGS84, B_WGS84, A_REF = 6378.137, 6356.7523142, 6371.2


def _legendre_coeffs(n):
    c = [Fr(0)] * (n + 1)
    for k in range(n // 2 + 1):
        c[n - 2 * k] = Fr((-1) ** k * math.comb(n, k) * math.comb(2 * n - 2 * k, n), 2 ** n)
    return c


def _pder(c):
    return [i * c[i] for i in range(1, len(c))] or [Fr(0)]


_D = {}
for _n in range(NMAX + 1):
    _c = _legendre_coeffs(_n)
    for _m in range(_n + 2):
        _D[_n, _m] = [float(x) for x in _c]
        _c = _pder(_c)


def _horner(c, x):
    r = 0.0
    for a in reversed(c):
        r = r * x + a
    return r


def _schmidt(n, m):
    return math.sqrt(float(Fr((2 if m else 1) * math.factorial(n - m), math.factorial(n + m))))


def spec_field(lat, lon, h, date):
    """explicit-formula evaluation (no recursion in n or m, no arcsin, no division by cos phi') -> (X, Y, Z, cos phi')"""
    date = float(date)
    y = 2015 if date < 2020.0 else 2020 if date < 2025.0 else 2025
    t0, _, rows = files()[y]
    dt = round(date, 1) - float(t0)
    phi, lam = math.radians(lat), math.radians(lon)
    e2 = 1 - (B_WGS84 / A_WGS84) ** 2
    sp, cp = math.sin(phi), math.cos(phi)
    Rc = A_WGS84 / math.sqrt(1 - e2 * sp * sp)
    p, z = (Rc + h) * cp, (Rc * (1 - e2) + h) * sp
    r = math.hypot(p, z)
    s, c = z / r, p / r
    Xp = Yp = Zp = 0.0
    for (n, m, g, hh, gd, hd) in rows:
        gt, ht = float(g) + dt * float(gd), float(hh) + dt * float(hd)
        Nn, q = _schmidt(n, m), (A_REF / r) ** (n + 2)
        Dm, Dm1 = _horner(_D[n, m], s), _horner(_D[n, m + 1], s)
        Pt = Nn * c ** m * Dm
        dPt = Nn * ((-m * c ** (m - 1) * s * Dm if m else 0.0) + c ** (m + 1) * Dm1)
        Poc = Nn * c ** (m - 1) * Dm if m else 0.0          # P / cos phi', a polynomial for m >= 1
        cm_, sm_ = math.cos(m * lam), math.sin(m * lam)
        Xp -= q * (gt * cm_ + ht * sm_) * dPt
        Yp += q * m * (gt * sm_ - ht * cm_) * Poc
        Zp -= (n + 1) * q * (gt * cm_ + ht * sm_) * Pt
    cpsi, spsi = c * cp + s * sp, s * cp - c * sp
    return np.array([Xp * cpsi - Zp * spsi, Yp, Xp * spsi + Zp * cpsi]), c


def _region(lat, date):
    if abs(lat) == 90.0:
        return 'pole'
    if abs(lat) > 89.99:
        return 'near-pole'
    if round(float(date), 1) in (2020.0, 2025.0):
        return 'epoch-boundary'
    d = float(date)
    return 'wmm2015' if d < 2020.0 else 'wmm2020' if d < 2025.0 else 'wmm2025'


def o_field(inp):
    """X, Y, Z of WMM().magnetic_field equal the independent series.  The arguments are handed over exactly as given
    (Python ints stay ints); optional: frame='ENU' (components are then east, north, up), prev=[lat, lon, h, date] of an
    earlier call on the same object, date as [y, m, d] for a datetime.date, form = one of FORMS (see impl_field): the
    question may be asked through the constructor, with the height omitted (documented default 0), positionally, by keyword"""
    lat, lon, h = inp['lat'], inp['lon'], inp['h']
    date = inp['date']
    if isinstance(date, (list, tuple)):
        dd = datetime.date(*date)
        dec = dd.year + dd.timetuple().tm_yday / 365.0
    else:
        dd, dec = date, float(date)
    frame = inp.get('frame', 'NED')
    form = inp.get('form', 'method')
    reg = (_region(float(lat), dec) + ('' if frame == 'NED' else '+enu') + ('+second-call' if inp.get('prev') else '')
           + ('' if form == 'method' else '+' + form))
    io = call_outcome(impl_field, lat, lon, h, dd, frame, inp.get('prev'), form, True)
    if io[0] == 'raise':
        return {'tag': f'magnetic_field/raises-{io[1]}@{reg}', 'observed': list(io[1:])}
    got, state_note = io[1]
    exp, c = spec_field(float(lat), float(lon), 0.0 if form.startswith('noheight') else float(h), dec)
    if frame.upper() == 'ENU':
        exp = np.array([exp[1], exp[0], -exp[2]])
    B = float(np.linalg.norm(exp))
    # 1e-6 nT + 1e-9 relative; plus the conditioning of arcsin near the poles: rounding z/r moves phi' by at most
    # min(ulp / cos phi', sqrt(2 ulp)), and the field changes by a few B per radian
    dphi = min(4 * 1.2e-16 / max(abs(c), 1e-300), 3e-8)
    tol = 1e-6 + 1e-9 * B + 4 * B * dphi
    if not np.all(np.isfinite(got)):
        return {'tag': f'magnetic_field/non-finite@{reg}', 'observed': got, 'expected': exp}
    for i, nm in enumerate('XYZ'):
        if abs(got[i] - exp[i]) > tol:
            return {'tag': f'magnetic_field/{nm}-differs@{reg}', 'observed': got, 'expected': exp, 'note': f'tolerance {tol:.3g} nT'}
    if state_note:
        return {'tag': f'magnetic_field/object-reports-other-question@{reg}', 'observed': state_note}
    return None


def _test_tables():
    out = []
    for y in YEARS:
        base = os.path.join(REPO, 'ahrs', 'utils', f'WMM{y}')
        fn = [f for f in os.listdir(base) if 'test' in f.lower()]
        if not fn:
            continue
        path = os.path.join(base, fn[0])
        for ln in open(path).read().split('\n'):
            ln = ln.strip()
            if not ln or ln.startswith('#') or ln[0].isalpha():
                continue
            tk = [t for t in re.split(r'[;\s]+', ln) if t]
            try:
                v = [float(t) if t.lower() != 'nan' else float('nan') for t in tk]
            except ValueError:
                continue
            ix = (7, 8, 9) if y == 2020 else (4, 5, 6)
            out.append({'table': y, 'date': v[0], 'h': v[1], 'lat': v[2], 'lon': v[3], 'xyz': [v[i] for i in ix]})
    return out


def o_table(inp):
    """the published check values (given to 0.1 nT)"""
    io = call_outcome(impl_field, inp['lat'], inp['lon'], inp['h'], inp['date'])
    if io[0] == 'raise':
        return {'tag': f'magnetic_field/raises-{io[1]}', 'observed': list(io[1:])}
    if float(np.max(np.abs(io[1] - np.array(inp['xyz'])))) > 0.0505:
        return {'tag': f"magnetic_field/test-table-{inp['table']}", 'observed': io[1], 'expected': inp['xyz']}
    return None


def o_epoch(inp):
    """the coefficient file and its epoch are the ones whose five-year window contains the date"""
    from ahrs.utils.wmm import WMM
    d = float(inp['date'])
    io = call_outcome(lambda: (lambda w: (w.wmm_filename, float(w.epoch), w.degree))(WMM(date=d, latitude=0.0, longitude=0.0)))
    if io[0] == 'raise':
        return {'tag': f'reset_date/raises-{io[1]}', 'observed': list(io[1:])}
    y = 2015 if d < 2020.0 else 2020 if d < 2025.0 else 2025
    exp = (f'WMM{y}/WMM.COF', float(files()[y][0]), NMAX)
    if tuple(io[1]) != exp:
        return {'tag': f'reset_date/wrong-model@{y}', 'observed': list(io[1]), 'expected': list(exp)}
    return None


BOUNDARY_DATES = [2015.0, 2015, 2015.0000001, 2019.99, 2019.999, 2019.9999999, 2020.0, 2020, 2020.0000001, 2024.99, 2024.999,
                  2024.9999999, 2025.0, 2025, 2025.0000001, 2029.99, 2029.999, 2029.9999999, 2030.0, 2030,
                  [2015, 1, 1], [2019, 12, 30], [2019, 12, 31], [2020, 1, 1], [2024, 12, 29], [2024, 12, 30], [2025, 1, 1],
                  [2029, 12, 30], [2029, 12, 31]]


def o_date_boundary(inp):
    """at the ends of each model's validity window (2015.0, 2020.0, 2025.0, 2030.0 and the neighbouring dates, as float, int
    and datetime.date) an answer exists and equals the synthesis: an exception there is a violation of its own kind"""
    r = o_field(inp)
    if r is None:
        return None
    d = inp['date']
    where = '-'.join(map(str, d)) if isinstance(d, (list, tuple)) else repr(d)
    if '/raises-' in r['tag']:
        exc = r['tag'].split('/raises-')[1].split('@')[0]
        return dict(r, tag=f"date-boundary/raises-{exc}@{where}")
    return dict(r, tag=f"date-boundary/{r['tag'].split('/', 1)[1].split('@')[0]}@{where}")


ORACLES = {'field': o_field, 'table': o_table, 'epoch': o_epoch, 'date_boundary': o_date_boundary}


def _wrap(f, inp):
    r = call_outcome(f, inp)
    if r[0] == 'raise':
        return {'tag': f'{f.__name__}/raises-{r[1]}', 'observed': list(r[1:])}
    return r[1]


def search(ctx, scale):
    n = 1000 * scale
    alt = FORMS[1:]
    for i, (lat, lon, h, date) in enumerate(gen_cases(ctx.rng, n)):
        inp = {'lat': lat, 'lon': lon, 'h': h, 'date': date}
        key = (round(float(lat), 6), round(float(lon), 6), round(float(h), 3), date)
        ctx.check('field', inp, _wrap(o_field, inp), nontrivial_key=key)
        # the same question through the other documented entry forms: all of them on the thin-region cases, one each elsewhere
        for form in (alt if i < 70 else (alt[i % len(alt)],)):
            inp2 = dict(inp, form=form)
            if i % 5 == 0:
                inp2['frame'] = 'ENU'
            if float(date) == int(float(date)) and i % 2 == 0:
                inp2['date'] = int(float(date))              # integer date form
            ctx.check('field', inp2, _wrap(o_field, inp2), nontrivial_key=key + (form,))
    cs = gen_cases(ctx.rng, 40)
    for i, (lat, lon, h, date) in enumerate(cs[:40]):
        inp = {'lat': lat, 'lon': lon, 'h': h, 'date': date, 'frame': 'ENU' if i % 2 == 0 else 'enu'}
        ctx.check('field', inp, _wrap(o_field, inp), nontrivial_key=('enu', i))
        inp = {'lat': lat, 'lon': lon, 'h': h, 'date': date, 'prev': list(cs[(7 * i + 3) % len(cs)])}
        ctx.check('field', inp, _wrap(o_field, inp), nontrivial_key=('second', i))
    for j, ymd in enumerate(((2015, 1, 1), (2017, 5, 12), (2019, 6, 30), (2020, 1, 1), (2024, 3, 1), (2025, 1, 2), (2029, 7, 1))):
        for form in ('method', FORMS[1 + j % (len(FORMS) - 1)], 'ctor'):
            inp = {'lat': float(ctx.rng.uniform(-90, 90)), 'lon': float(ctx.rng.uniform(-180, 180)),
                   'h': float(ctx.rng.uniform(-1, 850)), 'date': list(ymd), 'form': form}
            ctx.check('field', inp, _wrap(o_field, inp), nontrivial_key=(ymd, form))
    pts = [(48.13723, 11.575508, 0.521), (-33.0, 151.0, 0.0), (90.0, 0.0, 0.0), (0, 0, 0)]
    for j, d in enumerate(BOUNDARY_DATES):
        for form in ('method', 'ctor', FORMS[2 + j % (len(FORMS) - 2)]):
            la, lo, hh = pts[j % len(pts)]
            inp = {'lat': la, 'lon': lo, 'h': hh, 'date': d, 'form': form}
            ctx.check('date_boundary', inp, _wrap(o_date_boundary, inp), nontrivial_key=(str(d), form))
    for row in _test_tables():
        ctx.check('table', row, _wrap(o_table, row), nontrivial_key=(row['table'], row['date'], row['lat'], row['lon'], row['h']))
    ds = [2015.0, 2019.9999, 2020.0, 2024.9999, 2025.0, 2030.0, 2035.5] + [float(x) for x in np.round(ctx.rng.uniform(2015, 2031, 40 * scale), 3)]
    for d in ds:
        ctx.check('epoch', {'date': d}, _wrap(o_epoch, {'date': d}), nontrivial_key=d)
    ctx.samples.append({'kind': 'search', 'oracle': 'field', 'input': {'lat': 48.13723, 'lon': 11.575508, 'h': 0.521, 'date': 2022.5}})
