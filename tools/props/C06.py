"""C06 — batch run equals sample-by-sample streaming; filters deterministic and isolated."""
import os, re, copy, math
import numpy as np
from . import common as cm

PID = 'C06'
LEVEL_TEXT = ("Coq theorems, generic in the step function (constructor loop = streamed run, determinism, interleaving/projection over one "
              "shared store), tied to the code by frame_ok: a verified footprint analysis run by vm_compute on effect programs that are "
              "regenerated from the class sources on every run; bit-exact batch/stream/repeat/interleave oracles on every recursive filter")
TECHNIQUE = "Coq (state machines + verified effect analysis over regenerated facts) + dynamic validation of the extractor + bit-exact search"
RULE = ("per filter x architecture x option (frame, adaptive, method/order, explicit gains): histories of N in {2,3,4,5,7,12,40} samples from "
        "a seeded generator with thin regions (exact zero gyro/acc/mag rows, integer-valued and int64 arrays, large rates); "
        "interleavings of two instances (same and different classes) drawn from the seed; non-trivial = N >= 3 and a non-zero gyro")
TRUSTED = ["Coq 8.16.1 kernel; vm_compute (runs the checker on the regenerated facts)",
           "tools/pyfx_c06: the abstraction Python AST -> effect program / init dependences / loop facts (validated on every run against "
           "observed attribute reads, writes, value changes, RNG state and configuration equality of the real calls)",
           "the store semantics of the effect language (coq/model/C06_scan.v) as a model of Python attribute access; value functions are uninterpreted",
           "the hand-declared table of per-sample entry points and carried state (tools/props/C06.py: FILTERS)"]
PARTIAL = ("the link between the effect program and the Python method is extraction + dynamic validation, not proof; Madgwick's frame holds only modulo "
           "the attribute `gain` (known finding); OLEQ's frame holds with the NumPy global generator as an explicit input; "
           "FLAE's constructor normalises caller-supplied weights in place (known finding, owned by C19); floating-point equality is measured, not proved")

# name, file, per-sample entry points, declared carried state
FILTERS = [
    ('Madgwick', 'filters/madgwick.py', ['updateIMU', 'updateMARG'], []),
    ('Mahony', 'filters/mahony.py', ['updateIMU', 'updateMARG'], ['b']),
    ('EKF', 'filters/ekf.py', ['update'], ['P', 'R']),
    ('UKF', 'filters/ukf.py', ['update'], ['P']),
    ('AQUA', 'filters/aqua.py', ['updateIMU', 'updateMARG', 'estimate'], ['alpha']),
    ('Fourati', 'filters/fourati.py', ['update'], []),
    ('ROLEQ', 'filters/roleq.py', ['update'], []),
    ('AngularRate', 'filters/angular.py', ['update'], []),
    ('OLEQ', 'filters/oleq.py', ['estimate'], []),
    ('FLAE', 'filters/flae.py', ['estimate'], []),
]

F_MADGWICK = 'Madgwick.MARG/stream-uses-gain_imu'
STAGES = [['C06_frame.v', ('C06_refuted.v', {'finding': F_MADGWICK})], ['C06.v']]
COQ_TIMEOUT = 300


# ------------------------------------------------------------------------------------------ regeneration
def pregen(ctx):
    import pyfx_c06 as fx
    from vlib import core
    facts = []
    for name, rel, ups, carried in FILTERS:
        try:
            f = fx.extract(core.REPO, rel, name, ups, carried, rng_guard=None if name == 'OLEQ' else 'q0')
        except Exception as e:                                   # fail closed
            ctx.broken.append({'kind': 'translation', 'target': f'C06facts/{name}', 'error': f'{type(e).__name__}: {e}'})
            ctx.say(f'[gen] C06facts: {name} could not be extracted: {e}')
            continue
        facts.append(f)
        ctx.targets_meta[f'C06facts/{name}'] = {'sha': core.sha(repr((f['methods'], f['init'], f['loops'], f['badloops']))),
                                                'data_attrs': f['py_data_attrs'], 'loops': len(f['loops']), 'badloops': f['badloops']}
    path = os.path.join(ctx.build, 'gen', 'C06facts.v')
    with open(path, 'w') as fh:
        fh.write(fx.gallina(facts))
    r = ctx.coqc(path)
    if r['rc'] != 0:
        ctx.broken.append({'kind': 'translation', 'target': 'C06facts', 'error': 'generated facts do not compile',
                           'detail': (r['err'] or r['out'])[-1500:]})
        ctx.say(f"[gen] C06facts.v does not compile:\n{(r['err'] or r['out'])[-800:]}")
    ctx.c06_facts = {f['name']: f for f in facts}
    ctx.say(f"[gen] C06facts.v: effect programs of {len(facts)} filter classes "
            f"({sum(len(f['methods']) for f in facts)} methods) regenerated from {core.REPO}")


# ------------------------------------------------------------------------------------------ configurations
def _F():
    import ahrs
    return ahrs.filters


# (name, arch) -> sensors used, the entry point, constructor kwargs variants
ARCHS = {
    ('Madgwick', 'IMU'): ('ga', 'updateIMU'), ('Madgwick', 'MARG'): ('gam', 'updateMARG'),
    ('Mahony', 'IMU'): ('ga', 'updateIMU'), ('Mahony', 'MARG'): ('gam', 'updateMARG'),
    ('EKF', 'IMU'): ('ga', 'update'), ('EKF', 'MARG'): ('gam', 'update'),
    ('UKF', 'IMU'): ('ga', 'update'),
    ('AQUA', 'IMU'): ('ga', 'updateIMU'), ('AQUA', 'MARG'): ('gam', 'updateMARG'),
    ('Fourati', 'MARG'): ('gam', 'update'), ('ROLEQ', 'MARG'): ('gam', 'update'),
    ('AngularRate', 'GYR'): ('g', 'update'),
}
OPTIONS = {
    'Madgwick': [{}, {'gain': 0.05}, {'beta': 0.1, 'frequency': 50.0}, {'q0': [0.5, -0.5, 0.5, 0.5]}],
    'Mahony': [{}, {'k_P': 2.0, 'k_I': 0.1}, {'frequency': 25.0, 'b0': [0.01, -0.02, 0.03]}, {'q0': [0.5, 0.5, -0.5, 0.5]}],
    'EKF': [{}, {'frame': 'ENU'}, {'noises': [0.1, 0.2, 0.3], 'frequency': 50.0}, {'magnetic_ref': 60.0, 'q0': [0.5, 0.5, 0.5, -0.5]}],
    'UKF': [{}, {'frequency': 50.0, 'alpha': 0.01}],
    'AQUA': [{}, {'adaptive': True}, {'alpha': 0.05, 'beta': 0.02, 'threshold': 0.8, 'frequency': 200.0}],
    'Fourati': [{}, {'gain': 0.5}, {'magnetic_dip': 60.0, 'frequency': 50.0}],
    'ROLEQ': [{}, {'frame': 'ENU'}, {'weights': [0.3, 1.2], 'magnetic_ref': 55.0}, {'q0': [0.5, -0.5, -0.5, 0.5]}],
    'AngularRate': [{}, {'method': 'series', 'order': 3}, {'method': 'series', 'order': 0}, {'frequency': 10.0, 'q0': [0.5, 0.5, 0.5, 0.5]}],
}
ZERO_OK = {   # which exact-zero rows a filter accepts after sample 0 without raising (its documented behaviour)
    'Madgwick': 'gam', 'Mahony': 'gam', 'EKF': 'ga', 'UKF': 'g', 'AQUA': 'gam', 'Fourati': 'g', 'ROLEQ': 'gam', 'AngularRate': 'g',
}


def history(hseed, N, kind):
    """deterministic sensor history from a seed; thin regions by `kind`"""
    if kind.startswith('exact|'):
        # structured thin region: the same exactly representable sample in every row, "exact|ax,ay,az|mx,my,mz|gx,gy,gz"
        a, m, g = ([float(x) for x in part.split(',')] for part in kind.split('|')[1:4])
        return np.tile(np.array(g), (N, 1)), np.tile(np.array(a), (N, 1)), np.tile(np.array(m), (N, 1))
    r = np.random.default_rng(int(hseed))
    gyr = r.normal(size=(N, 3)) * (3.0 if kind == 'fast' else 0.3)
    acc = r.normal(size=(N, 3)) * 0.5 + np.array([0.0, 0.0, 9.81])
    mag = r.normal(size=(N, 3)) * 2.0 + np.array([19.0, -1.5, 44.0])
    if kind in ('int', 'int64'):
        gyr, acc, mag = np.round(gyr * 4), np.round(acc), np.round(mag)
        gyr[np.all(gyr == 0, axis=1)] = [1.0, 0.0, -1.0]
        if kind == 'int64':
            gyr, acc, mag = gyr.astype(np.int64), acc.astype(np.int64), mag.astype(np.int64)
    if kind.startswith('zero') and N > 2:
        which = kind[4:]                     # subset of 'gam'
        rows = r.choice(np.arange(1, N), size=max(1, (N - 1) // 3), replace=False)
        for i, t in enumerate(rows):
            s = which[i % len(which)]
            {'g': gyr, 'a': acc, 'm': mag}[s][t] = 0.0
    return gyr, acc, mag


def _bits(x):
    a = np.asarray(x)
    if a.dtype == object:
        return repr(x).encode()
    return np.ascontiguousarray(a, dtype=float).tobytes() + repr(a.shape).encode()


def _same(a, b):
    try:
        return _bits(a) == _bits(b)
    except Exception:
        return False


def _kw(inp):
    kw = dict(inp.get('kw') or {})
    for k in list(kw):
        if isinstance(kw[k], (list, tuple)):
            kw[k] = np.array(kw[k], dtype=float)
    return kw


class _RngAdvanced(Exception):
    pass


def _rng_state():
    s = np.random.get_state()
    return (s[0], s[1].tobytes(), s[2], s[3], s[4])


def _rng_user(name, kw, batch):
    """the recorded users of the NumPy global generator: OLEQ always; ROLEQ's constructor when it has to estimate its first row"""
    return name in ('OLEQ',) or (name == 'ROLEQ' and batch and kw.get('q0') is None)


def _ctor(name, sensors, gyr, acc, mag, kw):
    cls = getattr(_F(), name)
    d = {}
    if 'g' in sensors:
        d['gyr'] = gyr
    if 'a' in sensors:
        d['acc'] = acc
    if 'm' in sensors:
        d['mag'] = mag
    return cls(**d, **kw)


def _call_update(obj, name, entry, q, sensors, g, a, m, kw, dt=None):
    extra = {} if dt is None else {'dt': dt}
    if name == 'AngularRate':
        return getattr(obj, entry)(q, g, method=kw.get('method', 'closed'), order=kw.get('order', 1), **extra)
    args = [q]
    if 'g' in sensors:
        args.append(g)
    if 'a' in sensors:
        args.append(a)
    if 'm' in sensors:
        args.append(m)
    return getattr(obj, entry)(*args, **extra)


def _batch(name, arch, hist, kw, npseed, share=False):
    """share=False: the constructor gets private copies; share=True: it gets THESE arrays and keyword objects (second consumer)"""
    sensors, _ = ARCHS[(name, arch)]
    gyr, acc, mag = hist if share else (x.copy() for x in hist)
    np.random.seed(npseed)
    st = _rng_state()
    Q = np.asarray(_ctor(name, sensors, gyr, acc, mag, kw if share else copy.deepcopy(kw)).Q, dtype=float)
    if _rng_state() != st and not _rng_user(name, kw, True):
        raise _RngAdvanced(f'{name}({", ".join(sorted(kw))}) with data advanced the NumPy global generator')
    return Q


def _stream(name, arch, hist, kw, q0, npseed, obj=None, share=False, notes=None, dt=None):
    sensors, entry = ARCHS[(name, arch)]
    gyr, acc, mag = hist if share else (x.copy() for x in hist)
    np.random.seed(npseed)
    kw2 = {k: v for k, v in (kw if share else copy.deepcopy(kw)).items() if k != 'q0'}
    st = _rng_state()
    obj = getattr(_F(), name)(**kw2) if obj is None else obj
    q = np.array(q0, dtype=float)
    out = [q.copy()]
    for t in range(1, len(gyr)):
        if _rng_state() != st and not _rng_user(name, kw, False):
            raise _RngAdvanced(f'{name}: construction without data or call {t - 1} of {entry} advanced the NumPy global generator')
        qin = q if isinstance(q, np.ndarray) else np.array(q, dtype=float)
        before = qin.tobytes()
        q = _call_update(obj, name, entry, qin, sensors, gyr[t], acc[t], mag[t], kw, dt=dt)      # rows are views of the caller's arrays
        if notes is not None and qin.tobytes() != before and not (q is qin):
            notes.append(f'q argument of call {t} modified in place')
        out.append(np.array(q, dtype=float).copy())
    return np.array(out)


def _changed(shared, pristine, kws=None, kw0=None):
    """which of the caller's objects no longer hold their original bytes"""
    bad = [nm for nm, a, b in zip(('gyr', 'acc', 'mag'), shared, pristine) if a.dtype != b.dtype or a.shape != b.shape or a.tobytes() != b.tobytes()]
    for k in (kw0 or {}):
        if isinstance(kw0[k], np.ndarray) and not (isinstance(kws.get(k), np.ndarray) and kws[k].tobytes() == kw0[k].tobytes()):
            bad.append('kw:' + k)
    return bad


# second consumers of the same recorded arrays: one that uses the MAGNITUDE of acc (adaptive gain) and a cheap IMU filter
CONSUMERS = [('AQUA', 'MARG', {'adaptive': True}), ('Madgwick', 'IMU', {})]


class _FreshAhrs:
    """`with _FreshAhrs():` -- inside, `import ahrs` yields a freshly imported copy of the package (new module objects, so every
    module-level cache / list / generator / default-argument object is in its import-time state), as in a new interpreter; the
    long-lived modules are put back on exit."""
    def __enter__(self):
        import sys, importlib
        self.old = {k: v for k, v in sys.modules.items() if k == 'ahrs' or k.startswith('ahrs.')}
        for k in self.old:
            del sys.modules[k]
        importlib.import_module('ahrs')
        return self

    def __exit__(self, *a):
        import sys
        for k in [k for k in sys.modules if k == 'ahrs' or k.startswith('ahrs.')]:
            del sys.modules[k]
        sys.modules.update(self.old)
        return False


def _hist_of(inp):
    return history(inp['hseed'], inp['N'], inp.get('kind', 'generic'))


def _guard(fn, entry):
    """run an oracle body; unexpected exceptions become violations with the exception class in the tag"""
    try:
        with np.errstate(all='ignore'):
            import warnings
            with warnings.catch_warnings():
                warnings.simplefilter('ignore')
                return fn()
    except _RngAdvanced as e:
        return {'tag': f'{entry}/advances-global-rng', 'observed': str(e)[:200], 'expected': 'np.random.get_state() unchanged'}
    except Exception as e:
        return {'tag': f'{entry}/raises-{type(e).__name__}', 'observed': str(e)[:200]}


# ------------------------------------------------------------------------------------------ oracles
def o_stream(inp):
    """Filter(gyr, acc[, mag]).Q == the loop over Filter().update*(q, gyr[t], acc[t][, mag[t]]) from Q[0], bit for bit; the streamed
    run, a batch run after it and two other filters all consume THE SAME arrays, which must keep their bytes, and every consumer must
    return what it returns on fresh copies"""
    name, arch = inp['filter'], inp['arch']
    entry = f'{name}.{arch}'

    def body():
        kw0 = _kw(inp)
        hist0 = _hist_of(inp)
        seed = inp.get('npseed', 0)
        try:
            B = _batch(name, arch, hist0, kw0, seed)
        except _RngAdvanced:
            raise
        except Exception as eb:
            if not inp.get('outcomes'):
                raise
            # structured singular configuration (antipodal start, inverted sensor): the constructor rejects it; the streamed run from the
            # SAME initial attitude (the q0 keyword) must reject it with the same exception class -- then both entry points behave alike
            if 'q0' not in kw0 or (name, arch) in Q0_IGNORED:
                return None
            try:
                q0n = np.array(kw0['q0'], float) / np.linalg.norm(kw0['q0'])
                _stream(name, arch, hist0, kw0, q0n, seed)
            except _RngAdvanced:
                raise
            except Exception as es:
                if type(es) is type(eb):
                    return None
                return {'tag': f'{entry}/batch-raises-{type(eb).__name__}-stream-raises-{type(es).__name__}', 'observed': str(es)[:120]}
            return {'tag': f'{entry}/batch-raises-{type(eb).__name__}-stream-accepts', 'observed': str(eb)[:160]}
        if B.shape != (inp['N'], 4):
            return {'tag': f'{entry}/batch-shape', 'observed': list(B.shape), 'expected': [inp['N'], 4]}
        if _changed(hist0, _hist_of(inp)):
            return {'tag': f'{entry}/harness-copy-broken'}
        shared = tuple(x.copy() for x in hist0)
        kws = copy.deepcopy(kw0)
        notes = []
        S = _stream(name, arch, shared, kws, B[0], seed, share=True, notes=notes)
        bad = _changed(shared, hist0, kws, kw0)
        if bad or notes:
            return {'tag': f'{entry}/stream-mutates-input', 'observed': bad + notes, 'expected': 'caller arrays keep their bytes'}
        B2 = _batch(name, arch, shared, kws, seed, share=True)          # batch run AFTER the stream, on the same arrays
        bad = _changed(shared, hist0, kws, kw0)
        if bad:
            return {'tag': f'{entry}/batch-mutates-input', 'observed': bad, 'expected': 'caller arrays keep their bytes'}
        if not _same(B2, B):
            return {'tag': f'{entry}/batch-after-stream-differs', 'observed': float(np.nanmax(np.abs(B2 - B))), 'expected': 0.0}
        for (n2, a2, kw2) in CONSUMERS:
            if hist0[0].dtype != np.float64 and (n2, a2) not in INT64_OK:
                continue
            C1 = _batch(n2, a2, shared, dict(kw2), seed, share=True)
            C2 = _batch(n2, a2, hist0, dict(kw2), seed)
            if not _same(C1, C2) or _changed(shared, hist0):
                return {'tag': f'{entry}/second-consumer-sees-altered-data', 'observed': {'consumer': f'{n2}.{a2}', 'max_abs_diff': float(np.nanmax(np.abs(C1 - C2)))},
                        'expected': 0.0}
        hist = hist0
        kw = kw0
        if name == 'AngularRate':
            # the constructor hands its rows to QuaternionArray(Q), which divides every row by its norm once more (a 1-ulp effect
            # on rows that are already unit); the recursion itself runs on the un-wrapped rows.  Same wrapper on the streamed rows.
            import ahrs
            S = np.asarray(ahrs.QuaternionArray(S), dtype=float)
        if _same(B, S):
            return None
        t = int(np.argmax([not _same(B[i], S[i]) for i in range(len(B))]))
        diff = float(np.nanmax(np.abs(B - S))) if np.isfinite(B).any() else float('nan')
        if name == 'Madgwick' and arch == 'MARG' and not ({'gain', 'beta'} & set(kw)):
            # the recorded defect and nothing else: the data-less instance kept gain_imu; with gain_marg it streams exactly
            S2 = _stream(name, arch, hist, {**kw, 'gain': kw.get('gain_marg', 0.041)}, B[0], inp.get('npseed', 0))
            if _same(B, S2):
                return {'tag': F_MADGWICK, 'observed': {'first_row': t, 'max_abs_diff': diff}, 'expected': 'bit-identical rows'}
        return {'tag': f'{entry}/batch-vs-stream', 'observed': {'first_row': t, 'batch': B[t], 'stream': S[t], 'max_abs_diff': diff},
                'expected': 'bit-identical rows'}
    return _guard(body, entry)


def o_repeat(inp):
    """the same run repeated (same inputs, same NumPy global seed) is bit-identical, also with another instance run in between,
    and a second pass through the SAME streaming instance after the first one finished is reproducible from a fresh instance"""
    name, arch = inp['filter'], inp['arch']
    entry = f'{name}.{arch}'

    def body():
        kw = _kw(inp)
        hist = _hist_of(inp)
        seed = inp.get('npseed', 0)
        try:
            B1 = _batch(name, arch, hist, kw, seed)
        except _RngAdvanced:
            raise
        except Exception:
            if inp.get('outcomes'):
                return None               # singular structured configuration rejected by the constructor: covered by the stream oracle
            raise
        other = inp.get('other')
        if other:                                        # somebody else's run in between
            _batch(other[0], other[1], history(inp['hseed'] + 1, inp['N'], 'generic'), {}, seed + 1)
        shared = tuple(x.copy() for x in hist)           # every repetition consumes the same caller-owned arrays and keyword objects
        kws = copy.deepcopy(kw)
        for rep in range(int(inp.get('reps', 2)) - 1):
            B2 = _batch(name, arch, shared, kws, seed, share=True)
            if not _same(B1, B2):
                return {'tag': f'{entry}/batch-not-repeatable', 'observed': float(np.nanmax(np.abs(B1 - B2))), 'expected': 0.0}
        S1 = _stream(name, arch, hist, kw, B1[0], seed)
        S2 = _stream(name, arch, shared, kws, B1[0], seed, share=True)
        S3 = _stream(name, arch, shared, kws, B1[0], seed, share=True)
        if not (_same(S1, S2) and _same(S1, S3)):
            return {'tag': f'{entry}/stream-not-repeatable', 'observed': float(np.nanmax(np.abs(S1 - S3))), 'expected': 0.0}
        bad = _changed(shared, hist, kws, kw)
        if bad:
            return {'tag': f'{entry}/repeat-mutates-input', 'observed': bad, 'expected': 'caller arrays keep their bytes'}
        carried = next(c for n, _, _, c in FILTERS if n == name)
        if not carried or (name == 'AQUA' and not kw.get('adaptive')):
            # no declared carried state: a second pass through the SAME instance must reproduce the first one
            obj = getattr(_F(), name)(**{k: v for k, v in copy.deepcopy(kw).items() if k != 'q0'})
            Sa = _stream(name, arch, hist, kw, B1[0], seed, obj=obj)
            Sb = _stream(name, arch, hist, kw, B1[0], seed, obj=obj)
            if not (_same(Sa, S1) and _same(Sb, S1)):
                return {'tag': f'{entry}/hidden-state-across-calls', 'observed': float(np.nanmax(np.abs(Sb - S1))), 'expected': 0.0}
        return None
    return _guard(body, entry)


def _events(iseed, na, nb):
    r = np.random.default_rng(int(iseed))
    ev = [0] * na + [1] * nb
    r.shuffle(ev)
    return ev


def o_interleave(inp):
    """two instances fed in an arbitrary interleaving return what each returns when run alone"""
    A, B = inp['A'], inp['B']
    entry = f"{A['filter']}.{A['arch']}+{B['filter']}.{B['arch']}"

    def body():
        specs, pristine = [], []
        for k, X in enumerate((A, B)):
            kw = _kw(X)
            Y = A if (inp.get('same_data') and k == 1) else X        # same_data: both instances consume ONE recording
            hist = history(Y['hseed'], Y['N'], Y.get('kind', 'generic'))
            try:
                q0 = _batch(X['filter'], X['arch'], hist, kw, 0)[0]
            except _RngAdvanced:
                raise
            except Exception:
                if inp.get('outcomes'):
                    return None
                raise
            pristine.append(hist)
            live = specs[0][2] if (inp.get('same_data') and k == 1) else tuple(x.copy() for x in hist)
            specs.append((X['filter'], X['arch'], live, kw, q0))
        solo = [_stream(n, a, h, kw, q0, 0) for (n, a, _, kw, q0), h in zip(specs, pristine)]
        # joint run: both instances created first, then the calls interleaved
        objs, qs, ts, outs = [], [], [1, 1], [[], []]
        for (n, a, h, kw, q0) in specs:
            objs.append(getattr(_F(), n)(**{k: v for k, v in copy.deepcopy(kw).items() if k != 'q0'}))
            qs.append(np.array(q0, float))
        for k in (0, 1):
            outs[k].append(qs[k].copy())
        np.random.seed(0)
        for who in _events(inp['iseed'], specs[0][2][0].shape[0] - 1, specs[1][2][0].shape[0] - 1):
            n, a, h, kw, _ = specs[who]
            sensors, ent = ARCHS[(n, a)]
            t = ts[who]
            qs[who] = _call_update(objs[who], n, ent, qs[who], sensors, h[0][t], h[1][t], h[2][t], kw)   # views of the caller's rows
            outs[who].append(np.array(qs[who], float).copy())
            ts[who] += 1
        for k in (0, 1):
            J = np.array(outs[k])
            if not _same(J, solo[k]):
                return {'tag': f'{entry}/interference', 'observed': {'instance': 'AB'[k], 'max_abs_diff': float(np.nanmax(np.abs(J - solo[k])))},
                        'expected': 'the solo run, bit for bit'}
        for k in (0, 1):
            bad = _changed(specs[k][2], pristine[k])
            if bad:
                return {'tag': f'{entry}/interleave-mutates-input', 'observed': bad, 'expected': 'caller arrays keep their bytes'}
        return None
    return _guard(body, entry)


def _run_spec(X):
    """batch rows and streamed rows of one configuration on private copies, in whatever `ahrs` is importable right now"""
    kw = _kw(X)
    hist = history(X['hseed'], X['N'], X.get('kind', 'generic'))
    Bq = _batch(X['filter'], X['arch'], hist, kw, X.get('npseed', 0))
    Sq = _stream(X['filter'], X['arch'], hist, kw, Bq[0], X.get('npseed', 0))
    return Bq, Sq


def o_order(inp):
    """what a configuration returns does not depend on which other configurations were created and run before it in the process:
    B alone in a freshly imported package == B after A (fresh package) == B in the long-lived process; same for A"""
    A, B = inp['A'], inp['B']
    entry = f"{A['filter']}.{A['arch']}>{B['filter']}.{B['arch']}"

    def body():
        with _FreshAhrs():
            soloB = _run_spec(B)
        with _FreshAhrs():
            soloA = _run_spec(A)
        with _FreshAhrs():
            a1 = _run_spec(A); b1 = _run_spec(B)
        with _FreshAhrs():
            b2 = _run_spec(B); a2 = _run_spec(A)
        a3 = _run_spec(A); b3 = _run_spec(B)            # in the long-lived process, after everything that ran before
        for what, got, ref in (('B-after-A', b1, soloB), ('A-after-B', a2, soloA), ('A-first', a1, soloA), ('B-first', b2, soloB),
                               ('A-in-long-lived-process', a3, soloA), ('B-in-long-lived-process', b3, soloB)):
            for kind, g, r in (('batch', got[0], ref[0]), ('stream', got[1], ref[1])):
                if not _same(g, r):
                    return {'tag': f'{entry}/order-dependent', 'observed': {'case': what, 'run': kind, 'max_abs_diff': float(np.nanmax(np.abs(g - r)))},
                            'expected': 'the run in a freshly imported package, bit for bit'}
        return None
    return _guard(body, entry)


def o_single_frame(inp):
    """isolation and determinism of the single-frame estimators OLEQ / FLAE (the NumPy seed is an input of every call)"""
    name = inp['filter']
    entry = f'{name}.estimate'

    def body():
        cls = getattr(_F(), name)
        gyr, acc, mag = history(inp['hseed'], inp['N'], 'generic')
        kw = _kw(inp)
        shared_w = None
        if inp.get('shared_weights') is not None:
            shared_w = np.array(inp['shared_weights'], float)
            kw['weights'] = shared_w
        A = cls(**kw)

        def est(o, t):
            np.random.seed(inp.get('npseed', 0) + t)
            return np.array(o.estimate(acc[t], mag[t]), float)             # views of the caller's rows
        acc0, mag0 = acc.copy(), mag.copy()
        solo = [est(A, t) for t in range(inp['N'])]
        # a second instance is created (from the same caller-owned keyword values) and used in between
        Bo = cls(**kw)
        joint = []
        for t in range(inp['N']):
            est(Bo, (t + 1) % inp['N'])
            joint.append(est(A, t))
        if not _same(np.array(solo), np.array(joint)):
            d = float(np.nanmax(np.abs(np.array(solo) - np.array(joint))))
            kind = 'caller-weights-renormalised' if shared_w is not None else 'interference'
            return {'tag': f'{entry}/{kind}', 'observed': d, 'expected': 0.0}
        if acc.tobytes() != acc0.tobytes() or mag.tobytes() != mag0.tobytes():
            return {'tag': f'{entry}/mutates-input', 'observed': 'acc/mag rows changed by estimate', 'expected': 'caller arrays keep their bytes'}
        np.random.seed(inp.get('npseed', 0))
        Q1 = np.array(cls(acc=acc.copy(), mag=mag.copy(), **_kw(inp)).Q, float)
        np.random.seed(inp.get('npseed', 0))
        Q2 = np.array(cls(acc=acc.copy(), mag=mag.copy(), **_kw(inp)).Q, float)
        if not _same(Q1, Q2):
            return {'tag': f'{entry}/batch-not-repeatable', 'observed': float(np.nanmax(np.abs(Q1 - Q2))), 'expected': 0.0}
        return None
    return _guard(body, entry)


def o_dt(inp):
    """a recording sampled at hz: Filter(data, frequency=hz) (or Dt=1/hz) == a DEFAULT-rate Filter() streamed with dt=1/hz on every
    call -- the per-call dt, not the object's Dt, must govern every step of update"""
    name, arch = inp['filter'], inp['arch']
    entry = f'{name}.{arch}'

    def body():
        kw = _kw(inp)
        kw.pop('frequency', None); kw.pop('Dt', None)
        hist = _hist_of(inp)
        hz = float(inp['hz'])
        rate = {'frequency': hz} if inp.get('how', 'frequency') == 'frequency' else {'Dt': 1.0 / hz}
        B = _batch(name, arch, hist, {**kw, **rate}, inp.get('npseed', 0))
        S = _stream(name, arch, hist, kw, B[0], inp.get('npseed', 0), dt=1.0 / hz)       # object built WITHOUT the sampling setting
        if name == 'AngularRate':
            import ahrs
            S = np.asarray(ahrs.QuaternionArray(S), dtype=float)
        if _same(B, S):
            return None
        t = int(np.argmax([not _same(B[i], S[i]) for i in range(len(B))]))
        return {'tag': f'{entry}/dt-argument-vs-constructor-rate', 'observed': {'first_row': t, 'hz': hz, 'max_abs_diff': float(np.nanmax(np.abs(B - S)))},
                'expected': 'bit-identical rows'}
    return _guard(body, entry)


def _rate_kw(spec):
    how, hz, hz2 = spec
    return {'frequency': {'frequency': hz}, 'Dt': {'Dt': 1.0 / hz}, 'both': {'frequency': hz2, 'Dt': 1.0 / hz}}[how]


def o_rate(inp):
    """the sampling step configured in the CONSTRUCTOR, in each documented spelling (frequency=hz, Dt=1/hz, both -- Dt wins):
    Filter(data, rate) == the data-less Filter(rate) streamed WITHOUT dt, for the same spelling and for an equivalent other one"""
    name, arch = inp['filter'], inp['arch']
    entry = f'{name}.{arch}'

    def body():
        kw = _kw(inp)
        kw.pop('frequency', None); kw.pop('Dt', None)
        hist = _hist_of(inp)
        hz, hz2 = float(inp['hz']), float(inp.get('hz2', 100.0))
        seed = inp.get('npseed', 0)
        spellings = [inp['how']] + [h for h in ('frequency', 'Dt', 'both') if h != inp['how']]
        ref = None
        for how in spellings:
            rk = _rate_kw((how, hz, hz2))
            B = _batch(name, arch, hist, {**kw, **rk}, seed)
            S = _stream(name, arch, hist, {**kw, **rk}, B[0], seed)            # no dt argument: the configured step must be used
            if name == 'AngularRate':
                import ahrs
                S = np.asarray(ahrs.QuaternionArray(S), dtype=float)
            if not _same(B, S):
                t = int(np.argmax([not _same(B[i], S[i]) for i in range(len(B))]))
                return {'tag': f'{entry}/configured-rate-batch-vs-stream', 'observed': {'spelling': how, 'hz': hz, 'first_row': t,
                        'max_abs_diff': float(np.nanmax(np.abs(B - S)))}, 'expected': 'bit-identical rows'}
            if ref is None:
                ref = B
            elif not _same(B, ref):
                return {'tag': f'{entry}/rate-spellings-disagree', 'observed': {'spellings': [spellings[0], how], 'hz': hz,
                        'max_abs_diff': float(np.nanmax(np.abs(B - ref)))}, 'expected': 'bit-identical rows'}
        return None
    return _guard(body, entry)


# caller-owned array values for the array-valued constructor keywords (which keywords a class has is read off its source by the
# extractor: signature of __init__ plus the names it looks up in **kwargs)
KWVALUES = {
    'q0': lambda: np.array([0.5, -0.5, 0.5, 0.5]),
    'b0': lambda: np.array([0.01, -0.02, 0.03]),
    'P': lambda: np.diag([0.010, 0.012, 0.011, 0.013]),
    'noises': lambda: np.array([0.1, 0.2, 0.3]),
    'weights': lambda: np.array([0.3, 1.2]),
    'magnetic_ref': lambda: np.array([20.0, -2.0, 45.0]),
    'magnetic_dip': lambda: np.array([0.0, 0.4, 0.0, 0.9]),
    'process_noise_covariance': lambda: np.eye(4) * 2e-4,
    'measurement_noise_covariance': lambda: np.eye(3) * 0.02,
}
KWSCALARS = {'frequency', 'Dt', 'gain', 'gain_imu', 'gain_marg', 'beta', 'k_P', 'k_I', 'kp', 'ki', 'frame', 'alpha', 'kappa', 'threshold',
             'adaptive', 'order', 'method', 'representation', 'gyr', 'acc', 'mag'}
# a NON-default value for every scalar constructor keyword (per class where the same name means different things)
KWSCALAR_VALUES = {
    'frequency': 50.0, 'Dt': 0.02, 'gain': 0.07, 'gain_imu': 0.05, 'gain_marg': 0.06, 'beta': 0.08, 'k_P': 2.0, 'k_I': 0.1, 'kp': 1.5, 'ki': 0.2,
    'frame': 'ENU', 'alpha': 0.05, 'kappa': 0.5, 'threshold': 0.8, 'adaptive': True, 'order': 2, 'method': 'series',
    ('UKF', 'alpha'): 0.01, ('UKF', 'beta'): 1.5, ('Fourati', 'magnetic_dip'): 60.0, ('EKF', 'magnetic_ref'): 60.0, ('ROLEQ', 'magnetic_ref'): 55.0,
}
KW_NOT_SWEPT = {'gyr', 'acc', 'mag', 'representation'}        # the data, and the output representation (.Q needs 'quaternion')


def keyword_sweep(name):
    """(keyword, JSON-able non-default value) for EVERY constructor keyword of the class -- names from inspect.signature of the real
    class plus the names its source looks up in **kwargs; keywords without a value generator are returned separately"""
    import inspect
    import pyfx_c06 as fx
    from vlib import core
    rel = next(r for n, r, _, _ in FILTERS if n == name)
    names = [p for p in inspect.signature(getattr(_F(), name).__init__).parameters if p not in ('self', 'kwargs', 'kw')]
    for k in fx.Extractor(fx.Package(os.path.join(core.REPO, 'ahrs')), rel, name).kwarg_names():
        if k not in names:
            names.append(k)
    out, missing = [], []
    for k in names:
        if k in KW_NOT_SWEPT:
            continue
        if (name, k) in KWSCALAR_VALUES:
            out.append((k, KWSCALAR_VALUES[(name, k)]))
        if k in KWVALUES:
            out.append((k, KWVALUES[k]().tolist()))
        elif k in KWSCALAR_VALUES and (name, k) not in KWSCALAR_VALUES:
            out.append((k, KWSCALAR_VALUES[k]))
        elif (name, k) not in KWSCALAR_VALUES:
            missing.append(k)
    return out, missing


_KWCACHE = {}


def array_kwargs(name):
    """array-valued constructor keywords of a filter class, from the CURRENT source"""
    if name not in _KWCACHE:
        import pyfx_c06 as fx
        from vlib import core
        rel = next(r for n, r, _, _ in FILTERS if n == name)
        ex = fx.Extractor(fx.Package(os.path.join(core.REPO, 'ahrs')), rel, name)
        names = ex.kwarg_names()
        _KWCACHE[name] = ([k for k in names if k in KWVALUES], [k for k in names if k not in KWVALUES and k not in KWSCALARS])
    return _KWCACHE[name]


def o_kwshare(inp):
    """array-valued constructor keywords passed as caller-owned arrays that are SHARED by several runs / instances: the arrays keep
    their bytes and every run returns what it returns with fresh copies"""
    name, arch = inp['filter'], inp['arch']
    entry = f'{name}.{arch}'

    def body():
        names = inp['names']
        vals0 = {k: KWVALUES[k]() for k in names}
        base = _kw(inp)
        hist = _hist_of(inp)
        seed = inp.get('npseed', 0)
        fresh = lambda: {**base, **{k: v.copy() for k, v in vals0.items()}}
        B0 = _batch(name, arch, hist, fresh(), seed)
        S0 = _stream(name, arch, hist, fresh(), B0[0], seed)
        if name != 'AngularRate' and not _same(B0, S0) and not (name == 'Madgwick' and arch == 'MARG'):
            return {'tag': f'{entry}/batch-vs-stream', 'observed': {'keywords': names, 'max_abs_diff': float(np.nanmax(np.abs(B0 - S0)))},
                    'expected': 'bit-identical rows'}
        shared = {**base, **{k: v.copy() for k, v in vals0.items()}}

        def bad():
            return [k for k in names if not (isinstance(shared[k], np.ndarray) and shared[k].tobytes() == vals0[k].tobytes())]
        for rep in (1, 2):
            B1 = _batch(name, arch, hist, shared, seed, share=True)
            if bad():
                return {'tag': f'{entry}/constructor-keyword-mutated', 'observed': bad(), 'expected': 'caller arrays keep their bytes'}
            if not _same(B1, B0):
                return {'tag': f'{entry}/shared-keyword-array-changes-batch', 'observed': {'run': rep, 'names': names, 'max_abs_diff': float(np.nanmax(np.abs(B1 - B0)))},
                        'expected': 0.0}
        S1 = _stream(name, arch, hist, shared, B0[0], seed, share=True)
        if bad():
            return {'tag': f'{entry}/constructor-keyword-mutated', 'observed': bad(), 'expected': 'caller arrays keep their bytes'}
        if not _same(S1, S0):
            return {'tag': f'{entry}/shared-keyword-array-changes-stream', 'observed': {'names': names, 'max_abs_diff': float(np.nanmax(np.abs(S1 - S0)))}, 'expected': 0.0}
        # two streaming instances built from the same keyword arrays, fed alternately
        sensors, ent = ARCHS[(name, arch)]
        kw2 = {k: v for k, v in shared.items() if k != 'q0'}
        objs = [getattr(_F(), name)(**kw2), getattr(_F(), name)(**kw2)]
        qs = [np.array(B0[0], float), np.array(B0[0], float)]
        outs = [[qs[0].copy()], [qs[1].copy()]]
        np.random.seed(seed)
        for t in range(1, len(hist[0])):
            for k in (0, 1):
                qs[k] = _call_update(objs[k], name, ent, qs[k], sensors, hist[0][t], hist[1][t], hist[2][t], base)
                outs[k].append(np.array(qs[k], float).copy())
        for k in (0, 1):
            if not _same(np.array(outs[k]), S0):
                return {'tag': f'{entry}/instances-share-keyword-array', 'observed': {'instance': k, 'names': names,
                        'max_abs_diff': float(np.nanmax(np.abs(np.array(outs[k]) - S0)))}, 'expected': 0.0}
        if bad():
            return {'tag': f'{entry}/constructor-keyword-mutated', 'observed': bad(), 'expected': 'caller arrays keep their bytes'}
        return None
    return _guard(body, entry)


ORACLES = {'dt': o_dt, 'rate': o_rate, 'kwshare': o_kwshare, 'stream': o_stream, 'repeat': o_repeat, 'interleave': o_interleave, 'single_frame': o_single_frame, 'order': o_order}


# ------------------------------------------------------------------------------------------ correspondence
def _traced(cls):
    """subclass that records attribute reads and (re)bindings while log['on']"""
    log = {'on': False, 'r': set(), 'w': set(), 'calls': []}

    class T(cls):
        def __getattribute__(self, n):
            if log['on'] and not (n.startswith('__') and n.endswith('__')):
                log['r'].add(n)
            return object.__getattribute__(self, n)

        def __setattr__(self, n, v):
            if log['on']:
                log['w'].add(n)
            object.__setattr__(self, n, v)
    T.__name__ = cls.__name__
    return T, log


def _foot_from_coq(ctx):
    """the footprints the Coq analysis computes on the regenerated facts (so the validation is of the facts Coq reasons on)"""
    pre = ['From Coq Require Import String.', 'From Coq Require Import List.', 'From AhrsModel Require Import C06_scan.',
           'From AhrsGen Require Import C06facts.', 'Import ListNotations.', 'Open Scope string_scope.']
    keys, exprs = [], []
    for name, _, ups, _ in FILTERS:
        for u in ups:
            keys.append((name, u))
            exprs.append(f'(foot (fmethods F_{name}) FUEL (Call "{u}"), fcfg F_{name}, fdata F_{name})')
    outs = ctx.coq_eval('C06_footprints', pre, exprs)
    if outs is None:
        return None
    res = {}
    for k, o in zip(keys, outs):
        m = re.match(r'\((\[.*?\]), (\[.*?\]), (\[.*?\])\)$', o)
        if not m:
            ctx.broken.append({'kind': 'correspondence', 'target': 'C06_footprints', 'error': f'cannot parse {o[:120]}'})
            return None
        acc = re.findall(r'(ARd|AWr|AGl) "([^"]*)"', m.group(1))
        res[k] = {'reads': {a for t, a in acc if t == 'ARd'}, 'writes': {a for t, a in acc if t == 'AWr'},
                  'globs': {a for t, a in acc if t == 'AGl'}, 'cfg': set(re.findall(r'"([^"]*)"', m.group(2))),
                  'data': set(re.findall(r'"([^"]*)"', m.group(3)))}
    return res




def correspondence(ctx):
    foot = _foot_from_coq(ctx)
    if foot is None:
        return
    ctx.c06_foot = foot
    Fm = _F()
    hseed = int(ctx.rng.integers(1 << 30))
    # (i) every per-sample entry point: observed reads / rebinds / value changes / RNG movement inside the static footprint
    for name, _, ups, carried in FILTERS:
        cls = getattr(Fm, name)
        methods = {n for n in dir(cls) if callable(getattr(cls, n, None))}
        for u in ups:
            label = f'C06_footprint/{name}.{u}'
            st = foot[(name, u)]
            for variant in range(ctx.n(6, 24)):
                gyr, acc, mag = history(hseed + variant, 5, ('generic', 'zerogam', 'fast')[variant % 3])
                kwv = OPTIONS.get(name, [{}])
                kw = _kw({'kw': kwv[variant % len(kwv)]})
                kw.pop('q0', None)
                T, log = _traced(cls)
                try:
                    obj = T(**kw)
                except Exception as e:
                    ctx.disagree(label, {'kw': str(kw)}, 'constructible without data', f'{type(e).__name__}: {e}')
                    continue
                q = np.array([1.0, 0.0, 0.0, 0.0])
                for t in range(1, 5):
                    before = {k: copy.deepcopy(v) for k, v in vars(obj).items()}
                    rs = _rng_state()
                    log['r'].clear(); log['w'].clear(); log['on'] = True
                    try:
                        with np.errstate(all='ignore'):
                            if u == 'estimate':
                                r = obj.estimate(acc[t], mag[t]) if (name != 'AQUA' or variant % 2) else obj.estimate(acc[t])
                            elif name == 'AngularRate':
                                r = obj.update(q, gyr[t], method=kw.get('method', 'closed'), order=kw.get('order', 1))
                            elif u == 'updateIMU' or (name in ('UKF',)) or (name == 'EKF' and variant % 2 == 0):
                                r = getattr(obj, u)(q, gyr[t], acc[t])
                            else:
                                r = getattr(obj, u)(q, gyr[t], acc[t], mag[t])
                            if r is not None and np.asarray(r).shape == (4,) and np.all(np.isfinite(np.asarray(r, float))):
                                q = np.asarray(r, float)
                    except Exception:
                        pass                       # an exception half-way still leaves a valid (partial) observation
                    log['on'] = False
                    reads = {n for n in log['r'] if n not in methods}
                    rebinds = set(log['w'])
                    changed = {k for k in set(before) | set(vars(obj)) if k not in before or k not in vars(obj)
                               or not _same_any(before[k], vars(obj)[k])}
                    moved = _rng_state() != rs
                    bad = []
                    if not reads <= st['reads'] | st['writes']:
                        bad.append(('reads', sorted(reads - st['reads'] - st['writes'])))
                    if not rebinds <= st['writes']:
                        bad.append(('rebinds', sorted(rebinds - st['writes'])))
                    if not changed <= st['writes']:
                        bad.append(('changed', sorted(changed - st['writes'])))
                    if moved and 'np.random' not in st['globs']:
                        bad.append(('global RNG advanced', True))
                    if bad:
                        ctx.disagree(label, {'variant': variant, 't': t}, {k: sorted(v) for k, v in st.items()}, bad,
                                     note='observed effect outside the static footprint: the extractor abstraction is unsound here')
                    else:
                        ctx.agree(label)
    # (ii) configuration attributes are bit-equal with and without constructor data; data attributes exist
    for (name, arch), (sensors, entry) in ARCHS.items():
        label = f'C06_cfg/{name}.{arch}'
        st = foot[(name, entry)]
        for kw0 in OPTIONS[name]:
            kw = _kw({'kw': kw0})
            gyr, acc, mag = history(hseed + 17, 4, 'generic')
            np.random.seed(1)
            try:
                with np.errstate(all='ignore'):
                    full = _ctor(name, sensors, gyr, acc, mag, copy.deepcopy(kw))
                    bare = getattr(Fm, name)(**copy.deepcopy(kw))
            except Exception as e:
                if name == 'UKF' and isinstance(e, TypeError):
                    continue
                ctx.disagree(label, {'kw': str(kw0)}, 'constructible', f'{type(e).__name__}: {e}')
                continue
            carried = next(c for n, _, _, c in FILTERS if n == name)
            bad = [a for a in st['cfg'] if a not in carried and a != 'q0'
                   and not _same_any(getattr(full, a, None), getattr(bare, a, None))]
            if bad:
                ctx.disagree(label, {'kw': str(kw0)}, 'configuration attributes independent of the data', bad)
            else:
                ctx.agree(label)
    # (iii) the loop facts: the batch constructor calls exactly the extracted callee, N-1 times, with rows 1..N-1
    facts = getattr(ctx, 'c06_facts', {})
    for (name, arch), (sensors, entry) in ARCHS.items():
        label = f'C06_loop/{name}.{arch}'
        cls = getattr(Fm, name)
        calls = []

        def mk(u, orig):
            def w(self, *a, **k):
                calls.append((u, [np.array(x, dtype=float).copy() if isinstance(x, (np.ndarray, list)) else x for x in a]))
                return orig(self, *a, **k)
            return w
        ups = next(u for n, _, u, _ in FILTERS if n == name)
        T = type(name, (cls,), {u: mk(u, getattr(cls, u)) for u in ups})
        N = 6
        gyr, acc, mag = history(hseed + 5, N, 'generic')
        np.random.seed(2)
        try:
            with np.errstate(all='ignore'):
                d = {}
                if 'g' in sensors: d['gyr'] = gyr
                if 'a' in sensors: d['acc'] = acc
                if 'm' in sensors: d['mag'] = mag
                obj = T(**d)
        except Exception as e:
            if name == 'UKF' and isinstance(e, TypeError):
                continue
            ctx.disagree(label, {}, 'constructible', f'{type(e).__name__}: {e}')
            continue
        top = [c for c in calls if c[0] == entry]
        lf = [l for l in facts.get(name, {}).get('loops', []) if l['callee'] == entry and len(l['data']) == len(sensors)]
        ok = bool(lf) and len(top) == N - 1
        Q = np.asarray(obj.Q, float)
        if ok:
            order = lf[0]['data']
            src = {'gyr': gyr, 'acc': acc, 'mag': mag}
            for t, (_, a) in enumerate(top, start=1):
                if lf[0]['prev'] and not _same(a[0], Q[t - 1]):
                    ok = False
                for j, dn in enumerate(order):
                    if not _same(a[(1 if lf[0]['prev'] else 0) + j], src[dn][t]):
                        ok = False
        if ok:
            ctx.agree(label)
        else:
            ctx.disagree(label, {'N': N}, {'loopfacts': lf}, {'calls': [(c[0], len(c[1])) for c in calls][:8]},
                         note='the constructor does not run the extracted loop')


def _same_any(a, b):
    if a is None or b is None:
        return a is None and b is None
    if isinstance(a, (str, bool, int)) or isinstance(b, (str, bool, int)):
        return type(a) == type(b) and a == b
    if isinstance(a, (list, tuple)) and isinstance(b, (list, tuple)):
        return len(a) == len(b) and all(_same_any(x, y) for x, y in zip(a, b))
    try:
        return _same(np.asarray(a, dtype=float), np.asarray(b, dtype=float))
    except Exception:
        return repr(a) == repr(b)


# ------------------------------------------------------------------------------------------ search
NS = [2, 3, 4, 5, 7, 12, 40]
Q0_IGNORED = {('Madgwick', 'MARG'), ('Fourati', 'MARG')}      # constructors that always estimate their first row
# structured thin regions (all exactly representable): identity and the half-turns about the axes, both signs
EXACT_Q0 = [[1.0, 0.0, 0.0, 0.0], [0.0, 1.0, 0.0, 0.0], [0.0, -1.0, 0.0, 0.0], [0.0, 0.0, 1.0, 0.0], [0.0, 0.0, -1.0, 0.0],
            [0.0, 0.0, 0.0, 1.0], [0.0, 0.0, 0.0, -1.0]]
EXACT_ACC = [[0.0, 0.0, 9.8125], [0.0, 0.0, -9.8125], [9.8125, 0.0, 0.0]]                 # level, inverted, on its side
EXACT_MAG = [[20.0, 0.0, 40.0], [0.0, 30.0, 0.0], [30.0, 0.0, 0.0]]                       # dipping north, east, north
EXACT_GYR = [[0.0, 0.0, 0.0], [0.0, 0.0, 0.5], [0.5, 0.0, 0.0], [0.0, -0.5, 0.0]]         # none, about each axis


# int64 sensor arrays are rejected (UFuncTypeError in an in-place float division) by ecompass/am2q (initial row of the MARG
# constructors of Madgwick and Mahony), by EKF.update and by Fourati: that is an input-dtype matter outside this property, and the
# batch run then has no initial attitude to stream from.  int64 histories are fed where the constructor accepts them.
INT64_OK = {('Madgwick', 'IMU'), ('Mahony', 'IMU'), ('UKF', 'IMU'), ('AQUA', 'IMU'), ('AQUA', 'MARG'), ('ROLEQ', 'MARG'), ('AngularRate', 'GYR')}


def _kinds(name, arch):
    z = ZERO_OK.get(name, 'g')
    return ['generic', 'fast', 'int', 'int64' if (name, arch) in INT64_OK else 'int', 'zero' + z, 'zerog']


def _order_pairs(scale):
    """pairs of DIFFERENT configurations: per class and architecture option 0 against every other option (all option pairs in the
    thorough tier), the two architectures of a class against each other, and pairs of different classes that share helpers"""
    out = []
    for name, opts in OPTIONS.items():
        archs = [a for (n, a) in ARCHS if n == name]
        for a in archs:
            for i in range(len(opts)):
                for j in range(i + 1, len(opts)):
                    if i == 0 or scale > 1:
                        out.append(((name, a, i), (name, a, j)))
        if len(archs) == 2:
            for i in range(len(opts) if scale > 1 else 2):
                out.append(((name, archs[0], i), (name, archs[1], (i + 1) % len(opts))))
    cross = [(('EKF', 'MARG', 0), ('ROLEQ', 'MARG', 1)), (('ROLEQ', 'MARG', 0), ('EKF', 'MARG', 1)), (('EKF', 'MARG', 1), ('Fourati', 'MARG', 0)),
             (('AQUA', 'MARG', 1), ('Mahony', 'MARG', 0)), (('Madgwick', 'MARG', 0), ('Fourati', 'MARG', 1)), (('UKF', 'IMU', 0), ('EKF', 'IMU', 1)),
             (('AngularRate', 'GYR', 1), ('Madgwick', 'IMU', 1)), (('Mahony', 'IMU', 2), ('AQUA', 'IMU', 2))]
    return out + cross


def search(ctx, scale):
    rng = ctx.rng
    cfgs = list(ARCHS)
    per = 6 * scale
    k = 0
    for (name, arch) in cfgs:
        for oi, kw in enumerate(OPTIONS[name]):
            for j in range(per):
                N = NS[(k + j) % len(NS)]
                kind = _kinds(name, arch)[(k + 2 * j + oi) % 6]
                inp = {'filter': name, 'arch': arch, 'kw': kw, 'hseed': int(rng.integers(1 << 30)), 'N': N, 'kind': kind,
                       'npseed': int(rng.integers(1 << 16))}
                nt = (name, arch, oi, N, kind) if N >= 3 else None
                ctx.check('stream', inp, o_stream(inp), nontrivial_key=nt)
                k += 1
            inp = {'filter': name, 'arch': arch, 'kw': kw, 'hseed': int(rng.integers(1 << 30)), 'N': NS[k % len(NS)], 'kind': 'generic',
                   'npseed': int(rng.integers(1 << 16)), 'reps': 3, 'other': list(cfgs[(k * 5 + 1) % len(cfgs)])}
            ctx.check('repeat', inp, o_repeat(inp), nontrivial_key=('rep', name, arch, oi))
    # interleavings: same class twice (shared defaults / class attributes), and different classes
    pairs = [(c, c) for c in cfgs] + [(cfgs[i], cfgs[(3 * i + 5) % len(cfgs)]) for i in range(len(cfgs))]
    for rep in range(3 * scale):
        for (a, b) in pairs:
            def spec(c, j):
                o = OPTIONS[c[0]]
                return {'filter': c[0], 'arch': c[1], 'kw': o[(j + rep) % len(o)], 'hseed': int(rng.integers(1 << 30)),
                        'N': NS[int(rng.integers(1, len(NS) - 1))], 'kind': ('generic', 'zerog')[j % 2]}
            inp = {'A': spec(a, 0), 'B': spec(b, 1), 'iseed': int(rng.integers(1 << 30)), 'same_data': bool((rep + len(a[0])) % 2)}
            ctx.check('interleave', inp, o_interleave(inp), nontrivial_key=('il', a, b, rep))
    # per-call dt against the constructor's sampling setting, 25 / 50 / 200 Hz
    for (name, arch) in cfgs:
        for hi, hz in enumerate((25.0, 50.0, 200.0)):
            for rep in range(scale):
                o = OPTIONS[name]
                kw = dict(o[(hi + rep) % len(o)])
                if name == 'Madgwick' and not ({'gain', 'beta'} & set(kw)):
                    kw['gain'] = 0.041                     # keeps the recorded gain finding out of this comparison
                inp = {'filter': name, 'arch': arch, 'kw': kw, 'hz': hz, 'how': ('frequency', 'Dt')[(hi + rep + len(name)) % 2],
                       'hseed': int(rng.integers(1 << 30)), 'N': NS[int(rng.integers(1, 6))], 'kind': ('generic', 'zero' + ZERO_OK[name], 'fast')[(hi + rep) % 3],
                       'npseed': int(rng.integers(1 << 16))}
                ctx.check('dt', inp, o_dt(inp), nontrivial_key=('dt', name, arch, hz, rep))
    # structured starts: exactly antipodal / axis-aligned initial attitudes with level, inverted and axis-aligned exact samples
    for ci, (name, arch) in enumerate(cfgs):
        for qi, q0 in enumerate(EXACT_Q0):
            for ai, a in enumerate(EXACT_ACC):
                gs = EXACT_GYR if scale > 1 else [EXACT_GYR[0], EXACT_GYR[1 + (qi + ai + ci) % (len(EXACT_GYR) - 1)]]
                for gi, g in enumerate(gs):
                    ms = [m for m in EXACT_MAG if abs(float(np.dot(np.array(m) / np.linalg.norm(m), np.array(a) / np.linalg.norm(a)))) < 0.999]
                    ms = ms if scale > 1 else [ms[(qi + ai + gi) % len(ms)]]
                    for m in ms:
                        kind = 'exact|' + '|'.join(','.join(repr(float(x)) for x in v) for v in (a, m, g))
                        kw = {'q0': q0}
                        if name == 'Madgwick':
                            kw['gain'] = 0.041
                        inp = {'filter': name, 'arch': arch, 'kw': kw, 'hseed': 0, 'N': 3 + (qi + gi) % 2, 'kind': kind, 'npseed': int(rng.integers(1 << 16)), 'outcomes': True}
                        ctx.check('stream', inp, o_stream(inp), nontrivial_key=('exact', name, arch, qi, ai, tuple(g), tuple(m)))
            a = EXACT_ACC[qi % len(EXACT_ACC)]
            kind = 'exact|' + '|'.join(','.join(repr(float(x)) for x in v) for v in (a, EXACT_MAG[0], EXACT_GYR[1 + qi % 3]))
            kw = {'q0': q0, **({'gain': 0.041} if name == 'Madgwick' else {})}
            inp = {'filter': name, 'arch': arch, 'kw': kw, 'hseed': 0, 'N': 4, 'kind': kind, 'npseed': int(rng.integers(1 << 16)), 'reps': 2, 'outcomes': True}
            ctx.check('repeat', inp, o_repeat(inp), nontrivial_key=('exact-rep', name, arch, qi))
            inp = {'A': {'filter': name, 'arch': arch, 'kw': kw, 'hseed': 0, 'N': 4, 'kind': kind},
                   'B': {'filter': name, 'arch': arch, 'kw': {}, 'hseed': int(rng.integers(1 << 30)), 'N': 4, 'kind': 'generic'},
                   'iseed': int(rng.integers(1 << 30)), 'same_data': False, 'outcomes': True}
            ctx.check('interleave', inp, o_interleave(inp), nontrivial_key=('exact-il', name, arch, qi))
    # EVERY constructor keyword (inspect.signature + the names looked up in **kwargs) with a non-default value, one at a time and all
    # together: batch vs stream built with the same keywords, repeat, and an interleaving against a default instance of the class
    for (name, arch) in cfgs:
        sweep, missing = keyword_sweep(name)
        if missing:
            ctx.say(f'[search] {name}: constructor keywords without a non-default value generator (not swept): {missing}')
        both = {}
        for k, v in sweep:
            if not ({'gain', 'beta'} & set(both) and k in ('gain', 'beta')) and not (k == 'magnetic_dip' and name != 'Fourati'):
                both.setdefault(k, v)
        for kws in [{k: v} for k, v in sweep] + [both]:
            for rep in range(scale):
                inp = {'filter': name, 'arch': arch, 'kw': kws, 'hseed': int(rng.integers(1 << 30)), 'N': NS[int(rng.integers(1, 6))],
                       'kind': ('generic', 'zero' + ZERO_OK[name])[rep % 2], 'npseed': int(rng.integers(1 << 16))}
                ctx.check('stream', inp, o_stream(inp), nontrivial_key=('sweep', name, arch, tuple(sorted(kws)), rep))
            inp = {'A': {'filter': name, 'arch': arch, 'kw': kws, 'hseed': int(rng.integers(1 << 30)), 'N': 5, 'kind': 'generic'},
                   'B': {'filter': name, 'arch': arch, 'kw': {}, 'hseed': int(rng.integers(1 << 30)), 'N': 4, 'kind': 'generic'},
                   'iseed': int(rng.integers(1 << 30)), 'same_data': False}
            ctx.check('interleave', inp, o_interleave(inp), nontrivial_key=('sweep-il', name, arch, tuple(sorted(kws))))
    # the rate configured in the constructor (frequency= / Dt= / both), streamed WITHOUT dt
    for (name, arch) in cfgs:
        for hi, hz in enumerate((25.0, 50.0, 250.0)):
            for rep in range(scale):
                o = OPTIONS[name]
                kw = dict(o[(hi + rep + 1) % len(o)])
                if name == 'Madgwick' and not ({'gain', 'beta'} & set(kw)):
                    kw['gain'] = 0.041
                inp = {'filter': name, 'arch': arch, 'kw': kw, 'hz': hz, 'hz2': (100.0, 40.0, 500.0)[(hi + rep) % 3],
                       'how': ('Dt', 'both', 'frequency')[(hi + rep + len(name)) % 3], 'hseed': int(rng.integers(1 << 30)),
                       'N': NS[int(rng.integers(1, 6))], 'kind': ('generic', 'fast', 'zero' + ZERO_OK[name])[(hi + rep) % 3], 'npseed': int(rng.integers(1 << 16))}
                ctx.check('rate', inp, o_rate(inp), nontrivial_key=('rate', name, arch, hz, rep))
    # every array-valued constructor keyword (found in the class source) as a caller-owned array shared by runs and instances
    for (name, arch) in cfgs:
        names, unknown = array_kwargs(name)
        if unknown:
            ctx.say(f'[search] {name}: constructor keywords without a value generator (not exercised as shared arrays): {unknown}')
        combos = [[k] for k in names] + ([names] if len(names) > 1 else [])
        for names_k in combos:
            if 'magnetic_dip' in names_k and len(names_k) > 1:
                names_k = [k for k in names_k if k != 'magnetic_dip'] if name != 'Fourati' else names_k
            for rep in range(scale):
                inp = {'filter': name, 'arch': arch, 'kw': {}, 'names': list(names_k), 'hseed': int(rng.integers(1 << 30)),
                       'N': NS[int(rng.integers(1, 6))], 'kind': 'generic', 'npseed': int(rng.integers(1 << 16))}
                ctx.check('kwshare', inp, o_kwshare(inp), nontrivial_key=('kw', name, arch, tuple(names_k), rep))
    # creation/run ORDER of different configurations, each compared with its run in a freshly imported package
    for (a, b) in _order_pairs(scale):
        def ospec(c):
            return {'filter': c[0], 'arch': c[1], 'kw': OPTIONS[c[0]][c[2]], 'hseed': int(rng.integers(1 << 30)), 'N': NS[int(rng.integers(1, 5))],
                    'kind': 'generic', 'npseed': int(rng.integers(1 << 16))}
        inp = {'A': ospec(a), 'B': ospec(b)}
        ctx.check('order', inp, o_order(inp), nontrivial_key=('ord', a, b))
    for name in ('OLEQ', 'FLAE'):
        for j in range(8 * scale):
            kw = [{}, {'weights': [0.7, 1.9]} if name == 'OLEQ' else {'method': 'newton'}, {'frame': 'ENU'} if name == 'OLEQ' else {'method': 'eig'},
                  {'magnetic_ref': 60.0} if name == 'OLEQ' else {'magnetic_dip': 60.0}][j % 4]
            inp = {'filter': name, 'kw': kw, 'hseed': int(rng.integers(1 << 30)), 'N': NS[j % 5 + 1], 'npseed': int(rng.integers(1 << 16))}
            ctx.check('single_frame', inp, o_single_frame(inp), nontrivial_key=('sf', name, j))
        for w in ([0.1, 0.3], [2.0, 2.0], [0.1, 2.2]):     # two instances built from one caller-owned weights array
            inp = {'filter': name, 'kw': {}, 'hseed': int(rng.integers(1 << 30)), 'N': 4, 'npseed': 1, 'shared_weights': w}
            ctx.check('single_frame', inp, o_single_frame(inp), nontrivial_key=('sfw', name, tuple(w)))
    ctx.samples.append({'kind': 'search', 'oracle': 'stream', 'input': {'filter': 'EKF', 'arch': 'MARG', 'kw': {'frame': 'ENU'}, 'hseed': 1, 'N': 7}})
