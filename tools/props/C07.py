"""C07 — array (vectorised) entry points equal the scalar entry points row by row.

Every twin pair is ONE table entry: a scalar call `s(A, *groups)` and an array call `b(A, *stacked_groups)` written
against a package object `A`.  With `A` = the traced private copy and symbolic groups they are the pysym targets
(`C07_<pair>_s`, `C07_<pair>_b1` = one-row batch row 0, `C07_<pair>_b2` = two-row batch row 1); with `A` = the real
`ahrs` package and float arrays the very same lambdas are the implementation side of the correspondence check and of
the search oracle.  So the model, the correspondence and the oracle cannot drift apart."""
import contextlib
import math
import numpy as np
from pysym.gen import Target
from . import common as cm

PID = 'C07'
LEVEL_TEXT = ("Coq theorems `batch row = single` (as outcomes, raising paths included) over the regenerated scalar copy and the "
              "regenerated array copy (one-row and two-row batches) of every traceable twin pair, lifted to all N by a map lemma; "
              "eig/RNG/iteration-based estimators are compared bit for bit by the search oracle only; twelve twin defects of the pinned "
              "tree are exhibited by refuted theorems and known findings")
TECHNIQUE = "pysym twin targets + Coq (destruct decisions; ring/field with transcendental atoms) + differential search oracle"
RULE = ("per pair: rows from the named thin regions (identity, axis-aligned/oblique half-turns, near-identity 1e-9..1e-3, "
        "near-half-turn, pure, generic; Euler angles at 0, +-pi/2, +-pi, +-2pi and out of range; sensor rows axis-aligned, "
        "acc parallel to mag, generic) in batches of N in {1,2,7}; a case is non-trivial when its rows are not all the identity; "
        "distinct = distinct (pair, N, rounded rows)")
TRUSTED = [
    "Coq 8.16.1 kernel and vm_compute (used only to run the float copies)",
    "pysym tracing translator (/verif/tools/pysym): NumPy proxy semantics incl. broadcasting over the row axis, Gallina printer",
    "the step 'an N-row NumPy batch is the map of its one-row behaviour' is the translator's broadcasting semantics; it is "
    "exercised (not proved) by the one-row and two-row targets and by the search oracle with N in {1,2,7}",
    "real arithmetic stands for binary64 (gap measured by the correspondence, not proved)",
    "axioms: the standard library's real-number axioms and Classical_Prop.classic (stdlib trigonometry)",
]
PARTIAL = ("FLAE, QUEST, Davenport, OLEQ, AQUA and itzhack (eig / RNG / unbounded iteration) cannot be traced: search oracle only. "
           "Twin theorems are stated for non-zero sensor rows and Euler angles in [-2pi,2pi]; from_DCM twins are stated as "
           "'whenever the scalar path accepts, the array path returns the same' because the array path lacks the SO(3) gate; "
           "hughes, the metric shortcut, chiaverini at exact half-turns, identity_deviation/angular_distance batches and the OLEQ "
           "one-row batch are known findings")

Q = ['w', 'x', 'y', 'z']
P = ['a', 'b', 'c', 'd']
ANG = ['a0', 'a1', 'a2']
ANG2 = ['b0', 'b1', 'b2']
M = [f'r{i}{j}' for i in range(3) for j in range(3)]
M2 = [f's{i}{j}' for i in range(3) for j in range(3)]
AC = ['ax', 'ay', 'az']
MG = ['mx', 'my', 'mz']


# ------------------------------------------------------------------------------------------
# the twin table
# ------------------------------------------------------------------------------------------
class Pair:
    def __init__(self, name, groups, s, b, kind='copy', trace=True, two=False, tol=(64, 0.0), domain='quat', region=None,
                 max_paths=512, doc=''):
        self.name, self.groups, self.s, self.b = name, groups, s, b
        self.kind = kind            # 'copy' (two hand-written copies) | 'shared' (batch loops over the scalar entry point)
        self.trace, self.two, self.tol, self.domain = trace, two, tol, domain
        self.max_paths, self.doc = max_paths, doc
        self.inputs = [n for g in groups for n in g]
        self.rng = False


def _O(A):
    return A.common.orientation


def _Mx(A):
    return A.utils.metrics


def _arr(x):
    return np.asarray(x)


def _pairs():
    L = []
    add = lambda *a, **k: L.append(Pair(*a, **k))
    # ---- Quaternion vs QuaternionArray
    add('to_DCM', [Q], lambda A, q: A.Quaternion(q).to_DCM(), lambda A, q: A.QuaternionArray(q).to_DCM(), two=True)
    add('conj', [Q], lambda A, q: A.Quaternion(q).conjugate, lambda A, q: A.QuaternionArray(q).conjugate(), two=True)
    add('conj_S', [Q], lambda A, q: A.Quaternion(q, order='S').conjugate, lambda A, q: A.QuaternionArray(q, order='S').conjugate())
    add('to_angles', [Q], lambda A, q: A.Quaternion(q).to_angles(), lambda A, q: A.QuaternionArray(q).to_angles(), two=True)
    add('to_angles_S', [Q], lambda A, q: A.Quaternion(q, order='S').to_angles(),
        lambda A, q: A.QuaternionArray(q, order='S').to_angles())
    add('to_DCM_S', [Q], lambda A, q: A.Quaternion(q, order='S').to_DCM(), lambda A, q: A.QuaternionArray(q, order='S').to_DCM())
    add('from_rpy', [ANG], lambda A, a: _arr(A.Quaternion(rpy=a)), lambda A, a: _arr(A.QuaternionArray(rpy=a)), domain='angles')
    add('from_angles', [ANG], lambda A, a: _arr(A.Quaternion(angles=a)), lambda A, a: _arr(A.QuaternionArray(angles=a)),
        domain='angles', trace=False)
    # (not traced: after the SO(3) gate and two normalisations the regenerated terms are too large for the twin tactics;
    #  the separately written copies are the free functions chiaverini/hughes below, which are traced)
    for meth, kw, tr in (('shepperd', {}, False), ('chiaverini', {}, False), ('hughes', {}, False), ('sarabandi', {}, False),
                         ('itzhack1', {'version': 1}, False), ('itzhack2', {'version': 2}, False), ('itzhack3', {'version': 3}, False)):
        m = meth.rstrip('123')
        add(f'dcm_{meth}', [M], (lambda A, R, m=m, kw=kw: _arr(A.Quaternion(dcm=R, method=m, **kw))),
            (lambda A, R, m=m, kw=kw: _arr(A.QuaternionArray(DCM=R, method=m, **kw))), trace=tr, domain='dcm', tol=(4096, 0.0),
            max_paths=1024)
    # ---- free functions with a 1-D and an N-D branch
    add('chiaverini', [M], lambda A, R: _O(A).chiaverini(R), lambda A, R: _O(A).chiaverini(R), two=True, domain='dcm', tol=(4096, 0.0))
    add('hughes', [M], lambda A, R: _O(A).hughes(R), lambda A, R: _O(A).hughes(R), domain='dcm', tol=(4096, 0.0))
    add('q2R_v1', [Q], lambda A, q: _O(A).q2R(q, version=1), lambda A, q: _O(A).q2R(q, version=1), two=True)
    add('q2R_v2', [Q], lambda A, q: _O(A).q2R(q, version=2), lambda A, q: _O(A).q2R(q, version=2))
    add('rpy2q', [ANG], lambda A, a: _O(A).rpy2q(a), lambda A, a: _O(A).rpy2q(a).T, two=True, domain='angles',
        doc='N-by-3 input returns a 4-by-N array: rows are read from its transpose')
    # ---- metrics
    for m in ('qdist', 'qeip', 'qcip', 'qad'):
        add(m, [P, Q], (lambda A, p, q, m=m: getattr(_Mx(A), m)(p, q)), (lambda A, p, q, m=m: getattr(_Mx(A), m)(p, q)),
            domain='quat2', tol=(64, 1e-9), two=(m == 'qeip'))
    add('chordal', [M, M2], lambda A, R, S: _Mx(A).chordal(R, S), lambda A, R, S: _Mx(A).chordal(R, S), domain='dcm2')
    add('identity_deviation', [M, M2], lambda A, R, S: _Mx(A).identity_deviation(R, S), lambda A, R, S: _Mx(A).identity_deviation(R, S),
        domain='dcm2', trace=False)
    add('angular_distance', [M, M2], lambda A, R, S: _Mx(A).angular_distance(R, S), lambda A, R, S: _Mx(A).angular_distance(R, S),
        domain='dcm2', trace=False, tol=(64, 1e-9))
    # ---- every other function with an `.ndim` switch (found by introspection, see twin_coverage)
    add('euclidean', [ANG, ANG2], lambda A, x, y: _Mx(A).euclidean(x, y), lambda A, x, y: _Mx(A).euclidean(x, y), domain='ang2', two=True)
    add('rmse', [ANG, ANG2], lambda A, x, y: _Mx(A).rmse(x, y), lambda A, x, y: _Mx(A).rmse(x, y), domain='ang2')
    add('rmse_matrices', [M, M2], lambda A, R, S: _Mx(A).rmse_matrices(R, S), lambda A, R, S: _Mx(A).rmse_matrices(R, S), domain='dcm2')
    add('q_conj', [Q], lambda A, q: _O(A).q_conj(q), lambda A, q: _O(A).q_conj(q), trace=False)
    add('q_norm', [Q], lambda A, q: _O(A).q_norm(q), lambda A, q: _O(A).q_norm(q), trace=False)
    add('am2angles', [AC, MG], lambda A, a, m: _O(A).am2angles(a, m)[0], lambda A, a, m: _O(A).am2angles(a, m), domain='am', trace=False,
        doc='1-D operands are promoted to one row: the scalar result is row 0 of a 1-by-3 array')
    add('complementary_am', [AC, MG], lambda A, a, m: A.filters.Complementary().am_estimation(a, m),
        lambda A, a, m: A.filters.Complementary().am_estimation(a, m), domain='am', trace=False)
    # ---- Tilt and SAAM: vectorised copy vs estimate()
    for rep in ('quaternion', 'angles', 'rotmat'):
        add(f'tilt_{rep}', [AC, MG], (lambda A, a, m, rep=rep: A.filters.Tilt(acc=a, mag=m, representation=rep).Q),
            (lambda A, a, m, rep=rep: A.filters.Tilt(acc=a, mag=m, representation=rep).Q), domain='am', two=(rep == 'angles'),
            trace=(rep != 'rotmat'))
    add('tilt_nomag', [AC], lambda A, a: A.filters.Tilt(acc=a).Q, lambda A, a: A.filters.Tilt(acc=a).Q, domain='a')
    add('saam', [AC, MG], lambda A, a, m: A.filters.SAAM(acc=a, mag=m).Q, lambda A, a, m: A.filters.SAAM(acc=a, mag=m).Q, domain='am',
        two=True, tol=(64, 1e-9))      # q = raw/|raw| with |raw| -> 0 as acc -> parallel to mag: rounding is amplified (4e-14 seen)
    add('saam_rotmat', [AC, MG], lambda A, a, m: A.filters.SAAM(acc=a, mag=m, representation='rotmat').A,
        lambda A, a, m: A.filters.SAAM(acc=a, mag=m, representation='rotmat').A, domain='am', trace=False, tol=(64, 1e-9))
    # ---- loop-style estimators: batch = [estimate(row) for row]
    add('famc', [AC, MG], lambda A, a, m: A.filters.FAMC(acc=a, mag=m).Q, lambda A, a, m: A.filters.FAMC(acc=a, mag=m).Q, kind='shared',
        domain='am')
    add('fqa', [AC, MG], lambda A, a, m: A.filters.FQA(acc=a, mag=m).Q, lambda A, a, m: A.filters.FQA(acc=a, mag=m).Q, kind='shared',
        domain='am', trace=False)
    for rep in ('rotmat', 'quaternion'):
        for frame in ('NED', 'ENU'):
            add(f'triad_{rep}_{frame}', [AC, MG],
                (lambda A, a, m, rep=rep, frame=frame: A.filters.TRIAD(w1=a, w2=m, representation=rep, frame=frame).A),
                (lambda A, a, m, rep=rep, frame=frame: A.filters.TRIAD(w1=a, w2=m, representation=rep, frame=frame).A),
                kind='shared', domain='am', trace=False)
    add('quest', [AC, MG], lambda A, a, m: A.filters.QUEST(acc=a, mag=m).Q, lambda A, a, m: A.filters.QUEST(acc=a, mag=m).Q, kind='shared',
        domain='am', trace=False)
    add('davenport', [AC, MG], lambda A, a, m: A.filters.Davenport(acc=a, mag=m).Q, lambda A, a, m: A.filters.Davenport(acc=a, mag=m).Q,
        kind='shared', domain='am', trace=False)
    for frame in ('NED', 'ENU'):
        add(f'oleq_{frame}', [AC, MG], (lambda A, a, m, frame=frame: A.filters.OLEQ(acc=a, mag=m, frame=frame).Q),
            (lambda A, a, m, frame=frame: A.filters.OLEQ(acc=a, mag=m, frame=frame).Q), kind='shared', domain='am', trace=False)
        L[-1].rng = True
    for frame in ('NED', 'ENU'):
        add(f'aqua_{frame}', [AC, MG], (lambda A, a, m, frame=frame: A.filters.AQUA(acc=a, mag=m, frame=frame).Q),
            (lambda A, a, m, frame=frame: A.filters.AQUA(acc=a, mag=m, frame=frame).Q), kind='shared', domain='am', trace=False)
    for meth in ('symbolic', 'eig', 'newton'):
        add(f'flae_{meth}', [AC, MG], (lambda A, a, m, meth=meth: A.filters.FLAE(acc=a, mag=m, method=meth).Q),
            (lambda A, a, m, meth=meth: A.filters.FLAE(acc=a, mag=m, method=meth).Q), kind='shared', domain='am', trace=False)
    return L


PAIRS = _pairs()
BYNAME = {p.name: p for p in PAIRS}
OTHER = lambda n: 'k_' + n      # names of the other row in the two-row targets


def _shape(g):
    return (3, 3) if len(g) == 9 else (len(g),)


def _sym_group(v, g, prefix=None):
    names = [prefix(n) for n in g] if prefix else list(g)
    if len(g) == 9:
        return v.mat([names[0:3], names[3:6], names[6:9]])
    return v.vec(*names)


def _stack_sym(arrs):
    from pysym import symnp
    return symnp.array([a.tolist() for a in arrs])


def targets(all_pairs=False, only=None, force_two=False):
    T = []
    for p in PAIRS:
        if (not p.trace and not all_pairs) or (only is not None and p.name != only):
            continue
        T.append(Target(f'C07_{p.name}_s', p.inputs, (lambda A, v, p=p: p.s(A, *[_sym_group(v, g) for g in p.groups])),
                        max_paths=p.max_paths, doc=f'scalar entry point of twin {p.name}. {p.doc}'))
        T.append(Target(f'C07_{p.name}_b1', p.inputs,
                        (lambda A, v, p=p: p.b(A, *[_stack_sym([_sym_group(v, g)]) for g in p.groups])[0]),
                        max_paths=p.max_paths, doc=f'array entry point of twin {p.name} on a one-row batch, row 0. {p.doc}'))
        if p.two or force_two:
            T.append(Target(f'C07_{p.name}_b2', [OTHER(n) for n in p.inputs] + p.inputs,
                            (lambda A, v, p=p: p.b(A, *[_stack_sym([_sym_group(v, g, OTHER), _sym_group(v, g)]) for g in p.groups])[1]),
                            max_paths=p.max_paths, doc=f'array entry point of twin {p.name} on a two-row batch, row 1'))
    return T


# pairs whose twin equality is established by structural comparison of the two regenerated DAGs (tools/props/C07dag.py):
# 'equal' = same outcome on every path; 'accepts' = whenever the scalar route returns a value the array route returns the same
DAG = {'fqa': 'equal', 'famc': 'equal', 'triad_rotmat_NED': 'equal', 'triad_rotmat_ENU': 'equal', 'triad_quaternion_NED': 'equal',
       'triad_quaternion_ENU': 'equal', 'q_conj': 'equal', 'q_norm': 'equal', 'am2angles': 'equal',
       'dcm_shepperd': 'accepts', 'dcm_hughes': 'accepts', 'dcm_sarabandi': 'accepts', 'complementary_am': 'accepts',
       'tilt_rotmat': 'accepts', 'saam_rotmat': 'accepts'}
DAG_THOROUGH = {'triad_quaternion_NED', 'triad_quaternion_ENU', 'dcm_sarabandi'}      # > 2 s each to trace


def pregen(ctx):
    """DAG twins: trace both sides on the same symbols (hash-consed), compare structurally, and tie the traced DAGs to the
    implementation by evaluating them in binary64 (no Coq involved on this route)"""
    import os
    from pysym import gen, loader, emit
    from vlib.core import call_outcome, flat_floats
    from . import C07dag
    pkg = loader.load()
    thorough = ctx.tier == 'thorough' or os.environ.get('VERIF_TIER_EFFECTIVE') == 'thorough'
    for name, mode in DAG.items():
        if name in DAG_THOROUGH and not thorough:
            continue
        p = BYNAME[name]
        trees = {}
        for side in ('s', 'b1'):
            t = ctx.targets.get(f'C07_{name}_{side}')
            if t is None:
                t = [x for x in targets(all_pairs=True, only=name) if x.name == f'C07_{name}_{side}'][0]
                gen.trace(t, pkg)
            trees[side] = t
        ctx.obligations += 1
        label = f'dag:{name}'
        bad = [t for t in trees.values() if t.error]
        if bad:
            ctx.broken.append({'kind': 'translation', 'target': bad[0].name, 'error': bad[0].error})
            ctx.say(f"[dag] {name}: FAILED to trace: {bad[0].error}")
            continue
        r = C07dag.compare(trees['s'].tree, trees['b1'].tree, mode)
        if r['ok']:
            ctx.discharged += 1
            ctx.theorems.append(('C07dag.py', f'dag_{mode}:{name}'))
        else:
            ctx.broken.append({'kind': 'proof', 'file': 'C07dag.py', 'error': f'regenerated array row and scalar DAGs differ ({mode})',
                               'theorems': [label], 'detail': repr(r['mismatches'])})
        ctx.say(f"[dag] {name}: {'same DAG' if r['identical'] else 'same leaves under the scalar path conditions' if r['ok'] else 'DIFFERENT'} "
                f"(mode {mode}, {r['leaf_pairs']} leaf pairs, {r['n_mismatch']} mismatches; {trees['s'].npaths}/{trees['b1'].npaths} paths)")
        # correspondence of the traced DAGs with the implementation (float evaluation of the DAG in Python)
        rows = rows_for(p, ctx.rng, 12)
        for side, impl in (('s', lambda r: impl_single(p, r)), ('b1', lambda r: impl_batch(p, [r])[0])):
            t = trees[side]
            if f'C07_{name}_{side}' in ctx.targets:
                continue            # emitted to Coq: covered by ctx.correspond
            for _, r in rows:
                c = cm.d(p.inputs, r)
                kind, val = emit.run_tree(t.tree, c)[:2]
                io = call_outcome(impl, list(map(float, r)))
                if kind == 'val' and not np.all(np.isfinite(np.array(val, dtype=float))):
                    continue        # 0/0 in binary64 (e.g. SAAM on a level sample): outside the real-number model; the package now rejects NaN
                ok = (kind == io[0]) if (kind == 'raise' or io[0] == 'raise') else None
                if ok is None:
                    iv = np.array(_flat(io[1]), dtype=float)
                    mv = np.array(val, dtype=float)
                    ok = iv.shape == mv.shape and bool(np.all((np.isnan(iv) & np.isnan(mv)) |
                                                             (np.abs(iv - mv) <= 1e-9 + 4096 * 2.0 ** -52 * np.maximum(1.0, np.abs(iv)))))
                if ok:
                    ctx.agree(f'dagcorr:{name}_{side}')
                else:
                    ctx.disagree(f'dagcorr:{name}_{side}', c, val if kind == 'val' else kind, io[1] if io[0] == 'val' else io[:2])
    _pregen_repaired(ctx, pkg, thorough)


# twins that hold only once a recorded defect is repaired: (pair, array-side target, mode, tags of the findings that excuse a failure).
# While the finding is recorded and the DAGs differ nothing is claimed; as soon as the DAGs agree the equality is a checked obligation,
# and once the finding line is dropped from known_findings.jsonl a later regression is a broken obligation (-> VIOLATION).
DAG_REPAIRED = [
    ('rpy2q', 'b2', 'equal', ['rpy2q/generic-differs']),
    ('identity_deviation', 'b1', 'equal', ['identity_deviation/batch-always-raises']),
    ('angular_distance', 'b1', 'equal', ['angular_distance/batch-always-raises']),
    ('dcm_shepperd', 'b1', 'equal', ['dcm_shepperd/not-SO3-raises-vs-value']),
    ('dcm_hughes', 'b1', 'equal', ['dcm_hughes/not-SO3-raises-vs-value']),
    ('dcm_sarabandi', 'b1', 'equal', ['dcm_sarabandi/not-SO3-raises-vs-value']),
]


def _pregen_repaired(ctx, pkg, thorough):
    from pysym import gen
    from vlib.core import load_findings
    from . import C07dag
    recorded = {k['tag'] for k in load_findings(PID) if k.get('status', 'known') == 'known'}
    for name, side, mode, tags in DAG_REPAIRED:
        if name in DAG_THOROUGH and not thorough:
            continue
        trees = {}
        for sd in ('s', side):
            t = ctx.targets.get(f'C07_{name}_{sd}')
            if t is None:
                cand = [x for x in targets(all_pairs=True, only=name, force_two=(side == 'b2')) if x.name == f'C07_{name}_{sd}']
                t = cand[0]
                gen.trace(t, pkg)
            trees[sd] = t
        err = [t.error for t in trees.values() if t.error]
        r = None if err else C07dag.compare(trees['s'].tree, trees[side].tree, mode)
        if r is not None and r['ok']:
            ctx.obligations += 1
            ctx.discharged += 1
            ctx.theorems.append(('C07dag.py', f'dag_{mode}:{name}_{side} (repaired twin)'))
            ctx.say(f"[dag] {name}/{side}: repaired twin holds (mode {mode}, {r['leaf_pairs']} leaf pairs)")
        elif any(t in recorded for t in tags):
            ctx.say(f"[dag] {name}/{side}: not claimed: recorded finding {tags[0]} ({'untraceable: ' + err[0][:60] if err else str(r['n_mismatch']) + ' leaf mismatches'})")
        else:
            ctx.obligations += 1
            ctx.broken.append({'kind': 'proof', 'file': 'C07dag.py', 'theorems': [f'dag:{name}_{side}'],
                               'error': f'repaired twin {name}/{side} no longer holds and no finding is recorded for it',
                               'detail': err[0] if err else repr(r['mismatches'])})
            ctx.say(f"[dag] {name}/{side}: DIFFERENT and no finding recorded")
    # Quaternion(angles=) / QuaternionArray(angles=) are synonyms of the rpy= constructors: same DAGs as the from_rpy pair, whose twin
    # equality is the Coq theorem C07_from_rpy_partial
    tags = ['from_angles/array-constructor-missing']
    tr = {}
    for nm in ('from_angles', 'from_rpy'):
        for sd in ('s', 'b1'):
            t = ctx.targets.get(f'C07_{nm}_{sd}')
            if t is None:
                t = [x for x in targets(all_pairs=True, only=nm) if x.name == f'C07_{nm}_{sd}'][0]
                gen.trace(t, pkg)
            tr[nm, sd] = t
    ok = all(not t.error for t in tr.values()) and all(C07dag.compare(tr['from_rpy', sd].tree, tr['from_angles', sd].tree, 'equal')['ok'] and
                                                       C07dag.compare(tr['from_angles', sd].tree, tr['from_rpy', sd].tree, 'equal')['ok'] for sd in ('s', 'b1'))
    if ok:
        ctx.obligations += 1
        ctx.discharged += 1
        ctx.theorems.append(('C07dag.py', 'dag_equal:from_angles_{s,b1} == from_rpy_{s,b1} (repaired twin, via C07_from_rpy_partial)'))
        ctx.say("[dag] from_angles: both routes are the same DAGs as the from_rpy routes (repaired twin holds via C07_from_rpy_partial)")
    elif any(t in recorded for t in tags):
        ctx.say(f"[dag] from_angles: not claimed: recorded finding {tags[0]}")
    else:
        ctx.obligations += 1
        ctx.broken.append({'kind': 'proof', 'file': 'C07dag.py', 'theorems': ['dag:from_angles'],
                           'error': 'from_angles routes differ from the from_rpy routes and no finding is recorded'})
        ctx.say("[dag] from_angles: DIFFERENT and no finding recorded")


def targets_all():
    return targets(all_pairs=True)


STAGES = [
    ['C07_tac.v'],
    ['C07_quat.v', 'C07_dcm.v', 'C07_metrics.v', 'C07_est.v',
     ('C07_refuted_gates.v', {'finding': 'from_rpy/out-of-range-raises-vs-value'}),
     ('C07_refuted_chiaverini.v', {'finding': 'chiaverini/half-turn-nan'})],
    ['C07.v'],
]
COQ_TIMEOUT = 100


# ------------------------------------------------------------------------------------------
# calling the implementation
# ------------------------------------------------------------------------------------------
def _ahrs():
    import ahrs
    import ahrs.filters, ahrs.utils.metrics, ahrs.common.orientation   # noqa: F401  (make the attribute paths exist)
    return ahrs


_FIXED_RANDOM = np.array([0.3745401188473625, -0.4507143064099162, 0.23199394181140507, 0.09865848419703660]) + 0.5


@contextlib.contextmanager
def _fixed_rng():
    """OLEQ.estimate draws its start vector from the global NumPy RNG: give both sides the same explicit stream"""
    old = np.random.random
    np.random.random = lambda *a, **k: _FIXED_RANDOM.copy()
    try:
        yield
    finally:
        np.random.random = old


def _groups_of(p, row):
    """flat list of floats for one row -> list of arrays, one per group"""
    out, i = [], 0
    for g in p.groups:
        out.append(np.array(row[i:i + len(g)], dtype=float).reshape(_shape(g)))
        i += len(g)
    return out


def _form(x, form):
    """the same numbers as another operand type: int64 array, float32 array, nested Python list"""
    if form == 'int':
        return np.asarray(x).astype(np.int64)
    if form == 'float32':
        return np.asarray(x).astype(np.float32)
    if form == 'list':
        return np.asarray(x).tolist()
    return x


def impl_single(p, row, form='float64'):
    A = _ahrs()
    with (_fixed_rng() if p.rng else contextlib.nullcontext()):
        return p.s(A, *[_form(g, form) for g in _groups_of(p, row)])


def impl_batch(p, rows, form='float64'):
    A = _ahrs()
    per = [_groups_of(p, r) for r in rows]
    stacked = [_form(np.array([pr[k] for pr in per]), form) for k in range(len(p.groups))]
    with (_fixed_rng() if p.rng else contextlib.nullcontext()):
        return p.b(A, *stacked)


def _case_row(p, c, other=False):
    return [c[OTHER(n) if other else n] for n in p.inputs]


# ------------------------------------------------------------------------------------------
# generators
# ------------------------------------------------------------------------------------------
def _quat_rows(rng, n):
    return [(reg, q.copy()) for reg, q in cm.quats(rng, n)]


def _angle_rows(rng, n):
    out = [('zero', [0.0, 0.0, 0.0]), ('gimbal', [0.3, math.pi / 2, -0.2]), ('gimbal', [0.3, -math.pi / 2, 1.0]),
           ('pi', [math.pi, 0.0, 0.0]), ('pi', [0.1, 0.2, -math.pi]), ('two-pi', [2 * math.pi, 0.0, -2 * math.pi]),
           ('tiny', [1e-9, -1e-9, 1e-12]), ('generic', [0.5, -1.0, 2.5])]
    while len(out) < n:
        out.append(('generic', list(rng.uniform(-math.pi, math.pi, 3))))
    return out


def _angle_rows_out(rng):
    return [('out-of-range', [7.0, 0.1, 0.2]), ('out-of-range', [0.1, -6.5, 0.2]), ('out-of-range', [0.0, 0.0, 10.0])]


def _am_rows(rng, n):
    out = [('level', [0.0, 0.0, 9.8, 20.0, 0.0, 40.0]), ('level-neg', [0.0, 0.0, -9.8, 20.0, 0.0, 40.0]),
           ('x-up', [9.8, 0.0, 0.0, 0.0, 20.0, 40.0]), ('y-up', [0.0, -9.8, 0.0, 20.0, 5.0, 0.0]),
           ('near-parallel', [1.0, 2.0, 3.0, 1.0, 2.0, 3.001]), ('unit', [0.6, 0.0, 0.8, 0.0, 1.0, 0.0]),
           ('small', [1e-6, 2e-6, -1e-6, 3e-5, 1e-5, -2e-5]), ('large', [1e3, -2e3, 9e3, 2e4, 1e4, -4e4])]
    while len(out) < n:
        a = rng.standard_normal(3) * 10 ** rng.uniform(-1, 1.5)
        m = rng.standard_normal(3) * 10 ** rng.uniform(0, 2)
        out.append(('generic', [*a, *m]))
    return out


def _dcm_rows(rng, n):
    return [(reg, cm.Rspec(q).reshape(-1)) for reg, q in _quat_rows(rng, n)]


def _region_of_quat(q):
    q = np.asarray(q, float)
    nq = np.linalg.norm(q)
    if not nq > 0:
        return 'zero-row'
    w = min(1.0, abs(q[0]) / nq)
    ang = 2 * math.acos(w)
    if ang < 1e-2:
        return 'near-identity'
    if ang > math.pi - 1e-6:
        return 'half-turn'
    return 'generic'


def _region_of_dcm(R):
    R = np.asarray(R, float).reshape(3, 3)
    if abs(np.linalg.det(R) - 1) > 1e-6 or cm.maxabs(R @ R.T, np.eye(3)) > 1e-6:
        return 'not-SO3'
    c = max(-1.0, min(1.0, (np.trace(R) - 1) / 2))
    ang = math.acos(c)
    if ang < 1e-2:
        return 'near-identity'
    if ang > math.pi - 1e-6:
        return 'half-turn'
    return 'generic'


def region_of(p, row):
    row = list(row)
    d = p.domain
    if d == 'quat':
        return _region_of_quat(row)
    if d == 'quat2':
        a, b = np.array(row[:4]), np.array(row[4:])
        if not (np.linalg.norm(a) > 0 and np.linalg.norm(b) > 0):
            return 'zero-row'
        a, b = a / np.linalg.norm(a), b / np.linalg.norm(b)
        dist = min(np.linalg.norm(a - b), np.linalg.norm(a + b))     # ~ half the rotation angle between them
        return 'close' if dist < 2e-5 else 'generic'
    if d == 'angles':
        return 'out-of-range' if max(abs(x) for x in row) > 2 * math.pi else 'generic'
    if d == 'ang2':
        return 'wrap' if max(abs(a - b) for a, b in zip(row[:3], row[3:])) > math.pi else 'generic'
    if d == 'dcm':
        return _region_of_dcm(row)
    if d == 'dcm2':
        return 'generic'
    if d in ('am', 'a'):
        a = np.array(row[:3])
        if not np.linalg.norm(a) > 0 or (d == 'am' and not np.linalg.norm(row[3:]) > 0):
            return 'zero-row'
        if abs(a[0]) + abs(a[1]) <= 1e-12 * np.linalg.norm(a):
            return 'level'
        return 'generic'
    return 'generic'


def rows_for(p, rng, n):
    d = p.domain
    if d == 'quat':
        out = [(r, list(q)) for r, q in _quat_rows(rng, n)]
        # rows that are nearly but not exactly unit (inside allclose(norm, 1)): a "skip the normalisation when already
        # normalised" shortcut in only one of the two constructors shows up here (seeded mutation m3)
        for k, sc in enumerate((1 + 3e-6, 1 - 5e-6, 1 + 1e-7, 1 + 8e-6)):
            out.append(('near-unit', list(out[5 + 7 * k][1] if False else np.array(out[5 + 7 * k][1]) * sc)))
        return out
    if d == 'quat2':
        qs = _quat_rows(rng, n)
        out = []
        for i, (r, q) in enumerate(qs):
            o = qs[(5 * i + 3) % len(qs)][1]
            s1, s2 = (1.0, 1.0) if i % 3 else (10 ** rng.uniform(-2, 2), 10 ** rng.uniform(-2, 2))
            out.append((r, [*(q * s1), *(o * s2)]))
        return out
    if d == 'angles':
        return _angle_rows(rng, n)
    if d == 'ang2':
        # pairs of angle triplets incl. wrap-arounds: components near +-pi on opposite sides, differences > pi, = pi, = 2pi
        out = [('wrap', [0.1, -0.2, 3.13, 0.1, -0.2, -3.12]), ('wrap', [3.0, -3.0, 0.0, -3.0, 3.0, 0.0]),
               ('wrap', [math.pi, 0.0, 0.0, -math.pi, 0.0, 0.0]), ('generic', [math.pi, 0.0, 0.0, 0.0, 0.0, 0.0]),
               ('wrap', [2.5, 1.0, -2.0, -2.5, 1.0, 2.0]), ('generic', [0.0, 0.0, 0.0, 0.0, 0.0, 0.0]), ('generic', [0.3, 0.2, 0.1, 0.1, 0.2, 0.3])]
        while len(out) < n:
            x, y = rng.uniform(-math.pi, math.pi, 3), rng.uniform(-math.pi, math.pi, 3)
            out.append(('generic', [*x, *y]))
        return out
    if d == 'dcm':
        return [(r, list(R)) for r, R in _dcm_rows(rng, n)]
    if d == 'dcm2':
        Rs = _dcm_rows(rng, n)
        return [(r, [*R, *Rs[(3 * i + 1) % len(Rs)][1]]) for i, (r, R) in enumerate(Rs)]
    if d == 'am':
        return _am_rows(rng, n)
    if d == 'a':
        return [(r, row[:3]) for r, row in _am_rows(rng, n)]
    raise KeyError(d)


def _close_pairs(rng):
    """quaternion pairs closer than the scalar metrics' allclose shortcut (and identical / antipodal pairs)"""
    out = []
    for ang in (0.0, 1e-9, 1e-8, 1e-7, 1e-6, 3e-6):
        q = cm.rand_unit_quat(rng)
        dq = cm.axang_q(rng.standard_normal(3), ang)
        p = cm.qmul(q, dq)
        out.append(('close', [*q, *p]))
        out.append(('close', [*q, *(-p)]))
    return out


# ------------------------------------------------------------------------------------------
# correspondence: regenerated float copies vs the public entry points
# ------------------------------------------------------------------------------------------
def correspondence(ctx):
    """cases are drawn sequentially (one seeded stream); the per-target model evaluations (one coqc each) run 4 at a time"""
    from concurrent.futures import ThreadPoolExecutor
    n = ctx.n(24, 200)
    jobs = []
    corr = lambda *a, **k: jobs.append((a, k))
    for p in PAIRS:
        if not p.trace:
            continue
        rows = rows_for(p, ctx.rng, n)
        if p.domain == 'angles':
            rows = rows + _angle_rows_out(ctx.rng)
        if p.domain == 'quat2':
            rows = rows + _close_pairs(ctx.rng)[:6]
        if p.domain == 'dcm':
            rows = rows + [('not-SO3', list(2 * np.eye(3).reshape(-1))), ('not-SO3', [1, 0, 0, 0, 1, 0, 0, 0, -1.0]),
                           ('not-SO3', [1, 0.1, 0, 0, 1, 0, 0, 0, 1.0])]
        cases = [cm.d(p.inputs, r) for _, r in rows]
        ulp, at = p.tol
        corr(f'C07_{p.name}_s', cases, (lambda c, p=p: impl_single(p, _case_row(p, c))), tol_ulp=ulp, abs_tol=at)
        corr(f'C07_{p.name}_b1', cases, (lambda c, p=p: impl_batch(p, [_case_row(p, c)])[0]), tol_ulp=ulp, abs_tol=at)
        if p.two:
            names2 = [OTHER(x) for x in p.inputs]
            cases2 = []
            for i, (_, r) in enumerate(rows):
                o = rows[(7 * i + 2) % len(rows)][1]
                cases2.append({**cm.d(names2, o), **cm.d(p.inputs, r)})
            corr(f'C07_{p.name}_b2', cases2,
                 (lambda c, p=p: impl_batch(p, [_case_row(p, c, other=True), _case_row(p, c)])[1]), tol_ulp=ulp, abs_tol=at)
    with ThreadPoolExecutor(max_workers=4) as ex:
        list(ex.map(lambda j: ctx.correspond(*j[0], **j[1]), jobs))


# ------------------------------------------------------------------------------------------
# search oracle: batch row i versus the single call on row i, on the implementation
# ------------------------------------------------------------------------------------------
def _flat(x):
    from vlib.core import flat_floats
    if isinstance(x, np.ndarray) and x.dtype == object:
        return [float('nan') if v is None else float(v) for v in x.reshape(-1)]
    return flat_floats(x)


def _isc(x):
    return isinstance(x, np.ndarray) and np.iscomplexobj(x)


def _cmp(p, bi, si):
    """compare one batch row with the single result -> None or a failure kind"""
    if si is None and (bi is None or (isinstance(bi, np.ndarray) and bi.dtype == object)):
        return None
    if _isc(bi) != _isc(si):
        return 'dtype'
    b, s = np.array(_flat(bi)), np.array(_flat(si))
    if b.shape != s.shape:
        return 'shape'
    nb, ns = np.isnan(b), np.isnan(s)
    if (nb != ns).any():
        return 'nan'
    ok = ~nb
    if p.kind == 'shared':
        return None if np.array_equal(b[ok], s[ok]) else ('differs' if cm.maxabs(b[ok], s[ok]) > 1e-9 else 'not-bitwise')
    ulp, at = p.tol
    sc = max(1.0, float(np.max(np.abs(s[ok]))) if ok.any() else 1.0)
    d = float(np.max(np.abs(b[ok] - s[ok]))) if ok.any() else 0.0
    if d <= at + ulp * sc * 2.0 ** -52:
        return None
    if b.size == 4 and cm.maxabs(b * np.array([1, -1, -1, -1.0]), s) <= 1e-12:
        return 'conjugate'
    return 'differs'


WHOLE = {'from_angles': 'array-constructor-missing', 'identity_deviation': 'batch-always-raises', 'angular_distance': 'batch-always-raises',
         'oleq_NED': 'one-row-batch-raises', 'oleq_ENU': 'one-row-batch-raises'}


def o_twin(inp):
    """X(rows).op()[i] versus X(rows[i]).op() for every row i"""
    form = inp.get('form', 'float64')
    if form != 'float64':
        r = _twin(inp, 'float64')       # a defect already present with float64 operands keeps its float64 tag
        if r is not None:
            return r
        return _twin(inp, form)
    pre = {}
    r = _shared(inp, pre) if len(inp['rows']) <= 3 else None               # call sequences on ONE caller-owned array (row views), both orders, each side twice
    if r is not None:
        return r
    return _twin(inp, form, pre or None)


def _same_outcome(x, y):
    """bit-for-bit equality of two call outcomes of the SAME entry point on the same numbers"""
    if x[0] != y[0]:
        return False
    if x[0] == 'raise':
        return x[1] == y[1]
    a, b = x[1], y[1]
    if a is None or b is None:
        return a is None and b is None
    a, b = np.asarray(a), np.asarray(b)
    if a.shape != b.shape or a.dtype != b.dtype:
        return False
    if a.dtype == object:
        return all((u is None and v is None) or (u is not None and v is not None and np.array_equal(u, v, equal_nan=True))
                   for u, v in zip(a.reshape(-1), b.reshape(-1)))
    return bool(np.array_equal(a, b, equal_nan=True))


def _shared(inp, pre):
    """The caller builds its float64 arrays ONCE.  Order A: the scalar entry point on the row views A[i] (twice each), then the
    array entry point on the same A.  Order B: the array entry point on A (twice), then the scalar entry point on the views.
    Every result must equal, bit for bit, what the same entry point returns on fresh private copies: an entry point that
    scribbles on its operand (in one copy of a twin only, typically) breaks the row-by-row equality for the caller."""
    from vlib.core import call_outcome
    p = BYNAME[inp['pair']]
    rows = inp['rows']
    A = _ahrs()
    ctxm = (lambda: _fixed_rng()) if p.rng else (lambda: contextlib.nullcontext())

    def stacked():
        per = [_groups_of(p, r) for r in rows]
        return [np.array([pr[k] for pr in per], dtype=float) for k in range(len(p.groups))]

    def single(G, i):
        with ctxm():
            return p.s(A, *[g[i] for g in G])           # g[i] is a VIEW of the caller's array

    def batch(G):
        with ctxm():
            return p.b(A, *G)

    fresh_s = [call_outcome(impl_single, p, r) for r in rows]
    fresh_b = call_outcome(impl_batch, p, rows)
    pre['s'], pre['b'] = fresh_s, fresh_b
    reg = region_of(p, rows[0])
    # order A
    G = stacked()
    for i in range(len(rows)):
        for k in (1, 2):
            o = call_outcome(single, G, i)
            if not _same_outcome(o, fresh_s[i]):
                return {'tag': f"{p.name}/{reg}-scalar-call-{k}-on-row-view-differs", 'observed': _obs(o), 'expected': _obs(fresh_s[i]),
                        'note': f'row {i}: scalar entry point on the view A[{i}] of the caller array, call {k}'}
    o = call_outcome(batch, G)
    if not _same_outcome(o, fresh_b):
        return {'tag': f"{p.name}/{reg}-batch-after-scalar-calls-differs", 'observed': _obs(o), 'expected': _obs(fresh_b),
                'note': 'array entry point on the same caller array after the scalar calls on its rows'}
    # order B
    G = stacked()
    for k in (1, 2):
        o = call_outcome(batch, G)
        if not _same_outcome(o, fresh_b):
            return {'tag': f"{p.name}/{reg}-batch-call-{k}-differs", 'observed': _obs(o), 'expected': _obs(fresh_b),
                    'note': f'array entry point, call {k} on the same caller array'}
    for i in range(len(rows)):
        o = call_outcome(single, G, i)
        if not _same_outcome(o, fresh_s[i]):
            return {'tag': f"{p.name}/{reg}-scalar-after-batch-differs", 'observed': _obs(o), 'expected': _obs(fresh_s[i]),
                    'note': f'row {i}: scalar entry point on A[{i}] after the array entry point ran on A'}
    return None


def _obs(o):
    return _flat(o[1]) if o[0] == 'val' else f'raises {o[1]}'


def _twin(inp, form, pre=None):
    from vlib.core import call_outcome
    p = BYNAME[inp['pair']]
    rows = inp['rows']
    sfx = '' if form == 'float64' else '@' + form
    bo = pre['b'] if pre else call_outcome(impl_batch, p, rows, form)
    for i, r in enumerate(rows):
        so = pre['s'][i] if pre else call_outcome(impl_single, p, r, form)
        reg = region_of(p, r) + sfx
        if bo[0] == 'raise' or so[0] == 'raise':
            if bo[0] == so[0]:
                continue            # both raise (any class: the message and class of a rejection are not part of the property)
            if bo[0] == 'raise' and len(rows) > 1:
                if any(call_outcome(impl_single, p, r2, form)[0] == 'raise' for r2 in rows):
                    continue        # the batch may reject as a whole when one of its rows is rejected by the scalar path
                # attribute the rejection to the row whose one-row batch is rejected
                culprit = [r2 for r2 in rows if call_outcome(impl_batch, p, [r2], form)[0] == 'raise']
                if culprit:
                    reg = region_of(p, culprit[0]) + sfx
            which = 'batch' if bo[0] == 'raise' else 'single'
            exc = bo[1] if bo[0] == 'raise' else so[1]
            tag = f"{p.name}/{reg}-raises-vs-value"
            if which == 'batch' and p.name in WHOLE and (len(rows) == 1 or not p.name.startswith('oleq')):
                tag = f"{p.name}/{WHOLE[p.name]}"
            return {'tag': tag, 'observed': f'{which} raises {exc}', 'expected': 'same outcome', 'note': f'row {i}'}
        bv = bo[1]
        try:
            bi = bv[i]
        except Exception as e:      # noqa
            return {'tag': f"{p.name}/{reg}-shape", 'observed': repr(np.shape(bv)), 'expected': f'{len(rows)} rows'}
        if np.shape(bv)[0] != len(rows):
            return {'tag': f"{p.name}/{reg}-shape", 'observed': repr(np.shape(bv)), 'expected': f'{len(rows)} rows'}
        k = _cmp(p, bi, so[1])
        if k is not None:
            return {'tag': f"{p.name}/{reg}-{k}", 'observed': _flat(bi), 'expected': _flat(so[1]), 'note': f'row {i} of {len(rows)}'}
    return None


def o_options(inp):
    """constructor options are honoured on the one-sample path: Class(sample, option).Q == Class().estimate(sample, option)"""
    A = _ahrs()
    a, m = np.array(inp['acc'], float), np.array(inp['mag'], float)
    kind, opt = inp['kind'], inp['option']
    if kind == 'FLAE-method':
        ctor = A.filters.FLAE(acc=a.copy(), mag=m.copy(), method=opt).Q
        ref = A.filters.FLAE().estimate(a.copy(), m.copy(), method=opt)
    elif kind == 'Tilt-representation':
        ctor = A.filters.Tilt(acc=a.copy(), mag=m.copy(), representation=opt).Q
        ref = A.filters.Tilt().estimate(a.copy(), m.copy(), representation=opt)
    elif kind == 'TRIAD-representation':
        ctor = A.filters.TRIAD(w1=a.copy(), w2=m.copy(), representation=opt).A
        ref = A.filters.TRIAD(representation=opt).estimate(a.copy(), m.copy(), representation=opt)
    elif kind == 'TRIAD-frame':
        ctor = A.filters.TRIAD(w1=a.copy(), w2=m.copy(), frame=opt).A
        other = A.filters.TRIAD(w1=a.copy(), w2=m.copy(), frame=('ENU' if opt == 'NED' else 'NED')).A
        if cm.maxabs(_arr(ctor), _arr(other)) < 1e-6:
            return {'tag': 'TRIAD-frame/ignored', 'observed': _flat(ctor), 'expected': 'frames give different attitudes'}
        ref = A.filters.TRIAD(frame=opt).estimate(a.copy(), m.copy())
    else:
        raise KeyError(kind)
    cb, cs = np.array(_flat(ctor)), np.array(_flat(ref))
    if cb.shape != cs.shape or _isc(_arr(ctor)) != _isc(_arr(ref)) or not np.array_equal(cb, cs, equal_nan=True):
        return {'tag': f'{kind}/{opt}-one-sample-differs', 'observed': cb, 'expected': cs}
    return None


def _integer_batches(p):
    """integer-valued rows of the pair's domain, as batches of 1, 3 and 4 rows"""
    d = p.domain
    if d == 'quat':
        rows = [[1, 2, 3, 4], [0, 1, 0, 0], [1, 0, 0, 0], [-2, 1, 0, 3], [0, 0, 3, -4]]
    elif d == 'quat2':
        rows = [[1, 2, 3, 4, 4, 3, 2, 1], [0, 1, 0, 0, 1, 0, 0, 0], [1, 1, 1, 1, 1, 1, 1, -1], [2, 0, 0, 1, 0, 3, 4, 0], [1, 0, 0, 0, 0, 0, 0, 2]]
    elif d == 'angles':
        rows = [[1, 0, -1], [0, 0, 0], [3, -1, 2], [-2, 1, 1], [0, 1, 0]]
    elif d == 'dcm':
        rows = [[1, 0, 0, 0, 1, 0, 0, 0, 1], [0, -1, 0, 1, 0, 0, 0, 0, 1], [0, 0, 1, 1, 0, 0, 0, 1, 0], [1, 0, 0, 0, 0, -1, 0, 1, 0],
                [-1, 0, 0, 0, -1, 0, 0, 0, 1]]
    elif d == 'dcm2':
        r = [[1, 0, 0, 0, 1, 0, 0, 0, 1], [0, -1, 0, 1, 0, 0, 0, 0, 1], [0, 0, 1, 1, 0, 0, 0, 1, 0], [1, 0, 0, 0, 0, -1, 0, 1, 0]]
        rows = [r[i] + r[(i + 1) % 4] for i in range(4)] + [r[0] + r[0]]
    elif d == 'am':
        rows = [[1, 2, 9, 20, -3, 40], [0, 0, 10, 20, 0, 40], [3, -1, 2, 5, 5, 1], [-9, 1, 1, 2, 30, -7], [2, 2, 2, 1, 0, -1]]
    elif d == 'a':
        rows = [[1, 2, 9], [0, 0, 10], [3, -1, 2], [-9, 1, 1], [2, 2, 2]]
    else:
        return []
    rows = [list(map(float, r)) for r in rows]
    return [[rows[0]], rows[1:4], rows[0:4]]


# ------------------------------------------------------------------------------------------
# coverage by introspection: every function of the anchored modules that branches on `.ndim`
# ------------------------------------------------------------------------------------------
COVERED = {   # (module, function) -> twin pair(s) of the table
    ('utils/metrics.py', 'euclidean'): ['euclidean'], ('utils/metrics.py', 'chordal'): ['chordal'], ('utils/metrics.py', 'qdist'): ['qdist'],
    ('utils/metrics.py', 'qeip'): ['qeip'], ('utils/metrics.py', 'qcip'): ['qcip'], ('utils/metrics.py', 'qad'): ['qad'],
    ('utils/metrics.py', 'rmse'): ['rmse'], ('utils/metrics.py', 'rmse_matrices'): ['rmse_matrices'],
    ('common/orientation.py', 'q_conj'): ['q_conj'], ('common/orientation.py', 'q_norm'): ['q_norm'], ('common/orientation.py', 'q2R'): ['q2R_v1', 'q2R_v2'],
    ('common/orientation.py', 'rpy2q'): ['rpy2q'], ('common/orientation.py', 'am2angles'): ['am2angles'],
    ('common/orientation.py', 'chiaverini'): ['chiaverini', 'dcm_chiaverini'], ('common/orientation.py', 'hughes'): ['hughes', 'dcm_hughes'],
    ('common/quaternion.py', '__new__'): ['to_DCM', 'conj', 'to_angles'], ('common/quaternion.py', 'from_rpy'): ['from_rpy', 'from_angles'],
    ('filters/aqua.py', '_compute_all'): ['aqua_NED', 'aqua_ENU'], ('filters/davenport.py', '_compute_all'): ['davenport'],
    ('filters/famc.py', '_compute_all'): ['famc'], ('filters/flae.py', '_compute_all'): ['flae_symbolic', 'flae_eig', 'flae_newton'],
    ('filters/fqa.py', '_compute_all'): ['fqa'], ('filters/quest.py', '_compute_all'): ['quest'], ('filters/saam.py', '_compute_all'): ['saam', 'saam_rotmat'],
    ('filters/tilt.py', '_compute_all'): ['tilt_quaternion', 'tilt_angles', 'tilt_rotmat', 'tilt_nomag'],
    ('filters/triad.py', '_compute_all'): ['triad_rotmat_NED', 'triad_rotmat_ENU', 'triad_quaternion_NED', 'triad_quaternion_ENU'],
    ('filters/complementary.py', 'am_estimation'): ['complementary_am'],
}
EXEMPT = {    # `.ndim` is used for validation only, or the function belongs to another property
    ('common/orientation.py', 'q_correct'): 'N-by-4 only (ndim is a shape check)', ('common/orientation.py', 'itzhack'): 'ndim is a shape check; from_DCM twins dcm_itzhack*',
    ('common/quaternion.py', 'ode'): 'shape check', ('common/quaternion.py', 'average'): 'weights shape check',
    ('common/dcm.py', '_assert_SO3'): 'validation', ('common/dcm.py', 'from_quaternion'): 'covered by C01 (DCM_fromq / DCM_fromq_batch)',
    ('common/frames.py', '_ltp_transformation'): 'property C17', ('utils/core.py', 'get_nan_intervals'): 'property C12', ('utils/sensors.py', '__gaussian_filter'): 'property C20',
    ('filters/angular.py', '_compute_all'): 'recursive filter (C06)', ('filters/complementary.py', '_compute_all'): 'recursive filter (C06)',
    ('filters/complementary.py', '_assert_validity_of_inputs'): 'validation', ('filters/aqua.py', '_assert_triaxial_sample_vector'): 'validation',
    ('filters/ekf.py', '_set_measurement_noise_covariance'): 'validation', ('filters/ekf.py', '_set_reference_frames'): 'validation',
    ('filters/ekf.py', '_assert_validity_of_inputs'): 'validation', ('filters/mahony.py', '_assert_validity_of_inputs'): 'validation',
    ('filters/triad.py', '_guard_clauses_vectors'): 'validation',
}


def twin_coverage():
    """functions of the package whose body has an `if` on `.ndim` -> covered / exempt / NOT COVERED"""
    import ast, glob, os
    root = os.path.join(os.environ.get('AHRS_REPO', '/repo'), 'ahrs')
    found = []
    for f in sorted(glob.glob(os.path.join(root, '**', '*.py'), recursive=True)):
        rel = os.path.relpath(f, root).replace(os.sep, '/')
        try:
            tree = ast.parse(open(f, encoding='utf-8').read())
        except SyntaxError:
            continue
        for node in ast.walk(tree):
            if isinstance(node, ast.FunctionDef):
                if any(isinstance(n, ast.If) and any(isinstance(a, ast.Attribute) and a.attr == 'ndim' for a in ast.walk(n.test))
                       for n in ast.walk(node)):
                    found.append((rel, node.name))
    found = sorted(set(found))
    missing = [k for k in found if k not in COVERED and k not in EXEMPT]
    stale = [k for k in COVERED if k not in found]
    badpairs = [(k, q) for k, v in COVERED.items() for q in v if q not in BYNAME]
    return {'functions_with_ndim_switch': len(found), 'covered': len([k for k in found if k in COVERED]),
            'exempt': {f'{a}:{b}': EXEMPT[(a, b)] for (a, b) in found if (a, b) in EXEMPT},
            'NOT_COVERED': [f'{a}:{b}' for a, b in missing], 'table_entries_without_function': [f'{a}:{b}' for a, b in stale],
            'unknown_pairs': [f'{k}->{q}' for k, q in badpairs]}


# ------------------------------------------------------------------------------------------
# option VALUE spellings: a spelling the scalar path accepts must mean the same on the array path
# ------------------------------------------------------------------------------------------
def _spell_twins():
    """name -> (domain, canonical values, factory(value) -> (scalar call, array call))"""
    def dcm(v, **kw):
        return (lambda A, R: _arr(A.Quaternion(dcm=R, method=v, **kw))), (lambda A, R: _arr(A.QuaternionArray(DCM=R, method=v, **kw)))
    T = {
        'from_DCM.method': ('dcm', ['shepperd', 'chiaverini', 'hughes', 'sarabandi', 'itzhack'], dcm),
        'from_DCM.method+version1': ('dcm', ['itzhack'], lambda v: dcm(v, version=1)),
        'from_DCM.method+version2': ('dcm', ['itzhack'], lambda v: dcm(v, version=2)),
        'Quaternion.order': ('quat', ['H', 'S'], lambda v: ((lambda A, q: A.Quaternion(q, order=v).to_DCM()),
                                                         (lambda A, q: A.QuaternionArray(q, order=v).to_DCM()))),
        'Tilt.representation': ('am', ['quaternion', 'angles', 'rotmat'],
                                lambda v: ((lambda A, a, m: A.filters.Tilt(acc=a, mag=m, representation=v).Q),) * 2),
        'SAAM.representation': ('am', ['quaternion', 'rotmat'],
                                lambda v: ((lambda A, a, m: (lambda o: getattr(o, 'A', o.Q))(A.filters.SAAM(acc=a, mag=m, representation=v))),) * 2),
        'TRIAD.representation': ('am', ['rotmat', 'quaternion'], lambda v: ((lambda A, a, m: A.filters.TRIAD(w1=a, w2=m, representation=v).A),) * 2),
        'TRIAD.frame': ('am', ['NED', 'ENU'], lambda v: ((lambda A, a, m: A.filters.TRIAD(w1=a, w2=m, frame=v).A),) * 2),
        'OLEQ.frame': ('am', ['NED', 'ENU'], lambda v: ((lambda A, a, m: A.filters.OLEQ(acc=a, mag=m, frame=v).Q),) * 2),
        'AQUA.frame': ('am', ['NED', 'ENU'], lambda v: ((lambda A, a, m: A.filters.AQUA(acc=a, mag=m, frame=v).Q),) * 2),
        'FLAE.method': ('am', ['symbolic', 'eig', 'newton'], lambda v: ((lambda A, a, m: A.filters.FLAE(acc=a, mag=m, method=v).Q),) * 2),
    }
    return T


def _spellings(v):
    out = []
    for w in (v.upper(), v.lower(), v.capitalize(), v.swapcase()):
        if w != v and w not in out:
            out.append(w)
    return out


def o_spelling(inp):
    """for a spelling `value` of a string option that the scalar path accepts: array route row i == scalar route on row i, and the
    spelling means the same as the canonical one on the scalar route"""
    from vlib.core import call_outcome
    name, value, canon, rows = inp['option'], inp['value'], inp['canonical'], inp['rows']
    dom, _, fac = _spell_twins()[name]
    groups = {'dcm': [M], 'quat': [Q], 'am': [AC, MG]}[dom]
    s, b = fac(value)
    p = Pair(f'{name}={value}', groups, s, b, kind='copy', trace=False, domain=dom, tol=(4096, 1e-9))
    p.rng = name.startswith('OLEQ')
    so = [call_outcome(impl_single, p, r) for r in rows]
    if all(o[0] == 'raise' for o in so):
        return None                                     # the scalar path does not accept this spelling: nothing to compare
    sc, _ = fac(canon)
    pc = Pair(f'{name}={canon}', groups, sc, sc, trace=False, domain=dom, tol=(4096, 1e-9))
    pc.rng = p.rng
    bo = call_outcome(impl_batch, p, rows)
    for i, r in enumerate(rows):
        if so[i][0] == 'raise':
            continue
        if bo[0] == 'raise':
            return {'tag': f'{name}/spelling-{_kindof(value)}-array-raises', 'observed': f'array route raises {bo[1]}: {bo[2][:80]}',
                    'expected': _flat(so[i][1]), 'note': f'{name}={value!r} is accepted by the scalar route'}
        k = _cmp(p, bo[1][i], so[i][1])
        if k is not None:
            return {'tag': f'{name}/spelling-{_kindof(value)}-{k}', 'observed': _flat(bo[1][i]), 'expected': _flat(so[i][1]),
                    'note': f'{name}={value!r}, row {i}'}
        co = call_outcome(impl_single, pc, r)
        if co[0] == 'val' and _cmp(p, so[i][1], co[1]) is not None:
            return {'tag': f'{name}/spelling-{_kindof(value)}-scalar-meaning-differs', 'observed': _flat(so[i][1]), 'expected': _flat(co[1]),
                    'note': f'scalar route: {name}={value!r} vs {canon!r}'}
    return None


def _kindof(v):
    return 'upper' if v.isupper() else 'lower' if v.islower() else 'mixed'


ORACLES = {'twin': o_twin, 'options': o_options, 'spelling': o_spelling}


def _call(f, inp):
    from vlib.core import call_outcome
    r = call_outcome(f, inp)
    if r[0] == 'raise':
        return {'tag': f"{inp.get('pair', inp.get('kind', inp.get('option')))}/oracle-raises-{r[1]}", 'observed': list(r[1:])}
    return r[1]


def search(ctx, scale):
    n = 11 * scale
    for p in PAIRS:
        rows = rows_for(p, ctx.rng, max(n, 9))
        regs = [r for r, _ in rows]
        rows = [list(map(float, r)) for _, r in rows]
        batches = [[r] for r in rows]                                          # N = 1: every row alone
        for N, step in ((2, 2), (3, 4), (4, 3), (5, 5), (7, 5)):                # N in {2,3,4,5,7}
            batches += [[rows[(i + 5 * j) % len(rows)] for j in range(N)] for i in range(0, len(rows), step)]
        if p.domain == 'angles':
            batches += [[r] for _, r in _angle_rows_out(ctx.rng)]
        if p.domain == 'quat2':
            batches += [[list(map(float, r))] for _, r in _close_pairs(ctx.rng)]
        if p.domain == 'dcm':
            batches += [[list(map(float, 2 * np.eye(3).reshape(-1)))], [[1.0, 0.1, 0, 0, 1, 0, 0, 0, 1]]]
        if p.domain == 'quat':
            batches += [[[0.0, 0.0, 0.0, 0.0]]]
        for b in batches:
            inp = {'pair': p.name, 'rows': b}
            key = (p.name, len(b), tuple(np.round(np.array(b).reshape(-1), 6)))
            trivial = all(region_of(p, r) in ('near-identity',) and abs(abs(r[0]) - 1) < 1e-15 for r in b) if p.domain == 'quat' else False
            ctx.check('twin', inp, _call(o_twin, inp), nontrivial_key=None if trivial else key)
        # the same numbers as other operand types (exactly representable rows): int64 arrays and nested lists
        for form in ('int', 'list'):
            for b in _integer_batches(p):
                inp = {'pair': p.name, 'rows': b, 'form': form}
                ctx.check('twin', inp, _call(o_twin, inp), nontrivial_key=(p.name, form, len(b), tuple(np.array(b).reshape(-1))))
    am = _am_rows(ctx.rng, 6 * scale)
    for _, r in am:
        for kind, opts in (('FLAE-method', ('symbolic', 'eig', 'newton')), ('Tilt-representation', ('quaternion', 'angles', 'rotmat')),
                           ('TRIAD-representation', ('rotmat', 'quaternion')), ('TRIAD-frame', ('NED', 'ENU'))):
            for o in opts:
                inp = {'kind': kind, 'option': o, 'acc': list(map(float, r[:3])), 'mag': list(map(float, r[3:]))}
                ctx.check('options', inp, _call(o_options, inp), nontrivial_key=(kind, o, tuple(np.round(r, 6))))
    # option value spellings
    for name, (dom, canon, _) in _spell_twins().items():
        gen = {'dcm': _dcm_rows, 'quat': _quat_rows, 'am': _am_rows}[dom](ctx.rng, 40)
        rows = [list(map(float, gen[k][1])) for k in (len(gen) - 1, len(gen) - 2, 3)]
        for v in canon:
            for w in _spellings(v):
                inp = {'option': name, 'value': w, 'canonical': v, 'rows': rows}
                ctx.check('spelling', inp, _call(o_spelling, inp), nontrivial_key=(name, w))
    # coverage of the `.ndim` switches by the twin table (evidence only)
    cov = twin_coverage()
    ctx.corr_stats['twin_coverage'] = cov
    ctx.say(f"[coverage] {cov['functions_with_ndim_switch']} functions branch on .ndim: {cov['covered']} covered by twins, "
            f"{len(cov['exempt'])} exempt; twin not covered: {cov['NOT_COVERED'] or 'none'}")
    ctx.samples.append({'kind': 'search', 'oracle': 'twin', 'input': {'pair': 'tilt_quaternion', 'rows': [am[-1][1], am[-2][1]]}})
