"""C16 — the ellipsoid gravity model satisfies the closed-form level-ellipsoid identities."""
import math, os
import numpy as np
from pysym.gen import Target
from pysym.sym import S
from . import common as cm

PID = 'C16'
IN = ['a', 'f', 'GM', 'w']
EPOCHS = ['1930', '1948', '1967', '1980', '1984']
BODIES = ['EARTH', 'MOON', 'MERCURY', 'VENUS', 'MARS', 'JUPITER', 'SATURN', 'URANUS', 'NEPTUNE', 'PLUTO']
FINDING = 'sphere/returns-m'

LEVEL_TEXT = ("Coq theorems (field/nra/interval, all reals under the property's guard) over the regenerated ReferenceEllipsoid "
              "properties, normal_gravity, international_gravity, welmec_gravity and the shipped planetary table; e'q0'/q0 enclosed "
              "by the Interval tactic; the f = 0 branch is exhibited by a refuted theorem on the unchanged tree and proved exact on the patched tree")
TECHNIQUE = "pysym regeneration + Coq (field, nra, Interval) + vm_compute float correspondence + numeric search oracle"
RULE = ("(a, f, GM, w) log-uniform in a in [1e5,1e8], f in {0} U [1e-6,0.2] (log-uniform, end points and 1e-6..1e-4 thin region first), "
        "m in (1e-9, 0.05) obtained by choosing w; latitudes incl. 0, +-90, +-45 and uniform; heights 0, 0.5 % of a and uniform; "
        "the ten shipped bodies; non-trivial = f > 0 or w != 0; distinct = rounded parameter tuple")
TRUSTED = ["Coq 8.16.1 kernel; vm_compute for the float copies", "pysym tracing translator",
           "Coq Interval 4.x tactic (proof-producing, checked by the kernel)", "stdlib real-number axioms",
           "real arithmetic stands for binary64 (gap measured by the correspondence; cancellation in q0 near f = 1e-6 explored only)"]
PARTIAL = ("before fix c0a7d5d (fixes/C16-sphere-branch.patch) the f = 0 branch returned m (refuted theorem C16_refuted.v, compiled only on such a "
           "tree); on the repaired tree it is proved equal to the rotating-sphere limit (C16_sphere.v). Float cancellation in q0 for f < 1e-4 is "
           "outside the real model (explored, looser tolerance). coqchk (thorough) covers only the Interval-free statements of C16.v")


def _ell(A, v):
    return A.utils.geodesy.ReferenceEllipsoid(v.a, v.f, v.GM, v.w)


def _body(A, name):
    """the shipped constants of one body as exact rationals (the decimal each float literal denotes)"""
    C = A.common.constants
    a, b = S.const(getattr(C, name + '_EQUATOR_RADIUS')), S.const(getattr(C, name + '_POLAR_RADIUS'))
    return A.utils.geodesy.ReferenceEllipsoid(a, (a - b) / a, S.const(getattr(C, name + '_GM')), S.const(getattr(C, name + '_ROTATION')))


def targets():
    mk = lambda n, i, f, doc='': Target(f'C16_{n}', i, f, doc=doc)
    ts = [
        mk('consts', IN, lambda A, v: (lambda e: [e.b, e.first_eccentricity_squared, e.second_eccentricity_squared, e.linear_eccentricity,
                                                  e.aspect_ratio, e.curvature_polar_radius, e.arithmetic_mean_radius,
                                                  e.normal_gravity_constant])(_ell(A, v)),
           'b, e^2, e\'^2, E, b/a, a^2/b, R1, m'),
        mk('radii', IN, lambda A, v: (lambda e: [e.authalic_sphere_radius, e.equivolumetric_sphere_radius])(_ell(A, v))),
        mk('ge', IN, lambda A, v: _ell(A, v).equatorial_normal_gravity),
        mk('gp', IN, lambda A, v: _ell(A, v).polar_normal_gravity),
        mk('J2', IN, lambda A, v: (lambda e: [e.dynamical_form_factor, e.second_degree_zonal_harmonic])(_ell(A, v))),
        mk('U0', IN, lambda A, v: _ell(A, v).normal_gravity_potential),
        mk('gmean', IN, lambda A, v: _ell(A, v).mean_normal_gravity),
        mk('g', IN + ['lat', 'h'], lambda A, v: _ell(A, v).normal_gravity(v.lat, v.h), 'normal_gravity(lat, h)'),
        mk('g0', IN + ['lat'], lambda A, v: _ell(A, v).normal_gravity(v.lat), 'normal_gravity(lat) with the default h'),
        mk('wgs', ['lat', 'h'], lambda A, v: A.utils.wgs84.WGS().normal_gravity(v.lat, v.h), 'WGS().normal_gravity(lat, h)'),
        mk('welmec', ['lat', 'h'], lambda A, v: A.utils.wgs84.welmec_gravity(v.lat, v.h)),
    ]
    # the same properties through the WGS subclass (how the README builds other bodies), positional and keyword
    W = lambda A, v: A.utils.wgs84.WGS(v.a, v.f, v.GM, v.w)
    WK = lambda A, v: A.utils.wgs84.WGS(a=v.a, f=v.f, GM=v.GM, w=v.w)
    RK = lambda A, v: A.utils.geodesy.ReferenceEllipsoid(a=v.a, f=v.f, GM=v.GM, w=v.w)
    echo = lambda e: [e.a, e.f, e.gm, e.w, e.b]
    ts += [
        mk('echo', IN, lambda A, v: echo(_ell(A, v)), 'constructor echo a, f, gm, w and b'),
        mk('echo_kw', IN, lambda A, v: echo(RK(A, v))),
        mk('wgs_echo', IN, lambda A, v: echo(W(A, v)), 'WGS(a, f, GM, w): constructor echo'),
        mk('wgs_echo_kw', IN, lambda A, v: echo(WK(A, v))),
        mk('wgs_ge', IN, lambda A, v: W(A, v).equatorial_normal_gravity),
        mk('wgs_gp', IN, lambda A, v: WK(A, v).polar_normal_gravity),
        mk('wgs_g', IN + ['lat', 'h'], lambda A, v: W(A, v).normal_gravity(v.lat, v.h)),
        mk('wgs_U0_J2', IN, lambda A, v: (lambda e: [e.normal_gravity_potential, e.dynamical_form_factor])(WK(A, v))),
        mk('ref_U0_J2', IN, lambda A, v: (lambda e: [e.normal_gravity_potential, e.dynamical_form_factor])(_ell(A, v))),
    ]
    for ep in EPOCHS:
        ts.append(mk(f'intl_{ep}', ['lat'], lambda A, v, ep=ep: A.utils.wgs84.international_gravity(v.lat, epoch=ep)))
    for nm in BODIES:
        ts.append(mk(f'body_{nm}', [], lambda A, v, nm=nm: (lambda e: [e.f, e.normal_gravity_constant, e.equatorial_normal_gravity,
                                                                        e.polar_normal_gravity])(_body(A, nm)),
                     f'{nm}: f, m, ge, gp from the shipped constants'))
    return ts


STAGES = []       # set by pregen(): depends on whether the f = 0 defect is present in the tree under check


def _sphere_defect_present():
    from vlib.core import call_outcome
    for w in (-2.9923691869737844e-07, 2.9923691869737844e-07):     # Venus (retrograde); the sign is irrelevant to the defect
        r = call_outcome(o_sphere, {'a': 6051800.0, 'GM': 324869550209999.94, 'w': w, 'lat': 45.0, 'h': 0.0})
        if r[0] == 'val':
            return r[1] is not None and r[1].get('tag') == FINDING
    return False                                                     # the constructor raises: reported by the search, not here


def pregen(ctx):
    """pre-fix tree: the refuted file exhibits the f = 0 defect inside the model; repaired tree: the sphere theorems.
    The statement files of the last stage are split (C16_a..d.v + C16.v) because every Print Assumptions that reaches the
    Interval library costs ~6 s; they are compiled in parallel.  C16.v is last and its dependency cone (C16_algebra.v,
    C16_formulas.v, lib/GeodesyBase.v) is Interval-free: the thorough tier's coqchk runs on the last file and needs > 25 min
    for anything that depends on Interval/Flocq/Coquelicot."""
    global STAGES
    first = ['C16_algebra.v', 'C16_formulas.v', 'C16_model.v', 'C16_bodies.v']
    if _sphere_defect_present():
        STAGES = [first + [('C16_refuted.v', {'finding': FINDING})], ['C16_gravity.v'], ['C16_a.v', 'C16_b.v', 'C16_c.v', 'C16_d.v', 'C16.v']]
        ctx.say('[C16] the f = 0 branch returns m (pre-fix tree): compiling the refutation (C16_refuted.v) instead of the sphere theorems')
    else:
        STAGES = [first, ['C16_gravity.v'], ['C16_a.v', 'C16_b.v', 'C16_c.v', 'C16_d.v', 'C16_sphere.v', 'C16.v']]


# ------------------------------------------------------------------------------------------
# implementation entry points
# ------------------------------------------------------------------------------------------
ROUTES = ('RE', 'WGS', 'RE-kw', 'WGS-kw')


def _build(via, a, f, GM, w):
    """an ellipsoid through one of the public constructors: ReferenceEllipsoid / WGS, positional / keyword"""
    from ahrs.utils.geodesy import ReferenceEllipsoid
    from ahrs.utils.wgs84 import WGS
    cls = WGS if via.startswith('WGS') else ReferenceEllipsoid
    return cls(a=a, f=f, GM=GM, w=w) if via.endswith('kw') else cls(a, f, GM, w)


def _E(c):
    return _build(c.get('via', 'RE'), c['a'], c['f'], c['GM'], c['w'])


def _body_impl(nm, via='RE'):
    import ahrs.common.constants as C
    from ahrs.utils.geodesy import ReferenceEllipsoid
    a, b = getattr(C, nm + '_EQUATOR_RADIUS'), getattr(C, nm + '_POLAR_RADIUS')
    return _build(via, a, (a - b) / a, getattr(C, nm + '_GM'), getattr(C, nm + '_ROTATION'))


def _params(rng, n):
    """(a, f, GM, w) inside the property's domain; thin regions first"""
    out = []
    fs = [0.0, 1e-6, 0.2, 1.0 / 298.257223563, 2e-6, 1e-5, 1e-4, 1e-3, 0.1, 0.0]
    for i in range(n):
        a = 10 ** rng.uniform(5, 8) if i > 1 else (1e5, 1e8)[i]
        if i < len(fs):
            f = fs[i]
        else:
            f = 0.0 if i % 7 == 0 else 10 ** rng.uniform(-6, math.log10(0.2))
        rho = 10 ** rng.uniform(2.5, 4.5)                       # mean density kg/m^3 -> GM
        GM = 6.6743e-11 * rho * 4.0 / 3.0 * math.pi * a ** 3 * (1 - f)
        m = 0.0499 if i == 2 else 10 ** rng.uniform(-9, math.log10(0.0499))
        w = math.sqrt(m * GM / (a * a * a * (1 - f)))
        if i % 3 == 1:                                           # retrograde rotation (Venus, Uranus, Pluto in the shipped table)
            w = -w
        if i % 11 == 10:
            w = 0.0
        out.append({'a': float(a), 'f': float(f), 'GM': float(GM), 'w': float(w)})
    return out


def correspondence(ctx):
    n = ctx.n(24, 200)
    # f = 0 with w = 0 is left to the search: on the unchanged tree ge = m = 0 there and the Python-float division b*gp/(a*ge)
    # raises ZeroDivisionError where the IEEE model has NaN
    ps = [p for p in _params(ctx.rng, n) if not (p['f'] == 0 and p['w'] == 0)]
    one = lambda name, f, **k: ctx.correspond(f'C16_{name}', ps, f, **k)
    # q0 = (1+3/e'^2) atan e' - 3/e' cancels ~ e'^-4 digits: both sides run the same binary64 operations, the slack only
    # absorbs pow-vs-multiplication differences amplified by that cancellation (f >= 1e-6: up to ~1e-3 relative)
    loose = dict(tol_ulp=64)
    one('consts', lambda c: (lambda e: [e.b, e.first_eccentricity_squared, e.second_eccentricity_squared, e.linear_eccentricity,
                                        e.aspect_ratio, e.curvature_polar_radius, e.arithmetic_mean_radius, e.normal_gravity_constant])(_E(c)))
    one('radii', lambda c: (lambda e: [e.authalic_sphere_radius, e.equivolumetric_sphere_radius])(_E(c)))
    one('ge', lambda c: _E(c).equatorial_normal_gravity, **loose)
    one('gp', lambda c: _E(c).polar_normal_gravity, **loose)
    one('J2', lambda c: (lambda e: [e.dynamical_form_factor, e.second_degree_zonal_harmonic])(_E(c)), **loose)
    one('U0', lambda c: _E(c).normal_gravity_potential)
    one('gmean', lambda c: _E(c).mean_normal_gravity, **loose)
    echo = lambda e: [e.a, e.f, e.gm, e.w, e.b]
    zs = ps + [{**ps[3], 'w': 0.0}, {**ps[4], 'f': 0.0}]            # exact zeros through every constructor
    for name, via in (('echo', 'RE'), ('echo_kw', 'RE-kw'), ('wgs_echo', 'WGS'), ('wgs_echo_kw', 'WGS-kw')):
        ctx.correspond(f'C16_{name}', zs, lambda c, via=via: echo(_E({**c, 'via': via})))
    ctx.correspond('C16_wgs_ge', zs, lambda c: _E({**c, 'via': 'WGS'}).equatorial_normal_gravity, **loose)
    ctx.correspond('C16_wgs_gp', zs, lambda c: _E({**c, 'via': 'WGS-kw'}).polar_normal_gravity, **loose)
    for name, via in (('wgs_U0_J2', 'WGS-kw'), ('ref_U0_J2', 'RE')):
        ctx.correspond(f'C16_{name}', zs, lambda c, via=via: (lambda e: [e.normal_gravity_potential, e.dynamical_form_factor])(_E({**c, 'via': via})), **loose)
    lats = [0.0, 90.0, -90.0, 45.0, -45.0, 1e-9, 89.999999]
    gc = []
    for i, p in enumerate(ps):
        lat = lats[i] if i < len(lats) else float(ctx.rng.uniform(-90, 90))
        h = (0.0, 0.005 * p['a'], 100.0)[i % 3] if i < 9 else float(ctx.rng.uniform(0, 0.005 * p['a']))
        gc.append({**p, 'lat': lat, 'h': h})
    ctx.correspond('C16_g', gc, lambda c: _E(c).normal_gravity(c['lat'], c['h']), **loose)
    ctx.correspond('C16_wgs_g', gc, lambda c: _E({**c, 'via': 'WGS'}).normal_gravity(c['lat'], c['h']), **loose)
    ctx.correspond('C16_g0', [{k: c[k] for k in IN + ['lat']} for c in gc], lambda c: _E(c).normal_gravity(c['lat']), **loose)
    import ahrs
    lh = [{'lat': c['lat'], 'h': (0.0, 100.0, 8848.0, 31000.0)[i % 4]} for i, c in enumerate(gc)] + [{'lat': 90.5, 'h': 1.0}, {'lat': -91.0, 'h': 0.0}]
    ctx.correspond('C16_wgs', lh[:-2], lambda c: ahrs.utils.WGS().normal_gravity(c['lat'], c['h']))
    ctx.correspond('C16_welmec', lh, lambda c: ahrs.utils.welmec_gravity(c['lat'], c['h']))
    for ep in EPOCHS:
        ctx.correspond(f'C16_intl_{ep}', [{'lat': c['lat']} for c in lh], lambda c, ep=ep: ahrs.utils.international_gravity(c['lat'], epoch=ep))
    for nm in BODIES:
        # exact rational arithmetic on the decimal constants vs binary64 arithmetic: a few ulp, amplified by the q0 cancellation
        ctx.correspond(f'C16_body_{nm}', [{}], lambda c, nm=nm: (lambda e: [e.f, e.normal_gravity_constant, e.equatorial_normal_gravity,
                                                                              e.polar_normal_gravity])(_body_impl(nm)), tol_ulp=4096)


# ------------------------------------------------------------------------------------------
# search oracles
# ------------------------------------------------------------------------------------------
TOL = 1e-9


def _rel(x, y):
    return abs(x - y) / max(abs(x), abs(y), 1e-300)


def _qtol(f):
    """relative accuracy of e'q0'/q0 in binary64: q0 is a difference of terms of size 3/e' that leaves ~e'^3, so about
    2^-52 / e'^4 ~ 5e-17 / f^2 of relative error (measured: 1.2e-6 in gp at f = 1e-6 with m = 3.4e-3)."""
    return 1e-9 + 2e-15 / max(f, 1e-6) ** 2


def o_identities(inp):
    """derived constants, Pizzetti, positivity, closeness to the rotating-sphere values, for f in [1e-6, 0.2]"""
    e = _E(inp)
    a, f, GM, w = inp['a'], inp['f'], inp['GM'], inp['w']
    b = a * (1 - f)
    bad = lambda tag, obs, exp: {'tag': f'{tag}/{_fregion(f)}', 'observed': obs, 'expected': exp}
    for tag, got, want in (('b', e.b, b), ('first_eccentricity_squared', e.first_eccentricity_squared, (a * a - b * b) / (a * a)),
                           ('second_eccentricity_squared', e.second_eccentricity_squared, (a * a - b * b) / (b * b)),
                           ('linear_eccentricity', e.linear_eccentricity, math.sqrt(a * a - b * b)),
                           ('aspect_ratio', e.aspect_ratio, b / a), ('curvature_polar_radius', e.curvature_polar_radius, a * a / b),
                           ('arithmetic_mean_radius', e.arithmetic_mean_radius, (2 * a + b) / 3),
                           ('equivolumetric_sphere_radius', e.equivolumetric_sphere_radius, (a * a * b) ** (1.0 / 3.0)),
                           ('normal_gravity_constant', e.normal_gravity_constant, w * w * a * a * b / GM)):
        # the eccentricities are differences a^2 - b^2: relative rounding 2^-52/f
        tol = TOL + 1e-15 / max(f, 1e-6) if 'eccentric' in tag else TOL
        if not np.isfinite(got) or _rel(got, want) > tol:
            return bad(tag, got, want)
    m = w * w * a * a * b / GM
    ge, gp = e.equatorial_normal_gravity, e.polar_normal_gravity
    if not (np.isfinite(ge) and np.isfinite(gp)):
        return bad('equatorial_normal_gravity-nonfinite', [ge, gp], 'finite')
    lhs, rhs = 2 * ge / a + gp / b, 3 * GM / (a * a * b) - 2 * w * w
    if abs(lhs - rhs) > TOL * abs(3 * GM / (a * a * b)):
        return bad('pizzetti', lhs, rhs)
    if not (ge > 0 and gp > 0):
        return bad('positivity', [ge, gp], '> 0')
    ges, gps = GM * (1 - 1.5 * m) / (a * b), GM * (1 + m) / (a * a)
    x2 = (a * a - b * b) / (b * b)
    # proved: 0 <= r - 3 <= 1.5 e'^2, so ge is within m e'^2/4 (rel.) of ges and gp within m e'^2/2 of gps
    if abs(ge - ges) > (0.25 * m * x2 * 1.05 + m * _qtol(f)) * GM / (a * b) + TOL * ges:
        return bad('equatorial_normal_gravity-far-from-sphere', ge, ges)
    if abs(gp - gps) > (0.5 * m * x2 * 1.05 + m * _qtol(f)) * GM / (a * a) + TOL * gps:
        return bad('polar_normal_gravity-far-from-sphere', gp, gps)
    # J2, C20, U0 against the closed forms written with E = sqrt(a^2 - b^2) and atan(E/b)  (Moritz 1980)
    E = math.sqrt(a * a - b * b)
    at = math.atan2(E, b)
    q0 = 0.5 * ((1 + 3 * b * b / (E * E)) * at - 3 * b / E)
    J2 = (E * E) / (a * a) * (1 - 2 * m * (E / b) / (15 * q0)) / 3
    j2, c20, u0 = e.dynamical_form_factor, e.second_degree_zonal_harmonic, e.normal_gravity_potential
    if abs(j2 - J2) > TOL * abs(J2) + (f + m) * _qtol(f):
        return bad('dynamical_form_factor', j2, J2)
    if abs(c20 + j2 / math.sqrt(5.0)) > 1e-12 * abs(j2):
        return bad('second_degree_zonal_harmonic', c20, -j2 / math.sqrt(5.0))
    U0 = GM * at / E + w * w * a * a / 3
    if _rel(u0, U0) > TOL + 1e-15 / f:
        return bad('normal_gravity_potential', u0, U0)
    # mean_normal_gravity is a series in e^2 truncated at e^8 (1e-3 accurate at f = 0.1): only its closed form is compared
    k, e2 = b * gp / (a * ge) - 1, (a * a - b * b) / (a * a)
    gmean = ge * (1 + e2 / 6 + k / 3 + 59 * e2 ** 2 / 360 + 5 * e2 * k / 18 + 2371 * e2 ** 3 / 15120 + 259 * e2 ** 2 * k / 1080
                  + 270229 * e2 ** 4 / 1814400 + 9623 * e2 ** 3 * k / 45360)
    if _rel(e.mean_normal_gravity, gmean) > TOL:
        return bad('mean_normal_gravity', e.mean_normal_gravity, gmean)
    return None


def _fregion(f):
    return 'f=0' if f == 0 else 'f<1e-4' if f < 1e-4 else 'f<0.01' if f < 0.01 else 'f<=0.2'


def o_gravity(inp):
    """normal_gravity: equator/pole values, symmetry, positivity, monotone decrease with height"""
    e = _E(inp)
    a, f = inp['a'], inp['f']
    lat = inp['lat']
    hs = sorted(inp['hs'])
    bad = lambda tag, obs, exp: {'tag': f'normal_gravity/{tag}/{_fregion(f)}', 'observed': obs, 'expected': exp}
    ge, gp = e.equatorial_normal_gravity, e.polar_normal_gravity
    if _rel(e.normal_gravity(0.0), ge) > TOL:
        return bad('equator', e.normal_gravity(0.0), ge)
    for s in (90.0, -90.0):
        if _rel(e.normal_gravity(s), gp) > TOL:
            return bad('pole', e.normal_gravity(s), gp)
    GM, w = inp['GM'], inp['w']
    b = a * (1 - f)
    m = w * w * a * a * b / GM
    ph = math.radians(lat)
    c2, s2 = math.cos(ph) ** 2, math.sin(ph) ** 2
    somig = (a * ge * c2 + b * gp * s2) / math.sqrt(a * a * c2 + b * b * s2)        # Somigliana's closed formula (first form)
    if _rel(e.normal_gravity(lat), somig) > TOL:
        return bad('somigliana', e.normal_gravity(lat), somig)
    if w != 0:          # only w^2 enters the model: a retrograde body has the same gravity
        er = _E({**inp, 'w': -w})
        for nm_ in ('equatorial_normal_gravity', 'polar_normal_gravity', 'normal_gravity_potential', 'dynamical_form_factor'):
            if getattr(er, nm_) != getattr(e, nm_):
                return bad(f'{nm_}-not-even-in-w', getattr(er, nm_), getattr(e, nm_))
        if er.normal_gravity(lat, hs[-1]) != e.normal_gravity(lat, hs[-1]):
            return bad('not-even-in-w', er.normal_gravity(lat, hs[-1]), e.normal_gravity(lat, hs[-1]))
    prev = None
    for h in hs:
        g, gn = e.normal_gravity(lat, h), e.normal_gravity(-lat, h)
        want = somig * (1 - 2 * h * (1 + f + m - 2 * f * s2) / a + 3 * h * h / (a * a))
        if _rel(g, want) > TOL:
            return bad('height-formula', g, want)
        if e.normal_gravity(lat, h) != g:
            return bad('second-call-differs', e.normal_gravity(lat, h), g)
        if not np.isfinite(g) or g <= 0:
            return bad('positivity', g, '> 0')
        if _rel(g, gn) > 1e-12:
            return bad('symmetry', gn, g)
        # Somigliana's weights sum to at most 1 and at least sqrt(1 - f^2/(4(1-f)^2)) >= 0.992; the height factor is >= 0.9875
        if min(ge, gp) * 0.979 > g or g > max(ge, gp) * (1 + TOL):
            return bad('range', g, [min(ge, gp) * 0.979, max(ge, gp)])
        if prev is not None and h > prev[0] and not g < prev[1]:
            return bad('not-decreasing-with-height', [prev, [h, g]], 'g(h2) < g(h1)')
        prev = (h, g)
    return None


def o_sphere(inp):
    """f = 0: gravity equals the rotating-sphere values GM(1-3m/2)/a^2, GM(1+m)/a^2 and is the limit of f -> 0"""
    from ahrs.utils.geodesy import ReferenceEllipsoid
    a, GM, w = inp['a'], inp['GM'], inp['w']
    via = inp.get('via', 'RE')
    e = _build(via, a, 0.0, GM, w)
    m = w * w * a ** 3 / GM
    ges, gps = GM * (1 - 1.5 * m) / a ** 2, GM * (1 + m) / a ** 2
    ge, gp = e.equatorial_normal_gravity, e.polar_normal_gravity
    if _rel(ge, ges) > TOL or _rel(gp, gps) > TOL:
        if _rel(ge, m) < 1e-12 and _rel(gp, m) < 1e-12:
            return {'tag': FINDING, 'observed': [ge, gp], 'expected': [ges, gps]}
        return {'tag': 'sphere/not-rotating-sphere-values', 'observed': [ge, gp], 'expected': [ges, gps]}
    lat, h = inp.get('lat', 45.0), inp.get('h', 0.0)
    s2 = math.sin(math.radians(lat)) ** 2
    g = e.normal_gravity(lat, h)
    want = (ges * (1 - s2) + gps * s2) * ((1 - 2 * h * (1 + m) / a + 3 * h * h / a ** 2) if h else 1.0)
    if _rel(g, want) > TOL:
        return {'tag': 'sphere/normal_gravity', 'observed': g, 'expected': want}
    # continuity: |ge(f) - ge(0)| <= 1.3 f GM/a^2 and |gp(f) - gp(0)| <= 3 m f GM/a^2 (proved over the reals)
    for f in (1e-6, 1e-5, 1e-4, 1e-3, 1e-2):
        ef = _build(via, a, f, GM, w)
        slack = m * _qtol(f) + TOL
        if abs(ef.equatorial_normal_gravity - ge) > (1.3 * f + slack) * GM / a ** 2:
            return {'tag': 'sphere/equatorial-discontinuous', 'observed': [f, ef.equatorial_normal_gravity], 'expected': ge}
        if abs(ef.polar_normal_gravity - gp) > (3 * m * f + slack) * GM / a ** 2:
            return {'tag': 'sphere/polar-discontinuous', 'observed': [f, ef.polar_normal_gravity], 'expected': gp}
        # potential and J2 have the limits GM/a + w^2 a^2/3 and -m/3
        if abs(ef.normal_gravity_potential - e.normal_gravity_potential) > (2 * f + TOL) * GM / a:
            return {'tag': 'sphere/potential-discontinuous', 'observed': [f, ef.normal_gravity_potential], 'expected': e.normal_gravity_potential}
        if abs(ef.dynamical_form_factor - e.dynamical_form_factor) > f + 10 * slack:
            return {'tag': 'sphere/J2-discontinuous', 'observed': [f, ef.dynamical_form_factor], 'expected': e.dynamical_form_factor}
    return None


def o_body(inp):
    """a shipped body: all of the above on its constants"""
    nm = inp['body']
    via = inp.get('via', 'RE')
    import ahrs.common.constants as C
    a_, b_ = getattr(C, nm + '_EQUATOR_RADIUS'), getattr(C, nm + '_POLAR_RADIUS')
    p = {'a': a_, 'f': (a_ - b_) / a_, 'GM': getattr(C, nm + '_GM'), 'w': getattr(C, nm + '_ROTATION'), 'via': via}   # what is PASSED
    for v2 in ROUTES:
        try:
            e2 = _body_impl(nm, v2)
            e2.equatorial_normal_gravity, e2.polar_normal_gravity, e2.normal_gravity(inp.get('lat', 45.0), inp.get('h', 0.0))
        except Exception as ex:        # noqa: every body of the shipped table must be constructible and evaluable
            return {'tag': f'body/{nm}/raises-{type(ex).__name__}', 'observed': f'{v2}: {str(ex)[:200]}', 'expected': 'finite gravity'}
    e = _body_impl(nm, via)
    r = o_classes({k: p[k] for k in IN})
    if r is not None:
        return {**r, 'tag': f"{nm}:{r['tag']}"}
    if e.f == 0:
        r = o_sphere({**p, 'lat': inp.get('lat', 45.0), 'h': inp.get('h', 0.0)})
    else:
        r = o_identities(p) or o_gravity({**p, 'lat': inp.get('lat', 45.0), 'hs': [0.0, inp.get('h', 100.0), 0.005 * e.a]})
    if r is not None and r['tag'] != FINDING:
        r = {**r, 'tag': f"{nm}:{r['tag']}"}
    return r


def o_formulas(inp):
    """international_gravity / welmec_gravity: equator value, symmetry, positivity, pole value, decrease with height"""
    import ahrs
    lat, h, ep = inp['lat'], inp.get('h', 0.0), inp.get('epoch', '1980')
    ge = {'1930': 9.78049, '1948': 9.780373, '1967': 9.780318, '1980': 9.780367715, '1984': 9.7803253359}[ep]
    b1 = {'1930': 5.2884e-3, '1948': 5.2891e-3, '1967': 5.3024e-3, '1980': 5.302440112e-3, '1984': 5.302440112e-3}[ep]
    I = lambda x: ahrs.utils.international_gravity(x, epoch=ep)
    if I(0.0) != ge:
        return {'tag': f'international_gravity/equator/{ep}', 'observed': I(0.0), 'expected': ge}
    if _rel(I(90.0), ge * (1 + b1)) > 1e-12 or _rel(I(-90.0), ge * (1 + b1)) > 1e-12:
        return {'tag': f'international_gravity/pole/{ep}', 'observed': I(90.0), 'expected': ge * (1 + b1)}
    g = I(lat)
    b2 = {'1930': 5.9e-6, '1948': 5.9e-6, '1967': 5.9e-6, '1980': 5.8e-6, '1984': 5.8e-6}[ep]
    ph = math.radians(lat)
    want = ge * (1 + b1 * math.sin(ph) ** 2 - b2 * math.sin(2 * ph) ** 2)
    if _rel(g, want) > 1e-12:
        return {'tag': f'international_gravity/series/{ep}', 'observed': g, 'expected': want}
    wantw = 9.780318 * (1 + 0.0053024 * math.sin(ph) ** 2 - 0.0000058 * math.sin(2 * ph) ** 2) - 0.000003085 * h
    if _rel(ahrs.utils.welmec_gravity(lat, h), wantw) > 1e-12:
        return {'tag': 'welmec_gravity/series', 'observed': ahrs.utils.welmec_gravity(lat, h), 'expected': wantw}
    if abs(lat) < 90 and (call_raises(lambda: I(90.0 + abs(lat) + 1e-9)) != 'ValueError' or call_raises(lambda: ahrs.utils.welmec_gravity(-90.0 - abs(lat) - 1e-9, h)) != 'ValueError'):
        return {'tag': f'international_gravity/latitude-guard/{ep}', 'observed': 'no ValueError beyond +-90', 'expected': 'ValueError'}
    if _rel(g, I(-lat)) > 1e-14 or not (ge * (1 - 1e-5) <= g <= ge * (1 + b1) * (1 + 1e-12)):
        return {'tag': f'international_gravity/symmetry-or-range/{ep}', 'observed': [g, I(-lat)], 'expected': [ge, ge * (1 + b1)]}
    W = ahrs.utils.welmec_gravity
    if W(0.0, 0.0) != 9.780318 or _rel(W(90.0), 9.780318 * 1.0053024) > 1e-12:
        return {'tag': 'welmec_gravity/equator-or-pole', 'observed': [W(0.0, 0.0), W(90.0)], 'expected': [9.780318, 9.780318 * 1.0053024]}
    g0, g1 = W(lat, 0.0), W(lat, h)
    if _rel(g0, W(-lat, 0.0)) > 1e-14 or g0 <= 0 or (h > 0 and not g1 < g0) or abs((g0 - g1) - 3.085e-6 * h) > 1e-9 * max(1.0, h * 3e-6):
        return {'tag': 'welmec_gravity/symmetry-or-height', 'observed': [g0, g1], 'expected': 'g(lat,0) = g(-lat,0) > g(lat,h) = g(lat,0) - 3.085e-6 h'}
    return None


PROPS = ('b', 'first_eccentricity_squared', 'second_eccentricity_squared', 'linear_eccentricity', 'aspect_ratio', 'curvature_polar_radius',
         'arithmetic_mean_radius', 'authalic_sphere_radius', 'equivolumetric_sphere_radius', 'normal_gravity_constant', 'dynamical_form_factor',
         'second_degree_zonal_harmonic', 'normal_gravity_potential', 'equatorial_normal_gravity', 'polar_normal_gravity', 'mean_normal_gravity')


def _same(x, y):
    return x == y or (isinstance(x, float) and isinstance(y, float) and math.isnan(x) and math.isnan(y))


def o_classes(inp):
    """ReferenceEllipsoid(a,f,GM,w) and WGS(a,f,GM,w), positional and keyword: the object holds exactly the passed parameters
    (also when f or w is exactly 0), b = a(1-f), and all four routes give bit-identical properties and normal gravity"""
    from vlib.core import call_outcome
    a, f, GM, w = inp['a'], inp['f'], inp['GM'], inp['w']
    zero = 'f=0' if f == 0 else 'w=0' if w == 0 else 'w<0' if w < 0 else 'generic'
    objs = {}
    for via in ROUTES:
        try:
            e = _build(via, a, f, GM, w)
        except Exception as ex:        # noqa: a parameter set of the property's domain must be constructible
            return {'tag': f'{via}/constructor-raises-{type(ex).__name__}/{zero}', 'observed': str(ex)[:200], 'expected': 'an ellipsoid'}
        got = [e.a, e.f, e.gm, e.w]
        if not all(_same(float(x), float(y)) for x, y in zip(got, [a, f, GM, w])):
            return {'tag': f'{via}/constructor-echo/{zero}', 'observed': got, 'expected': [a, f, GM, w]}
        if _rel(e.b, a * (1 - f)) > 1e-15:
            return {'tag': f'{via}/b/{zero}', 'observed': e.b, 'expected': a * (1 - f)}
        objs[via] = e
    ref = objs['RE']
    lats = inp.get('lats', [0.0, 37.0, -90.0])
    hs = inp.get('hs', [0.0, 0.004 * a])
    for via in ROUTES[1:]:
        e = objs[via]
        for name in PROPS:
            x, y = call_outcome(getattr, ref, name), call_outcome(getattr, e, name)
            if x[0] != y[0] or (x[0] == 'val' and not _same(x[1], y[1])) or (x[0] == 'raise' and x[1] != y[1]):
                return {'tag': f'{via}/{name}-differs-from-ReferenceEllipsoid/{zero}', 'observed': list(y), 'expected': list(x)}
        for lat in lats:
            for h in hs:
                x, y = call_outcome(ref.normal_gravity, lat, h), call_outcome(e.normal_gravity, lat, h)
                if x[0] != y[0] or (x[0] == 'val' and not _same(x[1], y[1])):
                    return {'tag': f'{via}/normal_gravity-differs-from-ReferenceEllipsoid/{zero}', 'observed': list(y), 'expected': list(x)}
    return None


def call_raises(f):
    try:
        f()
    except Exception as e:       # noqa
        return type(e).__name__
    return None


def o_types(inp):
    """integer-typed arguments (Python ints / numpy ints) give the float results; properties do not depend on call order"""
    import ahrs
    from ahrs.utils.geodesy import ReferenceEllipsoid
    a, f, GM, w, lat, h = int(inp['a']), inp['f'], int(inp['GM']), inp['w'], int(inp['lat']), int(inp['h'])
    via = inp.get('via', 'RE')
    ef, ei = _build(via, float(a), f, float(GM), w), _build(via, a, f, GM, w)
    for name in ('b', 'first_eccentricity_squared', 'second_eccentricity_squared', 'linear_eccentricity', 'normal_gravity_constant',
                 'equatorial_normal_gravity', 'polar_normal_gravity', 'dynamical_form_factor', 'normal_gravity_potential', 'mean_normal_gravity'):
        x, y = getattr(ef, name), getattr(ei, name)
        if not np.isfinite(y) or _rel(x, y) > 1e-12:
            return {'tag': f'{name}/integer-arguments', 'observed': y, 'expected': x}
        if getattr(ei, name) != y:
            return {'tag': f'{name}/second-read-differs', 'observed': getattr(ei, name), 'expected': y}
    ge_first = ei.equatorial_normal_gravity
    for fl, il in (((float(lat), float(h)), (lat, h)), ((float(lat), float(h)), (np.int64(lat), np.int64(h))), ((float(lat), 0.0), (lat, 0))):
        for nm, F in (('normal_gravity', ei.normal_gravity), ('WGS.normal_gravity', ahrs.utils.WGS().normal_gravity), ('welmec_gravity', ahrs.utils.welmec_gravity)):
            x, y = F(*fl), F(*il)
            if not np.isfinite(y) or _rel(x, y) > 1e-12:
                return {'tag': f'{nm}/integer-arguments', 'observed': y, 'expected': x}
    for ep in EPOCHS:
        x, y = ahrs.utils.international_gravity(float(lat), epoch=ep), ahrs.utils.international_gravity(lat, epoch=ep)
        if _rel(x, y) > 1e-12:
            return {'tag': f'international_gravity/integer-arguments/{ep}', 'observed': y, 'expected': x}
    if ei.equatorial_normal_gravity != ge_first:
        return {'tag': 'equatorial_normal_gravity/changes-after-normal_gravity-calls', 'observed': ei.equatorial_normal_gravity, 'expected': ge_first}
    return None


ORACLES = {'types': o_types, 'classes': o_classes, 'identities': o_identities, 'gravity': o_gravity, 'sphere': o_sphere, 'body': o_body, 'formulas': o_formulas}


def cm_call(f, inp):
    from vlib.core import call_outcome
    r = call_outcome(f, inp)
    if r[0] == 'raise':
        return {'tag': f"{f.__name__[2:]}/raises-{r[1]}", 'observed': list(r[1:])}
    return r[1]


def search(ctx, scale):
    n = 120 * scale
    ps = _params(ctx.rng, n)
    lats = [0.0, 90.0, -90.0, 45.0, -45.0, 1e-9, 89.999999, 30.0, 60.0]
    for i, p in enumerate(ps):
        key = tuple(float(f'{p[k]:.6g}') for k in IN)
        nt = key if (p['f'] > 0 or p['w'] != 0) else None
        lat = lats[i % len(lats)] if i < 3 * len(lats) else float(ctx.rng.uniform(-90, 90))
        hs = sorted({0.0, 0.005 * p['a'], *[float(x) for x in ctx.rng.uniform(0, 0.005 * p['a'], 3)], 1.0})
        via = ROUTES[i % 4]
        inp = {**p, 'lats': [0.0, lat, -90.0], 'hs': [0.0, hs[2]]}
        ctx.check('classes', inp, cm_call(o_classes, inp), nontrivial_key=key + ('classes',))
        if p['f'] == 0:
            for v2 in (ROUTES if i < 24 else (via,)):        # exact zero flattening (and w = 0 among them) through every constructor
                inp = {'a': p['a'], 'GM': p['GM'], 'w': p['w'], 'lat': lat, 'h': hs[2], 'via': v2}
                ctx.check('sphere', inp, cm_call(o_sphere, inp), nontrivial_key=key + (v2,) if p['w'] != 0 else None)
            continue
        pv = {**p, 'via': via}
        ctx.check('identities', pv, cm_call(o_identities, pv), nontrivial_key=nt and nt + (via,))
        inp = {**pv, 'lat': lat, 'hs': hs}
        ctx.check('gravity', inp, cm_call(o_gravity, inp), nontrivial_key=key + (round(lat, 6), via))
    # w exactly 0 with f > 0 and with f = 0, through every constructor
    for j, via in enumerate(ROUTES):
        base = ps[3 + j]
        pv = {**base, 'w': 0.0, 'f': base['f'] or 1e-3, 'via': via}
        ctx.check('identities', pv, cm_call(o_identities, pv), nontrivial_key=('w=0', via))
        inp = {'a': base['a'], 'GM': base['GM'], 'w': 0.0, 'lat': 30.0, 'h': 100.0, 'via': via}
        ctx.check('sphere', inp, cm_call(o_sphere, inp), nontrivial_key=('w=0,f=0', via))
    for j, nm in enumerate(BODIES):
        for k, lat in enumerate((45.0, 0.0, -90.0, float(ctx.rng.uniform(-90, 90)))):
            inp = {'body': nm, 'lat': lat, 'h': (0.0, 1000.0)[j % 2], 'via': ROUTES[k]}
            ctx.check('body', inp, cm_call(o_body, inp), nontrivial_key=(nm, round(lat, 6)))
    for i in range(30 * scale):
        lat = lats[i] if i < len(lats) else float(ctx.rng.uniform(-90, 90))
        inp = {'lat': lat, 'h': float(ctx.rng.uniform(0, 9000)), 'epoch': EPOCHS[i % 5]}
        ctx.check('formulas', inp, cm_call(o_formulas, inp), nontrivial_key=(inp['epoch'], round(lat, 6)))
    for i in range(12 * scale):
        p = ps[(5 * i + 3) % len(ps)]
        inp = {'a': float(round(p['a'])), 'f': p['f'] if i % 3 else 1.0 / 298.257223563, 'GM': float(round(p['GM'])), 'w': p['w'],
               'lat': (0, 90, -90, 45, -45, 30)[i % 6] if i < 12 else int(ctx.rng.integers(-90, 91)), 'h': int(ctx.rng.integers(0, max(2, int(0.005 * p['a'])))),
               'via': ROUTES[i % 4]}
        ctx.check('types', inp, cm_call(o_types, inp), nontrivial_key=(inp['lat'], inp['h'], round(inp['a'])))
    ctx.samples.append({'kind': 'search', 'oracle': 'identities', 'input': ps[3]})
