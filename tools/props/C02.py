"""C02 — every DCM->quaternion method inverts quaternion->DCM over all of SO(3)."""
import math
import numpy as np
from pysym.gen import Target
from pysym import symnp
from . import common as cm

PID = 'C02'
Q = ['w', 'x', 'y', 'z']
RR = ['r00', 'r01', 'r02', 'r10', 'r11', 'r12', 'r20', 'r21', 'r22']
CLOSED = ('chiaverini', 'hughes', 'sarabandi')          # the closed-form trio: property only up to pi - 1e-6
CHOICES = [('default', {}), ('shepperd', {}), ('chiaverini', {}), ('hughes', {}), ('sarabandi', {}),
           ('itzhack', {'version': 1}), ('itzhack', {'version': 2}), ('itzhack', {'version': 3})]
# the methods' options: Sarabandi's threshold (docstring: floats in (-3, 3); the code is exact for every value below 3 —
# theorem C02_closed_form_trio_inverts — and divides 0/0 at the identity from 3.0 on), Bar-Itzhack's version
SARA_THRESHOLDS = (-2.0, -0.5, 0.0, 0.25, 0.5, 0.9, 1.0, 2.5)
OPT_CHOICES = [('sarabandi', {'threshold': t}) for t in SARA_THRESHOLDS]
# 'default' = the dispatcher called WITHOUT a method argument (must be Shepperd on all three routes: the property demands that the
# default inverts everywhere); spellings the dispatchers accept through method.lower() must behave as the lower-case name
CASE_CHOICES = [('Shepperd', {}), ('HUGHES', {}), ('Chiaverini', {}), ('SaraBandi', {'threshold': 0.5}), ('Itzhack', {}),
                ('ITZHACK', {'version': 1}), ('ItzHack', {'version': 2})]


def _canon(method):
    return 'shepperd' if method == 'default' else method.lower()

ENTRIES = ('DCM.to_quaternion', 'Quaternion(dcm=)', 'QuaternionArray(DCM=)')

LEVEL_TEXT = ("Coq theorems over the regenerated shepperd / chiaverini / hughes / sarabandi (single and batch branches): for every unit "
              "quaternion q the method applied to the textbook matrix of q returns +-q (Shepperd on all of SO(3), every path; the "
              "closed-form trio wherever the scalar part is non-zero, which contains angle <= pi - 1e-6; Sarabandi for every threshold < 3); "
              "Bar-Itzhack: hand model of K2/K3 tied to the code by capturing the matrix handed to LAPACK, eigen-structure theorems and "
              "the inversion theorem relative to the stated contract of the eigen-solver")
LEVEL_NOTE = ("dispatchers (DCM.to_quaternion, Quaternion(dcm=), QuaternionArray(DCM=)) are regenerated and tied by float correspondence and "
              "the search oracle, not by theorems; needs fixes C02-hughes-small-angle, C02-hughes-batch, C02-itzhack-eigh")
TECHNIQUE = "pysym regeneration + Coq (ring/field over named radicals) + hand model with LAPACK contract + numeric search oracle"
RULE = ("unit quaternions from the thin regions (identity, axis-aligned and oblique exact half-turns, 1e-12-near half-turns, "
        "pi - 1e-6, near-identity 1e-12..1e-3, negative angles, pure, denormal components, signed permutation matrices as int / list / "
        "float32 operands, batches of N in {1,2,3,4,5,7}) then uniform draws; 7 method/version choices x 3 entry points; "
        "non-trivial = not the identity rotation; distinct = (entry, choice, region, rounded q)")
TRUSTED = [
    "Coq 8.16.1 kernel; vm_compute for the float copies and the float instance of the K2/K3 model",
    "pysym tracing translator (NumPy proxy semantics, Gallina printer), validated by the float correspondence on every run",
    "hand model coq/model/C02_itzhack.v of the K2/K3 matrices (tied by capturing the argument of numpy.linalg.eig/eigh in the harness process)",
    "contract eig_contract of the eigen-solver + column selection (Section hypothesis, explicit premise of C02_itzhack_inverts); exercised numerically on every run",
    "real arithmetic stands for binary64 (gap measured by correspondence and search, not proved)",
    "stdlib real-number axioms, Classical_Prop.classic",
]
PARTIAL = ("dispatchers are covered by correspondence + search only; Bar-Itzhack is relative to the eig contract; float behaviour of sign() "
           "for |component| < 1e-10 and of the closed-form trio between pi - 1e-6 and pi is outside the property")


# ------------------------------------------------------------------------------------------
# targets
# ------------------------------------------------------------------------------------------
def _Rq(v):
    """the textbook matrix of the symbolic quaternion (w, x, y, z) — the SPECIFICATION side, built here"""
    w, x, y, z = v.w, v.x, v.y, v.z
    return symnp.array([[1 - 2 * (y * y + z * z), 2 * (x * y - w * z), 2 * (x * z + w * y)],
                        [2 * (x * y + w * z), 1 - 2 * (x * x + z * z), 2 * (y * z - w * x)],
                        [2 * (x * z - w * y), 2 * (w * x + y * z), 1 - 2 * (x * x + y * y)]])


def _Rm(v):
    return v.mat([RR[0:3], RR[3:6], RR[6:9]])


def targets():
    O = lambda A: A.common.orientation
    mk = lambda n, i, f, doc='': Target(f'C02_{n}', i, f, doc=doc, max_paths=1024)
    ts = []
    for m in ('shepperd', 'chiaverini', 'hughes'):
        ts.append(mk(f'{m}_q', Q, lambda A, v, m=m: getattr(O(A), m)(_Rq(v)), f'orientation.{m}(Rspec q)'))
        ts.append(mk(f'{m}_m', RR, lambda A, v, m=m: getattr(O(A), m)(_Rm(v)), f'orientation.{m}(R), R free'))
    ts.append(mk('sarabandi_q', Q + ['eta'], lambda A, v: O(A).sarabandi(_Rq(v), eta=v.eta), 'orientation.sarabandi(Rspec q, eta)'))
    ts.append(mk('sarabandi_m', RR, lambda A, v: O(A).sarabandi(_Rm(v)), 'orientation.sarabandi(R), default threshold'))
    for m in ('chiaverini', 'hughes'):
        ts.append(mk(f'{m}_batch_q', Q, lambda A, v, m=m: getattr(O(A), m)(symnp.array([_Rq(v)]))[0], f'{m}(N x 3 x 3)[row]'))
        ts.append(mk(f'{m}_batch_m', RR, lambda A, v, m=m: getattr(O(A), m)(symnp.array([_Rm(v)]))[0], f'{m}(N x 3 x 3)[row], R free'))
    for m in ('shepperd', 'chiaverini', 'hughes', 'sarabandi'):
        ts.append(mk(f'DCM_{m}_m', RR, lambda A, v, m=m: A.DCM(_Rm(v)).to_quaternion(method=m), f"DCM(R).to_quaternion('{m}')"))
        ts.append(mk(f'Q_{m}_m', RR, lambda A, v, m=m: A.Quaternion(dcm=_Rm(v), method=m), f"Quaternion(dcm=R, method='{m}')"))
        ts.append(mk(f'QA_{m}_m', RR, lambda A, v, m=m: A.QuaternionArray(DCM=symnp.array([_Rm(v)]), method=m)[0],
                     f"QuaternionArray(DCM=[R], method='{m}')[0]"))
    # the dispatchers called with NO method argument, and with a mixed-case spelling: must be the shepperd / hughes targets
    ts.append(mk('DCM_default_m', RR, lambda A, v: A.DCM(_Rm(v)).to_quaternion(), 'DCM(R).to_quaternion()'))
    ts.append(mk('Q_default_m', RR, lambda A, v: A.Quaternion(dcm=_Rm(v)), 'Quaternion(dcm=R)'))
    ts.append(mk('QA_default_m', RR, lambda A, v: A.QuaternionArray(DCM=symnp.array([_Rm(v)]))[0], 'QuaternionArray(DCM=[R])[0]'))
    ts.append(mk('DCM_HUGHES_m', RR, lambda A, v: A.DCM(_Rm(v)).to_quaternion(method='HUGHES'), "DCM(R).to_quaternion('HUGHES')"))
    ts.append(mk('Q_HUGHES_m', RR, lambda A, v: A.Quaternion(dcm=_Rm(v), method='Hughes'), "Quaternion(dcm=R, method='Hughes')"))
    ts.append(mk('QA_HUGHES_m', RR, lambda A, v: A.QuaternionArray(DCM=symnp.array([_Rm(v)]), method='HuGhEs')[0], "QuaternionArray(DCM=[R], method='HuGhEs')[0]"))
    # mixed stacks: one generic symbolic row next to FIXED exact half-turn / identity rows, in different positions;
    # the result of the generic row must not depend on its neighbours (theorems *_mixed_* in C02_hughes/C02_chiaverini)
    HALF = [[1.0, 0.0, 0.0], [0.0, -1.0, 0.0], [0.0, 0.0, -1.0]]
    EYE = [[1.0, 0.0, 0.0], [0.0, 1.0, 0.0], [0.0, 0.0, 1.0]]
    CYC = [[0.0, 0.0, 1.0], [1.0, 0.0, 0.0], [0.0, 1.0, 0.0]]

    def stack(v, order):
        rows = {'g': _Rq(v), 'h': symnp.array(HALF), 'i': symnp.array(EYE), 'c': symnp.array(CYC)}
        return symnp.array([rows[c] for c in order])
    # (Chiaverini's batch branch turns an exact half-turn row into 0/0 = NaN, which the tracer reports as an exception of
    #  the whole call; its fixed neighbour is therefore the 120-degree cyclic permutation instead of the half-turn)
    for m, a, b in (('chiaverini', 'gc', 'cig'), ('hughes', 'gh', 'hig')):
        ts.append(mk(f'{m}_mixed_gh_q', Q, lambda A, v, m=m, a=a: getattr(O(A), m)(stack(v, a))[0], f'{m}([Rspec q, fixed row])[0]'))
        ts.append(mk(f'{m}_mixed_hig_q', Q, lambda A, v, m=m, b=b: getattr(O(A), m)(stack(v, b))[2], f'{m}([fixed row, identity, Rspec q])[2]'))
    # the dispatchers on the SPECIFICATION side (theorems C02_dispatch_*): Rspec q through the three routes
    for m in ('shepperd', 'chiaverini', 'hughes'):
        ts.append(mk(f'DCM_{m}_q', Q, lambda A, v, m=m: A.DCM(_Rq(v)).to_quaternion(method=m), f"DCM(Rspec q).to_quaternion('{m}')"))
        ts.append(mk(f'Q_{m}_q', Q, lambda A, v, m=m: A.Quaternion(dcm=_Rq(v), method=m), f"Quaternion(dcm=Rspec q, method='{m}')"))
        ts.append(mk(f'QA_{m}_q', Q, lambda A, v, m=m: A.QuaternionArray(DCM=symnp.array([_Rq(v)]), method=m)[0],
                     f"QuaternionArray(DCM=[Rspec q], method='{m}')[0]"))
    ts.append(mk('DCM_sarabandi_q', Q + ['eta'], lambda A, v: A.DCM(_Rq(v)).to_quaternion(method='sarabandi', threshold=v.eta),
                 "DCM(Rspec q).to_quaternion('sarabandi', threshold=eta)"))
    # Bar-Itzhack AFTER the LAPACK call: the eigen-solver is replaced by symbolic (eigenvalues l0..l3, eigenvector matrix v_ij)
    # through symnp.EIG_STUB, so the column selection, roll/negate and final normalisation of the real code are regenerated
    LV = ['l0', 'l1', 'l2', 'l3'] + [f'v{i}{j}' for i in range(4) for j in range(4)]

    def post(ver):
        def fn(A, v):
            symnp.EIG_STUB = (v.vec(*LV[:4]), v.mat([LV[4:8], LV[8:12], LV[12:16], LV[16:20]]))
            try:
                return O(A).itzhack(np.eye(3), version=ver)
            finally:
                symnp.EIG_STUB = None
        return fn
    for ver in (1, 2, 3):
        ts.append(mk(f'itzhack_post_v{ver}', LV, post(ver), f'itzhack(version={ver}) after eig/eigh: selection, roll/negate, normalisation'))
    E = RR + ['eta']
    ts.append(mk('DCM_sarabandi_thr_m', E, lambda A, v: A.DCM(_Rm(v)).to_quaternion(method='sarabandi', threshold=v.eta),
                 "DCM(R).to_quaternion('sarabandi', threshold=eta)"))
    ts.append(mk('Q_sarabandi_thr_m', E, lambda A, v: A.Quaternion(dcm=_Rm(v), method='sarabandi', threshold=v.eta),
                 "Quaternion(dcm=R, method='sarabandi', threshold=eta)"))
    ts.append(mk('QA_sarabandi_thr_m', E, lambda A, v: A.QuaternionArray(DCM=symnp.array([_Rm(v)]), method='sarabandi', threshold=v.eta)[0],
                 "QuaternionArray(DCM=[R], method='sarabandi', threshold=eta)[0]"))
    return ts


STAGES = [['C02_shepperd.v', 'C02_chiaverini.v', 'C02_hughes.v', 'C02_sarabandi.v', 'C02_itzhack.v', 'C02_domain.v',
           'C02_halfturn.v', 'C02_disp_hughes.v'], ['C02.v']]
# proofs that take > 40 s: Shepperd through the three dispatchers (every path), Sarabandi with a symbolic threshold through DCM
STAGES_THOROUGH = [['C02_disp_shepperd.v', 'C02_disp_sarabandi.v', 'C02_disp_chiaverini.v'], ['C02_thorough.v']]


# ------------------------------------------------------------------------------------------
# implementation entry points (public, on floats)
# ------------------------------------------------------------------------------------------
def _free(method, kw):
    from ahrs.common import orientation as O
    method = _canon(method)
    f = getattr(O, method)
    if method == 'itzhack':
        return lambda R: f(R, version=kw.get('version', 3))
    if method == 'sarabandi' and 'threshold' in kw:
        return lambda R: f(R, eta=kw['threshold'])
    return f


def _entry(entry, method, kw):
    import ahrs
    mk = {} if method == 'default' else {'method': method}      # default: no method argument at all
    if entry == 'free':
        return _free(method, kw)
    if entry == 'DCM.to_quaternion':
        return lambda R: ahrs.DCM(R).to_quaternion(**mk, **kw)
    if entry == 'Quaternion(dcm=)':
        return lambda R: np.asarray(ahrs.Quaternion(dcm=R, **mk, **kw))
    if entry == 'QuaternionArray(DCM=)':
        return lambda R: np.asarray(ahrs.QuaternionArray(DCM=np.array([R]), **mk, **kw))[0]
    raise KeyError(entry)


def _opt(kw):
    """option suffix used in tags"""
    return f"{kw.get('version', '')}" + (f"[thr={kw['threshold']:g}]" if 'threshold' in kw else '')


def _mat(c):
    return np.array([[c['r00'], c['r01'], c['r02']], [c['r10'], c['r11'], c['r12']], [c['r20'], c['r21'], c['r22']]])


def _angle(q):
    """rotation angle in [0, pi] of a unit quaternion"""
    return 2.0 * math.atan2(float(np.linalg.norm(q[1:])), abs(float(q[0])))


def _quats(rng, n):
    out = list(cm.quats(rng, n))
    ax = [[1, 0, 0], [0, 1, 0], [0, 0, 1], [1, 1, 0], [1, -2, 3], [-1, 1, 1]]
    for a in ax:
        out.append(('near-identity-1e-12', cm.axang_q(a, 1e-12)))
        out.append(('near-identity-1e-6', cm.axang_q(a, 1e-6)))
        out.append(('hughes-shortcut-zone-5e-3', cm.axang_q(a, 5e-3)))
        out.append(('near-half-turn', cm.axang_q(a, math.pi - 1e-12)))
        out.append(('near-half-turn-1e-6', cm.axang_q(a, math.pi - 1.0000001e-6)))
        out.append(('neg-angle', cm.axang_q(a, -(math.pi - 1e-3))))
        out.append(('neg-angle', cm.axang_q(a, -0.3)))
    return out


def _in_trio_domain(q):
    return _angle(q) <= math.pi - 1e-6


# ------------------------------------------------------------------------------------------
# correspondence
# ------------------------------------------------------------------------------------------
def _capture_K(fn):
    """run fn() while recording the matrices handed to numpy.linalg.eig / eigh (harness-side wrapper; /repo untouched)"""
    import numpy.linalg as L
    seen = []
    o_eig, o_eigh = L.eig, L.eigh

    def w_eig(a, *k, **kw):
        seen.append(np.array(a, dtype=float))
        return o_eig(a, *k, **kw)

    def w_eigh(a, *k, **kw):
        seen.append(np.array(a, dtype=float))
        return o_eigh(a, *k, **kw)
    L.eig, L.eigh = w_eig, w_eigh
    try:
        out = fn()
    finally:
        L.eig, L.eigh = o_eig, o_eigh
    return out, seen


def _parse_floats(s):
    toks = [t.strip().replace('%float', '').strip('() ') for t in s.strip().strip('[]').split(';') if t.strip()]
    out = []
    for t in toks:
        out.append({'nan': float('nan'), 'infinity': float('inf'), 'neg_infinity': float('-inf')}.get(t, None))
        if out[-1] is None:
            out[-1] = float.fromhex(t) if 'x' in t else float(t)
    return out


def _hex(x):
    from pysym import emit
    return emit._hexf(float(x))


def correspondence(ctx):
    from vlib.core import call_outcome
    n = ctx.n(36, 300)
    qs = _quats(ctx.rng, n)
    mats = [cm.d(RR, cm.Rspec(q).reshape(-1)) for _, q in qs]
    # slightly non-orthogonal and plainly non-rotation matrices: the constructors' SO(3) gates must agree too
    for i in range(ctx.n(6, 40)):
        M = cm.Rspec(qs[(3 * i) % len(qs)][1]) + (10.0 ** ctx.rng.uniform(-9, -2)) * ctx.rng.standard_normal((3, 3))
        mats.append(cm.d(RR, M.reshape(-1)))
    # (a) the free functions, single-matrix form and batch branch
    for m in ('shepperd', 'chiaverini', 'hughes', 'sarabandi'):
        f = _free(m, {})
        ctx.correspond(f'C02_{m}_m', mats, (lambda c, f=f: f(_mat(c))), tol_ulp=64)
    for m in ('chiaverini', 'hughes'):
        f = _free(m, {})
        ctx.correspond(f'C02_{m}_batch_m', mats, (lambda c, f=f: f(np.array([_mat(c)]))[0]), tol_ulp=64)
    # (b) the specification-side targets used by the theorems, on unit quaternions
    qcases = [cm.d(Q, q) for _, q in qs]
    for m in ('shepperd', 'chiaverini', 'hughes'):
        f = _free(m, {})
        ctx.correspond(f'C02_{m}_q', qcases, (lambda c, f=f: f(cm.Rspec([c[k] for k in Q]))), tol_ulp=4096, abs_tol=1e-12)
    HALF, EYE = np.diag([1.0, -1.0, -1.0]), np.eye(3)
    CYC = np.array([[0.0, 0.0, 1.0], [1.0, 0.0, 0.0], [0.0, 1.0, 0.0]])
    for m, F in (('chiaverini', CYC), ('hughes', HALF)):
        f = _free(m, {})
        ctx.correspond(f'C02_{m}_mixed_gh_q', qcases, (lambda c, f=f, F=F: f(np.array([cm.Rspec([c[k] for k in Q]), F]))[0]), tol_ulp=4096, abs_tol=1e-12)
        ctx.correspond(f'C02_{m}_mixed_hig_q', qcases, (lambda c, f=f, F=F: f(np.array([F, EYE, cm.Rspec([c[k] for k in Q])]))[2]), tol_ulp=4096, abs_tol=1e-12)
    scases = [{**c, 'eta': float(e)} for c, e in zip(qcases, np.resize(SARA_THRESHOLDS + (1e-3, -3.5), len(qcases)))]
    from ahrs.common import orientation as O
    ctx.correspond('C02_sarabandi_q', scases, lambda c: O.sarabandi(cm.Rspec([c[k] for k in Q]), eta=c['eta']), tol_ulp=4096, abs_tol=1e-12)
    # (c) dispatchers
    sub = mats if not ctx.quick() else mats[::2]
    for m in ('shepperd', 'chiaverini', 'hughes', 'sarabandi'):
        for tag, entry in (('DCM', 'DCM.to_quaternion'), ('Q', 'Quaternion(dcm=)'), ('QA', 'QuaternionArray(DCM=)')):
            f = _entry(entry, m, {})
            ctx.correspond(f'C02_{tag}_{m}_m', sub, (lambda c, f=f: f(_mat(c))), tol_ulp=64)
    # (c') the threshold option through the three routes
    #     (rotations of the trio's domain only: beyond pi - 1e-6 a negative threshold takes sqrt of a rounding-negative
    #      radicand, and the NaN gate of the Quaternion constructor is not part of the real-number model)
    dom = [c for c, (_, q) in zip(mats, qs) if _in_trio_domain(q)] + mats[len(qs):]
    dom = dom if not ctx.quick() else dom[::2]
    tcases = [{**c, 'eta': float(e)} for c, e in zip(dom, np.resize(SARA_THRESHOLDS, len(dom)))]
    for tag, entry in (('DCM', 'DCM.to_quaternion'), ('Q', 'Quaternion(dcm=)'), ('QA', 'QuaternionArray(DCM=)')):
        ctx.correspond(f'C02_{tag}_sarabandi_thr_m', tcases,
                       (lambda c, entry=entry: _entry(entry, 'sarabandi', {'threshold': c['eta']})(_mat(c))), tol_ulp=64)
    # (d) Bar-Itzhack: the matrix handed to LAPACK = the hand model's K (float instance, vm_compute); and the
    #     contract of the eigen-solver + selection, exercised on the real output
    kc = [(r, q) for r, q in qs][:ctx.n(30, 200)]
    exprs, meta = [], []
    for region, q in kc:
        R = cm.Rspec(q)
        for ver in (1, 2, 3):
            args = ' '.join(f'({_hex(v)})' for v in R.reshape(-1))
            exprs.append(f"{'K2F' if ver == 1 else 'K3F'} {args}")
            meta.append((region, q, R, ver))
    pre = ['From Coq Require Import List. From Coq Require Import Uint63. From Coq Require Import PrimFloat.',
           'From AhrsModel Require Import C02_itzhack.', 'Import ListNotations.', 'Open Scope float_scope.']
    outs = ctx.coq_eval('itzhack_K', pre, exprs)
    if outs is not None:
        for s, (region, q, R, ver) in zip(outs, meta):
            Km = np.array(_parse_floats(s)).reshape(4, 4)
            r = call_outcome(lambda: _capture_K(lambda: O.itzhack(R.copy(), version=ver)))
            inp = {'q': q.tolist(), 'version': ver, 'region': region}
            if r[0] == 'raise':
                ctx.disagree('itzhack_K', inp, Km.tolist(), list(r[1:]), 'implementation raises')
                continue
            out, seen = r[1]
            if len(seen) != 1 or seen[0].shape != (4, 4):
                ctx.disagree('itzhack_K', inp, Km.tolist(), [s_.tolist() for s_ in seen], 'expected exactly one 4x4 eigen-problem')
                continue
            if cm.maxabs(seen[0], Km) > 4 * 2.0 ** -52:
                ctx.disagree('itzhack_K', inp, Km.tolist(), seen[0].tolist(), 'K differs from the model')
                continue
            # contract: the returned quaternion, mapped back to the solver's vector, is a real unit eigenvector of K
            # for the eigenvalue the version selects
            o = np.asarray(out)
            if np.iscomplexobj(o) or o.shape != (4,):
                ctx.disagree('itzhack_contract', inp, 'real 4-vector', repr(o), 'eig contract: real eigenvector expected')
                continue
            v = np.array([o[1], o[2], o[3], -o[0]])
            lam = float(v @ Km @ v)
            top = float(np.max(np.linalg.eigvalsh(Km)))
            if abs(np.linalg.norm(v) - 1) > 1e-12 or cm.maxabs(Km @ v, lam * v) > 1e-9 or abs(lam - top) > 1e-9 or abs(lam - 1) > 1e-8 + 1e-5:
                ctx.disagree('itzhack_contract', inp, {'lambda': lam, 'top': top}, o.tolist(), 'eig contract violated')
                continue
            ctx.agree('itzhack_K')
            ctx.agree('itzhack_contract')
        ctx.say(f"[corr] itzhack_K / itzhack_contract: {ctx.corr_stats.get('itzhack_K', {}).get('cases', 0)} cases, "
                f"{ctx.corr_stats.get('itzhack_K', {}).get('disagree', 0) + ctx.corr_stats.get('itzhack_contract', {}).get('disagree', 0)} disagreements")


# ------------------------------------------------------------------------------------------
# search oracles
# ------------------------------------------------------------------------------------------
UNIT_TOL = 1e-12
INV_TOL = 1e-9


def _as_form(R, form):
    if form == 'int':
        return np.array(np.rint(R), dtype=int)
    if form == 'float32':
        return np.array(R, dtype=np.float32)
    return np.array(R, dtype=float)


def _cls(region):
    """coarse region class used in tags (one replay per entry point x method x class x failure kind)"""
    for key, name in (('near-identity', 'near-identity'), ('small-', 'small-angle'), ('shortcut-zone', 'small-angle'),
                      ('near-half-turn', 'near-half-turn'), ('half-turn', 'half-turn'), ('generic', 'generic'),
                      ('neg-identity', 'identity'), ('identity', 'identity'), ('pure', 'half-turn')):
        if key in region:
            return ('perm-' if region.startswith('perm') else '') + name
    return region


def _loose(method, kw, q=None):
    """matrix tolerance of one method on one rotation.  1e-9, except where the unmodified algorithm is inherently less
    accurate in binary64 (measured on the unmodified code, explored only):
    - Chiaverini (always) and Sarabandi with a negative threshold compute a small component v as sqrt(4 v^2 + rounding)/2:
      error about eps/(8|v|), at most ~1e-8 around |v| ~ 1e-8 (angles 1e-9..1e-7)  -> 1e-7;
    - the closed-form trio computes the scalar part as sqrt(1 + trace)/2 = sqrt(4 w^2 + rounding)/2: error about
      eps/(2|w|), i.e. up to ~1e-9 at the edge of the domain |w| = 5e-7  -> + 4e-15/|w|."""
    method = _canon(method)
    tol = 1e-7 if (method == 'chiaverini' or (method == 'sarabandi' and kw.get('threshold', 0.0) < 0)) else INV_TOL
    if _canon(method) in CLOSED and q is not None:
        tol += 4e-15 / max(abs(float(q[0])), 5e-7)
    return tol


def _check_q(o, q, R, where, region, single=False, loose=None):
    region = _cls(region)
    o = np.asarray(o)
    if np.iscomplexobj(o):
        return {'tag': f'{where}/{region}-complex-output', 'observed': repr(o), 'expected': 'real array'}
    if o.shape != (4,) or cm.bad(o):
        return {'tag': f'{where}/{region}-shape-or-nonfinite', 'observed': o, 'expected': 'finite (4,)'}
    # a float32 operand is processed in binary32 by NumPy: then the tolerances are those of binary32
    unit_tol, inv_tol = (4e-7, 2e-6) if (single or o.dtype == np.float32) else (UNIT_TOL, loose or INV_TOL)
    o = o.astype(float)
    if abs(np.linalg.norm(o) - 1.0) > unit_tol:
        return {'tag': f'{where}/{region}-not-unit', 'observed': float(np.linalg.norm(o)), 'expected': 1.0}
    if cm.maxabs(cm.Rspec(o), R) > inv_tol:
        kind = 'conjugate' if cm.maxabs(cm.Rspec(o), R.T) <= INV_TOL else ('identity' if cm.maxabs(o, [1, 0, 0, 0]) < 1e-15 else 'not-inverse')
        return {'tag': f'{where}/{region}-{kind}', 'observed': o, 'expected': q}
    return None


def o_invert(inp):
    """one method/version through one entry point on one rotation: real, unit, Rspec(output) = R"""
    q = np.array(inp['q'], float)
    method, kw, entry, region = inp['method'], dict(inp.get('kw', {})), inp['entry'], inp.get('region', 'generic')
    form = inp.get('form', 'float64')
    R = cm.Rspec(q)
    where = f"{entry}:{method}{_opt(kw)}"
    if form != 'float64':
        where += f'[{form}]'
    f = _entry(entry, method, kw)
    A = _as_form(R, form)
    keep = np.array(A, dtype=float).copy()
    o = f(A)
    r = _check_q(o, q, np.array(keep), where, region, single=(form == 'float32'), loose=_loose(method, kw, q))
    if r is not None:
        return r
    if inp.get('twice'):
        o2 = f(A)
        if cm.maxabs(np.asarray(o2, float), np.asarray(o, float)) > 0 or cm.maxabs(np.array(A, dtype=float), keep) > 0:
            return {'tag': f'{where}/{_cls(region)}-second-call-differs', 'observed': o2, 'expected': o}
    return None


def o_batch(inp):
    """batch entry points on N stacked rotations: row i is the conversion of matrix i"""
    import ahrs
    from ahrs.common import orientation as O
    qs = np.array(inp['qs'], float)
    method, kw, entry = inp['method'], dict(inp.get('kw', {})), inp['entry']
    Rs = np.array([cm.Rspec(q) for q in qs])
    mk = {} if method == 'default' else {'method': method}
    A = _as_form(Rs, inp.get('form', 'float64'))
    where = f"{entry}:{method}{_opt(kw)}[N={len(qs)}]"
    if entry == 'QuaternionArray(DCM=)':
        out = np.asarray(ahrs.QuaternionArray(DCM=A, **mk, **kw))
    elif entry == 'QuaternionArray.from_DCM':
        QA = ahrs.QuaternionArray(np.tile([1.0, 0, 0, 0], (2, 1)))
        out = QA.from_DCM(A, inplace=False, **mk, **kw)
    else:
        out = getattr(O, _canon(method))(A)
    out = np.asarray(out)
    if np.iscomplexobj(out) or out.shape != (len(qs), 4):
        return {'tag': f'{where}/shape-or-dtype', 'observed': repr(out)[:300], 'expected': f'real ({len(qs)}, 4)'}
    for i, (q, o) in enumerate(zip(qs, out)):
        if _canon(method) in CLOSED and not _in_trio_domain(q):
            continue
        r = _check_q(o, q, Rs[i], where, inp.get('region', 'mixed') + '-row', single=(inp.get('form') == 'float32'), loose=_loose(method, kw, q))
        if r is not None:
            r['note'] = f'row {i}'
            return r
    return None


def _run_stack(entry, method, kw, A):
    import ahrs
    from ahrs.common import orientation as O
    mk = {} if method == 'default' else {'method': method}
    if entry == 'QuaternionArray(DCM=)':
        return np.asarray(ahrs.QuaternionArray(DCM=A, **mk, **kw))
    if entry == 'QuaternionArray.from_DCM':
        QA = ahrs.QuaternionArray(np.tile([1.0, 0, 0, 0], (2, 1)))
        return np.asarray(QA.from_DCM(A, inplace=False, **mk, **kw))
    return np.asarray(getattr(O, _canon(method))(A))


def o_mixed(inp):
    """a stack mixing region kinds (generic, exact half-turn, identity, near-identity, near-half-turn rows in any positions):
    every row of the result equals what the same entry point returns for that matrix ALONE (rows must not influence
    each other), and every row in the method's domain inverts its matrix"""
    from vlib.core import call_outcome
    qs = [np.array(q, float) for q in inp['qs']]
    kinds = list(inp['kinds'])
    method, kw, entry = inp['method'], dict(inp.get('kw', {})), inp['entry']
    where = f"{entry}:{method}{_opt(kw)}[mixed]"
    Rs = [np.rint(cm.Rspec(q)) if k.startswith('perm') else cm.Rspec(q) for q, k in zip(qs, kinds)]
    alone, keep = [], []
    for i, R in enumerate(Rs):
        r = call_outcome(lambda R=R: _run_stack(entry, method, kw, np.array([R])))
        ok = r[0] == 'val' and not np.iscomplexobj(r[1]) and np.asarray(r[1]).shape == (1, 4) and not cm.bad(r[1])
        if not ok:
            if _canon(method) in CLOSED and not _in_trio_domain(qs[i]):
                continue            # outside the method's domain and not even finite alone: leave it out of the stack
            return {'tag': f'{where}/{_cls(kinds[i])}-alone-raises-or-nonfinite', 'observed': repr(r)[:200]}
        alone.append(np.asarray(r[1], float)[0]); keep.append(i)
    if len(keep) < 2:
        return None
    out = _run_stack(entry, method, kw, np.array([Rs[i] for i in keep]))
    if np.iscomplexobj(out) or out.shape != (len(keep), 4):
        return {'tag': f'{where}/shape-or-dtype', 'observed': repr(out)[:300], 'expected': f'real ({len(keep)}, 4)'}
    out = out.astype(float)
    present = '+'.join(sorted({_cls(kinds[i]) for i in keep}))
    for row, i in enumerate(keep):
        a, b = out[row], alone[row]
        if not np.array_equal(np.isnan(a), np.isnan(b)) or cm.maxabs(np.nan_to_num(a), np.nan_to_num(b)) > 1e-15:
            return {'tag': f'{where}/{_cls(kinds[i])}-row-differs-from-alone', 'observed': a, 'expected': b,
                    'note': f'row {row} of a stack of kinds {present}'}
        if _canon(method) in CLOSED and not _in_trio_domain(qs[i]):
            continue
        r = _check_q(a, qs[i], Rs[i], where, kinds[i] + '-row', loose=_loose(method, kw, qs[i]))
        if r is not None:
            r['note'] = f'row {row} of a stack of kinds {present}'
            return r
    return None


def o_default(inp):
    """the three dispatchers called WITHOUT a method argument: each inverts the rotation (every region, half-turns and
    identity included) and they return the same quaternion as each other and as the Shepperd function"""
    q = np.array(inp['q'], float)
    R = cm.Rspec(q)
    region = inp.get('region', 'generic')
    outs = {}
    for entry in ENTRIES + ('free',):
        o = np.asarray(_entry(entry, 'default', {})(R.copy()))
        r = _check_q(o, q, R, f'{entry}:default', region)
        if r is not None:
            return r
        outs[entry] = o.astype(float)
    for entry in ENTRIES:
        if cm.maxabs(outs[entry], outs['free']) > 1e-12:
            return {'tag': f'{entry}:default/{_cls(region)}-differs-from-shepperd', 'observed': outs[entry], 'expected': outs['free']}
    return None


LAYOUTS = ('fortran', 'transpose-view', 'strided-2d', 'strided-stack', 'DCM.I', 'DCM.inv', 'neg-stride')
LAYOUT_ROUTES = ('DCM.to_quaternion', 'Quaternion(dcm=)', 'Quaternion(dcm=DCM)', 'asarray(DCM)',
                 'QuaternionArray(DCM=)', 'QuaternionArray(DCM=[DCM])', 'QuaternionArray(DCM=F-stack)', 'QuaternionArray(DCM=T-stack)',
                 'QuaternionArray(DCM=strided-stack)', 'batch-function(F-stack)')


def _layout(R, layout):
    """the same 3x3 matrix R in a non-C-contiguous memory layout"""
    import ahrs
    R = np.array(R, dtype=float)
    if layout == 'fortran':
        return np.asfortranarray(R)
    if layout == 'transpose-view':
        return R.T.copy().T
    if layout == 'strided-2d':
        big = np.full((6, 6), 7.5)
        big[::2, ::2] = R
        return big[::2, ::2]
    if layout == 'strided-stack':
        st = np.full((5, 3, 3), -3.25)
        st[2] = R
        return st[::2][1]
    if layout == 'neg-stride':
        return R[::-1, ::-1].copy()[::-1, ::-1]
    if layout == 'DCM.I':
        return ahrs.DCM(R.T.copy()).I
    if layout == 'DCM.inv':
        return ahrs.DCM(R.T.copy()).inv
    raise KeyError(layout)


def _route_layout(route, method, kw, M, other=None):
    """run one route on the matrix M given in some layout; `other` is a second rotation used to fill stacks"""
    import ahrs
    from ahrs.common import orientation as O
    mk = {} if method == 'default' else {'method': method}
    if route == 'DCM.to_quaternion':
        return np.asarray(ahrs.DCM(M).to_quaternion(**mk, **kw))
    if route == 'Quaternion(dcm=)':
        return np.asarray(ahrs.Quaternion(dcm=M, **mk, **kw))
    if route == 'Quaternion(dcm=DCM)':
        return np.asarray(ahrs.Quaternion(dcm=ahrs.DCM(M), **mk, **kw))
    if route == 'QuaternionArray(DCM=)':
        return np.asarray(ahrs.QuaternionArray(DCM=np.array([other, M]), **mk, **kw))[1]
    if route == 'QuaternionArray(DCM=[DCM])':
        return np.asarray(ahrs.QuaternionArray(DCM=np.array([ahrs.DCM(other), ahrs.DCM(M)]), **mk, **kw))[1]
    Mc, Oc = np.array(M, dtype=float), np.array(other, dtype=float)
    if route == 'QuaternionArray(DCM=F-stack)':
        return np.asarray(ahrs.QuaternionArray(DCM=np.asfortranarray(np.array([Oc, Mc, Oc])), **mk, **kw))[1]
    if route == 'QuaternionArray(DCM=T-stack)':
        st = np.ascontiguousarray(np.transpose(np.array([Oc, Mc, Oc]), (0, 2, 1)))     # holds the transposes ...
        return np.asarray(ahrs.QuaternionArray(DCM=np.transpose(st, (0, 2, 1)), **mk, **kw))[1]   # ... viewed back: a transposed stack
    if route == 'QuaternionArray(DCM=strided-stack)':
        st = np.array([Oc, Oc, Mc, Mc, Oc, Oc])
        return np.asarray(ahrs.QuaternionArray(DCM=st[::2], **mk, **kw))[1]
    if route == 'batch-function(F-stack)':
        return np.asarray(getattr(O, _canon(method))(np.asfortranarray(np.array([Oc, Mc, Oc]))))[1]
    raise KeyError(route)


def o_layout(inp):
    """memory layout must not matter: a Fortran-ordered / strided / transposed-view operand (and DCM objects built from one,
    DCM.I, DCM.inv) gives through every route the same quaternion as its C-contiguous copy, and that quaternion inverts R"""
    import ahrs
    q, p = np.array(inp['q'], float), np.array(inp['other'], float)
    method, kw, route, layout = inp['method'], dict(inp.get('kw', {})), inp['route'], inp['layout']
    region = inp.get('region', 'generic')
    R, Ro = cm.Rspec(q), cm.Rspec(p)
    M = _layout(R, layout)
    where = f"{route}:{method}{_opt(kw)}"
    if cm.maxabs(np.array(M, dtype=float), R) > 1e-15:
        return {'tag': f'{layout}/memory-layout-operand-differs', 'observed': np.array(M, dtype=float), 'expected': R}
    if route == 'asarray(DCM)':
        D = ahrs.DCM(M)
        for nm, A in (('asarray', np.asarray(D)), ('.A', D.A), ('copy', np.array(D)), ('view', D.view(np.ndarray))):
            if np.shape(A) != (3, 3) or cm.maxabs(np.asarray(A, float), R) > 1e-15:
                return {'tag': f'asarray(DCM)/memory-layout', 'observed': np.asarray(A, float), 'expected': R, 'note': f'{nm} of DCM({layout} operand)'}
        return None
    ref = _route_layout(route, method, kw, np.ascontiguousarray(np.array(R, dtype=float)), Ro)
    out = _route_layout(route, method, kw, M, Ro)
    if np.iscomplexobj(out) or np.shape(out) != (4,) or cm.maxabs(np.asarray(out, float), np.asarray(ref, float)) > 1e-15:
        return {'tag': f'{where}/memory-layout', 'observed': out, 'expected': ref, 'note': f'{layout} operand vs its C-contiguous copy'}
    if _canon(method) in CLOSED and not _in_trio_domain(q):
        return None
    r = _check_q(out, q, R, where + f'[{layout}]', region, loose=_loose(method, kw, q))
    return r


def o_agree(inp):
    """all seven choices agree up to sign on one rotation (through one entry point)"""
    q = np.array(inp['q'], float)
    R = cm.Rspec(q)
    entry, region = inp['entry'], _cls(inp.get('region', 'generic'))
    ref = None
    for method, kw in CHOICES + OPT_CHOICES:
        if _canon(method) in CLOSED and not _in_trio_domain(q):
            continue
        o = np.asarray(_entry(entry, method, kw)(R.copy()))
        if np.iscomplexobj(o) or o.shape != (4,) or cm.bad(o):
            return {'tag': f"{entry}:{method}{_opt(kw)}/{region}-complex-or-shape", 'observed': repr(o)}
        o = o.astype(float)
        if ref is None:
            ref = (method, o)
            continue
        if min(cm.maxabs(o, ref[1]), cm.maxabs(o, -ref[1])) > _loose(method, kw, q):
            return {'tag': f"{entry}:{method}{_opt(kw)}/{region}-disagrees-with-{ref[0]}", 'observed': o, 'expected': ref[1]}
    return None


ORACLES = {'invert': o_invert, 'batch': o_batch, 'agree': o_agree, 'mixed': o_mixed, 'default': o_default, 'layout': o_layout}


def cm_call(f, inp):
    from vlib.core import call_outcome
    r = call_outcome(f, inp)
    if r[0] == 'raise':
        where = f"{inp.get('entry', '?')}:{inp.get('method', 'all')}{_opt(dict(inp.get('kw', {})))}"
        return {'tag': f"{where}/{_cls(inp.get('region', 'any'))}-raises-{r[1]}", 'observed': list(r[1:])}
    return r[1]


def _signed_perms():
    """the 24 rotation matrices with entries in {0, +-1} as unit quaternions"""
    import itertools
    out = []
    for p in itertools.permutations(range(3)):
        for s in itertools.product([1, -1], repeat=3):
            M = np.zeros((3, 3))
            for i in range(3):
                M[i, p[i]] = s[i]
            if abs(np.linalg.det(M) - 1) < 1e-9:
                # quaternion by the reference formula (largest pivot)
                t = np.trace(M)
                c = [t, M[0, 0], M[1, 1], M[2, 2]]
                k = int(np.argmax(c))
                if k == 0:
                    w = math.sqrt(1 + t) / 2
                    q = [w, (M[2, 1] - M[1, 2]) / (4 * w), (M[0, 2] - M[2, 0]) / (4 * w), (M[1, 0] - M[0, 1]) / (4 * w)]
                elif k == 1:
                    x = math.sqrt(1 + M[0, 0] - M[1, 1] - M[2, 2]) / 2
                    q = [(M[2, 1] - M[1, 2]) / (4 * x), x, (M[0, 1] + M[1, 0]) / (4 * x), (M[0, 2] + M[2, 0]) / (4 * x)]
                elif k == 2:
                    y = math.sqrt(1 - M[0, 0] + M[1, 1] - M[2, 2]) / 2
                    q = [(M[0, 2] - M[2, 0]) / (4 * y), (M[0, 1] + M[1, 0]) / (4 * y), y, (M[1, 2] + M[2, 1]) / (4 * y)]
                else:
                    z = math.sqrt(1 - M[0, 0] - M[1, 1] + M[2, 2]) / 2
                    q = [(M[1, 0] - M[0, 1]) / (4 * z), (M[0, 2] + M[2, 0]) / (4 * z), (M[1, 2] + M[2, 1]) / (4 * z), z]
                out.append(np.array(q))
    return out


def search(ctx, scale):
    qs = _quats(ctx.rng, 60 + 40 * scale)
    # 1. every choice through every entry point on every region
    for i, (region, q) in enumerate(qs):
        generic = region.startswith('generic')
        for j, (method, kw) in enumerate(CHOICES):
            if _canon(method) in CLOSED and not _in_trio_domain(q):
                continue
            entries = ENTRIES if (not generic or scale > 1) else (ENTRIES[(i + j) % 3],)
            for entry in entries + (('free',) if not generic else ()):
                inp = {'q': q.tolist(), 'method': method, 'kw': kw, 'entry': entry, 'region': region, 'twice': (i + j) % 4 == 0}
                ctx.check('invert', inp, cm_call(o_invert, inp),
                          nontrivial_key=(entry, method, kw.get('version'), region, tuple(np.round(q, 6))) if abs(abs(q[0]) - 1) > 1e-15 else None)
        # the methods' options through every route (keyword `threshold=` on all three dispatchers, `eta=` on the function)
        if _in_trio_domain(q):
            for j, (method, kw) in enumerate(OPT_CHOICES):
                entries = (ENTRIES + ('free',)) if (not generic or scale > 1) else ((ENTRIES + ('free',))[(i + j) % 4],)
                for entry in entries:
                    inp = {'q': q.tolist(), 'method': method, 'kw': kw, 'entry': entry, 'region': region}
                    ctx.check('invert', inp, cm_call(o_invert, inp),
                              nontrivial_key=(entry, method, kw['threshold'], region, tuple(np.round(q, 6))) if abs(abs(q[0]) - 1) > 1e-15 else None)
        # spellings accepted through method.lower(), on all three routes
        for j, (method, kw) in enumerate(CASE_CHOICES):
            if _canon(method) in CLOSED and not _in_trio_domain(q):
                continue
            for entry in (ENTRIES if (not generic or scale > 1) else (ENTRIES[(i + j) % 3],)):
                inp = {'q': q.tolist(), 'method': method, 'kw': kw, 'entry': entry, 'region': region}
                ctx.check('invert', inp, cm_call(o_invert, inp), nontrivial_key=(entry, method, _opt(kw), region, tuple(np.round(q, 6))))
        inp = {'q': q.tolist(), 'region': region, 'entry': 'all-routes', 'method': 'default'}
        ctx.check('default', inp, cm_call(o_default, inp), nontrivial_key=('default', region, tuple(np.round(q, 6))))
        inp = {'q': q.tolist(), 'entry': ENTRIES[i % 3], 'region': region}
        ctx.check('agree', inp, cm_call(o_agree, inp), nontrivial_key=('agree', region, tuple(np.round(q, 6))))
    # 2. exactly representable rotations handed over as int arrays, lists, float32
    perms = _signed_perms()
    for i, q in enumerate(perms):
        ang = _angle(q)
        region = 'perm-half-turn' if abs(ang - math.pi) < 1e-9 else ('perm-identity' if ang < 1e-9 else 'perm')
        for j, (method, kw) in enumerate(CHOICES + OPT_CHOICES[1::2]):
            if _canon(method) in CLOSED and not _in_trio_domain(q):
                continue
            for form in ('int', 'float32'):
                # (lists and float32 arrays are rejected with a TypeError/AttributeError by DCM() and Quaternion(dcm=):
                #  an input-validation matter outside this property; float32 goes to the entry points that accept it)
                entry = (ENTRIES + ('free',))[(i + j + len(form)) % 4] if form == 'int' else ('free', 'QuaternionArray(DCM=)')[(i + j) % 2]
                inp = {'q': q.tolist(), 'method': method, 'kw': kw, 'entry': entry, 'region': region, 'form': form}
                ctx.check('invert', inp, cm_call(o_invert, inp), nontrivial_key=(entry, method, _opt(kw), form, i))
    # 3. batches of N rows
    pool = [q for r, q in qs]
    dom = [q for q in pool if _in_trio_domain(q)]
    for N in (1, 2, 3, 4, 5, 7):
        for k in range(scale):
            for method, kw in CHOICES + OPT_CHOICES[(N + k) % 2::2]:
                src = dom if _canon(method) in CLOSED else pool
                idx = ctx.rng.choice(len(src), size=N, replace=False)
                rows = [src[t] for t in idx]
                ents = ['QuaternionArray(DCM=)', 'QuaternionArray.from_DCM'] + (['batch-function'] if method in ('chiaverini', 'hughes') else [])
                for entry in ents:
                    inp = {'qs': [r.tolist() for r in rows], 'method': method, 'kw': kw, 'entry': entry, 'region': f'N{N}'}
                    ctx.check('batch', inp, cm_call(o_batch, inp), nontrivial_key=(entry, method, _opt(kw), N, k))
        if N <= 4:
            rows = [perms[(5 * N + t) % len(perms)] for t in range(N)]
            rows = [q for q in rows]
            for method, kw in CHOICES:
                use = [q for q in rows if not (_canon(method) in CLOSED and not _in_trio_domain(q))]
                if not use:
                    continue
                inp = {'qs': [r.tolist() for r in use], 'method': method, 'kw': kw, 'entry': 'QuaternionArray(DCM=)', 'region': f'perm-N{len(use)}', 'form': 'int'}
                ctx.check('batch', inp, cm_call(o_batch, inp), nontrivial_key=('int', method, kw.get('version'), N))
    # 4. MIXED stacks: every ordered pair of region kinds (N = 2), then N in {3,4,5,7} with the kinds in varying positions
    import itertools
    ax = lambda: ctx.rng.standard_normal(3)
    kind_gen = {
        'generic': lambda: cm.rand_unit_quat(ctx.rng),
        'half-turn': lambda: cm.axang_q(ax(), math.pi),
        'perm-half-turn': lambda: np.array([[0, 1.0, 0, 0], [0, 0, 1.0, 0], [0, 0, 0, 1.0]][int(ctx.rng.integers(3))]),
        'identity': lambda: np.array([1.0, 0, 0, 0]),
        'near-identity': lambda: cm.axang_q(ax(), 10.0 ** ctx.rng.uniform(-12, -3)),
        'near-half-turn': lambda: cm.axang_q(ax(), math.pi - 10.0 ** ctx.rng.uniform(-13, -9)),
        'near-half-turn-1e-6': lambda: cm.axang_q(ax(), math.pi - 1.0000001e-6),
        'neg-angle': lambda: cm.axang_q(ax(), -ctx.rng.uniform(0.1, 3.0)),
    }
    names = list(kind_gen)
    stacks = [list(p) for p in itertools.product(names, repeat=2)]
    for N in (3, 4, 5, 7):
        for k in range(6 * scale):
            ks = ['generic', names[1 + (k + N) % (len(names) - 1)]] + [names[int(t)] for t in ctx.rng.integers(len(names), size=N - 2)]
            stacks.append([ks[int(t)] for t in ctx.rng.permutation(N)])
    mixed_choices = CHOICES + OPT_CHOICES[4:6] + [CASE_CHOICES[1], CASE_CHOICES[4]]
    for si, ks in enumerate(stacks):
        rows = [kind_gen[k]() for k in ks]
        for ci, (method, kw) in enumerate(mixed_choices):
            ents = ['QuaternionArray(DCM=)', 'QuaternionArray.from_DCM'] + (['batch-function'] if method in ('chiaverini', 'hughes') else [])
            if scale == 1 and method not in ('chiaverini', 'hughes'):
                ents = [ents[(si + ci) % 2]]
            for entry in ents:
                inp = {'qs': [r.tolist() for r in rows], 'kinds': ks, 'method': method, 'kw': kw, 'entry': entry}
                ctx.check('mixed', inp, cm_call(o_mixed, inp), nontrivial_key=(entry, method, _opt(kw), tuple(ks), si))
    # 5. memory layouts: Fortran-ordered, transposed views, strided slices, DCM.I / DCM.inv, DCM objects as operands
    lay_choices = CHOICES + OPT_CHOICES[4:5]
    lay_qs = [(r, q) for r, q in qs if not r.startswith('generic')][::3] + [(r, q) for r, q in qs if r.startswith('generic')][:4 * scale]
    for i, (region, q) in enumerate(lay_qs):
        other = pool[(7 * i + 3) % len(pool)]
        if not _in_trio_domain(other):
            other = dom[i % len(dom)]
        for j, (method, kw) in enumerate(lay_choices):
            if _canon(method) in CLOSED and not _in_trio_domain(q):
                continue
            for k, route in enumerate(LAYOUT_ROUTES):
                if route == 'batch-function(F-stack)' and method not in ('chiaverini', 'hughes'):
                    continue
                if route == 'asarray(DCM)' and j > 0:
                    continue
                lays = LAYOUTS if (route.startswith(('DCM', 'Quaternion(', 'asarray')) or '[DCM]' in route or route == 'QuaternionArray(DCM=)') else ('fortran',)
                if scale == 1:
                    lays = lays[(i + j + k) % len(lays)::3] or lays[:1]
                for layout in lays:
                    inp = {'q': q.tolist(), 'other': other.tolist(), 'method': method, 'kw': kw, 'route': route, 'layout': layout,
                           'region': region, 'entry': route}
                    ctx.check('layout', inp, cm_call(o_layout, inp), nontrivial_key=(route, method, _opt(kw), layout, i))
    ctx.samples.append({'kind': 'search', 'oracle': 'invert',
                        'input': {'q': qs[9][1].tolist(), 'method': 'hughes', 'kw': {}, 'entry': 'DCM.to_quaternion', 'region': qs[9][0]}})
