"""C17 — coordinate-frame transformations are mutually inverse rigid maps (ahrs/common/frames.py)."""
import math
import numpy as np
from pysym.gen import Target
from . import common as cm

PID = 'C17'
UNROLL = 6          # iterations of the ecef2geodetic loop that the regenerated target keeps (measured maximum on the domain: 5)


class UnrollBudget(KeyError):
    """raised inside the traced copy when the `while` of ecef2geodetic would start iteration UNROLL+1"""


def _unrolled_ecef2geodetic(A, v, names, K=UNROLL, entry='ecef2geodetic'):
    """Trace the PUBLIC ecef2geodetic; its tolerance-terminated `while` forks the explorer once per iteration, so the
    first (always-true) path would never end.  While this target runs, the module-level name `np` of the traced copy of
    frames.py is a delegating wrapper that raises KeyError as soon as an np.* function is called after more than K
    loop decisions on the current path: the tree then has the K+1 exits `0..K iterations` and one `Raise KeyError` leaf."""
    from pysym import sym
    F = A.common.frames
    real = F.np

    class Cut:
        def __getattr__(self, k):
            f = getattr(real, k)
            if not callable(f) or isinstance(f, type):
                return f

            def g(*a, **kw):
                if sym.CTX.active and len(sym.CTX.trace) > K:
                    raise UnrollBudget(f'more than {K} iterations')
                return f(*a, **kw)
            return g
    F.np = Cut()
    try:
        return getattr(F, entry)(*[v[n] for n in names])
    finally:
        F.np = real


MAT = lambda n: [[f'{c}{i}' for c in 'xyz'] for i in range(1, n + 1)]
ROWS = lambda n: [v for r in MAT(n) for v in r]


def targets():
    Fm = lambda A: A.common.frames
    mk = lambda n, i, f, doc='', **k: Target(f'C17_{n}', i, f, doc=doc, **k)
    G = ['lat', 'lon', 'h']
    X = ['x', 'y', 'z']
    X0 = ['x0', 'y0', 'z0']
    ENU = ['e', 'n', 'u']
    return [
        mk('geodetic2ecef', G, lambda A, v: Fm(A).geodetic2ecef(v.lat, v.lon, v.h), 'WGS84 defaults; raises outside |lat|<=90, |lon|<=180'),
        mk('geodetic2ecef_ab', G + ['a', 'b'], lambda A, v: Fm(A).geodetic2ecef(v.lat, v.lon, v.h, v.a, v.b), 'any ellipsoid'),
        mk('ecef2geodetic_u', X, lambda A, v: _unrolled_ecef2geodetic(A, v, X),
           f'public ecef2geodetic, loop cut after {UNROLL} iterations (Raise KeyError leaf = budget)'),
        mk('ecef2lla_u', X, lambda A, v: _unrolled_ecef2geodetic(A, v, X, entry='ecef2lla'), 'synonym ecef2lla, same cut'),
        mk('ecef2geodetic_ab_u', X + ['a', 'b'], lambda A, v: _unrolled_ecef2geodetic(A, v, X + ['a', 'b']),
           'any ellipsoid (a, b symbolic), same cut'),
        mk('ecef2enuv', X + X0 + ['lat', 'lon'], lambda A, v: Fm(A).ecef2enuv(v.x, v.y, v.z, v.x0, v.y0, v.z0, v.lat, v.lon)),
        mk('ecef2enu', X + G, lambda A, v: Fm(A).ecef2enu(v.x, v.y, v.z, v.lat, v.lon, v.h)),
        mk('enu2uvw', ENU + ['lat', 'lon'], lambda A, v: Fm(A).enu2uvw(v.e, v.n, v.u, v.lat, v.lon), "angle_unit='deg' (default)"),
        mk('enu2uvw_rad', ENU + ['lat', 'lon'], lambda A, v: Fm(A).enu2uvw(v.e, v.n, v.u, v.lat, v.lon, 'rad')),
        mk('enu2ecef', ENU + G, lambda A, v: Fm(A).enu2ecef(v.e, v.n, v.u, v.lat, v.lon, v.h)),
        mk('geodetic2enu', G + ['lat0', 'lon0', 'h0'], lambda A, v: Fm(A).geodetic2enu(v.lat, v.lon, v.h, v.lat0, v.lon0, v.h0)),
        mk('ned2enu', X, lambda A, v: Fm(A).ned2enu(v.vec(*X))),
        mk('enu2ned', X, lambda A, v: Fm(A).enu2ned(v.vec(*X))),
        mk('ned2enu_rows', X + X0, lambda A, v: Fm(A).ned2enu(v.mat([X, X0])), '(2,3) array: row-wise'),
        mk('enu2ned_rows', X + X0, lambda A, v: Fm(A).enu2ned(v.mat([X, X0])), '(2,3) array: row-wise'),
        mk('ned2enu_rows3', ROWS(3), lambda A, v: Fm(A).ned2enu(v.mat(MAT(3))), '(3,3) array: still row-wise (not transposed)'),
        mk('enu2ned_rows3', ROWS(3), lambda A, v: Fm(A).enu2ned(v.mat(MAT(3))), '(3,3) array'),
        mk('ned2enu_rows4', ROWS(4), lambda A, v: Fm(A).ned2enu(v.mat(MAT(4))), '(4,3) array'),
        mk('enu2ned_rows4', ROWS(4), lambda A, v: Fm(A).enu2ned(v.mat(MAT(4))), '(4,3) array'),
        mk('aer2enu', ['az', 'el', 'r'], lambda A, v: Fm(A).aer2enu(v.az, v.el, v.r)),
        mk('aer2enu_rad', ['az', 'el', 'r'], lambda A, v: Fm(A).aer2enu(v.az, v.el, v.r, deg=False)),
        mk('enu2aer', ENU, lambda A, v: Fm(A).enu2aer(v.e, v.n, v.u)),
        mk('enu2aer_rad', ENU, lambda A, v: Fm(A).enu2aer(v.e, v.n, v.u, deg=False)),
        mk('enu2dca', ENU + ['ang'], lambda A, v: Fm(A).enu2dca(v.e, v.n, v.u, v.ang)),
        mk('dca2enu', ['d', 'c', 'k', 'ang'], lambda A, v: Fm(A).dca2enu(v.d, v.c, v.k, v.ang)),
        mk('enu2dca_rad', ENU + ['ang'], lambda A, v: Fm(A).enu2dca(v.e, v.n, v.u, v.ang, deg=False)),
        mk('dca2enu_rad', ['d', 'c', 'k', 'ang'], lambda A, v: Fm(A).dca2enu(v.d, v.c, v.k, v.ang, deg=False)),
        mk('llf2ecef', ['lat', 'lon'], lambda A, v: Fm(A).llf2ecef(v.lat, v.lon)),
        mk('ecef2llf', ['lat', 'lon'], lambda A, v: Fm(A).ecef2llf(v.lat, v.lon)),
    ]


STAGES = [['C17_linear.v', 'C17_aer.v'], ['C17_geo.v'], ['C17_conv.v'], ['C17.v']]

LEVEL_TEXT = ("Coq theorems over the regenerated frames.py: ECEF<->ENU, ENU<->DCA, NED<->ENU, ENU->AER->ENU are exact inverses for all reals, "
              "ECEF->ENU is an isometry sending the origin to 0, the LLF matrices are SO(3) transposes; for geodetic<->ECEF the unrolled "
              "trace of ecef2geodetic is proved equal to the hand model, the loop body is proved to be a global contraction (explicit factor) "
              "towards the geodetic latitude, and every exit of the loop is proved to return the latitude within 1e-8/74 rad (Earth-like "
              "ellipsoids, -a/100 <= h <= a/6), the exact longitude, and a height within an explicit bound; |lat| = 90 exactly is search-only")
TECHNIQUE = "pysym regeneration (loop unrolled through the public entry point) + hand model proved equal to it + Coq Reals proofs + numeric search"
RULE = ("geodetic points: cross product of named thin regions (poles exactly, 1e-6 deg from them, equator band |lat| < 1e-6 deg, both hemispheres; "
        "longitudes +-180, +-90, 0, all four quadrants; heights -10 km, 0, 1000 km) then uniform draws; offsets up to 1e6 m in every octant; "
        "azimuths in all four quadrants incl. 0/180/360-eps; angles beyond +-360; (N,3) arrays with N in {1,2,3,4,5,7}, integer and list "
        "operands; non-default ellipsoids; a case is non-trivial when it is not the all-zero input; distinct = distinct (oracle, rounded input)")
TRUSTED = ["Coq 8.16.1 kernel; vm_compute for the float copies",
           "pysym tracing translator, incl. the delegating `np` wrapper of tools/props/C17.py that cuts the `while` of ecef2geodetic after 6 exit tests",
           "hand model coq/model/C17_geodetic.v (proved equal to the regenerated unrolled trace, theorem C17_unrolled_is_model)",
           "stdlib real-number axioms (sig_forall_dec, sig_not_dec, functional_extensionality_dep, classic)",
           "real arithmetic stands for binary64 (measured by correspondence and search)"]
PARTIAL = ("geodetic->ECEF->geodetic is proved with explicit error bounds for |lat| < 90 deg (latitude within delta*q/(1-q), exact longitude, "
           "height within M*eps/(cos(lat)-eps) + Lip*(delta+eps)); NOT proved: the values exactly at the poles, where the real model is 0/0 "
           "(the limit along the meridian is proved, the binary64 behaviour is covered by the search oracle), and paths needing more than "
           "5 loop iterations (the unrolled trace raises there; at most 3 are observed on the property's domain)")

# tolerances of the geodetic round trip, calibrated on the pinned tree (+ C17-ecef2geodetic-equator.patch), 4e5 samples:
# worst latitude error 3.9e-9 deg (= delta * k/(1-k), k ~ e^2: the loop stops 1e-8 rad before its limit), worst longitude
# error 2.8e-14 deg, worst height error 4.8e-7 m (near |lat| = 89.9).  A wrong constant or sign gives >= 1e-3 deg / metres.
TOL_LAT, TOL_LON, TOL_H = 2e-8, 1e-10, 1e-5
TOL_M = 1e-6            # metres, for ECEF/ENU coordinates of size <= 8e6 m (rounding noise ~ 5e-9 m)
REL = 1e-11             # relative, for pure rotations of vectors (rounding noise ~ 1e-15)

ELLIPSOIDS = [None, (6378137.0, 6356752.314140356), (6378206.4, 6356583.8), (6371000.0, 6371000.0), (3396190.0, 3376200.0)]
LAT_EDGE = [90.0, -90.0, 0.0, 1e-7, -1e-7, 5.7e-7, -3e-7, 1e-5, -1e-5, 89.999999, -89.999999, 89.9, -89.93, 45.0, -45.0, -33.0, 60.0, -1.0]
LON_EDGE = [180.0, -180.0, 0.0, 90.0, -90.0, 135.0, -135.0, 179.999999, -179.999999, 91.0, -91.0, 1e-9, 30.0, -60.0, 89.9999999, -90.0000001]
H_EDGE = [-1e4, 0.0, 1e6, 100.0, -431.0, 35000.0]


def _F():
    from ahrs.common import frames
    return frames


def _wgs():
    from ahrs.common import constants as C
    return float(C.EARTH_EQUATOR_RADIUS), float(C.EARTH_POLAR_RADIUS)


def _call(f, *a, **k):
    from vlib.core import call_outcome
    return call_outcome(f, *a, **k)


def cm_call(f, inp, entry):
    r = _call(f, inp)
    if r[0] == 'raise':
        return {'tag': f"{entry}/oracle-raises-{r[1]}", 'observed': list(r[1:])}
    return r[1]


# ---------------------------------------------------------------- independent references (plain math, no ahrs)
def ref_geodetic2ecef(lat, lon, h, a, b):
    e2 = 1.0 - (b / a) ** 2
    p, l = math.radians(lat), math.radians(lon)
    N = a / math.sqrt(1.0 - e2 * math.sin(p) ** 2)
    return np.array([(N + h) * math.cos(p) * math.cos(l), (N + h) * math.cos(p) * math.sin(l), (N * (1.0 - e2) + h) * math.sin(p)])


def ref_T(a, b, p, z, phi):
    e2 = (a ** 2 - b ** 2) / a ** 2
    N = a / math.sqrt(1.0 - e2 * math.sin(phi) ** 2)
    return math.atan2(z + e2 * N * math.sin(phi), p)


def ref_Renu(lat, lon):
    p, l = math.radians(lat), math.radians(lon)
    sp, cp, sl, cl = math.sin(p), math.cos(p), math.sin(l), math.cos(l)
    return np.array([[-sl, cl, 0.0], [-sp * cl, -sp * sl, cp], [cp * cl, cp * sl, sp]])


def _lat_region(lat):
    al = abs(lat)
    if al == 90:
        return 'pole'
    if al > 89.9:
        return 'near-pole'
    if al < 1e-6:
        return 'equator'
    return 'north' if lat > 0 else 'south'


def _lon_region(lon):
    al = abs(lon)
    if al >= 179.99:
        return 'antimeridian'
    return ('E' if lon >= 0 else 'W') + ('far' if al > 90 else 'near')


def _circ(a, b, period=360.0):
    d = (a - b) % period
    return min(d, period - d)


def _typed(vals, form):
    if form == 'int':
        return [int(v) for v in vals]
    if form == 'npint':
        return [np.int64(int(v)) for v in vals]
    if form == 'np32':
        return [np.float32(v) for v in vals]
    if form == 'np64':
        return [np.float64(v) for v in vals]
    return [float(v) for v in vals]


# ---------------------------------------------------------------- oracle 1: geodetic -> ECEF -> geodetic
def o_geodetic(inp):
    """geodetic2ecef equals the textbook formula; ecef2geodetic/ecef2lla return the original latitude, longitude, height;
    the returned latitude is a fixed point of the hand model's loop body T"""
    F = _F()
    lat, lon, h = inp['lat'], inp['lon'], inp['h']
    form = inp.get('form', 'float')
    entry = inp.get('entry', 'ecef2geodetic')
    ell = inp.get('ell')
    a, b = ell if ell else _wgs()
    extra = tuple(ell) if ell else ()
    reg, lreg = _lat_region(lat), _lon_region(lon)
    args = _typed([lat, lon, h], form)
    r = _call(F.geodetic2ecef, *args, *extra)
    if r[0] == 'raise':
        return {'tag': f'geodetic2ecef/raises-{r[1]}-{reg}', 'observed': list(r[1:])}
    X = np.asarray(r[1], float)
    ref = ref_geodetic2ecef(lat, lon, h, a, b)
    if X.shape != (3,) or cm.bad(X) or cm.maxabs(X, ref) > TOL_M:
        return {'tag': f'geodetic2ecef/differs-from-formula-{reg}-{lreg}', 'observed': X, 'expected': ref}
    X2 = np.asarray(F.geodetic2ecef(*_typed([lat, lon, h], form), *extra), float)
    if cm.maxabs(X2, X) > 0:
        return {'tag': 'geodetic2ecef/second-call-differs', 'observed': X2, 'expected': X}
    r = _call(getattr(F, entry), *[float(v) for v in X], *extra)
    if r[0] == 'raise':
        return {'tag': f'{entry}/raises-{r[1]}-{reg}', 'observed': list(r[1:]), 'expected': [lat, lon, h]}
    g = np.asarray(r[1], float)
    if g.shape != (3,) or cm.bad(g):
        return {'tag': f'{entry}/shape-or-nonfinite-{reg}', 'observed': g, 'expected': [lat, lon, h]}
    if abs(g[0] - lat) > TOL_LAT:
        return {'tag': f'{entry}/latitude-{reg}', 'observed': g, 'expected': [lat, lon, h]}
    # the original longitude itself (not merely modulo 360), except that -180 and +180 name the same meridian
    lon_err = _circ(g[1], lon) if abs(lon) >= 180 - 1e-9 else abs(g[1] - lon)
    if lon_err > TOL_LON or abs(g[1]) > 180:
        return {'tag': f'{entry}/longitude-{reg}-{lreg}', 'observed': g, 'expected': [lat, lon, h]}
    if abs(g[2] - h) > TOL_H:
        return {'tag': f'{entry}/height-{reg}', 'observed': g, 'expected': [lat, lon, h]}
    # hand-model tie on floats: the returned latitude is a fixed point of T up to the next increment of the loop, which is
    # at most (contraction factor ~ e^2 <= 0.012 for the ellipsoids used) * (exit threshold 1e-8 rad) = 1.2e-10 rad
    p = math.hypot(X[0], X[1])
    phi = math.radians(g[0])
    if abs(ref_T(a, b, p, X[2], phi) - phi) > 2e-10:
        return {'tag': f'{entry}/not-a-fixed-point-of-T-{reg}', 'observed': ref_T(a, b, p, X[2], phi), 'expected': phi}
    return None


# ---------------------------------------------------------------- oracle 2: ECEF <-> ENU rigid and inverse
def o_enu(inp):
    """ECEF->ENU->ECEF and ENU->ECEF->ENU identities, isometry, origin -> 0, agreement with the rotation matrix, and
    consistency of ecef2enuv / enu2uvw (deg, rad) / geodetic2enu with ecef2enu"""
    F = _F()
    lat, lon, h = inp['lat'], inp['lon'], inp['h']
    form = inp.get('form', 'float')
    d, d2 = np.array(inp['d'], float), np.array(inp['d2'], float)
    reg = ('N' if lat >= 0 else 'S') + _lon_region(lon) + ('-pole' if abs(lat) == 90 else '')
    O = _typed([lat, lon, h], form)
    X0 = np.asarray(F.geodetic2ecef(*_typed([lat, lon, h], form)), float)
    P, Q = X0 + d, X0 + d2
    R = ref_Renu(lat, lon)
    eP = np.asarray(F.ecef2enu(*P, *O), float)
    eQ = np.asarray(F.ecef2enu(*Q, *O), float)
    if eP.shape != (3,) or cm.bad(eP):
        return {'tag': f'ecef2enu/shape-or-nonfinite-{reg}', 'observed': eP}
    if cm.maxabs(eP, R @ (P - X0)) > TOL_M:
        return {'tag': f'ecef2enu/differs-from-rotation-{reg}', 'observed': eP, 'expected': R @ (P - X0)}
    back = np.asarray(F.enu2ecef(*eP, *_typed([lat, lon, h], form)), float)
    if cm.maxabs(back, P) > TOL_M:
        return {'tag': f'ecef2enu-enu2ecef/not-identity-{reg}', 'observed': back, 'expected': P}
    E = np.asarray(F.enu2ecef(*_typed(d, 'float'), *_typed([lat, lon, h], form)), float)
    if cm.maxabs(E, X0 + R.T @ d) > TOL_M:
        return {'tag': f'enu2ecef/differs-from-rotation-{reg}', 'observed': E, 'expected': X0 + R.T @ d}
    e2 = np.asarray(F.ecef2enu(*E, *_typed([lat, lon, h], form)), float)
    if cm.maxabs(e2, d) > TOL_M:
        return {'tag': f'enu2ecef-ecef2enu/not-identity-{reg}', 'observed': e2, 'expected': d}
    if abs(np.linalg.norm(eP - eQ) - np.linalg.norm(P - Q)) > TOL_M:
        return {'tag': f'ecef2enu/not-isometric-{reg}', 'observed': np.linalg.norm(eP - eQ), 'expected': np.linalg.norm(P - Q)}
    z = np.asarray(F.ecef2enu(*X0, *_typed([lat, lon, h], form)), float)
    if cm.maxabs(z) > TOL_M:
        return {'tag': f'ecef2enu/origin-not-zero-{reg}', 'observed': z, 'expected': [0, 0, 0]}
    zv = np.asarray(F.ecef2enuv(*X0, *X0, *_typed([lat, lon], form)), float)
    if cm.maxabs(zv) > 0:
        return {'tag': f'ecef2enuv/origin-not-zero-{reg}', 'observed': zv, 'expected': [0, 0, 0]}
    ev = np.asarray(F.ecef2enuv(*P, *X0, *_typed([lat, lon], form)), float)
    if cm.maxabs(ev, eP) > 1e-9:
        return {'tag': f'ecef2enuv/differs-from-ecef2enu-{reg}', 'observed': ev, 'expected': eP}
    u1 = np.asarray(F.enu2uvw(*d, *_typed([lat, lon], form)), float)
    u2 = np.asarray(F.enu2uvw(*d, math.radians(lat), math.radians(lon), 'rad'), float)
    sc = max(1.0, float(np.max(np.abs(d))))
    if cm.maxabs(u1, R.T @ d) > REL * sc:
        return {'tag': f'enu2uvw/differs-from-rotation-{reg}', 'observed': u1, 'expected': R.T @ d}
    if cm.maxabs(u2, u1) > REL * sc:
        return {'tag': f'enu2uvw/rad-differs-from-deg-{reg}', 'observed': u2, 'expected': u1}
    if abs(np.linalg.norm(u1) - np.linalg.norm(d)) > REL * sc:
        return {'tag': f'enu2uvw/not-isometric-{reg}', 'observed': np.linalg.norm(u1), 'expected': np.linalg.norm(d)}
    g2 = inp.get('other')
    if g2 is not None:
        ge = np.asarray(F.geodetic2enu(*g2, lat, lon, h), float)
        XP = np.asarray(F.geodetic2ecef(*g2), float)
        want = R @ (XP - X0)
        if cm.maxabs(ge, want) > TOL_M:
            return {'tag': f'geodetic2enu/differs-from-rotation-{reg}', 'observed': ge, 'expected': want}
    return None


# ---------------------------------------------------------------- oracle 3: ENU <-> AER
# ENU <-> AER tolerances, calibrated on the unchanged tree (/repo 9aa2766, 1.2e6 points incl. near-vertical, near-horizon and
# azimuth-wrap families): ENU->AER->ENU component error <= 1.2e-15 * slant (near-vertical points: 3.3e-16 * slant, which is up
# to 2.7e-4 of a 1e-6 m horizontal offset under 1000 km); angles against the spherical formulas <= 1.6e-16 * full turn;
# AER->ENU->AER: az*cos(el) <= 2.7e-17 * full, el <= 4e-17 * full, r <= 2.3e-16 relative.  An inverse trig function used away
# from its well-conditioned range (arcsin/arccos near +-1) resolves angles to sqrt(eps) = 1.5e-8 rad = 2.4e-9 * full only.
TOL_AER_RT = 5e-14      # round-trip error of every ENU component, relative to the slant range
TOL_AER_ANG = 1e-13     # angles, relative to the full turn (3.6e-11 deg)


def _aer_region(v):
    hz = math.hypot(v[0], v[1])
    if hz < 1e-3 * abs(v[2]):
        return 'near-zenith' if v[2] > 0 else 'near-nadir'
    if abs(v[2]) < 1e-3 * hz:
        return 'near-horizon-' + ('west' if v[0] < 0 else 'east')
    if abs(v[0]) < 1e-3 * abs(v[1]):
        return 'az-wrap-north' if v[1] > 0 else 'az-near-south'
    return 'west' if v[0] < 0 else 'east'


def o_aer(inp):
    """ENU->AER->ENU identity (error relative to the slant range; the error relative to the horizontal offset is reported),
    the returned AER against the spherical-coordinate formulas, ranges; AER->ENU->AER on the chart up to 1e-6 deg from the vertical"""
    F = _F()
    deg = inp.get('deg', True)
    k = {} if deg else {'deg': False}
    full = 360.0 if deg else 2 * math.pi
    conv = (lambda t: math.degrees(t)) if deg else (lambda t: t)
    if 'enu' in inp:
        v = np.array(inp['enu'], float)
        args = _typed(v, inp.get('form', 'float'))
        aer = np.asarray(F.enu2aer(*args, **k), float)
        sl = float(np.linalg.norm(v))
        hz = math.hypot(v[0], v[1])
        half = _aer_region(v)
        if aer.shape != (3,) or cm.bad(aer):
            return {'tag': f'enu2aer/shape-or-nonfinite-{half}', 'observed': aer}
        if not (0 <= aer[0] <= full * (1 + 1e-15) and abs(aer[1]) <= full / 4 * (1 + 1e-15) and aer[2] >= 0):
            return {'tag': f'enu2aer/out-of-range-{half}', 'observed': aer}
        want = [conv(math.atan2(v[0], v[1])) % full, conv(math.atan2(v[2], hz)), sl]
        if abs(aer[2] - sl) > 1e-12 * max(1.0, sl):
            return {'tag': f'enu2aer/slant-range-{half}', 'observed': aer, 'expected': want}
        if _circ(aer[0], want[0], full) > TOL_AER_ANG * full or abs(aer[1] - want[1]) > TOL_AER_ANG * full:
            return {'tag': f'enu2aer/angles-{half}', 'observed': aer, 'expected': want}
        back = np.asarray(F.aer2enu(*aer, **k), float)
        err = cm.maxabs(back, v) if back.shape == (3,) else math.inf
        if err > TOL_AER_RT * sl:
            eh = float(np.max(np.abs(back[:2] - v[:2]))) if back.shape == (3,) else math.inf
            return {'tag': f'enu2aer-aer2enu/not-identity-{half}', 'observed': back, 'expected': v,
                    'note': f'error {err:.3g} m = {err / max(sl, 1e-300):.3g} of the slant range; horizontal error {eh:.3g} m = '
                            f'{eh / hz if hz > 0 else math.inf:.3g} of the horizontal offset {hz:.3g} m'}
        return None
    az, el, r = inp['aer']
    half = 'west' if (az % full) >= full / 2 else 'east'
    enu = np.asarray(F.aer2enu(*_typed([az, el, r], inp.get('form', 'float')), **k), float)
    a_, e_ = (math.radians(az), math.radians(el)) if deg else (az, el)
    want = np.array([r * math.cos(e_) * math.sin(a_), r * math.cos(e_) * math.cos(a_), r * math.sin(e_)])
    if enu.shape != (3,) or cm.bad(enu) or cm.maxabs(enu, want) > REL * max(1.0, abs(r)):
        return {'tag': f'aer2enu/differs-from-formula-{half}', 'observed': enu, 'expected': want}
    if r > 0 and abs(e_) <= math.radians(90.0 - 1e-6) and 0 <= az < full:
        if abs(e_) > math.radians(89.0):
            half = ('near-zenith-' if e_ > 0 else 'near-nadir-') + half
        aer = np.asarray(F.enu2aer(*enu, **k), float)
        c = max(math.cos(e_), 1e-9)
        if _circ(aer[0], az, full) > TOL_AER_ANG * full / c or abs(aer[1] - el) > TOL_AER_ANG * full or abs(aer[2] - r) > 1e-13 * r:
            return {'tag': f'aer2enu-enu2aer/not-identity-{half}', 'observed': aer, 'expected': [az, el, r]}
    return None


# ---------------------------------------------------------------- oracle 4: ENU <-> DCA
def o_dca(inp):
    F = _F()
    deg = inp.get('deg', True)
    k = {} if deg else {'deg': False}
    v = np.array(inp['v'], float)
    ang = inp['ang']
    form = inp.get('form', 'float')
    t = math.radians(ang) if deg else ang
    s, c = math.sin(t), math.cos(t)
    M = np.array([[s, c, 0.0], [-c, s, 0.0], [0.0, 0.0, 1.0]])
    sc = max(1.0, float(np.max(np.abs(v))))
    q = 'beyond180' if abs((math.degrees(t) if not deg else ang)) > 180 else 'within180'
    dca = np.asarray(F.enu2dca(*_typed(v, form), *_typed([ang], form), **k), float)
    if dca.shape != (3,) or cm.bad(dca) or cm.maxabs(dca, M @ v) > REL * sc:
        return {'tag': f'enu2dca/differs-from-matrix-{q}', 'observed': dca, 'expected': M @ v}
    back = np.asarray(F.dca2enu(*dca, *_typed([ang], form), **k), float)
    if cm.maxabs(back, v) > REL * sc:
        return {'tag': f'enu2dca-dca2enu/not-identity-{q}', 'observed': back, 'expected': v}
    enu = np.asarray(F.dca2enu(*_typed(v, form), *_typed([ang], form), **k), float)
    if enu.shape != (3,) or cm.maxabs(enu, M.T @ v) > REL * sc:
        return {'tag': f'dca2enu/differs-from-matrix-{q}', 'observed': enu, 'expected': M.T @ v}
    back = np.asarray(F.enu2dca(*enu, *_typed([ang], form), **k), float)
    if cm.maxabs(back, v) > REL * sc:
        return {'tag': f'dca2enu-enu2dca/not-identity-{q}', 'observed': back, 'expected': v}
    if abs(np.linalg.norm(dca) - np.linalg.norm(v)) > REL * sc:
        return {'tag': f'enu2dca/not-isometric-{q}', 'observed': np.linalg.norm(dca), 'expected': np.linalg.norm(v)}
    return None


# ---------------------------------------------------------------- oracle 5: NED <-> ENU
def o_ned(inp):
    F = _F()
    x = inp['x']
    form = inp.get('form', 'float')
    ref_in = np.array(x, float)
    n = 'vec' if ref_in.ndim == 1 else f'rows{ref_in.shape[0]}'
    mk = {'float': lambda: np.array(x, float), 'int': lambda: np.array(x, dtype=int), 'list': lambda: [list(r) if isinstance(r, list) else r for r in x],
          'f32': lambda: np.array(x, dtype=np.float32)}[form]
    want = ref_in[..., [1, 0, 2]] * np.array([1.0, 1.0, -1.0])
    for name in ('ned2enu', 'enu2ned'):
        f = getattr(F, name)
        r = _call(f, mk())
        if r[0] == 'raise':
            return {'tag': f'{name}/raises-{r[1]}-{n}-{form}', 'observed': list(r[1:])}
        y = np.asarray(r[1], float)
        if y.shape != ref_in.shape or cm.bad(y) or cm.maxabs(y, want) > 0:
            return {'tag': f'{name}/wrong-{n}-{form}', 'observed': y, 'expected': want}
        other = getattr(F, 'enu2ned' if name == 'ned2enu' else 'ned2enu')
        z = np.asarray(other(np.asarray(r[1])), float)
        if z.shape != ref_in.shape or cm.maxabs(z, ref_in) > 0:
            return {'tag': f'{name}/not-involutive-{n}-{form}', 'observed': z, 'expected': ref_in}
    return None


# ---------------------------------------------------------------- oracle 6: LLF matrices
def o_llf(inp):
    F = _F()
    lat, lon = inp['lat'], inp['lon']
    A = np.asarray(F.llf2ecef(*_typed([lat, lon], inp.get('form', 'float'))), float)
    B = np.asarray(F.ecef2llf(*_typed([lat, lon], inp.get('form', 'float'))), float)
    if A.shape != (3, 3) or B.shape != (3, 3) or cm.bad(A) or cm.bad(B):
        return {'tag': 'llf/shape-or-nonfinite', 'observed': [A, B]}
    if cm.maxabs(A, B.T) > 0:
        return {'tag': 'llf/not-transposes', 'observed': A, 'expected': B.T}
    if cm.maxabs(A @ B, np.eye(3)) > 1e-12 or cm.maxabs(B @ A, np.eye(3)) > 1e-12:
        return {'tag': 'llf/not-orthogonal', 'observed': A @ B, 'expected': np.eye(3)}
    if abs(np.linalg.det(A) - 1) > 1e-12 or abs(np.linalg.det(B) - 1) > 1e-12:
        return {'tag': 'llf/not-proper', 'observed': [np.linalg.det(A), np.linalg.det(B)], 'expected': 1}
    return None


ORACLES = {'geodetic': o_geodetic, 'enu': o_enu, 'aer': o_aer, 'dca': o_dca, 'ned': o_ned, 'llf': o_llf}


# ---------------------------------------------------------------- generators
def geo_points(rng, n, full=False):
    """(lat, lon, h): the cross product of the thin regions (sub-sampled unless `full`), then uniform draws"""
    out = []
    for i, lat in enumerate(LAT_EDGE):
        for j, lon in enumerate(LON_EDGE):
            for k, h in enumerate(H_EDGE):
                if full or (i + 2 * j + 3 * k) % 7 == 0 or (k < 3 and (lat in (90.0, -90.0, 0.0) or lon in (180.0, -180.0))):
                    out.append((lat, lon, h))
    while len(out) < n:
        u = rng.random()
        lat = rng.uniform(-90, 90) if u < 0.7 else (90 - 10 ** rng.uniform(-12, 0)) * rng.choice([-1, 1]) if u < 0.85 else 10 ** rng.uniform(-9, -4) * rng.choice([-1, 1])
        lon = rng.uniform(-180, 180) if rng.random() < 0.9 else rng.choice([-1, 1]) * (180 - 10 ** rng.uniform(-12, -3))
        h = rng.uniform(-1e4, 1e6) if rng.random() < 0.8 else float(rng.choice([-1e4, 0.0, 1e6]))
        out.append((float(lat), float(lon), float(h)))
    return out


def offsets(rng, n):
    out = [[0.0, 0.0, 0.0], [1.0, 0.0, 0.0], [0.0, -1.0, 0.0], [0.0, 0.0, 1e6], [-1e6, 1e6, -1e6], [3.0, -4.0, 12.0], [1e-3, 2e-3, -5e-4]]
    while len(out) < n:
        out.append((rng.standard_normal(3) * 10 ** rng.uniform(-2, 6)).clip(-1e6, 1e6).tolist())
    return out


def enu_points(rng, n):
    out = [[0.0, 0.0, 0.0], [0.0, 0.0, 5.0], [0.0, 0.0, -5.0], [1.0, 0.0, 0.0], [-1.0, 0.0, 0.0], [0.0, 1.0, 0.0], [0.0, -1.0, 0.0],
           [-1e-20, 1.0, 0.0], [-1e-20, -1.0, 0.5], [1.0, 1.0, 1.0], [-1.0, 1.0, -1.0], [-3.0, -4.0, 12.0], [3.0, -4.0, 0.0],
           [8.4504, 12.4737, 1.1046], [-1e6, -1e6, 1e6], [1e-9, -1e-9, 1e-9], [-5e-324, 1.0, 0.0]]
    while len(out) < n:
        out.append((rng.standard_normal(3) * 10 ** rng.uniform(-3, 6)).tolist())
    return out


def thin_enu_points(rng, n):
    """points where an inverse trigonometric function is ill-conditioned if the wrong one is used: almost straight above/below
    the origin (horizontal offset 1e-6 .. 1 m under |up| = 1e3 .. 1e6 m), almost on the horizon, azimuth at the 0/360 wrap and near 180"""
    out = []
    for hz in (1e-6, 1e-4, 1e-2, 0.01, 1.0):
        for up in (1e3, -1e3, 1e6, -1e6, 3.7e4):
            for az in (0.3, 2.0, 3.9, 5.5):
                out.append([hz * math.sin(az), hz * math.cos(az), up])
    out += [[0.01, 0.0, 1e6], [0.0, -0.01, -1e6], [1e-6, 1e-6, 1e3]]
    for small in (1e-6, -1e-6, 1e-3, -1e-3, 1.0, -1.0):
        for big in (1e3, 1e6):
            out += [[small, big, 0.3 * big], [small, -big, -0.2 * big], [big, -0.7 * big, small], [-big, big, small]]
    while len(out) < n:
        hz, az = 10 ** rng.uniform(-6, 0), rng.uniform(0, 2 * math.pi)
        big = 10 ** rng.uniform(3, 6) * rng.choice([-1, 1])
        small = 10 ** rng.uniform(-6, 0) * rng.choice([-1, 1])
        u = rng.random()
        out.append([hz * math.sin(az), hz * math.cos(az), big] if u < 0.5 else [small, big, rng.uniform(-1, 1) * abs(big)] if u < 0.8
                   else [big, rng.uniform(-1, 1) * big, small])
    return [[float(t) for t in v] for v in out]


AZ_EDGE = [0.0, 90.0, 180.0, 270.0, 359.999999, 180.000001, 179.999999, 45.0, 135.0, 225.0, 315.0, 200.0, 34.116]
ANG_EDGE = [0.0, 90.0, -90.0, 180.0, -180.0, 270.0, 360.0, 450.0, -725.0, 45.0, 200.0, -135.0, 1e-9]


# ---------------------------------------------------------------- correspondence of the regenerated float definitions
def correspondence(ctx):
    """never lets an exception of the implementation abort the run: the search oracle must still get its turn"""
    import traceback
    try:
        _correspondence(ctx)
    except Exception as e:      # noqa
        ctx.broken.append({'kind': 'correspondence', 'target': 'C17', 'error': f'{type(e).__name__}: {e}',
                           'detail': traceback.format_exc()[-2000:]})
        ctx.say('[corr] aborted by an exception of the implementation:\n' + traceback.format_exc()[-800:])


def _correspondence(ctx):
    F = _F()
    a, b = _wgs()
    rng = ctx.rng
    n = ctx.n(70, 700)
    pts = geo_points(rng, n)
    pts = pts[:: max(1, len(pts) // n)][:n] + [(90.0, 30.0, 1000.0), (-90.0, -120.0, 0.0), (0.0, 0.0, 0.0), (1e-7, 10.0, 1e6), (0.0, 180.0, -1e4), (45.0, -180.0, 0.0)]
    bad = [(90.0000001, 0.0, 0.0), (-91.0, 10.0, 5.0), (10.0, 180.0000001, 0.0), (0.0, -181.0, 1.0), (95.0, 190.0, 0.0)]
    G = lambda p: {'lat': p[0], 'lon': p[1], 'h': p[2]}
    ctx.correspond('C17_geodetic2ecef', [G(p) for p in pts + bad], lambda c: F.geodetic2ecef(c['lat'], c['lon'], c['h']))
    ells = [e for e in ELLIPSOIDS if e] + [(a, b)]
    ctx.correspond('C17_geodetic2ecef_ab', [{**G(p), 'a': ells[i % len(ells)][0], 'b': ells[i % len(ells)][1]} for i, p in enumerate(pts + bad)],
                   lambda c: F.geodetic2ecef(c['lat'], c['lon'], c['h'], c['a'], c['b']))
    def X(p, e=None):
        # ECEF position through the implementation; on an exception (a defect the search oracle will report with a
        # concrete input) fall back to the reference formula so that the run reaches the search
        r = _call(F.geodetic2ecef, *p, *(e or ()))
        v = r[1] if r[0] == 'val' else ref_geodetic2ecef(*p, *(e or (a, b)))
        return dict(zip('xyz', [float(t) for t in np.asarray(v, float).reshape(-1)[:3]]))
    # tolerance: identical binary64 operations on both sides; 64 ulp-units of 7e6 is 1e-7 in every component
    ctx.correspond('C17_ecef2geodetic_u', [X(p) for p in pts], lambda c: F.ecef2geodetic(c['x'], c['y'], c['z']))
    ctx.correspond('C17_ecef2lla_u', [X(p) for p in pts[::3]], lambda c: F.ecef2lla(c['x'], c['y'], c['z']))
    ctx.correspond('C17_ecef2geodetic_ab_u', [{**X(p, ells[i % len(ells)]), 'a': ells[i % len(ells)][0], 'b': ells[i % len(ells)][1]} for i, p in enumerate(pts)],
                   lambda c: F.ecef2geodetic(c['x'], c['y'], c['z'], c['a'], c['b']))
    offs = offsets(rng, len(pts))
    cases = []
    for p, d in zip(pts + bad, offs + offs[:len(bad)]):
        x0 = ref_geodetic2ecef(p[0], p[1], p[2], a, b)
        cases.append({**dict(zip('xyz', (x0 + np.array(d)).tolist())), **G(p)})
    ctx.correspond('C17_ecef2enu', cases, lambda c: F.ecef2enu(c['x'], c['y'], c['z'], c['lat'], c['lon'], c['h']))
    ctx.correspond('C17_enu2ecef', [{'e': d[0], 'n': d[1], 'u': d[2], **G(p)} for p, d in zip(pts + bad, offs + offs[:len(bad)])],
                   lambda c: F.enu2ecef(c['e'], c['n'], c['u'], c['lat'], c['lon'], c['h']))
    ctx.correspond('C17_ecef2enuv', [{**{k: c[k] for k in 'xyz'}, 'x0': c['x'] - d[0], 'y0': c['y'] - d[1], 'z0': c['z'] - d[2], 'lat': c['lat'] * 1.7, 'lon': c['lon'] * 1.3}
                                     for c, d in zip(cases, offs + offs)],
                   lambda c: F.ecef2enuv(c['x'], c['y'], c['z'], c['x0'], c['y0'], c['z0'], c['lat'], c['lon']))
    uv = [{'e': d[0], 'n': d[1], 'u': d[2], 'lat': p[0] * 2.1, 'lon': p[1] * 1.9} for p, d in zip(pts, offs)]
    ctx.correspond('C17_enu2uvw', uv, lambda c: F.enu2uvw(c['e'], c['n'], c['u'], c['lat'], c['lon']))
    ctx.correspond('C17_enu2uvw_rad', [{**c, 'lat': math.radians(c['lat']), 'lon': math.radians(c['lon'])} for c in uv],
                   lambda c: F.enu2uvw(c['e'], c['n'], c['u'], c['lat'], c['lon'], 'rad'))
    ctx.correspond('C17_geodetic2enu', [{**G(p), 'lat0': q[0], 'lon0': q[1], 'h0': q[2]} for p, q in zip(pts + bad, pts[5:] + pts[:5] + bad)][:ctx.n(40, 300)],
                   lambda c: F.geodetic2enu(c['lat'], c['lon'], c['h'], c['lat0'], c['lon0'], c['h0']))
    en = enu_points(rng, ctx.n(40, 300))
    V3 = lambda v: dict(zip('xyz', v))
    ctx.correspond('C17_ned2enu', [V3(v) for v in en], lambda c: F.ned2enu(np.array([c['x'], c['y'], c['z']])))
    ctx.correspond('C17_enu2ned', [V3(v) for v in en], lambda c: F.enu2ned(np.array([c['x'], c['y'], c['z']])))
    for nrows, suffix in ((2, 'rows'), (3, 'rows3'), (4, 'rows4')):
        names = ['x', 'y', 'z', 'x0', 'y0', 'z0'] if nrows == 2 else ROWS(nrows)
        rc = []
        for i in range(0, len(en) - nrows, nrows):
            rc.append(dict(zip(names, [float(t) for v in en[i:i + nrows] for t in v])))
        mat = lambda c, names=names, nrows=nrows: np.array([c[k] for k in names]).reshape(nrows, 3)
        ctx.correspond(f'C17_ned2enu_{suffix}', rc, lambda c, mat=mat: F.ned2enu(mat(c)))
        ctx.correspond(f'C17_enu2ned_{suffix}', rc, lambda c, mat=mat: F.enu2ned(mat(c)))
    E3 = lambda v: {'e': v[0], 'n': v[1], 'u': v[2]}
    ctx.correspond('C17_enu2aer', [E3(v) for v in en], lambda c: F.enu2aer(c['e'], c['n'], c['u']), tol_ulp=256)
    ctx.correspond('C17_enu2aer_rad', [E3(v) for v in en], lambda c: F.enu2aer(c['e'], c['n'], c['u'], deg=False), tol_ulp=256)
    aers = [{'az': AZ_EDGE[i % len(AZ_EDGE)] if i < 2 * len(AZ_EDGE) else float(rng.uniform(-400, 800)),
             'el': float(rng.uniform(-90, 90)) if i % 5 else [90.0, -90.0, 0.0][i % 3], 'r': float(10 ** rng.uniform(-3, 6))} for i in range(len(en))]
    ctx.correspond('C17_aer2enu', aers, lambda c: F.aer2enu(c['az'], c['el'], c['r']))
    ctx.correspond('C17_aer2enu_rad', [{**c, 'az': math.radians(c['az']), 'el': math.radians(c['el'])} for c in aers],
                   lambda c: F.aer2enu(c['az'], c['el'], c['r'], deg=False))
    dc = [{**E3(v), 'ang': ANG_EDGE[i % len(ANG_EDGE)] if i < 2 * len(ANG_EDGE) else float(rng.uniform(-720, 720))} for i, v in enumerate(en)]
    D3 = lambda c: {'d': c['e'], 'c': c['n'], 'k': c['u'], 'ang': c['ang']}
    ctx.correspond('C17_enu2dca', dc, lambda c: F.enu2dca(c['e'], c['n'], c['u'], c['ang']))
    ctx.correspond('C17_dca2enu', [D3(c) for c in dc], lambda c: F.dca2enu(c['d'], c['c'], c['k'], c['ang']))
    ctx.correspond('C17_enu2dca_rad', [{**c, 'ang': math.radians(c['ang'])} for c in dc], lambda c: F.enu2dca(c['e'], c['n'], c['u'], c['ang'], deg=False))
    ctx.correspond('C17_dca2enu_rad', [{**D3(c), 'ang': math.radians(c['ang'])} for c in dc], lambda c: F.dca2enu(c['d'], c['c'], c['k'], c['ang'], deg=False))
    ll = [{'lat': math.radians(p[0]) * 2, 'lon': math.radians(p[1])} for p in pts[:ctx.n(40, 300)]]
    ctx.correspond('C17_llf2ecef', ll, lambda c: F.llf2ecef(c['lat'], c['lon']))
    ctx.correspond('C17_ecef2llf', ll, lambda c: F.ecef2llf(c['lat'], c['lon']))


# ---------------------------------------------------------------- search
def search(ctx, scale):
    rng = ctx.rng
    rk = lambda *v: tuple(np.round(np.array(v, float).ravel(), 9).tolist())
    # 1. geodetic round trip: the full cross product of the thin regions, then draws; both entry points; other ellipsoids;
    #    integer-typed and numpy-scalar arguments where the values are integers
    pts = geo_points(rng, 1600 + 900 * scale, full=True)
    for i, (lat, lon, h) in enumerate(pts):
        inp = {'lat': lat, 'lon': lon, 'h': h, 'entry': 'ecef2lla' if i % 4 == 3 else 'ecef2geodetic'}
        if i % 9 == 4:
            inp['ell'] = list(ELLIPSOIDS[1 + (i // 9) % 4])
        if float(lat).is_integer() and float(lon).is_integer() and float(h).is_integer():
            inp['form'] = ('int', 'npint', 'np64', 'float')[i % 4]
        ctx.check('geodetic', inp, cm_call(o_geodetic, inp, 'geodetic'), nontrivial_key=rk(lat, lon, h) + (inp['entry'], inp.get('form', '')))
    # 2. ECEF <-> ENU about every kind of origin
    offs = offsets(rng, 300 * scale)
    org = geo_points(rng, 300 * scale)
    step = max(1, len(org) // (300 * scale))
    org = org[::step]
    for i, d in enumerate(offs):
        lat, lon, h = org[i % len(org)]
        d2 = offs[(7 * i + 3) % len(offs)]
        inp = {'lat': lat, 'lon': lon, 'h': h, 'd': d, 'd2': d2}
        if i % 3 == 0:
            inp['other'] = list(org[(5 * i + 1) % len(org)])
        if float(lat).is_integer() and float(lon).is_integer() and float(h).is_integer() and i % 2:
            inp['form'] = 'int'
        ctx.check('enu', inp, cm_call(o_enu, inp, 'enu'), nontrivial_key=rk(lat, lon, h, *d) if any(d) else None)
    # 3. AER
    for i, v in enumerate(enu_points(rng, 200 * scale)):
        for deg in (True, False):
            inp = {'enu': v, 'deg': deg}
            if all(float(t).is_integer() for t in v) and i % 2:
                inp['form'] = 'int'
            ctx.check('aer', inp, cm_call(o_aer, inp, 'aer'), nontrivial_key=rk(*v) + (deg,) if any(v) else None)
    for v in thin_enu_points(rng, 160 + 120 * scale):
        for deg in (True, False):
            inp = {'enu': v, 'deg': deg}
            ctx.check('aer', inp, cm_call(o_aer, inp, 'aer'), nontrivial_key=rk(*v) + (deg, 'thin'))
    for i in range(40 * scale):     # AER chart almost at the vertical and at the azimuth wrap
        az = [0.0, 1e-9, 359.999999999, 180.0, 90.0, 270.0, 123.4][i % 7] if i < 14 else float(rng.uniform(0, 360))
        el = (90.0 - 10 ** rng.uniform(-6, 0)) * (1 if i % 2 else -1)
        r = float(10 ** rng.uniform(0, 6))
        for deg in (True, False):
            inp = {'aer': [az, el, r] if deg else [math.radians(az), math.radians(el), r], 'deg': deg}
            ctx.check('aer', inp, cm_call(o_aer, inp, 'aer'), nontrivial_key=rk(az, el, r) + (deg, 'chart-vertical'))
    for i in range(150 * scale):
        az = AZ_EDGE[i % len(AZ_EDGE)] if i < 3 * len(AZ_EDGE) else float(rng.uniform(0, 360))
        el = [0.0, 35.0, -35.0, 88.9, -88.9, 4.1931][i % 6] if i < 3 * len(AZ_EDGE) else float(rng.uniform(-88.9, 88.9))
        r = [1.0, 15.107, 1e6, 1e-3][i % 4] if i < 3 * len(AZ_EDGE) else float(10 ** rng.uniform(-3, 6))
        for deg in (True, False):
            inp = {'aer': [az, el, r] if deg else [math.radians(az), math.radians(el), r], 'deg': deg}
            ctx.check('aer', inp, cm_call(o_aer, inp, 'aer'), nontrivial_key=rk(az, el, r) + (deg, 'chart'))
    # 4. DCA
    vs = enu_points(rng, 150 * scale)
    for i, v in enumerate(vs):
        ang = ANG_EDGE[i % len(ANG_EDGE)] if i < 3 * len(ANG_EDGE) else float(rng.uniform(-720, 720))
        for deg in (True, False):
            inp = {'v': v, 'ang': ang if deg else math.radians(ang), 'deg': deg}
            if deg and all(float(t).is_integer() for t in v) and float(ang).is_integer():
                inp['form'] = 'int'
            ctx.check('dca', inp, cm_call(o_dca, inp, 'dca'), nontrivial_key=rk(*v, ang) + (deg,) if any(v) else None)
    # 5. NED <-> ENU: vectors and (N,3) arrays of every small N, float / int / list / float32 operands
    ints = [[1, 2, 3], [-4, 5, -6], [7, 0, 9], [0, -1, 0], [10, 20, 30], [3, 1, 2], [-7, -8, -9]]
    for N in (0, 1, 2, 3, 4, 5, 7):
        for form in ('float', 'int', 'list', 'f32'):
            x = ints[0] if N == 0 else ints[:N]
            inp = {'x': x, 'form': form}
            ctx.check('ned', inp, cm_call(o_ned, inp, 'ned'), nontrivial_key=(N, form))
        for t in range(3 * scale):
            x = (rng.standard_normal(3) * 10 ** rng.uniform(-3, 6)).tolist() if N == 0 else (rng.standard_normal((N, 3)) * 10 ** rng.uniform(-3, 6)).tolist()
            inp = {'x': x, 'form': 'float'}
            ctx.check('ned', inp, cm_call(o_ned, inp, 'ned'), nontrivial_key=(N, 'float', t))
    # 6. LLF matrices, all angles (radians; any real)
    for i in range(60 * scale):
        lat = [0.0, math.pi / 2, -math.pi / 2, math.pi, 1.0, -2.5][i % 6] if i < 12 else float(rng.uniform(-7, 7))
        lon = [0.0, math.pi, -math.pi / 2, 0.3, -3.0][i % 5] if i < 12 else float(rng.uniform(-7, 7))
        inp = {'lat': lat, 'lon': lon}
        if float(lat).is_integer() and float(lon).is_integer():
            inp['form'] = 'int'
        ctx.check('llf', inp, cm_call(o_llf, inp, 'llf'), nontrivial_key=rk(lat, lon))
    ctx.samples.append({'kind': 'search', 'oracle': 'geodetic', 'input': {'lat': 90.0, 'lon': 30.0, 'h': 1000.0}})
    ctx.samples.append({'kind': 'search', 'oracle': 'geodetic', 'input': {'lat': 0.0, 'lon': 45.0, 'h': 100.0}})
