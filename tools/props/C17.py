"""C17 — coordinate-frame transformations are mutually inverse rigid maps (ahrs/common/frames.py)."""
import math
import numpy as np
from pysym.gen import Target
from . import common as cm

PID = 'C17'
UNROLL = 6          # iterations of the ecef2geodetic loop that the regenerated target keeps (measured maximum on the domain: 5)


class UnrollBudget(KeyError):
    """raised inside the traced copy when the `while` of ecef2geodetic would start iteration UNROLL+1"""


def _unrolled_ecef2geodetic(A, v, names, K=UNROLL, entry='ecef2geodetic'):
    """Trace the PUBLIC ecef2geodetic; its tolerance-terminated `while` forks the explorer once per iteration, so the
    first (always-true) path would never end.  While this target runs, the module-level name `np` of the traced copy of
    frames.py is a delegating wrapper that raises KeyError as soon as an np.* function is called after more than K
    loop decisions on the current path: the tree then has the K+1 exits `0..K iterations` and one `Raise KeyError` leaf."""
    from pysym import sym
    F = A.common.frames
    real = F.np

    class Cut:
        def __getattr__(self, k):
            f = getattr(real, k)
            if not callable(f) or isinstance(f, type):
                return f

            def g(*a, **kw):
                if sym.CTX.active and len(sym.CTX.trace) > K:
                    raise UnrollBudget(f'more than {K} iterations')
                return f(*a, **kw)
            return g
    F.np = Cut()
    try:
        return getattr(F, entry)(*[v[n] for n in names])
    finally:
        F.np = real


def targets():
    Fm = lambda A: A.common.frames
    mk = lambda n, i, f, doc='', **k: Target(f'C17_{n}', i, f, doc=doc, **k)
    G = ['lat', 'lon', 'h']
    X = ['x', 'y', 'z']
    X0 = ['x0', 'y0', 'z0']
    ENU = ['e', 'n', 'u']
    return [
        mk('geodetic2ecef', G, lambda A, v: Fm(A).geodetic2ecef(v.lat, v.lon, v.h), 'WGS84 defaults; raises outside |lat|<=90, |lon|<=180'),
        mk('geodetic2ecef_ab', G + ['a', 'b'], lambda A, v: Fm(A).geodetic2ecef(v.lat, v.lon, v.h, v.a, v.b), 'any ellipsoid'),
        mk('ecef2geodetic_u', X, lambda A, v: _unrolled_ecef2geodetic(A, v, X),
           f'public ecef2geodetic, loop cut after {UNROLL} iterations (Raise KeyError leaf = budget)'),
        mk('ecef2lla_u', X, lambda A, v: _unrolled_ecef2geodetic(A, v, X, entry='ecef2lla'), 'synonym ecef2lla, same cut'),
        mk('ecef2geodetic_ab_u', X + ['a', 'b'], lambda A, v: _unrolled_ecef2geodetic(A, v, X + ['a', 'b']),
           'any ellipsoid (a, b symbolic), same cut'),
        mk('ecef2enuv', X + X0 + ['lat', 'lon'], lambda A, v: Fm(A).ecef2enuv(v.x, v.y, v.z, v.x0, v.y0, v.z0, v.lat, v.lon)),
        mk('ecef2enu', X + G, lambda A, v: Fm(A).ecef2enu(v.x, v.y, v.z, v.lat, v.lon, v.h)),
        mk('enu2uvw', ENU + ['lat', 'lon'], lambda A, v: Fm(A).enu2uvw(v.e, v.n, v.u, v.lat, v.lon), "angle_unit='deg' (default)"),
        mk('enu2uvw_rad', ENU + ['lat', 'lon'], lambda A, v: Fm(A).enu2uvw(v.e, v.n, v.u, v.lat, v.lon, 'rad')),
        mk('enu2ecef', ENU + G, lambda A, v: Fm(A).enu2ecef(v.e, v.n, v.u, v.lat, v.lon, v.h)),
        mk('geodetic2enu', G + ['lat0', 'lon0', 'h0'], lambda A, v: Fm(A).geodetic2enu(v.lat, v.lon, v.h, v.lat0, v.lon0, v.h0)),
        mk('ned2enu', X, lambda A, v: Fm(A).ned2enu(v.vec(*X))),
        mk('enu2ned', X, lambda A, v: Fm(A).enu2ned(v.vec(*X))),
        mk('ned2enu_rows', X + X0, lambda A, v: Fm(A).ned2enu(v.mat([X, X0])), '(2,3) array: row-wise'),
        mk('enu2ned_rows', X + X0, lambda A, v: Fm(A).enu2ned(v.mat([X, X0])), '(2,3) array: row-wise'),
        mk('aer2enu', ['az', 'el', 'r'], lambda A, v: Fm(A).aer2enu(v.az, v.el, v.r)),
        mk('aer2enu_rad', ['az', 'el', 'r'], lambda A, v: Fm(A).aer2enu(v.az, v.el, v.r, deg=False)),
        mk('enu2aer', ENU, lambda A, v: Fm(A).enu2aer(v.e, v.n, v.u)),
        mk('enu2aer_rad', ENU, lambda A, v: Fm(A).enu2aer(v.e, v.n, v.u, deg=False)),
        mk('enu2dca', ENU + ['ang'], lambda A, v: Fm(A).enu2dca(v.e, v.n, v.u, v.ang)),
        mk('dca2enu', ['d', 'c', 'k', 'ang'], lambda A, v: Fm(A).dca2enu(v.d, v.c, v.k, v.ang)),
        mk('enu2dca_rad', ENU + ['ang'], lambda A, v: Fm(A).enu2dca(v.e, v.n, v.u, v.ang, deg=False)),
        mk('dca2enu_rad', ['d', 'c', 'k', 'ang'], lambda A, v: Fm(A).dca2enu(v.d, v.c, v.k, v.ang, deg=False)),
        mk('llf2ecef', ['lat', 'lon'], lambda A, v: Fm(A).llf2ecef(v.lat, v.lon)),
        mk('ecef2llf', ['lat', 'lon'], lambda A, v: Fm(A).ecef2llf(v.lat, v.lon)),
    ]


STAGES = []
