"""C10 — attitude representations round-trip (Euler, axis-angle, log/exp, powers)."""
import builtins, itertools, math, os, sys
import numpy as np
from pysym.gen import Target
from pysym.sym import S
from . import common as cm

PID = 'C10'
RPY = ['r', 'p', 'y']
AX = ['ax', 'ay', 'az']
Q = ['w', 'x', 'y', 'z']
T3 = ['t0', 't1', 't2']

LEVEL_TEXT = ("Coq theorems over the regenerated conversions: rpy round trip (all quadrants, |pitch| < pi/2), axis-angle round trips through "
              "quaternions and matrices (0 < theta < pi), exp(log q) = q, power laws, Euler sequences as ordered products in SO(3), "
              "matrix logarithm skew with Frobenius norm sqrt(2) theta; needs the four C10 fixes")
LEVEL_NOTE = "theorems are over exact reals; the float gap is measured by correspondence and the search oracle"
TECHNIQUE = "regenerated model (pysym) + Coq proofs (Atan2 library) + vm_compute correspondence + numeric search"
RULE = ("angle triples in (-pi, pi] with |pitch| < pi/2 - 1e-6 (edge set: 0, +-pi, pitch within 1e-6..1e-3 of +-pi/2, tiny angles 1e-12..1e-3); "
        "axes axis-aligned, oblique and random with norms 1e-3..1e3; rotation angles in [0, pi) incl. 0, 1e-12..1e-3 and pi - 1e-3; exponents in "
        "[-3, 3] incl. 0, 1, -1; all 39 axis sequences of length 1-3; non-trivial = the rotation is not the identity")
TRUSTED = ["Coq 8.16.1 kernel; vm_compute for the float copies", "pysym tracing translator, with float()/isinstance(., float) of a symbolic "
           "scalar modelled as the identity / True inside ahrs.common.dcm (shim in tools/props/C10.py, validated by correspondence)",
           "stdlib real-number axioms", "real arithmetic stands for binary64 (measured by correspondence and search)"]
PARTIAL = ("exact-real theorems; quaternion logarithm's arccos loses up to 1.5e-8 absolute for rotations below 1e-4 rad (explored, tolerated); "
           "DCM(rpy=) names the angles in the opposite order to Quaternion(rpy=) (known finding); Coq proofs cover a representative set of axis "
           "sequences, all 39 are covered by correspondence and search")

ALL_SEQS = [''.join(s) for n in (1, 2, 3) for s in itertools.product('xyz', repeat=n)]
QUICK_SEQS = ['x', 'y', 'z', 'zx', 'xy', 'yy', 'zyx', 'xyz', 'zxz', 'yxy']


def _thorough():
    a = sys.argv
    return ('--tier' in a and a[a.index('--tier') + 1:a.index('--tier') + 2] == ['thorough']) or \
        (os.environ.get('VERIF_TIER') == 'thorough' and '--tier' not in a)


# ---- float()/isinstance(x, float) of a symbolic scalar: a symbol stands for a Python float ---------------
class _FloatMeta(type):
    def __instancecheck__(cls, inst):
        return isinstance(inst, (builtins.float, S))


class _Float(builtins.float, metaclass=_FloatMeta):
    def __new__(cls, x=0.0):
        return x if isinstance(x, S) else builtins.float(x)


def _shim(A):
    A.common.dcm.float = _Float


def _seqs():
    return ALL_SEQS if _thorough() else QUICK_SEQS


def targets():
    O = lambda A: A.common.orientation
    D = lambda A: A.common.dcm

    def mk(n, i, f, doc=''):
        def g(A, v):
            _shim(A)
            return f(A, v)
        return Target(f'C10_{n}', i, g, doc=doc)
    ang = lambda v, k: [v[f't{j}'] for j in range(k)]
    ts = [
        mk('rpy_Q', RPY, lambda A, v: A.Quaternion(rpy=v.vec(*RPY)).to_angles(), 'Quaternion(rpy=a).to_angles()'),
        mk('rpy_QA', RPY, lambda A, v: A.QuaternionArray(rpy=v.mat([RPY])).to_angles()[0], 'QuaternionArray(rpy=[a]).to_angles()[0]'),
        mk('rpy_O', RPY, lambda A, v: O(A).q2rpy(O(A).rpy2q(v.vec(*RPY))), 'q2rpy(rpy2q(a))'),
        mk('rpy_q', RPY, lambda A, v: A.Quaternion(rpy=v.vec(*RPY)), 'Quaternion(rpy=a) as an array'),
        mk('axq_Q', AX + ['th'], lambda A, v: A.Quaternion(O(A).axang2quat(v.vec(*AX), v.th)).to_axang(),
           'Quaternion(axang2quat(axis, th)).to_axang()'),
        mk('axq_O', AX + ['th'], lambda A, v: O(A).quat2axang(O(A).axang2quat(v.vec(*AX), v.th)), 'quat2axang(axang2quat(axis, th))'),
        mk('qax_Q', Q, lambda A, v: O(A).axang2quat(*A.Quaternion(v.vec(*Q)).to_axang()), 'axang2quat applied to Quaternion(q).to_axang()'),
        mk('from_axang', AX + ['th'], lambda A, v: A.DCM().from_axisangle(v.vec(*AX), v.th), 'DCM().from_axisangle(axis, th)'),
        mk('axR', AX + ['th'], lambda A, v: A.DCM(axang=(v.vec(*AX), v.th)).to_axisangle(), 'DCM(axang=(axis, th)).to_axisangle()'),
        mk('log_q', Q, lambda A, v: A.Quaternion(v.vec(*Q)).logarithm, 'Quaternion(q).logarithm'),
        mk('explog', Q, lambda A, v: A.Quaternion(A.Quaternion(v.vec(*Q)).logarithm, versor=False).exponential,
           'Quaternion(Quaternion(q).logarithm, versor=False).exponential'),
        mk('explog_syn', Q, lambda A, v: A.Quaternion(A.Quaternion(v.vec(*Q)).log, versor=False).exp, 'same through .log / .exp'),
        mk('pow', Q + ['a'], lambda A, v: A.Quaternion(v.vec(*Q)) ** v.a, 'Quaternion(q) ** a'),
        mk('DCM_log_axang', AX + ['th'], lambda A, v: A.DCM(axang=(v.vec(*AX), v.th)).log, 'DCM(axang=(axis, th)).log'),
        mk('DCM_euler_zyx', T3, lambda A, v: A.DCM(euler=('zyx', ang(v, 3))), "DCM(euler=('zyx', angles))"),
        mk('DCM_euler_zxz', T3, lambda A, v: A.DCM(euler=('zxz', ang(v, 3))), "DCM(euler=('zxz', angles))"),
        mk('DCM_xyz', T3, lambda A, v: A.DCM(x=v.t0, y=v.t1, z=v.t2), 'DCM(x=t0, y=t1, z=t2)'),
        mk('DCM_rpy', T3, lambda A, v: A.DCM(rpy=ang(v, 3)), 'DCM(rpy=[t0,t1,t2])'),
    ]
    # object state: [result, np.asarray(q) after the call, q.A after the call] of a NON-normalised quaternion object
    def st(call):
        def f(A, v):
            q = A.Quaternion(v.vec(*Q), versor=False)
            r = call(q, v)
            return [r, np.asarray(q), q.A]
        return f
    ts += [
        mk('state_exp', Q, st(lambda q, v: q.exponential), '[q.exponential, asarray(q), q.A], versor=False'),
        mk('state_exp_syn', Q, st(lambda q, v: q.exp), '[q.exp, asarray(q), q.A], versor=False'),
        mk('state_log', Q, st(lambda q, v: q.logarithm), '[q.logarithm, asarray(q), q.A], versor=False'),
        mk('state_axang', Q, st(lambda q, v: q.to_axang()), '[q.to_axang(), asarray(q), q.A], versor=False'),
        mk('state_angles', Q, st(lambda q, v: q.to_angles()), '[q.to_angles(), asarray(q), q.A], versor=False'),
        mk('state_pow', Q + ['a'], st(lambda q, v: q ** v.a), '[q ** a, asarray(q), q.A], versor=False'),
        mk('pow_int_m1', Q, lambda A, v: A.Quaternion(v.vec(*Q)) ** -1, 'Quaternion(q) ** -1 with the exponent a Python int'),
        mk('pow_int_2', Q, lambda A, v: A.Quaternion(v.vec(*Q)) ** 2, 'Quaternion(q) ** 2 with the exponent a Python int'),
    ]
    # unit flags: the non-default flag on its own units (twins of the default-flag targets)
    ts += [
        mk('rotation_deg_y', ['t0'], lambda A, v: D(A).rotation('y', v.t0, degrees=True), "rotation('y', t0, degrees=True)"),
        mk('rot_seq_deg_zyx', T3, lambda A, v: D(A).rot_seq('zyx', ang(v, 3), degrees=True), "rot_seq('zyx', angles, degrees=True)"),
        mk('rot_seq_deg_xz', T3[:2], lambda A, v: D(A).rot_seq('xz', ang(v, 2), degrees=True), "rot_seq('xz', angles, degrees=True)"),
        mk('rot_seq_xz', T3[:2], lambda A, v: D(A).rot_seq('xz', ang(v, 2)), "rot_seq('xz', angles)"),
        mk('DCM_xyz_deg', T3, lambda A, v: A.DCM(x=v.t0, y=v.t1, z=v.t2, degrees=True), 'DCM(x=t0, y=t1, z=t2, degrees=True)'),
        mk('rpy2q', RPY, lambda A, v: O(A).rpy2q(v.vec(*RPY)), 'rpy2q(a)'),
        mk('rpy2q_deg', RPY, lambda A, v: O(A).rpy2q(v.vec(*RPY), in_deg=True), 'rpy2q(a, in_deg=True)'),
        mk('q2rpy', Q, lambda A, v: O(A).q2rpy(v.vec(*Q)), 'q2rpy(q)'),
        mk('q2rpy_deg', Q, lambda A, v: O(A).q2rpy(v.vec(*Q), in_deg=True), 'q2rpy(q, in_deg=True)'),
        mk('axang2quat', AX + ['th'], lambda A, v: O(A).axang2quat(v.vec(*AX), v.th), 'axang2quat(axis, th)'),
        mk('axang2quat_deg', AX + ['th'], lambda A, v: O(A).axang2quat(v.vec(*AX), v.th, rad=False), 'axang2quat(axis, th, rad=False)'),
    ]
    for ax in 'xyz':
        ts.append(mk(f'rotation_{ax}', ['t0'], (lambda A, v, ax=ax: D(A).rotation(ax, v.t0)), f"rotation('{ax}', t0)"))
    for s in _seqs():
        if s == 'xz':       # already a target above (explicit, both tiers)
            continue
        ts.append(mk(f'rot_seq_{s}', T3[:len(s)], (lambda A, v, s=s: D(A).rot_seq(s, ang(v, len(s)))), f"rot_seq('{s}', angles)"))
    return ts


STAGES = [['C10_defs.v', 'C10_expdefs.v'],
          ['C10_explog.v', 'C10_state.v', 'C10_seq.v', 'C10_units.v', 'C10_pow.v', 'C10_ctor_rpy.v', 'C10_ctor_euler_zyx.v', 'C10_ctor_xyz.v', 'C10_axang.v',
           'C10_euler.v', 'C10_mlog.v'],
          [('C10_refuted.v', {'finding': 'DCM(rpy)/angle-order-differs-from-Quaternion(rpy)'})],
          ['C10.v']]


# ------------------------------------------------------------------------------------------
# implementation entry points on floats
# ------------------------------------------------------------------------------------------
def _impl():
    import ahrs
    from ahrs.common import orientation as O
    from ahrs.common import dcm as D
    arr = lambda x: np.array(x, dtype=float)
    fl = lambda x: [float(v) for v in x]
    return {
        'rpy_Q': lambda a: ahrs.Quaternion(rpy=arr(a)).to_angles(),
        'rpy_QA': lambda a: ahrs.QuaternionArray(rpy=arr([a])).to_angles()[0],
        'rpy_O': lambda a: O.q2rpy(O.rpy2q(arr(a))),
        'rpy_q': lambda a: np.asarray(ahrs.Quaternion(rpy=arr(a))),
        'axq_Q': lambda ax, th: ahrs.Quaternion(O.axang2quat(arr(ax), float(th))).to_axang(),
        'axq_O': lambda ax, th: O.quat2axang(O.axang2quat(arr(ax), float(th))),
        'qax_Q': lambda q: O.axang2quat(*ahrs.Quaternion(arr(q)).to_axang()),
        'from_axang': lambda ax, th: ahrs.DCM().from_axisangle(arr(ax), float(th)),
        'axR': lambda ax, th: ahrs.DCM(axang=(arr(ax), float(th))).to_axisangle(),
        'log_q': lambda q: ahrs.Quaternion(arr(q)).logarithm,
        'explog': lambda q: ahrs.Quaternion(ahrs.Quaternion(arr(q)).logarithm, versor=False).exponential,
        'explog_syn': lambda q: ahrs.Quaternion(ahrs.Quaternion(arr(q)).log, versor=False).exp,
        'pow': lambda q, a: ahrs.Quaternion(arr(q)) ** float(a),
        'rotation_deg': lambda ax, t: D.rotation(ax, float(t), degrees=True),
        'rot_seq_deg': lambda s, t: D.rot_seq(s, fl(t), degrees=True),
        'DCM_xyz_deg': lambda t: np.asarray(ahrs.DCM(x=float(t[0]), y=float(t[1]), z=float(t[2]), degrees=True)),
        'rpy2q': lambda a: O.rpy2q(arr(a)), 'rpy2q_deg': lambda a: O.rpy2q(arr(a), in_deg=True),
        'cardan2q': lambda a: O.cardan2q(arr(a)), 'cardan2q_deg': lambda a: O.cardan2q(arr(a), in_deg=True),
        'q2rpy': lambda q: O.q2rpy(arr(q)), 'q2rpy_deg': lambda q: O.q2rpy(arr(q), in_deg=True),
        'q2cardan': lambda q: O.q2cardan(arr(q)), 'q2cardan_deg': lambda q: O.q2cardan(arr(q), in_deg=True),
        'axang2quat': lambda ax, th: O.axang2quat(arr(ax), float(th)),
        'axang2quat_deg': lambda ax, th: O.axang2quat(arr(ax), float(th), rad=False),
        'state': lambda q, m, a=None: (lambda o: [(o ** float(a)) if m == 'pow' else (lambda r: r() if callable(r) else r)(getattr(o, m)),
                                                  np.asarray(o), o.A])(ahrs.Quaternion(arr(q), versor=False)),
        'pow_int': lambda q, k: ahrs.Quaternion(arr(q)) ** int(k),
        'DCM_log_axang': lambda ax, th: ahrs.DCM(axang=(arr(ax), float(th))).log,
        'DCM_euler': lambda s, t: np.asarray(ahrs.DCM(euler=(s, fl(t)))),
        'DCM_xyz': lambda t: np.asarray(ahrs.DCM(x=float(t[0]), y=float(t[1]), z=float(t[2]))),
        'DCM_rpy': lambda t: np.asarray(ahrs.DCM(rpy=fl(t))),
        'rotation': lambda ax, t: D.rotation(ax, float(t)),
        'rot_seq': lambda s, t: D.rot_seq(s, fl(t)),
    }


# ------------------------------------------------------------------------------------------
# generators
# ------------------------------------------------------------------------------------------
HP = math.pi / 2


def _angle_triples(rng, n):
    out = [[0.0, 0.0, 0.0], [math.pi, 0.0, 0.0], [0.0, 0.0, math.pi], [math.pi, 0.3, math.pi], [-3.0, -1.0, 3.0],
           [HP, 0.0, HP], [-HP, 0.5, -HP], [1e-9, -1e-9, 1e-12], [3e-7, 2e-7, 1e-7], [2.0, HP - 2e-6, -2.5], [-1.0, -HP + 2e-6, 3.1],
           [0.5, HP - 1e-3, 0.25], [math.pi, -HP + 1e-4, -math.pi + 1e-9], [3.141592, 1.0, -3.141592], [1e-3, 1e-3, 1e-3]]
    while len(out) < n:
        r, y = rng.uniform(-math.pi, math.pi, 2)
        p = rng.uniform(-HP + 1e-6, HP - 1e-6)
        if rng.random() < 0.15:
            p = math.copysign(HP - 10 ** rng.uniform(-5.9, -2), p)
        out.append([float(r), float(p), float(y)])
    return out[:max(n, 15)]


def _axes(rng, n):
    out = [[1.0, 0, 0], [0, 1.0, 0], [0, 0, 1.0], [0, 0, -1.0], [1, 1, 0], [1, 2, 3], [-1, 1, 1], [0, 1e-3, -1e-3], [300.0, -400.0, 1200.0],
           [1.0, 1e-9, 0.0]]
    while len(out) < n:
        out.append((cm.unit(rng.standard_normal(3)) * 10 ** rng.uniform(-3, 3)).tolist())
    return [[float(v) for v in a] for a in out[:max(n, 10)]]


def _rot_angles(rng, n, lo=0.0):
    out = [0.0, 1e-12, 1e-9, 3e-7, 1e-6, 1e-4, 1e-3, 5e-3, 6e-3, 0.1, 1.0, HP, 2.0, 3.0, math.pi - 1e-3]
    out = [a for a in out if a >= lo]
    while len(out) < n:
        out.append(float(rng.uniform(max(lo, 0.0), math.pi - 1e-3)) if rng.random() < 0.8 else float(10 ** rng.uniform(-9, -2)))
    return [a for a in out if a >= lo][:max(n, 8)]


def _seq_angles(rng, k, i):
    edge = [[0.0] * k, [3e-7] * k, [1e-9, -1e-9, 2e-7][:k], [math.pi] * k, [HP, -HP, HP][:k], [0.0, 1.0, 0.0][:k], [1.0, 0.0, 2.0][:k]]
    if i < len(edge):
        return edge[i]
    a = rng.uniform(-math.pi, math.pi, k)
    if rng.random() < 0.2:
        a[rng.integers(k)] = 10 ** rng.uniform(-9, -5)
    return [float(x) for x in a]


# ------------------------------------------------------------------------------------------
# correspondence
# ------------------------------------------------------------------------------------------
def correspondence(ctx):
    I = _impl()
    n = ctx.n(40, 400)
    tri = _angle_triples(ctx.rng, n)
    # out-of-range angles exercise the ValueError paths of from_rpy
    tri_bad = [[7.0, 0.1, 0.2], [0.1, -6.5, 0.2], [0.0, 0.0, 6.3]]
    # the composed map angles -> q -> angles is ill-conditioned near the gimbal: asin and atan2 amplify the ~1 ulp difference
    # between NumPy's norm / ** 2 and the model's sums by 1/cos(pitch) (up to 1e6 in the domain): those cases get an absolute
    # tolerance of 1e-9/cos(pitch) <= 1e-3 * (distance to the gimbal)... i.e. 1e-7 at worst; generic cases keep the ulp rule
    near = lambda a: HP - abs(a[1]) < 1e-2
    for name in ('rpy_Q', 'rpy_QA', 'rpy_O', 'rpy_q'):
        f = I[name]
        extra = tri_bad if name in ('rpy_Q', 'rpy_q') else []
        if name == 'rpy_q':
            ctx.correspond(f'C10_{name}', [cm.d(RPY, a) for a in tri + extra], (lambda c, f=f: f([c[k] for k in RPY])), tol_ulp=4096)
            continue
        ctx.correspond(f'C10_{name}', [cm.d(RPY, a) for a in tri + extra if not near(a)], (lambda c, f=f: f([c[k] for k in RPY])),
                       tol_ulp=4096)
        ctx.correspond(f'C10_{name}', [cm.d(RPY, a) for a in tri if near(a)], (lambda c, f=f: f([c[k] for k in RPY])),
                       tol_ulp=4096, abs_tol=1e-7, label=f'C10_{name}/near-gimbal')
    axs = _axes(ctx.rng, n)
    ths = _rot_angles(ctx.rng, n)
    aa = [{**cm.d(AX, axs[i % len(axs)]), 'th': ths[(3 * i + 1) % len(ths)]} for i in range(max(len(axs), len(ths)))]
    for name in ('axq_Q', 'axq_O', 'from_axang', 'axR', 'DCM_log_axang'):
        ctx.correspond(f'C10_{name}', aa, (lambda c, f=I[name]: f([c[k] for k in AX], c['th'])), tol_ulp=4096, abs_tol=1e-13)
    qs = [q for _, q in cm.quats(ctx.rng, n)]
    qs = [q * (1.0 if i % 3 else 10 ** ctx.rng.uniform(-2, 2)) for i, q in enumerate(qs)]
    qc = [cm.d(Q, q) for q in qs]
    # a real q has no axis: axang2quat(zeros, 0) is 0/0 (NaN in NumPy, ZeroDivisionError on exact constants) - outside the property
    ctx.correspond('C10_qax_Q', [c for c in qc if (c['x'], c['y'], c['z']) != (0.0, 0.0, 0.0)], lambda c: I['qax_Q']([c[k] for k in Q]),
                   tol_ulp=4096, abs_tol=1e-13)
    for name in ('log_q', 'explog', 'explog_syn'):
        ctx.correspond(f'C10_{name}', qc, (lambda c, f=I[name]: f([c[k] for k in Q])), tol_ulp=4096, abs_tol=1e-13)
    exps = [0.0, 1.0, -1.0, 2.0, 0.5, -3.0, 3.0]
    pc = [{**qc[i], 'a': exps[i] if i < len(exps) else float(ctx.rng.uniform(-3, 3))} for i in range(len(qc))]
    ctx.correspond('C10_pow', pc, lambda c: I['pow']([c[k] for k in Q], c['a']), tol_ulp=4096, abs_tol=1e-13)
    for tname, meth in (('state_exp', 'exponential'), ('state_exp_syn', 'exp'), ('state_log', 'logarithm'), ('state_axang', 'to_axang'),
                        ('state_angles', 'to_angles')):
        ctx.correspond(f'C10_{tname}', qc, (lambda c, meth=meth: I['state']([c[k] for k in Q], meth)), tol_ulp=4096, abs_tol=1e-13)
    ctx.correspond('C10_state_pow', pc, lambda c: I['state']([c[k] for k in Q], 'pow', c['a']), tol_ulp=4096, abs_tol=1e-13)
    ctx.correspond('C10_pow_int_m1', qc, lambda c: I['pow_int']([c[k] for k in Q], -1), tol_ulp=4096, abs_tol=1e-13)
    ctx.correspond('C10_pow_int_2', qc, lambda c: I['pow_int']([c[k] for k in Q], 2), tol_ulp=4096, abs_tol=1e-13)
    # unit-flag twins (inputs of the *_deg targets are degrees)
    deg = lambda a: [float(np.degrees(x)) for x in a]
    ctx.correspond('C10_rpy2q', [cm.d(RPY, a) for a in tri], lambda c: I['rpy2q']([c[k] for k in RPY]), tol_ulp=256)
    ctx.correspond('C10_rpy2q_deg', [cm.d(RPY, deg(a)) for a in tri], lambda c: I['rpy2q_deg']([c[k] for k in RPY]), tol_ulp=256)
    unitq = [cm.d(Q, q / np.linalg.norm(q)) for q in qs]
    ctx.correspond('C10_q2rpy', unitq, lambda c: I['q2rpy']([c[k] for k in Q]), tol_ulp=256)
    ctx.correspond('C10_q2rpy_deg', unitq, lambda c: I['q2rpy_deg']([c[k] for k in Q]), tol_ulp=256)
    ctx.correspond('C10_axang2quat', aa, lambda c: I['axang2quat']([c[k] for k in AX], c['th']), tol_ulp=256)
    ctx.correspond('C10_axang2quat_deg', [{**c, 'th': float(np.degrees(c['th']))} for c in aa],
                   lambda c: I['axang2quat_deg']([c[k] for k in AX], c['th']), tol_ulp=256)
    md = ctx.n(15, 80)
    t3d = [cm.d(T3, deg(_seq_angles(ctx.rng, 3, i))) for i in range(md)] + [cm.d(T3, x) for x in ([90.0, 180.0, -90.0], [360.0, 45.0, 720.0], [1e-5, 0.0, 30.0])]
    ctx.correspond('C10_rot_seq_deg_zyx', t3d, lambda c: I['rot_seq_deg']('zyx', [c[k] for k in T3]), tol_ulp=256)
    ctx.correspond('C10_DCM_xyz_deg', t3d, lambda c: I['DCM_xyz_deg']([c[k] for k in T3]), tol_ulp=256)
    ctx.correspond('C10_rot_seq_deg_xz', [{k: c[k] for k in T3[:2]} for c in t3d], lambda c: I['rot_seq_deg']('xz', [c[k] for k in T3[:2]]), tol_ulp=256)
    ctx.correspond('C10_rot_seq_xz', [cm.d(T3[:2], _seq_angles(ctx.rng, 2, i)) for i in range(md)], lambda c: I['rot_seq']('xz', [c[k] for k in T3[:2]]), tol_ulp=256)
    ctx.correspond('C10_rotation_deg_y', [{'t0': a} for a in [0.0, 90.0, -90.0, 180.0, 360.0, 720.0, 1e-5, 33.0, -123.4, 400.0]],
                   lambda c: I['rotation_deg']('y', c['t0']), tol_ulp=256)
    m = ctx.n(25, 120)
    t3 = [cm.d(T3, _seq_angles(ctx.rng, 3, i)) for i in range(m)]
    ctx.correspond('C10_DCM_euler_zyx', t3, lambda c: I['DCM_euler']('zyx', [c[k] for k in T3]), tol_ulp=256)
    ctx.correspond('C10_DCM_euler_zxz', t3, lambda c: I['DCM_euler']('zxz', [c[k] for k in T3]), tol_ulp=256)
    ctx.correspond('C10_DCM_xyz', t3, lambda c: I['DCM_xyz']([c[k] for k in T3]), tol_ulp=256)
    ctx.correspond('C10_DCM_rpy', t3, lambda c: I['DCM_rpy']([c[k] for k in T3]), tol_ulp=256)
    for ax in 'xyz':
        cases = [{'t0': a} for a in [0.0, 3e-7, -3e-7, 1e-9, 2 * math.pi, -2 * math.pi, 4 * math.pi, 360.0, math.pi, 1.0, -2.0, 6.0, 7.0]]
        ctx.correspond(f'C10_rotation_{ax}', cases, (lambda c, ax=ax: I['rotation'](ax, c['t0'])), tol_ulp=256)
    for s in _seqs():
        if s == 'xz':
            continue
        k = len(s)
        cases = [cm.d(T3[:k], _seq_angles(ctx.rng, k, i)) for i in range(ctx.n(12, 40))]
        ctx.correspond(f'C10_rot_seq_{s}', cases, (lambda c, s=s, k=k: I['rot_seq'](s, [c[x] for x in T3[:k]])), tol_ulp=256)


# ------------------------------------------------------------------------------------------
# search oracles
# ------------------------------------------------------------------------------------------
def _wrap(d):
    return (d + math.pi) % (2 * math.pi) - math.pi


def _elem(ax, t):
    c, s = math.cos(t), math.sin(t)
    if ax == 'x':
        return np.array([[1.0, 0, 0], [0, c, -s], [0, s, c]])
    if ax == 'y':
        return np.array([[c, 0, s], [0, 1.0, 0], [-s, 0, c]])
    return np.array([[c, -s, 0], [s, c, 0], [0, 0, 1.0]])


def _skew(u):
    return np.array([[0, -u[2], u[1]], [u[2], 0, -u[0]], [-u[1], u[0], 0.0]])


def _rodrigues(u, t):
    K = _skew(u)
    return np.eye(3) + math.sin(t) * K + (1 - math.cos(t)) * (K @ K)


def o_rpy(inp):
    """angles -> quaternion -> angles returns the angles, |pitch| < pi/2"""
    e, a = inp['entry'], np.array(inp['angles'], float)
    out = np.asarray(_impl()[f'rpy_{e}'](a.copy()), float)
    region = 'near-gimbal' if HP - abs(a[1]) < 1e-3 else 'generic'
    if out.shape != (3,) or cm.bad(out):
        return {'tag': f'rpy_{e}/shape-or-nonfinite', 'observed': out}
    tol = 1e-12 + 1e-13 / math.cos(a[1])
    err = max(abs(_wrap(out[0] - a[0])), abs(out[1] - a[1]), abs(_wrap(out[2] - a[2])))
    if err > tol:
        return {'tag': f'rpy_{e}/roundtrip-{region}', 'observed': out, 'expected': a}
    return None


def o_axq(inp):
    """(axis, angle) -> quaternion -> (axis, angle), 0 <= angle < pi; and quaternion -> axis-angle -> quaternion"""
    e, ax, th = inp['entry'], np.array(inp['axis'], float), float(inp['angle'])
    I = _impl()
    u = ax / np.linalg.norm(ax)
    axis, ang = I[f'axq_{e}'](ax.copy(), th)
    axis, ang = np.asarray(axis, float), float(ang)
    region = 'small-angle' if th < 1e-2 else 'generic'
    if cm.bad(axis) or cm.bad(ang) or abs(ang - th) > 1e-12:
        return {'tag': f'axq_{e}/angle-{region}', 'observed': ang, 'expected': th}
    if th > 0 and cm.maxabs(axis, u) > 1e-9:
        return {'tag': f'axq_{e}/axis-{region}', 'observed': axis, 'expected': u}
    q = cm.axang_q(ax, th)
    if th > 0:
        q2 = np.asarray(I['qax_Q'](q.copy()), float)
        if cm.bad(q2) or cm.maxabs(q2, q) > 1e-12:
            return {'tag': f'qax_Q/roundtrip-{region}', 'observed': q2, 'expected': q}
    return None


def o_axR(inp):
    """(axis, angle) -> matrix -> (axis, angle); the matrix is the Rodrigues rotation, in SO(3), trace 1 + 2 cos"""
    ax, th = np.array(inp['axis'], float), float(inp['angle'])
    I = _impl()
    u = ax / np.linalg.norm(ax)
    region = 'small-angle' if th < 1e-2 else 'generic'
    R = np.asarray(I['from_axang'](ax.copy(), th), float)
    if R.shape != (3, 3) or cm.bad(R) or cm.maxabs(R, _rodrigues(u, th)) > 1e-12:
        return {'tag': f'from_axisangle/not-rodrigues-{region}', 'observed': R, 'expected': _rodrigues(u, th)}
    if cm.maxabs(R @ R.T, np.eye(3)) > 1e-12 or abs(np.linalg.det(R) - 1) > 1e-12:
        return {'tag': 'from_axisangle/not-SO3', 'observed': cm.maxabs(R @ R.T, np.eye(3))}
    axis, ang = I['axR'](ax.copy(), th)
    axis, ang = np.asarray(axis, float), float(ang)
    # the angle is read from sin and cos of entries carrying ~1e-16 absolute error
    if cm.bad(axis) or cm.bad(ang) or abs(ang - th) > 1e-12:
        return {'tag': f'to_axisangle/angle-{region}', 'observed': ang, 'expected': th}
    if th > 0 and cm.maxabs(axis, u) > 1e-9 + 1e-15 / max(th, 1e-300) * (1 if th < 1e-3 else 0):
        return {'tag': f'to_axisangle/axis-{region}', 'observed': axis, 'expected': u}
    return None


def _small(q):
    """rotation angle of the unit quaternion below which arccos(w) has lost digits"""
    return 2 * math.atan2(np.linalg.norm(q[1:]), abs(q[0]))


def o_explog(inp):
    """exp(log q) = q for unit non-real q (through .logarithm/.exponential and .log/.exp)"""
    q = np.array(inp['q'], float)
    q = q / np.linalg.norm(q)
    th = 2 * math.atan2(np.linalg.norm(q[1:]), q[0])
    # arccos(w) loses |v| below ~1e-8 entirely and digits below 1e-4: tolerate sqrt(ulp), see notes/design/C10.md
    tol = 1e-11 if th > 1e-3 and math.pi * 2 - th > 1e-3 else 3e-8
    region = 'generic' if tol < 1e-9 else 'near-real'
    for e in ('explog', 'explog_syn'):
        from vlib.core import call_outcome
        r = call_outcome(_impl()[e], q.copy())
        if r[0] == 'raise':
            if region == 'near-real' and r[1] == 'ValueError' and np.linalg.norm(q[1:]) < 3e-8:
                continue            # log q rounded to the zero quaternion, which cannot be wrapped (explored, tolerated)
            return {'tag': f'{e}/raises-{r[1]}-{region}', 'observed': list(r[1:])}
        out = np.asarray(r[1], float)
        if out.shape != (4,) or cm.bad(out) or cm.maxabs(out, q) > tol:
            return {'tag': f'{e}/not-identity-{region}', 'observed': out, 'expected': q}
    return None


_ETYPES = {'float': float, 'int': int, 'npint': np.int64, 'npfloat': np.float64}


def _exp(v, t):
    """the exponent v given as a Python float / Python int / np.int64 / np.float64 (integer types only for whole numbers)"""
    return _ETYPES[t](v)


def o_pow(inp):
    """q**1 = q, q**0 = 1, q**a q**b = q**(a+b), q**a = (cos(a t), u sin(a t)) with q = (cos t, u sin t); the exponent may be a
    Python float, a Python int or a NumPy integer / float (same value, same result)"""
    import ahrs
    q = np.array(inp['q'], float)
    q = q / np.linalg.norm(q)
    a, b = float(inp['a']), float(inp['b'])
    ta, tb = inp.get('atype', 'float'), inp.get('btype', 'float')
    P = lambda qq, e: np.asarray(ahrs.Quaternion(np.array(qq, dtype=float)) ** e, float)
    nv = np.linalg.norm(q[1:])
    t = math.atan2(nv, q[0])
    tol = (1e-11 if t > 1e-3 and math.pi - t > 1e-3 else 3e-8) * max(1.0, abs(a), abs(b), abs(a + b))
    region = ('generic' if t > 1e-3 and math.pi - t > 1e-3 else 'near-real') + ('-negative-w' if q[0] < 0 else '')
    kind = lambda *ts: 'float-exponent' if all(x in ('float', 'npfloat') for x in ts) else 'integer-type-exponent'
    one = np.array([1.0, 0, 0, 0])
    u = q[1:] / nv
    for tt in ('float', 'int', 'npint'):
        p0, p1, m1 = P(q, _exp(0, tt)), P(q, _exp(1, tt)), P(q, _exp(-1, tt))
        if p0.shape != (4,) or cm.bad(p0) or cm.maxabs(p0, one) > 1e-12:
            return {'tag': f'pow/q**0-not-identity-{kind(tt)}', 'observed': p0, 'expected': one}
        if p1.shape != (4,) or cm.bad(p1) or cm.maxabs(p1, q) > tol:
            return {'tag': f'pow/q**1-not-q-{kind(tt)}-{region}', 'observed': p1, 'expected': q}
        if m1.shape != (4,) or cm.bad(m1) or cm.maxabs(m1, cm.qconj(q)) > tol:
            return {'tag': f'pow/q**-1-not-conjugate-{kind(tt)}-{region}', 'observed': m1, 'expected': cm.qconj(q)}
    ea, eb = _exp(a, ta), _exp(b, tb)
    whole = float(a + b) == int(a + b)
    tab = 'float' if not whole else (ta if ta == tb else 'int' if 'int' in (ta, tb) else ta)
    pa, pb, pab = P(q, ea), P(q, eb), P(q, _exp(a + b, tab))
    for e, pe, te in ((a, pa, ta), (b, pb, tb), (a + b, pab, tab)):
        spec = np.array([math.cos(e * t), *(u * math.sin(e * t))])
        if pe.shape != (4,) or cm.bad(pe) or cm.maxabs(pe, spec) > tol:
            return {'tag': f'pow/not-same-axis-a-times-angle-{kind(te)}-{region}', 'observed': pe, 'expected': spec}
    prod = cm.qmul(pa, pb)
    if cm.maxabs(prod, pab) > 2 * tol:
        return {'tag': f'pow/exponents-do-not-add-{kind(ta, tb, tab)}-{region}', 'observed': prod, 'expected': pab}
    return None


def o_qax(inp):
    """every unit non-real quaternion (either cover: w > 0 or w < 0) -> to_axang / quat2axang -> axang2quat gives it back, and
    (axis, angle) is the rotation of q: Rodrigues(axis, angle) = R(q), angle = 2 atan2(|v|, w) in (0, 2 pi)"""
    import ahrs
    from ahrs.common import orientation as O
    q = np.array(inp['q'], float)
    q = q / np.linalg.norm(q)
    e = inp.get('entry', 'Q')
    cover = 'negative-w' if q[0] < 0 else 'nonnegative-w'
    if e == 'Q':
        axis, ang = ahrs.Quaternion(q.copy()).to_axang()
    else:
        axis, ang = O.quat2axang(q.copy())
    axis, ang = np.asarray(axis, float), float(ang)
    nv = np.linalg.norm(q[1:])
    want = 2 * math.atan2(nv, q[0])
    tol = 1e-11
    if cm.bad(axis) or cm.bad(ang) or abs(ang - want) > tol:
        return {'tag': f'to_axang_{e}/angle-{cover}', 'observed': ang, 'expected': want}
    if cm.maxabs(axis, q[1:] / nv) > 1e-9:
        return {'tag': f'to_axang_{e}/axis-{cover}', 'observed': axis, 'expected': q[1:] / nv}
    if cm.maxabs(_rodrigues(axis, ang), cm.Rspec(q)) > 1e-9:
        return {'tag': f'to_axang_{e}/not-the-rotation-of-q-{cover}', 'observed': _rodrigues(axis, ang), 'expected': cm.Rspec(q)}
    q2 = np.asarray(O.axang2quat(axis.copy(), ang), float)
    if cm.bad(q2) or cm.maxabs(q2, q) > 1e-11:
        return {'tag': f'qax_{e}/roundtrip-{cover}', 'observed': q2, 'expected': q}
    return None


def o_logexp(inp):
    """log(exp(p)) = p for a pure quaternion p = (0, v) with 0 < |v| < pi held in ONE object (compared with the object itself after
    the calls), through both spellings"""
    import ahrs
    v = np.array(inp['v'], float)
    p = ahrs.Quaternion(np.array([0.0, *v]), versor=False)
    for ex, lg in (('exponential', 'logarithm'), ('exp', 'log')):
        e1 = np.asarray(getattr(p, ex), float)
        back = np.asarray(getattr(ahrs.Quaternion(e1, versor=False), lg), float)
        now = np.asarray(p, float)
        tol = 1e-11 if np.linalg.norm(v) > 1e-3 and math.pi - np.linalg.norm(v) > 1e-3 else 3e-8
        if cm.bad(back) or cm.maxabs(back, now) > tol:
            return {'tag': f'{lg}-of-{ex}/not-the-object-it-was-taken-of', 'observed': back, 'expected': now}
        if cm.maxabs(now, np.array([0.0, *v])) > 0:
            return {'tag': f'{ex}/changes-its-object', 'observed': now, 'expected': [0.0, *v]}
    return None


_STATE_METHODS = ['exponential', 'exp', 'logarithm', 'log', 'to_axang', 'to_angles', 'pow', 'conjugate', 'inverse', 'to_DCM']


def o_state(inp):
    """reading a property / calling a method of a Quaternion twice gives identical results and leaves the object's numbers
    (np.asarray(q) and q.A) untouched"""
    import ahrs
    from vlib.core import flat_floats
    q0 = np.array(inp['q'], float)
    m = inp['method']
    q = ahrs.Quaternion(q0.copy(), versor=bool(inp.get('versor', True)))
    before, beforeA = np.array(np.asarray(q), float).copy(), np.array(q.A, float).copy()

    def call():
        if m == 'pow':
            return q ** float(inp.get('a', 0.7))
        r = getattr(q, m)
        return r() if callable(r) else r
    r1 = np.array(flat_floats(call()))
    mid, midA = np.array(np.asarray(q), float).copy(), np.array(q.A, float).copy()
    r2 = np.array(flat_floats(call()))
    kind = 'versor' if inp.get('versor', True) else 'non-versor'
    if not (np.array_equal(mid, before) and np.array_equal(midA, beforeA)):
        return {'tag': f'{m}/changes-its-object-{kind}', 'observed': mid, 'expected': before}
    if r1.shape != r2.shape or not np.array_equal(r1, r2, equal_nan=True):
        return {'tag': f'{m}/second-call-differs-{kind}', 'observed': r2, 'expected': r1}
    return None


def o_seq(inp):
    """a matrix built from an Euler sequence is the ordered product of the elementary rotations and lies in SO(3)"""
    e, s, t = inp['entry'], inp['seq'], [float(x) for x in inp['angles']]
    I = _impl()
    if e == 'rot_seq':
        M = I['rot_seq'](s, t)
    elif e == 'DCM_euler':
        M = I['DCM_euler'](s, t)
    elif e == 'DCM_xyz':
        M, s = I['DCM_xyz'](t), 'xyz'
    elif e == 'DCM_rpy':
        M, s = I['DCM_rpy'](t), 'zyx'
    else:
        M = I['rotation'](s, t[0])
    M = np.asarray(M, float)
    spec = np.eye(3)
    for ax, x in zip(s, t):
        spec = spec @ _elem(ax, x)
    tiny = any(0 < abs(x) < 1e-5 for x in t)
    if M.shape != (3, 3) or cm.bad(M) or cm.maxabs(M, spec) > 1e-12:
        return {'tag': f"{e}/not-ordered-product-{'tiny-angle' if tiny else 'generic'}", 'observed': M, 'expected': spec}
    if cm.maxabs(M @ M.T, np.eye(3)) > 1e-12 or abs(np.linalg.det(M) - 1) > 1e-12:
        return {'tag': f'{e}/not-SO3', 'observed': cm.maxabs(M @ M.T, np.eye(3))}
    return None


def o_mlog(inp):
    """log R is skew-symmetric with Frobenius norm sqrt(2) theta, theta in [0, pi), however small; its axis is the rotation axis"""
    ax, th = np.array(inp['axis'], float), float(inp['angle'])
    u = ax / np.linalg.norm(ax)
    L = np.asarray(_impl()['DCM_log_axang'](ax.copy(), th), float)
    region = 'small-angle' if th < 1e-2 else 'generic'
    if L.shape != (3, 3) or cm.bad(L):
        return {'tag': f'DCM.log/shape-or-nonfinite-{region}', 'observed': L}
    if cm.maxabs(L + L.T) > 1e-15:
        return {'tag': f'DCM.log/not-skew-{region}', 'observed': L}
    nrm = float(np.linalg.norm(L)) / math.sqrt(2)
    # theta is recovered from matrix entries carrying ~1e-16 absolute error
    if abs(nrm - th) > 1e-12:
        return {'tag': f'DCM.log/norm-{region}', 'observed': nrm, 'expected': th}
    v = np.array([L[2, 1], L[0, 2], L[1, 0]])
    if th > 1e-6 and np.linalg.norm(np.cross(v, u)) > 1e-9 * max(th, 1e-3) + 1e-12:
        return {'tag': f'DCM.log/axis-{region}', 'observed': v, 'expected': (th * u)}
    return None


def o_convention(inp):
    """DCM(rpy=a) and Quaternion(rpy=a) describe the same rotation"""
    import ahrs
    a = np.array(inp['angles'], float)
    M = np.asarray(_impl()['DCM_rpy'](a), float)
    Mq = ahrs.Quaternion(rpy=a.copy()).to_DCM()
    if cm.maxabs(M, Mq) > 1e-9:
        return {'tag': 'DCM(rpy)/angle-order-differs-from-Quaternion(rpy)', 'observed': M, 'expected': Mq}
    return None


def o_units(inp):
    """every unit option of the C10 conversions: the call with the non-default flag on angles in degrees equals the default call on
    the same angles in radians (outputs in degrees equal the default outputs converted)"""
    I = _impl()
    e = inp['entry']
    R2D = 180.0 / math.pi
    tag = lambda what: {'tag': f'{e}/degrees-path-differs-from-radians-path', 'observed': what[0], 'expected': what[1]}
    if e in ('rot_seq', 'DCM_xyz', 'rotation'):
        t = [float(x) for x in inp['angles']]
        td = [x * R2D for x in t]
        s = inp.get('seq', 'xyz')
        a, b = {'rot_seq': (lambda: I['rot_seq_deg'](s, td), lambda: I['rot_seq'](s, t)),
                'DCM_xyz': (lambda: I['DCM_xyz_deg'](td), lambda: I['DCM_xyz'](t)),
                'rotation': (lambda: I['rotation_deg'](s, td[0]), lambda: I['rotation'](s, t[0]))}[e]
        A, B = np.asarray(a(), float), np.asarray(b(), float)
        spec = np.eye(3)
        for ax, x in zip(s, t):
            spec = spec @ _elem(ax, x)
        if A.shape != (3, 3) or cm.bad(A) or cm.maxabs(A, B) > 1e-12 or cm.maxabs(A, spec) > 1e-12:
            return tag((A, B))
        return None
    if e in ('rpy2q', 'cardan2q'):
        a = np.array(inp['angles'], float)
        A, B = np.asarray(I[e + '_deg']((a * R2D).copy()), float), np.asarray(I[e](a.copy()), float)
        if A.shape != (4,) or cm.bad(A) or cm.maxabs(A, B) > 1e-12:
            return tag((A, B))
        return None
    if e in ('q2rpy', 'q2cardan'):
        q = np.array(inp['q'], float)
        q = q / np.linalg.norm(q)
        A, B = np.asarray(I[e + '_deg'](q.copy()), float), np.asarray(I[e](q.copy()), float) * R2D
        if A.shape != (3,) or (cm.bad(A) != cm.bad(B)) or (not cm.bad(A) and cm.maxabs(A, B) > 1e-10):
            return tag((A, B))
        return None
    if e == 'axang2quat':
        ax, th = np.array(inp['axis'], float), float(inp['angle'])
        A, B = np.asarray(I['axang2quat_deg'](ax.copy(), th * R2D), float), np.asarray(I['axang2quat'](ax.copy(), th), float)
        if A.shape != (4,) or cm.bad(A) or cm.maxabs(A, B) > 1e-12 or cm.maxabs(A, cm.axang_q(ax, th)) > 1e-12:
            return tag((A, B))
        return None
    return {'tag': f'{e}/unknown-entry'}


ORACLES = {'units': o_units, 'rpy': o_rpy, 'axq': o_axq, 'axR': o_axR, 'explog': o_explog, 'pow': o_pow, 'seq': o_seq, 'mlog': o_mlog,
           'convention': o_convention, 'qax': o_qax, 'logexp': o_logexp, 'state': o_state}


def _call(f, inp, who):
    from vlib.core import call_outcome
    r = call_outcome(f, inp)
    if r[0] == 'raise':
        return {'tag': f"{who}/raises-{r[1]}", 'observed': list(r[1:])}
    return r[1]


def search(ctx, scale):
    rng = ctx.rng
    n = 60 * scale
    for i, a in enumerate(_angle_triples(rng, n)):
        for e in ('Q', 'QA', 'O'):
            inp = {'entry': e, 'angles': a}
            ctx.check('rpy', inp, _call(o_rpy, inp, f'rpy_{e}'), nontrivial_key=(e, tuple(np.round(a, 9))) if any(a) else None)
    axs, ths = _axes(rng, n), _rot_angles(rng, n)
    for i in range(max(len(axs), len(ths))):
        ax, th = axs[i % len(axs)], ths[(7 * i + 2) % len(ths)]
        key = (tuple(np.round(ax, 9)), th) if th > 0 else None
        for e in ('Q', 'O'):
            inp = {'entry': e, 'axis': ax, 'angle': th}
            ctx.check('axq', inp, _call(o_axq, inp, f'axq_{e}'), nontrivial_key=None if key is None else (e,) + key)
        inp = {'axis': ax, 'angle': th}
        ctx.check('axR', inp, _call(o_axR, inp, 'DCM(axang)'), nontrivial_key=key)
        ctx.check('mlog', inp, _call(o_mlog, inp, 'DCM.log'), nontrivial_key=key)
    exps = [0.0, 1.0, -1.0, 2.0, 0.5, -3.0, 3.0, 1e-3, -2.0, -0.5]
    ints = [-3, -2, -1, 0, 1, 2, 3]
    types = ['float', 'int', 'npint', 'npfloat']
    k = 0
    for i, (region, q0) in enumerate(cm.quats(rng, n)):
        if np.linalg.norm(q0[1:]) == 0:
            continue
        for q in (q0, -q0):                       # both covers of the same rotation
            k += 1
            key = tuple(np.round(q, 9))
            inp = {'q': q.tolist()}
            ctx.check('explog', inp, _call(o_explog, inp, 'explog'), nontrivial_key=key)
            for e in ('Q', 'O'):
                inp = {'q': q.tolist(), 'entry': e}
                ctx.check('qax', inp, _call(o_qax, inp, f'to_axang_{e}'), nontrivial_key=(e,) + key)
            # exponents: every whole number of [-3, 3] in every type, non-integers as floats, mixed pairs
            if k % 2:
                a, ta = float(ints[k % 7]), types[(k // 2) % 4]
            else:
                a, ta = (exps[k % len(exps)], 'float') if k % 4 else (float(rng.uniform(-3, 3)), 'float')
            if k % 3 == 0:
                b, tb = float(ints[(k // 3) % 7]), types[(k // 3) % 3]
                b = float(max(-3 - min(a, 0), min(3 - max(a, 0), b))) if float(a) != int(a) else b
                if float(b) != int(b):
                    tb = 'float'
            else:
                b, tb = float(rng.uniform(-3 - min(a, 0), 3 - max(a, 0))), 'float'
            if abs(a + b) > 3:
                b, tb = -a, ta if float(a) == int(a) else 'float'
            inp = {'q': q.tolist(), 'a': a, 'b': b, 'atype': ta, 'btype': tb}
            ctx.check('pow', inp, _call(o_pow, inp, 'pow'), nontrivial_key=(key, round(a, 9), ta, tb))
            m = _STATE_METHODS[k % len(_STATE_METHODS)]
            for versor in (True, False):
                s_ = 1.0 if versor else float(10 ** rng.uniform(-1, 0.4))
                inp = {'q': (q * s_).tolist(), 'method': m, 'versor': versor, 'a': float(exps[k % len(exps)])}
                ctx.check('state', inp, _call(o_state, inp, m), nontrivial_key=(m, versor) + key)
    # every method at least once on a versor, a non-versor and a pure rotation vector (non-unit vector part)
    for m in _STATE_METHODS:
        for qq, versor in (([0.5, 0.1, -0.3, 0.8], True), ([1.0, 2.0, -3.0, 0.5], False), ([0.0, 0.3, -0.2, 0.5], False),
                           ([-0.6, 0.0, 0.8, 0.0], True)):
            inp = {'q': qq, 'method': m, 'versor': versor, 'a': -1.5}
            ctx.check('state', inp, _call(o_state, inp, m), nontrivial_key=(m, versor, tuple(qq)))
    for i in range(20 * scale):
        v = cm.unit(rng.standard_normal(3)) * ([1e-6, 1e-2, 0.5, 1.0, 2.0, 3.0][i % 6] if i < 12 else rng.uniform(1e-3, math.pi - 1e-3))
        inp = {'v': [float(x) for x in v]}
        ctx.check('logexp', inp, _call(o_logexp, inp, 'log-of-exp'), nontrivial_key=tuple(np.round(v, 9)))
    per = 3 * scale
    for s in ALL_SEQS:
        k = len(s)
        for i in range(per + 4):
            t = _seq_angles(rng, k, i if i < 7 else 99)
            entries = ['rot_seq', 'DCM_euler'] + (['rotation'] if k == 1 else []) + (['DCM_xyz'] if s == 'xyz' else []) + \
                      (['DCM_rpy'] if s == 'zyx' else [])
            for e in entries:
                inp = {'entry': e, 'seq': s, 'angles': t}
                ctx.check('seq', inp, _call(o_seq, inp, e), nontrivial_key=(e, s, tuple(np.round(t, 9))) if any(t) else None)
    # unit flags: every sequence through rot_seq(degrees=True); rotation, DCM(x=,y=,z=,degrees=True), rpy2q/cardan2q, q2rpy/q2cardan, axang2quat
    for j, s_ in enumerate(ALL_SEQS):
        for i in range(2 + scale):
            t = _seq_angles(rng, len(s_), [4, 99, 99, 1, 5][i % 5] if i < 2 else 99)
            inp = {'entry': 'rot_seq', 'seq': s_, 'angles': t}
            ctx.check('units', inp, _call(o_units, inp, 'rot_seq(degrees=True)'), nontrivial_key=('rot_seq', s_, tuple(np.round(t, 9))))
            if len(s_) == 1:
                inp = {'entry': 'rotation', 'seq': s_, 'angles': t}
                ctx.check('units', inp, _call(o_units, inp, 'rotation(degrees=True)'), nontrivial_key=('rotation', s_, tuple(np.round(t, 9))))
    for i, a in enumerate(_angle_triples(rng, 12 * scale)):
        for e in ('rpy2q', 'cardan2q', 'DCM_xyz'):
            inp = {'entry': e, 'angles': a}
            ctx.check('units', inp, _call(o_units, inp, e), nontrivial_key=(e, tuple(np.round(a, 9))) if any(a) else None)
    for i, (region, q) in enumerate(cm.quats(rng, 12 * scale)):
        for e in ('q2rpy', 'q2cardan'):
            inp = {'entry': e, 'q': q.tolist()}
            ctx.check('units', inp, _call(o_units, inp, e), nontrivial_key=(e, tuple(np.round(q, 9))))
    for i in range(12 * scale):
        inp = {'entry': 'axang2quat', 'axis': axs[i % len(axs)], 'angle': ths[(5 * i + 3) % len(ths)]}
        ctx.check('units', inp, _call(o_units, inp, 'axang2quat(rad=False)'), nontrivial_key=('axang2quat', i))
    for a in _angle_triples(rng, 10 * scale)[3:]:
        inp = {'angles': a}
        ctx.check('convention', inp, _call(o_convention, inp, 'DCM(rpy)'), nontrivial_key=tuple(np.round(a, 9)))
    ctx.samples.append({'kind': 'search', 'oracle': 'rpy', 'input': {'entry': 'Q', 'angles': [0.3, -0.5, 1.2]}})
