"""C07 helper — structural comparison of two regenerated decision trees that were traced on the SAME symbols.

pysym hash-conses every scalar node, so two sub-computations are the same Python object exactly when they are the same
expression DAG.  `compare(ts, tb, mode)` walks the array-side tree under the path condition of every leaf of the scalar-side
tree and demands that the leaves are the same list of DAG nodes (or the same exception).  Decisions of the array side are
resolved from the scalar path by order reasoning on the same pair of operands plus two facts: 0 <= sqrt(x), 0 <= |x|.
This is a sound SUFFICIENT check of `forall inputs, batch_row inputs = single inputs` for the regenerated terms (identical
DAG nodes denote identical real functions); it is weaker than a Coq theorem only in that this file is trusted Python."""
from pysym.sym import S, B, Leaf, Node

LT, EQ, GT = 1, 2, 4

# ---- canonical keys: equality of DAG nodes modulo associativity/commutativity of + and *, a - b = a + (-b),
# -(a + b) = (-a) + (-b), and signs pulled out of products and quotients.  Every rule is an identity of real arithmetic
# (also of Coq's total division: (-a)/b = -(a/b), a/(-b) = -(a/b)); nothing else (no distributivity, no constant folding).
_KEY = {}
_IDS = {}


def _intern(k):
    """structural key -> small int (so that keys of big DAGs stay small and hashable)"""
    i = _IDS.get(k)
    if i is None:
        i = len(_IDS) + 1
        _IDS[k] = i
    return i


def _sgn_key(e):
    """(sign, id) with e == sign * term(id)"""
    r = _KEY.get(e.uid)
    if r is not None:
        return r
    op, a = e.op, e.args
    if op == 'const':
        v = a[0]
        r = (1, _intern(('c', v))) if v >= 0 else (-1, _intern(('c', -v)))
    elif op == 'var':
        r = (1, _intern(('v', a[0])))
    elif op == 'pi':
        r = (1, _intern(('pi',)))
    elif op == 'neg':
        s, k = _sgn_key(a[0])
        r = (-s, k)
    elif op in ('add', 'sub'):
        terms = []
        _flat_add(e, 1, terms)
        terms.sort(key=lambda t: (t[1], t[0]))
        # pull a global sign so that -(a+b) and (-a)+(-b) meet: make the first term positive
        g = terms[0][0]
        r = (g, _intern(('add', tuple((s * g, k) for s, k in terms))))
    elif op == 'mul':
        sign, fs = 1, []
        _flat_mul(e, fs)
        ks = []
        for f in fs:
            s, k = _sgn_key(f)
            sign *= s
            ks.append(k)
        ks.sort()
        r = (sign, _intern(('mul', tuple(ks))))
    elif op == 'div':
        s1, k1 = _sgn_key(a[0])
        s2, k2 = _sgn_key(a[1])
        r = (s1 * s2, _intern(('div', k1, k2)))
    elif op == 'pow':
        s, k = _sgn_key(a[0])
        n = a[1]
        r = ((s if n % 2 else 1), _intern(('pow', k, n)))
    elif op == 'fn':
        r = (1, _intern(('fn', a[0]) + tuple(_sgn_key(x) for x in a[1:])))
    else:
        r = (1, _intern(('node', e.uid)))
    _KEY[e.uid] = r
    return r


def _flat_add(e, sign, out):
    if e.op == 'add':
        _flat_add(e.args[0], sign, out); _flat_add(e.args[1], sign, out)
    elif e.op == 'sub':
        _flat_add(e.args[0], sign, out); _flat_add(e.args[1], -sign, out)
    elif e.op == 'neg':
        _flat_add(e.args[0], -sign, out)
    else:
        s, k = _sgn_key(e)
        out.append((sign * s, k))


def _flat_mul(e, out):
    if e.op == 'mul':
        _flat_mul(e.args[0], out); _flat_mul(e.args[1], out)
    else:
        out.append(e)


def key(e):
    return _sgn_key(e)


def _nonneg(e):
    return e.op == 'fn' and e.args[0] in ('sqrt', 'abs') or (e.op == 'const' and e.args[0] >= 0)


def _rel_of(atom, val):
    """possible order relations of (a, b) given atom(a, b) == val"""
    op = atom.op
    t = {'lt': LT, 'le': LT | EQ, 'eq': EQ}[op]
    return t if val else (LT | EQ | GT) & ~t


def _swap(r):
    return (GT if r & LT else 0) | (r & EQ) | (LT if r & GT else 0)


class Known:
    def __init__(self, other=None):
        self.rel = dict(other.rel) if other else {}

    def _key(self, a, b):
        ka, kb = key(a), key(b)
        return (ka, kb) if ka <= kb else (kb, ka)

    def get(self, a, b, novalue=False):
        if not novalue:
            va, vb = self.value(a), self.value(b)
            if va is not None and vb is not None:
                return LT if va < vb else EQ if va == vb else GT
        k = self._key(a, b)
        r = self.rel.get(k, LT | EQ | GT)
        r = r if k == (key(a), key(b)) else _swap(r)
        if key(a) == key(b):
            r &= EQ
        # built-in facts
        if a.op == 'const' and a.args[0] == 0 and _nonneg(b):
            r &= LT | EQ
        if b.op == 'const' and b.args[0] == 0 and _nonneg(a):
            r &= EQ | GT
        if a.op == 'const' and b.op == 'const':
            x, y = a.args[0], b.args[0]
            r &= LT if x < y else EQ if x == y else GT
        return r

    # ---- exact values: constants, and sqrt(sum_i (x_i/n)^2) = 1 when n = sqrt(sum_i x_i^2) and 0 < n is known on this path
    def value(self, e, depth=0):
        from fractions import Fraction
        if e.op == 'const':
            return e.args[0]
        if depth > 6:
            return None
        if e.op == 'sub':
            x, y = self.value(e.args[0], depth + 1), self.value(e.args[1], depth + 1)
            return None if x is None or y is None else x - y
        if e.op == 'fn' and e.args[0] == 'abs':
            x = self.value(e.args[1], depth + 1)
            return None if x is None else abs(x)
        if e.op == 'fn' and e.args[0] == 'sqrt' and self._unit_sqrt(e, depth):
            return Fraction(1)
        return None

    def _unit_sqrt(self, e, depth):
        terms = []
        _addends(e.args[1], terms)
        if not terms:
            return False
        n, xs = None, []
        for t in terms:
            if t.op == 'mul' and t.args[0] is t.args[1]:
                q = t.args[0]
            elif t.op == 'pow' and t.args[1] == 2:
                q = t.args[0]
            else:
                return False
            if q.op != 'div':
                return False
            if n is None:
                n = q.args[1]
            elif q.args[1] is not n:
                return False
            xs.append(key(q.args[0]))
        if n.op != 'fn' or n.args[0] != 'sqrt':
            return False
        sq = []
        _addends(n.args[1], sq)
        ys = []
        for t in sq:
            if t.op == 'mul' and key(t.args[0]) == key(t.args[1]):
                ys.append((1, key(t.args[0])[1]))
            elif t.op == 'pow' and t.args[1] == 2:
                ys.append((1, key(t.args[0])[1]))
            else:
                return False
        if sorted((1, k[1]) for k in xs) != sorted(ys):
            return False
        # 0 < n on this path?
        vn = self.value(n, depth + 1)
        if vn is not None:
            return vn > 0
        from pysym.sym import S
        return self.get(S.const(0), n, novalue=True) == LT

    def add(self, atom, val):
        a, b = atom.args
        r = self.get(a, b) & _rel_of(atom, val)
        k = self._key(a, b)
        self.rel[k] = r if k == (key(a), key(b)) else _swap(r)
        return r != 0            # False: infeasible

    def decide(self, atom):
        a, b = atom.args
        r = self.get(a, b)
        t = _rel_of(atom, True)
        if r & ~t == 0:
            return True
        if r & t == 0:
            return False
        return None


def _addends(e, out):
    """flatten a sum of non-negated terms; anything else makes the pattern fail (empty list)"""
    if e.op == 'add':
        _addends(e.args[0], out); _addends(e.args[1], out)
    elif e.op in ('sub', 'neg'):
        out.clear(); out.append(e)          # not a plain sum of squares
    else:
        out.append(e)


def _leaves(tree, known):
    if isinstance(tree, Leaf):
        yield known, tree
        return
    for val, sub in ((True, tree.t), (False, tree.f)):
        k = Known(known)
        if k.add(tree.cond, val):
            yield from _leaves(sub, k)


def _strip(e, known, memo):
    """e with every division by (and multiplication with) a node whose value is exactly 1 on this path removed: x / 1 = x"""
    from pysym import sym
    r = memo.get(e.uid)
    if r is not None:
        return r
    op, a = e.op, e.args
    if op in ('const', 'var', 'pi'):
        r = e
    elif op == 'div':
        x, y = _strip(a[0], known, memo), _strip(a[1], known, memo)
        r = x if known.value(a[1]) == 1 else sym._bin('div', x, y)
    elif op in ('add', 'sub', 'mul'):
        r = sym._bin(op, _strip(a[0], known, memo), _strip(a[1], known, memo))
    elif op == 'neg':
        r = sym.neg(_strip(a[0], known, memo))
    elif op == 'pow':
        r = sym.power(_strip(a[0], known, memo), a[1])
    elif op == 'fn':
        r = sym.fn(a[0], *[_strip(x, known, memo) for x in a[1:]])
    else:
        r = e
    memo[e.uid] = r
    return r


def _same_leaf_mod_units(ls, lb, known):
    """leaf equality after x / 1 = x, where 1 is a norm the path proves to be 1 (second normalisation of a unit row)"""
    if ls.kind != 'val' or lb.kind != 'val' or len(ls.flat) != len(lb.flat) or ls.shape != lb.shape:
        return False
    memo = {}
    return all(key(_strip(x, known, memo)) == key(_strip(y, known, memo)) for x, y in zip(ls.flat, lb.flat))


def _same_leaf(ls, lb):
    if ls.kind != lb.kind:
        return False
    if ls.kind == 'raise':
        return ls.payload == lb.payload
    return len(ls.flat) == len(lb.flat) and all(x is y or key(x) == key(y) for x, y in zip(ls.flat, lb.flat)) and ls.shape == lb.shape


def compare(ts, tb, mode='equal'):
    """mode 'equal': same outcome on every path; 'accepts': whenever the scalar side returns a value the array side returns
    the same value (the scalar side may reject more).  Returns dict(ok, identical, leaves, mismatches[...])."""
    identical = _identical(ts, tb)
    n, bad = 0, []
    for ks, ls in _leaves(ts, Known()):
        if mode == 'accepts' and (ls.kind == 'raise' or not ls.flat):
            continue            # the scalar side rejects (exception, or None): nothing is claimed
        for kb, lb in _leaves(tb, ks):
            n += 1
            if not _same_leaf(ls, lb) and not _same_leaf_mod_units(ls, lb, kb):
                bad.append({'scalar': ls.kind if ls.kind == 'val' else f'raise {ls.payload}',
                            'array': lb.kind if lb.kind == 'val' else f'raise {lb.payload}'})
    return {'ok': not bad, 'identical': identical, 'leaf_pairs': n, 'mismatches': bad[:5], 'n_mismatch': len(bad)}


def _identical(a, b):
    if isinstance(a, Leaf) or isinstance(b, Leaf):
        return isinstance(a, Leaf) and isinstance(b, Leaf) and _same_leaf(a, b)
    return (a.cond is b.cond or (a.cond.op == b.cond.op and key(a.cond.args[0]) == key(b.cond.args[0]) and key(a.cond.args[1]) == key(b.cond.args[1]))) \
        and _identical(a.t, b.t) and _identical(a.f, b.f)
