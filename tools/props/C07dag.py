"""C07 helper — structural comparison of two regenerated decision trees that were traced on the SAME symbols.

pysym hash-conses every scalar node, so two sub-computations are the same Python object exactly when they are the same
expression DAG.  `compare(ts, tb, mode)` walks the array-side tree under the path condition of every leaf of the scalar-side
tree and demands that the leaves are the same list of DAG nodes (or the same exception).  Decisions of the array side are
resolved from the scalar path by order reasoning on the same pair of operands plus two facts: 0 <= sqrt(x), 0 <= |x|.
This is a sound SUFFICIENT check of `forall inputs, batch_row inputs = single inputs` for the regenerated terms (identical
DAG nodes denote identical real functions); it is weaker than a Coq theorem only in that this file is trusted Python."""
from pysym.sym import S, B, Leaf, Node

LT, EQ, GT = 1, 2, 4


def _nonneg(e):
    return e.op == 'fn' and e.args[0] in ('sqrt', 'abs') or (e.op == 'const' and e.args[0] >= 0)


def _rel_of(atom, val):
    """possible order relations of (a, b) given atom(a, b) == val"""
    op = atom.op
    t = {'lt': LT, 'le': LT | EQ, 'eq': EQ}[op]
    return t if val else (LT | EQ | GT) & ~t


def _swap(r):
    return (GT if r & LT else 0) | (r & EQ) | (LT if r & GT else 0)


class Known:
    def __init__(self, other=None):
        self.rel = dict(other.rel) if other else {}

    def _key(self, a, b):
        return (a.uid, b.uid) if a.uid <= b.uid else (b.uid, a.uid)

    def get(self, a, b):
        k = self._key(a, b)
        r = self.rel.get(k, LT | EQ | GT)
        r = r if k == (a.uid, b.uid) else _swap(r)
        # built-in facts
        if a.op == 'const' and a.args[0] == 0 and _nonneg(b):
            r &= LT | EQ
        if b.op == 'const' and b.args[0] == 0 and _nonneg(a):
            r &= EQ | GT
        if a.op == 'const' and b.op == 'const':
            x, y = a.args[0], b.args[0]
            r &= LT if x < y else EQ if x == y else GT
        return r

    def add(self, atom, val):
        a, b = atom.args
        r = self.get(a, b) & _rel_of(atom, val)
        k = self._key(a, b)
        self.rel[k] = r if k == (a.uid, b.uid) else _swap(r)
        return r != 0            # False: infeasible

    def decide(self, atom):
        a, b = atom.args
        r = self.get(a, b)
        t = _rel_of(atom, True)
        if r & ~t == 0:
            return True
        if r & t == 0:
            return False
        return None


def _leaves(tree, known):
    if isinstance(tree, Leaf):
        yield known, tree
        return
    for val, sub in ((True, tree.t), (False, tree.f)):
        k = Known(known)
        if k.add(tree.cond, val):
            yield from _leaves(sub, k)


def _same_leaf(ls, lb):
    if ls.kind != lb.kind:
        return False
    if ls.kind == 'raise':
        return ls.payload == lb.payload
    return len(ls.flat) == len(lb.flat) and all(x is y for x, y in zip(ls.flat, lb.flat)) and ls.shape == lb.shape


def compare(ts, tb, mode='equal'):
    """mode 'equal': same outcome on every path; 'accepts': whenever the scalar side returns a value the array side returns
    the same value (the scalar side may reject more).  Returns dict(ok, identical, leaves, mismatches[...])."""
    identical = _identical(ts, tb)
    n, bad = 0, []
    for ks, ls in _leaves(ts, Known()):
        if mode == 'accepts' and ls.kind == 'raise':
            continue
        for kb, lb in _leaves(tb, ks):
            n += 1
            if not _same_leaf(ls, lb):
                bad.append({'scalar': ls.kind if ls.kind == 'val' else f'raise {ls.payload}',
                            'array': lb.kind if lb.kind == 'val' else f'raise {lb.payload}'})
    return {'ok': not bad, 'identical': identical, 'leaf_pairs': n, 'mismatches': bad[:5], 'n_mismatch': len(bad)}


def _identical(a, b):
    if isinstance(a, Leaf) or isinstance(b, Leaf):
        return isinstance(a, Leaf) and isinstance(b, Leaf) and _same_leaf(a, b)
    return a.cond is b.cond and _identical(a.t, b.t) and _identical(a.f, b.f)
