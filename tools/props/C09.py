"""C09 — quaternion arithmetic obeys the Hamilton algebra laws."""
import numpy as np, math
from pysym.gen import Target
from . import common as cm
from .C01 import cm_call

PID = 'C09'
Q = ['w', 'x', 'y', 'z']
P = ['a', 'b', 'c', 'd']
LEVEL_TEXT = ("Coq theorems (ring/field, all reals, no norm hypothesis unless stated) over the regenerated product, conjugate, "
              "inverse, mult_L/mult_R and scalar-last accessors; the non-versor inverse defect is exhibited by a refuted theorem and a known finding")
RULE = ("triples of quaternions, versors and non-normalised (norms 1e-3..1e3), both storage orders; edge set of C01 first; "
        "non-trivial = none of the operands is the identity or zero")
TRUSTED = ["Coq 8.16.1 kernel; vm_compute for the float copies", "pysym tracing translator", "stdlib real-number axioms",
           "real arithmetic stands for binary64 (measured by correspondence)"]
PARTIAL = "inverse of a non-versor is wrong in the pinned tree (known finding); all other clauses proved for all reals"


def _S(v):     # scalar-last storage of the same quaternion
    return v.vec('x', 'y', 'z', 'w')


def _normalize_views(A, v):
    import numpy as _np
    q = A.Quaternion(v.vec(*Q), versor=False)
    q.normalize()
    return [_np.asarray(q), q.A, [q.w, q.x, q.y, q.z], q.to_array()]


def targets():
    O = lambda A: A.common.orientation
    mk = lambda n, i, f, doc='': Target(f'C09_{n}', i, f, doc=doc)
    return [
        mk('product', P + Q, lambda A, v: A.Quaternion(v.vec(*P), versor=False).product(v.vec(*Q))),
        mk('mul', P + Q, lambda A, v: A.Quaternion(v.vec(*P), versor=False) * v.vec(*Q)),
        mk('matmul', P + Q, lambda A, v: A.Quaternion(v.vec(*P), versor=False) @ v.vec(*Q)),
        mk('q_prod', P + Q, lambda A, v: O(A).q_prod(v.vec(*P), v.vec(*Q))),
        mk('conj', Q, lambda A, v: A.Quaternion(v.vec(*Q), versor=False).conjugate),
        mk('q_conj_rows', P + Q, lambda A, v: O(A).q_conj(v.mat([P, Q])), 'q_conj on a 2-row array'),
        mk('conj_S', Q, lambda A, v: A.Quaternion(_S(v), versor=False, order='S').conjugate,
           'conjugate of a scalar-last quaternion, in its own storage order [x,y,z,w]'),
        mk('q_conj', Q, lambda A, v: O(A).q_conj(v.vec(*Q))),
        mk('inverse', Q, lambda A, v: A.Quaternion(v.vec(*Q), versor=False).inverse),
        mk('inverse_versor', Q, lambda A, v: A.Quaternion(v.vec(*Q)).inverse, 'inverse after the normalising constructor'),
        mk('mult_L', Q, lambda A, v: A.Quaternion(v.vec(*Q), versor=False).mult_L()),
        mk('mult_R', Q, lambda A, v: A.Quaternion(v.vec(*Q), versor=False).mult_R()),
        mk('q_mult_L', Q, lambda A, v: O(A).q_mult_L(v.vec(*Q)), 'normalises its argument first'),
        mk('q_mult_R', Q, lambda A, v: O(A).q_mult_R(v.vec(*Q)), 'normalises its argument first'),
        mk('S_wxyz', Q, lambda A, v: (lambda q: [q.w, q.x, q.y, q.z, q.v])(A.Quaternion(_S(v), versor=False, order='S')),
           'accessors of a scalar-last quaternion'),
        mk('H_wxyz', Q, lambda A, v: (lambda q: [q.w, q.x, q.y, q.z, q.v])(A.Quaternion(v.vec(*Q), versor=False))),
        mk('product_QS', P + Q, lambda A, v: A.Quaternion(v.vec(*P), versor=False).product(A.Quaternion(_S(v), versor=False, order='S')),
           'right operand is a scalar-last Quaternion object'),
        mk('mul_QS', P + Q, lambda A, v: A.Quaternion(v.vec(*P), versor=False) * A.Quaternion(_S(v), versor=False, order='S')),
        mk('matmul_QH', P + Q, lambda A, v: A.Quaternion(v.vec(*P), versor=False) @ A.Quaternion(v.vec(*Q), versor=False),
           'right operand is a scalar-first Quaternion object'),
        mk('product_SS', P + Q, lambda A, v: A.Quaternion(v.vec('b', 'c', 'd', 'a'), versor=False, order='S').product(A.Quaternion(_S(v), versor=False, order='S')),
           'both operands are scalar-last Quaternion objects'),
        mk('mul_SS', P + Q, lambda A, v: A.Quaternion(v.vec('b', 'c', 'd', 'a'), versor=False, order='S') * A.Quaternion(_S(v), versor=False, order='S')),
        mk('matmul_SS', P + Q, lambda A, v: A.Quaternion(v.vec('b', 'c', 'd', 'a'), versor=False, order='S') @ A.Quaternion(_S(v), versor=False, order='S')),
        mk('matmul_QS', P + Q, lambda A, v: A.Quaternion(v.vec(*P), versor=False) @ A.Quaternion(_S(v), versor=False, order='S')),
        mk('normalize_views', Q, _normalize_views, 'Quaternion(v, versor=False).normalize(): the array view, .A and w/x/y/z must all be the versor'),
        mk('S_product', P + Q, lambda A, v: A.Quaternion(v.vec('b', 'c', 'd', 'a'), versor=False, order='S').product(v.vec(*Q)),
           'product of a scalar-last stored p with a scalar-first array q'),
    ]


STAGES = [['C09_algebra.v', ('C09_refuted.v', {'finding': 'inverse/non-versor'})], ['C09.v']]


def _impl():
    import ahrs
    from ahrs.common import orientation as O
    Qn = lambda q, **k: ahrs.Quaternion(np.array(q, dtype=float), versor=False, **k)
    S = lambda q: np.array([q[1], q[2], q[3], q[0]], dtype=float)
    return {
        'product': lambda p, q: Qn(p).product(np.array(q)),
        'mul': lambda p, q: np.asarray(Qn(p) * np.array(q)),
        'matmul': lambda p, q: np.asarray(Qn(p) @ np.array(q)),
        'q_prod': lambda p, q: O.q_prod(np.array(p), np.array(q)),
        'conj': lambda q: Qn(q).conjugate,
        'conj_S': lambda q: ahrs.Quaternion(S(q), versor=False, order='S').conjugate,
        'q_conj': lambda q: O.q_conj(np.array(q)),
        'q_conj_rows': lambda p, q: O.q_conj(np.array([p, q])),
        'inverse': lambda q: Qn(q).inverse,
        'inverse_versor': lambda q: ahrs.Quaternion(np.array(q)).inverse,
        'mult_L': lambda q: Qn(q).mult_L(),
        'mult_R': lambda q: Qn(q).mult_R(),
        'q_mult_L': lambda q: O.q_mult_L(np.array(q, dtype=float)),
        'q_mult_R': lambda q: O.q_mult_R(np.array(q, dtype=float)),
        'S_wxyz': lambda q: (lambda o: [o.w, o.x, o.y, o.z, o.v])(ahrs.Quaternion(S(q), versor=False, order='S')),
        'H_wxyz': lambda q: (lambda o: [o.w, o.x, o.y, o.z, o.v])(Qn(q)),
        'S_product': lambda p, q: ahrs.Quaternion(S(p), versor=False, order='S').product(np.array(q)),
        'product_QS': lambda p, q: Qn(p).product(ahrs.Quaternion(S(q), versor=False, order='S')),
        'mul_QS': lambda p, q: np.asarray(Qn(p) * ahrs.Quaternion(S(q), versor=False, order='S')),
        'matmul_QH': lambda p, q: np.asarray(Qn(p) @ Qn(q)),
        'product_SS': lambda p, q: ahrs.Quaternion(S(p), versor=False, order='S').product(ahrs.Quaternion(S(q), versor=False, order='S')),
        'mul_SS': lambda p, q: np.asarray(ahrs.Quaternion(S(p), versor=False, order='S') * ahrs.Quaternion(S(q), versor=False, order='S')),
        'matmul_SS': lambda p, q: np.asarray(ahrs.Quaternion(S(p), versor=False, order='S') @ ahrs.Quaternion(S(q), versor=False, order='S')),
        'matmul_QS': lambda p, q: np.asarray(Qn(p) @ ahrs.Quaternion(S(q), versor=False, order='S')),
        'normalize_views': lambda q: _nv(Qn(q)),
    }


def _nv(o):
    o.normalize()
    return [np.asarray(o), o.A, [o.w, o.x, o.y, o.z], o.to_array()]


def _quats(ctx, n):
    qs = [q for _, q in cm.quats(ctx.rng, n)]
    out = []
    for i, q in enumerate(qs):
        s = 1.0 if i % 3 == 0 else 10 ** ctx.rng.uniform(-3, 3)
        if i % 7 == 5:
            s = 10.0 ** float(ctx.rng.choice([-100, -30, -12, -9, -8, -5, 5, 9, 30, 100]))
        if i % 7 == 2:
            # nearly, but not exactly, unit: inside the tolerance of is_versor()/np.isclose, where a "tidy-up" renormalisation hides
            s = 1.0 + float(ctx.rng.choice([-8e-6, -5e-6, -1e-6, -2e-7, 3e-8, 2e-7, 1e-6, 5e-6, 8e-6]))
        out.append(q * s)
    return out


def correspondence(ctx):
    I = _impl()
    n = ctx.n(40, 400)
    qs = _quats(ctx, n)
    one = [cm.d(Q, q) for q in qs]
    two = [{**cm.d(P, qs[i]), **cm.d(Q, qs[(3 * i + 1) % len(qs)])} for i in range(len(qs))]
    for name in ('product', 'mul', 'matmul', 'q_prod', 'S_product', 'q_conj_rows', 'product_QS', 'mul_QS', 'matmul_QH', 'product_SS', 'mul_SS', 'matmul_SS', 'matmul_QS'):
        ctx.correspond(f'C09_{name}', two, (lambda c, f=I[name]: f([c[k] for k in P], [c[k] for k in Q])))
    for name in ('normalize_views', 'conj', 'conj_S', 'q_conj', 'inverse', 'inverse_versor', 'mult_L', 'mult_R', 'q_mult_L', 'q_mult_R', 'S_wxyz', 'H_wxyz'):
        ctx.correspond(f'C09_{name}', one, (lambda c, f=I[name]: f([c[k] for k in Q])))


TOL = 1e-12


def _rel(a, b, scale):
    return cm.maxabs(np.asarray(a, float), np.asarray(b, float)) / max(scale, 1e-300)


def o_algebra(inp):
    """associativity, norm multiplicativity, conjugation reverses products, mult_L/R, the four product entry points"""
    I = _impl()
    p, q, r = (np.array(inp[k], float) for k in 'pqr')
    # purely relative scale: the laws are homogeneous, so they must hold for tiny and huge norms alike
    sc = np.linalg.norm(p) * np.linalg.norm(q) * max(np.linalg.norm(r), 1e-300)
    sc = sc / max(np.linalg.norm(r), 1e-300) if True else sc
    sc_pq = np.linalg.norm(p) * np.linalg.norm(q)
    sc3 = sc_pq * np.linalg.norm(r)
    sc = sc_pq
    # array right operands and Quaternion-object right operands (either storage order): all must be the Hamilton product
    prods = {k: I[k] for k in ('product', 'mul', 'matmul', 'q_prod', 'matmul_QH', 'product_QS', 'mul_QS', 'matmul_QS',
                               'S_product', 'product_SS', 'mul_SS', 'matmul_SS')}
    ref = cm.qmul(p, q)
    for k, f in prods.items():
        v = np.asarray(f(p.copy(), q.copy()), float)
        if v.shape != (4,) or cm.bad(v) or _rel(v, ref, sc) > TOL:
            return {'tag': f'{k}/not-hamilton', 'observed': v, 'expected': ref}
    f = I[inp.get('entry', 'product')]
    lhs = f(np.asarray(f(p, q), float), r)
    rhs = f(p, np.asarray(f(q, r), float))
    if _rel(lhs, rhs, sc3) > 1e-11:
        return {'tag': f"{inp.get('entry','product')}/not-associative", 'observed': lhs, 'expected': rhs}
    n = np.linalg.norm(np.asarray(f(p, q), float))
    if abs(n - np.linalg.norm(p) * np.linalg.norm(q)) > 1e-11 * sc:
        return {'tag': 'product/norm-not-multiplicative', 'observed': n, 'expected': np.linalg.norm(p) * np.linalg.norm(q)}
    c = np.asarray(I['conj'](np.asarray(f(p, q), float)), float)
    c2 = np.asarray(f(np.asarray(I['conj'](q), float), np.asarray(I['conj'](p), float)), float)
    if _rel(c, c2, sc) > 1e-11:
        return {'tag': 'conjugate/does-not-reverse-product', 'observed': c, 'expected': c2}
    if _rel(np.asarray(I['q_conj'](p), float), cm.qconj(p), np.linalg.norm(p)) > TOL:
        return {'tag': 'q_conj/wrong', 'observed': I['q_conj'](p), 'expected': cm.qconj(p)}
    for rows in ([p], [p, q], [p, q, r], [p, q, r, p], [q, p, r, q, p]):
        got = np.asarray(I['q_conj'](np.array(rows)), float)
        exp = np.array([cm.qconj(x) for x in rows])
        if got.shape != exp.shape or cm.maxabs(got / np.linalg.norm(exp, axis=1)[:, None], exp / np.linalg.norm(exp, axis=1)[:, None]) > TOL:
            return {'tag': f'q_conj/rows-N={len(rows)}', 'observed': got, 'expected': exp}
    L = np.asarray(I['mult_L'](p), float)
    Rm = np.asarray(I['mult_R'](q), float)
    if cm.maxabs(L, np.array([[p[0], -p[1], -p[2], -p[3]], [p[1], p[0], -p[3], p[2]], [p[2], p[3], p[0], -p[1]], [p[3], -p[2], p[1], p[0]]])) > TOL * np.linalg.norm(p):
        return {'tag': 'mult_L/not-the-left-matrix', 'observed': L}
    if _rel(L @ q, ref, sc) > 1e-11:
        return {'tag': 'mult_L/not-left-product', 'observed': L @ q, 'expected': ref}
    if _rel(Rm @ p, ref, sc) > 1e-11:
        return {'tag': 'mult_R/not-right-product', 'observed': Rm @ p, 'expected': ref}
    return None


def o_inverse(inp):
    """q * q^-1 = q^-1 * q = 1 for every non-zero quaternion"""
    I = _impl()
    q = np.array(inp['q'], float)
    nq = np.linalg.norm(q)
    entry = 'inverse_versor' if inp.get('versor') else 'inverse'
    inv = np.asarray(I[entry](q.copy()), float)
    base = q / nq if inp.get('versor') else q
    one = np.array([1.0, 0, 0, 0])
    l, r = cm.qmul(base, inv), cm.qmul(inv, base)
    err = max(cm.maxabs(l, one), cm.maxabs(r, one))
    if cm.bad(inv) or err > 1e-9:
        # three code paths of Quaternion.inverse: exact versors, quaternions that merely pass is_versor()'s np.isclose
        # tolerance (the bare conjugate is returned: q q^-1 = |q|^2), and everything else (conjugate / |q|: q q^-1 = |q|)
        if inp.get('versor') or abs(nq - 1) <= 1e-12:
            region = 'versor'
        elif abs(nq - 1) <= 1e-8 + 1e-5:
            region = 'near-versor'
        else:
            region = 'non-versor'
        return {'tag': f'inverse/{region}', 'observed': l, 'expected': one}
    return None


def o_scalar_last(inp):
    """a quaternion stored scalar-last exposes the same w,x,y,z,v, conjugate, product and matrix"""
    import ahrs
    I = _impl()
    q, p = np.array(inp['q'], float), np.array(inp['p'], float)
    sc = max(1.0, np.linalg.norm(q)) * max(1.0, np.linalg.norm(p))
    a = cm_flat(I['S_wxyz'](q)); b = cm_flat(I['H_wxyz'](q))
    if cm.maxabs(a, b) > 0:
        return {'tag': 'order-S/accessors-differ', 'observed': a, 'expected': b}
    cS = np.asarray(I['conj_S'](q), float)
    if cm.maxabs(cS, np.array([-q[1], -q[2], -q[3], q[0]])) > 0:
        return {'tag': 'order-S/conjugate', 'observed': cS, 'expected': [-q[1], -q[2], -q[3], q[0]]}
    pr = np.asarray(I['S_product'](q, p), float)
    if _rel(pr, cm.qmul(q, p), sc) > TOL:
        return {'tag': 'order-S/product', 'observed': pr, 'expected': cm.qmul(q, p)}
    qn = q / np.linalg.norm(q)
    M = ahrs.Quaternion(np.array([q[1], q[2], q[3], q[0]]), order='S').to_DCM()
    if cm.maxabs(M, cm.Rspec(qn)) > TOL:
        return {'tag': 'order-S/to_DCM', 'observed': M, 'expected': cm.Rspec(qn)}
    return None


def cm_flat(x):
    from vlib.core import flat_floats
    return np.array(flat_floats(x))


def o_operands(inp):
    """the product does not depend on how the operands are given: Quaternion objects of either storage order,
    float arrays, lists, integer arrays (exactly representable components)"""
    import ahrs
    from ahrs.common import orientation as O
    p, q = np.array(inp['p'], float), np.array(inp['q'], float)
    ref = cm.qmul(p, q)
    sc = max(1.0, np.linalg.norm(p)) * max(1.0, np.linalg.norm(q))
    S = lambda x: np.array([x[1], x[2], x[3], x[0]], dtype=float)
    lefts = {'H': ahrs.Quaternion(p, versor=False), 'S': ahrs.Quaternion(S(p), versor=False, order='S')}
    rights = {'array': q.copy(), 'list': q.tolist(), 'QH': ahrs.Quaternion(q, versor=False), 'QS': ahrs.Quaternion(S(q), versor=False, order='S')}
    if inp.get('int'):
        rights['int'] = np.array(q, dtype=int)
        rights['intlist'] = [int(v) for v in q]
    for ln, L in lefts.items():
        for rn, Rr in rights.items():
            for on, op in (('product', lambda a, b: a.product(b)), ('mul', lambda a, b: a * b), ('matmul', lambda a, b: a @ b)):
                try:
                    r = np.asarray(op(L, Rr), float)
                except TypeError:
                    continue
                if r.shape != (4,) or cm.bad(r) or _rel(r, ref, sc) > TOL:
                    return {'tag': f'{on}/left-{ln}/right-{rn}', 'observed': r, 'expected': ref}
    forms = {'arrays': (p.copy(), q.copy())}
    if np.array_equal(p, np.round(p)):
        forms['int-left'] = (np.array(p, dtype=int), q.copy())
        forms['intlist-left'] = ([int(v) for v in p], q.copy())
    if np.array_equal(q, np.round(q)):
        forms['int-right'] = (p.copy(), np.array(q, dtype=int))
    forms['float32-left'] = (np.array(p, dtype=np.float32), q.copy())
    for rn, (a, b) in forms.items():
        try:
            r = np.asarray(O.q_prod(a, b), float)
        except (TypeError, AttributeError):
            continue
        ref2 = cm.qmul(np.array(a, float), np.array(b, float))
        if r.shape != (4,) or _rel(r, ref2, sc) > (1e-6 if 'float32' in rn else TOL):
            return {'tag': f'q_prod/{rn}', 'observed': r, 'expected': ref2}
    return None


def o_state(inp):
    """object state and call sequences: after normalize() every view of the object is the same versor and every
    route multiplies that versor; results of the free function are values, not a buffer shared between calls"""
    import ahrs
    from ahrs.common import orientation as O
    q, p, r = (np.array(inp[k], float) for k in 'qpr')
    for order in ('H', 'S'):
        o = ahrs.Quaternion(q if order == 'H' else np.array([q[1], q[2], q[3], q[0]]), versor=False, order=order)
        o.normalize()
        u = q / np.linalg.norm(q)
        us = u if order == 'H' else np.array([u[1], u[2], u[3], u[0]])
        views = {'asarray': np.asarray(o, float), 'A': np.asarray(o.A, float), 'to_array': np.asarray(o.to_array(), float),
                 'index': np.array([o[0], o[1], o[2], o[3]], float)}
        for k, v in views.items():
            if cm.maxabs(v, us) > TOL:
                return {'tag': f'normalize/{order}/{k}-not-the-versor', 'observed': v, 'expected': us}
        if cm.maxabs(np.array([o.w, o.x, o.y, o.z], float), u) > TOL:
            return {'tag': f'normalize/{order}/wxyz-not-the-versor', 'observed': [o.w, o.x, o.y, o.z], 'expected': u}
        if order == 'H':
            for name, val in (('product', o.product(p)), ('q_prod', O.q_prod(o, p)), ('mul', o * p)):
                if cm.maxabs(np.asarray(val, float), cm.qmul(u, p)) > 1e-11 * max(1, np.linalg.norm(p)):
                    return {'tag': f'normalize/then-{name}', 'observed': val, 'expected': cm.qmul(u, p)}
            if abs(np.linalg.norm(o) - 1) > TOL:
                return {'tag': 'normalize/norm-of-object', 'observed': np.linalg.norm(o)}
    # free functions: earlier results must not change when the function is called again; chained calls
    first = O.q_prod(p.copy(), q.copy())
    keep = np.array(first, float)
    second = O.q_prod(q.copy(), r.copy())
    if cm.maxabs(np.asarray(first, float), keep) > 0:
        return {'tag': 'q_prod/earlier-result-changed-by-later-call', 'observed': np.asarray(first, float), 'expected': keep}
    sc = max(1.0, np.linalg.norm(p)) * max(1.0, np.linalg.norm(q)) * max(1.0, np.linalg.norm(r))
    lhs = O.q_prod(O.q_prod(p.copy(), q.copy()), r.copy())
    rhs = O.q_prod(p.copy(), O.q_prod(q.copy(), r.copy()))
    ref = cm.qmul(cm.qmul(p, q), r)
    if _rel(lhs, ref, sc) > 1e-11 or _rel(rhs, ref, sc) > 1e-11:
        return {'tag': 'q_prod/chained-calls', 'observed': [np.asarray(lhs).tolist(), np.asarray(rhs).tolist()], 'expected': ref}
    c1 = O.q_conj(p.copy()); c2 = O.q_conj(q.copy())
    if cm.maxabs(np.asarray(c1, float), cm.qconj(p)) > 0:
        return {'tag': 'q_conj/earlier-result-changed-by-later-call', 'observed': c1, 'expected': cm.qconj(p)}
    return None


ORACLES = {'algebra': o_algebra, 'inverse': o_inverse, 'scalar_last': o_scalar_last, 'operands': o_operands, 'state': o_state}


def search(ctx, scale):
    n = 80 * scale
    qs = _quats(ctx, n + 2)
    for i in range(n):
        p, q, r = qs[i], qs[(i * 7 + 1) % len(qs)], qs[(i * 11 + 2) % len(qs)]
        # keep the squares of every intermediate product representable (|pq|^2, |qr|^2, |pqr|^2 in the binary64 range):
        # beyond that the laws fail by underflow/overflow only, which is outside what the property states
        nrm = [np.linalg.norm(x) for x in (p, q, r)]
        if not all(1e-150 < v < 1e150 for v in (nrm[0] * nrm[1], nrm[1] * nrm[2], nrm[0] * nrm[1] * nrm[2])):
            q = q / nrm[1]
            if not 1e-150 < nrm[0] * nrm[2] < 1e150:
                r = r / nrm[2]
        entry = ('product', 'mul', 'matmul', 'q_prod')[i % 4]
        inp = {'p': p.tolist(), 'q': q.tolist(), 'r': r.tolist(), 'entry': entry}
        ctx.check('algebra', inp, cm_call(o_algebra, inp), nontrivial_key=(entry, tuple(np.round(p, 6)), tuple(np.round(q, 6))))
        for versor in (False, True):
            inp = {'q': q.tolist(), 'versor': versor}
            ctx.check('inverse', inp, cm_call(o_inverse, inp), nontrivial_key=(versor, tuple(np.round(q, 6))))
        inp = {'q': q.tolist(), 'p': p.tolist()}
        ctx.check('scalar_last', inp, cm_call(o_scalar_last, inp), nontrivial_key=(tuple(np.round(q, 6)),))
    for i in range(10 * scale):
        inp = {'q': qs[(2 * i) % len(qs)].tolist(), 'p': qs[(7 * i + 3) % len(qs)].tolist(), 'r': qs[(5 * i + 1) % len(qs)].tolist()}
        ctx.check('state', inp, cm_call(o_state, inp), nontrivial_key=('st', i))
    ints = [[1, 0, 0, 0], [0, 1, 0, 0], [0, 0, -1, 0], [0, 0, 0, 1], [1, 2, 3, 4], [-2, 0, 5, 1]]
    for i in range(8 * scale):
        p, q = qs[(3 * i) % len(qs)], qs[(5 * i + 1) % len(qs)]
        inp = {'p': p.tolist(), 'q': q.tolist()}
        ctx.check('operands', inp, cm_call(o_operands, inp), nontrivial_key=('f', i))
        inp = {'p': [float(v) for v in ints[i % len(ints)]], 'q': [float(v) for v in ints[(i + 2) % len(ints)]], 'int': True}
        ctx.check('operands', inp, cm_call(o_operands, inp), nontrivial_key=('i', i % len(ints), (i + 2) % len(ints)))
        inp = {'p': p.tolist(), 'q': [float(v) for v in ints[i % len(ints)]], 'int': True}
        ctx.check('operands', inp, cm_call(o_operands, inp), nontrivial_key=('fi', i))
        inp = {'p': [float(v) for v in ints[i % len(ints)]], 'q': q.tolist()}
        ctx.check('operands', inp, cm_call(o_operands, inp), nontrivial_key=('if', i))
    ctx.samples.append({'kind': 'search', 'oracle': 'algebra', 'input': {'p': qs[3].tolist(), 'q': qs[4].tolist(), 'r': qs[5].tolist()}})
