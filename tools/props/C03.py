"""C03 — every estimator always returns valid attitudes, one per input sample."""
import math
import numpy as np
from pysym.gen import Target
from . import common as cm

PID = 'C03'

Q = ['w', 'x', 'y', 'z']
B3 = ['b0', 'b1', 'b2']
G = ['gx', 'gy', 'gz']
A = ['ax', 'ay', 'az']
M = ['mx', 'my', 'mz']
H3 = ['h00', 'h01', 'h02', 'h10', 'h11', 'h12', 'h20', 'h21', 'h22']
A2 = ['ux', 'uy', 'uz']
M2 = ['nx', 'ny', 'nz']
G2 = ['hx', 'hy', 'hz']
LV = ['l0', 'l1', 'l2', 'l3'] + [f'v{i}{j}' for i in range(4) for j in range(4)]     # eigenvalues, eigenvector matrix (rows)
PM = [f'p{i}{j}' for i in range(4) for j in range(4)]                                 # EKF state covariance P
SI = [f's{i}{j}' for i in range(6) for j in range(6)]                                 # stand-in for inv(S), S the 6x6 innovation covariance
MREF3 = [0.6, 0.0, 0.8]          # a rational unit reference field for the filters whose default comes from the WMM


def _eig_post(call):
    def fn(P, v):
        from pysym import symnp
        symnp.EIG_STUB = (v.vec(*LV[:4]), v.mat([LV[4:8], LV[8:12], LV[12:16], LV[16:20]]))
        try:
            return call(P, v)
        finally:
            symnp.EIG_STUB = None
    return fn


def _ekf_marg(P, v):
    from pysym import symnp
    symnp.linalg.inv = lambda a: v.mat([SI[6 * i:6 * i + 6] for i in range(6)])       # instance attribute: shadows the class method
    try:
        f = P.filters.EKF(magnetic_ref=list(MREF3), P=v.mat([PM[0:4], PM[4:8], PM[8:12], PM[12:16]]))
        return f.update(v.vec(*Q), v.vec(*G), v.vec(*A), v.vec(*M))
    finally:
        del symnp.linalg.inv


def targets():
    """one update step (recursive filters) / one estimate (single-frame estimators) through the PUBLIC method, symbolic
    state and samples, concrete default gains and sampling period"""
    F = lambda P: P.filters
    mk = lambda n, i, f, doc='', **k: Target(f'C03_{n}', i, f, doc=doc, **k)

    def mahony(P, v, marg):
        f = F(P).Mahony(b0=v.vec(*B3))
        q = f.updateMARG(v.vec(*Q), v.vec(*G), v.vec(*A), v.vec(*M)) if marg else f.updateIMU(v.vec(*Q), v.vec(*G), v.vec(*A))
        return [q, f.b]
    return [
        mk('mahony_imu', Q + B3 + G + A, lambda P, v: mahony(P, v, False), 'Mahony(b0=b).updateIMU(q, gyr, acc) -> [q_new, b_new]'),
        mk('mahony_marg', Q + B3 + G + A + M, lambda P, v: mahony(P, v, True), 'Mahony(b0=b).updateMARG(q, gyr, acc, mag) -> [q_new, b_new]'),
        mk('madgwick_imu', Q + G + A, lambda P, v: F(P).Madgwick().updateIMU(v.vec(*Q), v.vec(*G), v.vec(*A))),
        mk('madgwick_marg', Q + G + A + M, lambda P, v: F(P).Madgwick().updateMARG(v.vec(*Q), v.vec(*G), v.vec(*A), v.vec(*M))),
        mk('aqua_imu', Q + G + A, lambda P, v: F(P).AQUA().updateIMU(v.vec(*Q), v.vec(*G), v.vec(*A))),
        mk('aqua_marg', Q + G + A + M, lambda P, v: F(P).AQUA().updateMARG(v.vec(*Q), v.vec(*G), v.vec(*A), v.vec(*M))),
        mk('aqua_est_acc', A, lambda P, v: F(P).AQUA().estimate(v.vec(*A))),
        mk('aqua_est_am', A + M, lambda P, v: F(P).AQUA().estimate(v.vec(*A), v.vec(*M))),
        mk('fourati', Q + G + A + M, lambda P, v: F(P).Fourati(magnetic_dip=[0.0, 0.6, 0.0, 0.8]).update(v.vec(*Q), v.vec(*G), v.vec(*A), v.vec(*M))),
        mk('roleq', Q + G + A + M, lambda P, v: F(P).ROLEQ(magnetic_ref=list(MREF3), weights=np.ones(2)).update(v.vec(*Q), v.vec(*G), v.vec(*A), v.vec(*M))),
        mk('angular_closed', Q + G, lambda P, v: F(P).AngularRate().update(v.vec(*Q), v.vec(*G))),
        mk('angular_series1', Q + G, lambda P, v: F(P).AngularRate().update(v.vec(*Q), v.vec(*G), method='series', order=1)),
        mk('angular_series2', Q + G, lambda P, v: F(P).AngularRate().update(v.vec(*Q), v.vec(*G), method='series', order=2)),
        mk('tilt_acc', A, lambda P, v: F(P).Tilt().estimate(v.vec(*A))),
        mk('tilt_am', A + M, lambda P, v: F(P).Tilt().estimate(v.vec(*A), v.vec(*M))),
        mk('tilt_am_angles', A + M, lambda P, v: F(P).Tilt().estimate(v.vec(*A), v.vec(*M), representation='angles')),
        mk('complementary_am', A + M, lambda P, v: F(P).Complementary().am_estimation(v.vec(*A), v.vec(*M))),
        mk('saam', A + M, lambda P, v: F(P).SAAM().estimate(v.vec(*A), v.vec(*M))),
        mk('famc', A + M, lambda P, v: F(P).FAMC().estimate(v.vec(*A), v.vec(*M))),
        mk('fqa', A + M, lambda P, v: F(P).FQA(mag_ref=list(MREF3)).estimate(v.vec(*A), v.vec(*M))),
        mk('triad', A + M, lambda P, v: F(P).TRIAD(v1=[0.0, 0.0, 1.0], v2=list(MREF3)).estimate(v.vec(*A), v.vec(*M))),
        mk('flae_W', H3, lambda P, v: (lambda f: f._P1Hx(v.vec(*H3[0:3])) + f._P2Hy(v.vec(*H3[3:6])) + f._P3Hz(v.vec(*H3[6:9])))(F(P).FLAE()),
           "FLAE's W matrix (the argument of eig) from the rows of H"),
        # two-sample batch through the constructor: W (angles) and the Q property (quaternions from the blended angles)
        mk('complementary_Q', G + A + M + G2 + A2 + M2, lambda P, v: F(P).Complementary(gyr=v.mat([G, G2]), acc=v.mat([A, A2]), mag=v.mat([M, M2])).Q,
           'Complementary(gyr, acc, mag).Q for N = 2 symbolic samples'),
        # the code AFTER the LAPACK call: the eigen-solver is replaced (symnp.EIG_STUB) by symbolic eigenvalues l0..l3 and an
        # eigenvector matrix v_ij of the same inputs, so argmax / column selection / normalisation of the real code are regenerated
        mk('davenport_post', A + M + LV, _eig_post(lambda P, v: F(P).Davenport().estimate(v.vec(*A), v.vec(*M))),
           'Davenport().estimate after eigh (EIG_STUB)'),
        mk('flae_eig_post', A + M + LV, _eig_post(lambda P, v: F(P).FLAE(magnetic_dip=60.0).estimate(v.vec(*A), v.vec(*M), method='eig')),
           "FLAE().estimate(method='eig') after eigh (EIG_STUB)"),
        mk('ecompass_ned', A + M, lambda P, v: P.common.orientation.ecompass(v.vec(*A), v.vec(*M), frame='NED', representation='quaternion')),
        mk('ecompass_enu', A + M, lambda P, v: P.common.orientation.ecompass(v.vec(*A), v.vec(*M), frame='ENU', representation='quaternion')),
        mk('acc2q', A, lambda P, v: P.common.orientation.acc2q(v.vec(*A))),
        # EKF.update: IMU with a symbolic covariance P (3x3 inverse traced by cofactors); MARG with inv(S) of the 6x6 innovation
        # covariance replaced by an ARBITRARY symbolic 6x6 matrix (only that call is stubbed; everything else is the real code)
        mk('ekf_imu', Q + G + A + PM, lambda P, v: F(P).EKF(magnetic_ref=list(MREF3), P=v.mat([PM[0:4], PM[4:8], PM[8:12], PM[12:16]])).update(
            v.vec(*Q), v.vec(*G), v.vec(*A)), 'EKF(P=P).update(q, gyr, acc)'),
        mk('ekf_marg', Q + G + A + M + PM + SI, _ekf_marg, 'EKF(P=P).update(q, gyr, acc, mag) with np.linalg.inv(S) := symbolic 6x6'),
        mk('fkf_meas', Q + A + M, lambda P, v: F(P).FKF().measurement_quaternion_acc_mag(v.vec(*Q), v.vec(*A), v.vec(*M))[0],
           "FKF's measurement quaternion (first output)"),
    ]


# ---- the same targets, printed with `let_in v (fun x => ..)` instead of `let x := v in ..` (see coq/model/C03_letin.v) ----
HEADER_L = """(* GENERATED by /verif/tools/props/C03.py (pregen) from the SAME traced decision trees as C03gen_R.v — do not edit.
   Every `let x := v in b` of C03gen_R.v is printed as `let_in v (fun x => b)`; expressions come from pysym's own printer. *)
From Coq Require Import Reals List.
From AhrsLib Require Import Base.
From AhrsModel Require Import C03_letin.
Import ListNotations.
Open Scope R_scope.
"""


def emit_def_L(name, tree, inputs):
    """mirror of pysym.emit.emit_def (mode R): same sharing analysis, same expression printer, other let syntax"""
    from pysym import emit
    from pysym.sym import Leaf
    acc, order = {}, []
    emit._collect(tree, acc, order)
    shared = {u for u, (e, c) in acc.items() if c > 1 and e.op not in ('const', 'var', 'pi')}
    P = emit.Printer('R')
    counter = [0]

    def lets(exprs, bound, ind):
        txt, n = '', 0
        for e in emit._needed(exprs, bound, shared):
            counter[0] += 1
            nm = f"t{counter[0]}_"
            rhs = P.expr_raw(e)
            P.names[e.uid] = nm
            bound.add(e.uid)
            txt += f"{ind}let_in {rhs} (fun {nm} =>\n"
            n += 1
        return txt, n

    def rec(t, bound, ind):
        if isinstance(t, Leaf):
            if t.kind == 'raise':
                k = t.payload if t.payload in emit.EXN else 'OtherError'
                return f"{ind}Raise {k}\n"
            b2, saved = set(bound), dict(P.names)
            txt, n = lets(t.flat, b2, ind)
            txt += f"{ind}Val [" + '; '.join(P.expr(e) for e in t.flat) + "]" + ')' * n + "\n"
            P.names = saved
            return txt
        b2, saved = set(bound), dict(P.names)
        txt, n = lets(list(t.cond.args), b2, ind)
        txt += f"{ind}(if {P.cond(t.cond)} then\n" + rec(t.t, b2, ind + '  ')
        txt += f"{ind}else\n" + rec(t.f, b2, ind + '  ') + f"{ind})" + ')' * n + "\n"
        P.names = saved
        return txt
    args = ' '.join(emit._ident(v) for v in inputs)
    return f"Definition {name}_L ({args} : R) : outcome R :=\n{rec(tree, set(), '  ')}."


def pregen(ctx):
    """write and compile C03gen_L.v"""
    import os
    txt = [HEADER_L]
    for name, t in ctx.targets.items():
        if t.error:
            continue
        txt.append(f"(* {name}: {t.npaths} path(s) *)\n" + emit_def_L(name, t.tree, t.inputs))
    fn = os.path.join(ctx.build, 'gen', 'C03gen_L.v')
    with open(fn, 'w') as fh:
        fh.write('\n\n'.join(txt) + '\n')
    r = ctx.coqc(fn)
    if r['rc'] != 0:
        ctx.broken.append({'kind': 'translation', 'target': 'C03gen_L', 'error': 'generated file does not compile', 'detail': r['err'][-2000:]})
        ctx.say(f"[gen] C03gen_L.v does not compile:\n{r['err'][-1500:]}")
    else:
        ctx.say(f"[gen] C03gen_L.v (let_in form of the same {len(txt) - 1} decision trees) compiled in {r['s']:.1f}s")


STAGES = [['C03_core.v'],
          ['C03_steps.v', 'C03_partial_L.v', 'C03_full_L.v', 'C03_eq_a.v', 'C03_eq_b.v', 'C03_eq_c.v',
           ('C03_refuted_saam.v', {'finding': 'SAAM.am-quaternion/nan-or-nan-rejected@level'})],
          ['C03_batch.v', 'C03_est_L.v', 'C03_triad_L.v'], ['C03.v']]
# thorough tier only: convertibility of the let_in prints of the three largest proved steps with pysym's prints (one kernel
# conversion of two let-DAGs each: 20 s .. 4 min), and the theorems restated about the _R definitions
STAGES_THOROUGH = [['C03_eq_t1.v', 'C03_eq_t2.v', 'C03_eq_t3.v', 'C03_eq_t4.v'], ['C03_thorough.v']]

LEVEL_TEXT = ("Coq theorems over the regenerated code of 17 of the 19 classes: unit_after_step with every normalised vector proved non-zero "
              "(Mahony IMU/MARG, Madgwick IMU/MARG incl. the null-gradient path, AngularRate closed/series-1); Tilt and Complementary.Q unit "
              "for ALL inputs; TRIAD a proper rotation matrix for non-parallel observations; Davenport unit under the eigh contract; EKF.update "
              "(any P; MARG with inv(S) abstracted) never rejects on the guard and returns v/|v|; 'unit, rejection, or zero vector' on every "
              "path for AQUA, Fourati, ROLEQ, FQA, SAAM, FAMC, FLAE(eig), e-compass, acc2q; one row per sample and the unit invariant of the "
              "scan driver for every history length; all 19 classes explored by the search, step and streaming oracles")
LEVEL_NOTE = "partial: see PARTIAL"
TECHNIQUE = "proof (Coq 8.16) over pysym-regenerated steps + hand driver model + float correspondence + numeric search oracle"
RULE = ("every filter class x architecture x frame x parameter set on (a) random histories, N in {2,3,4,5,7}, per-sensor magnitudes "
        "1e-3..1e3, acc/mag at least 1 degree from parallel, (b) every canonical pose (level at 8 headings, upside-down, x/y axis up and "
        "down; two magnetic references), alone and after two random lead samples; float64 arrays, Python lists and (poses) integer-valued "
        "arrays; non-trivial = distinct (configuration, pose-or-draw)")
TRUSTED = ["Coq 8.16.1 kernel; vm_compute for the float copies", "pysym tracing translator (/verif/tools/pysym)", "the let_in printer emit_def_L in tools/props/C03.py (mirror of pysym.emit.emit_def; checked by the eq_* convertibility lemmas for 14 of 16 used targets)",
           "hand-written driver model coq/model/C03_driver.v (scan / map), tied to the code by the row-count correspondence",
           "stdlib real-number axioms (sig_forall_dec, sig_not_dec, functional_extensionality_dep) and Classical_Prop.classic via Reals trigonometry",
           "real arithmetic stands for binary64 (measured by correspondence, not proved)",
           "LAPACK (inv, eig/eigh, cholesky, solve) and NumPy's global RNG (OLEQ): not modelled; EKF, UKF, Davenport, FLAE, OLEQ, QUEST, FKF are covered by the search oracle only"]
PARTIAL = ("FULL (no totalised division used on the guard): Mahony IMU/MARG, Madgwick IMU/MARG (default gains, dt = 1/100; the null-gradient "
           "path is a separate branch since the guard `gradient_norm > 0`), AngularRate closed / series-1, Tilt (all inputs), Complementary.Q "
           "two-sample batch (all inputs), TRIAD rotmat (premise |w1 x w2| > 0), Davenport after eigh (premise: unit eigenvector columns), "
           "one row per sample for any scan/map driver. PARTIAL 'unit, rejection or - only when the vector handed to the final "
           "normalisation is exactly zero - the zero vector': AQUA updateIMU/updateMARG/estimate, Fourati, ROLEQ, FQA, SAAM, FAMC (both never "
           "None/never reject on the guard), FLAE(eig) after eigh, e-compass NED/ENU, acc2q, AngularRate series-2, EKF.update IMU (any P) and "
           "MARG (any P, np.linalg.inv(S) replaced by an arbitrary symbolic 6x6 matrix - the only stubbed call; on the guard EKF never rejects); "
           "missing there: non-zero-ness (false for SAAM at level poses: refuted theorem). Intermediate divisions (FAMC's alpha, AQUA's "
           "sqrt(2(gz+1)), FLAE/e-compass internals) are Coq's total division: a zero denominator there is NaN in binary64 and is covered only "
           "by the search oracle. Theorems on AQUA updateMARG and FQA are about the let_in print only (convertibility with pysym's print not "
           "checked: > 7 min); all others are restated about pysym's prints (quick: 21 targets, thorough: +4). No theorem: QUEST (Newton loop "
           "not traceable), OLEQ (RNG), UKF (cholesky), FKF's Kalman update, FLAE symbolic/newton roots, Tilt/SAAM rotmat conversions, "
           "AngularRate series >= 2 non-zero-ness; float finiteness over several decades: explored")


def _impl():
    import ahrs.filters as F
    q = lambda c: np.array([c[k] for k in Q]); g = lambda c: np.array([c[k] for k in G])
    a = lambda c: np.array([c[k] for k in A]); m = lambda c: np.array([c[k] for k in M])

    def mahony(c, marg):
        f = F.Mahony(b0=np.array([c[k] for k in B3]))
        r = f.updateMARG(q(c), g(c), a(c), m(c)) if marg else f.updateIMU(q(c), g(c), a(c))
        return [np.asarray(r), f.b]
    return {
        'mahony_imu': lambda c: mahony(c, False), 'mahony_marg': lambda c: mahony(c, True),
        'madgwick_imu': lambda c: F.Madgwick().updateIMU(q(c), g(c), a(c)),
        'madgwick_marg': lambda c: F.Madgwick().updateMARG(q(c), g(c), a(c), m(c)),
        'aqua_imu': lambda c: F.AQUA().updateIMU(q(c), g(c), a(c)),
        'aqua_marg': lambda c: F.AQUA().updateMARG(q(c), g(c), a(c), m(c)),
        'aqua_est_acc': lambda c: np.asarray(F.AQUA().estimate(a(c))),
        'aqua_est_am': lambda c: F.AQUA().estimate(a(c), m(c)),
        'fourati': lambda c: F.Fourati(magnetic_dip=[0.0, 0.6, 0.0, 0.8]).update(q(c), g(c), a(c), m(c)),
        'roleq': lambda c: F.ROLEQ(magnetic_ref=list(MREF3), weights=np.ones(2)).update(q(c), g(c), a(c), m(c)),
        'angular_closed': lambda c: F.AngularRate().update(q(c), g(c)),
        'angular_series1': lambda c: F.AngularRate().update(q(c), g(c), method='series', order=1),
        'angular_series2': lambda c: F.AngularRate().update(q(c), g(c), method='series', order=2),
        'tilt_acc': lambda c: F.Tilt().estimate(a(c)), 'tilt_am': lambda c: F.Tilt().estimate(a(c), m(c)),
        'tilt_am_angles': lambda c: F.Tilt().estimate(a(c), m(c), representation='angles'),
        'complementary_am': lambda c: F.Complementary().am_estimation(a(c), m(c)),
        'saam': lambda c: F.SAAM().estimate(a(c), m(c)), 'famc': lambda c: F.FAMC().estimate(a(c), m(c)),
        'fqa': lambda c: F.FQA(mag_ref=list(MREF3)).estimate(a(c), m(c)),
        'triad': lambda c: F.TRIAD(v1=[0.0, 0.0, 1.0], v2=list(MREF3)).estimate(a(c), m(c)),
        'flae_W': lambda c: (lambda f: f._P1Hx(np.array([c[k] for k in H3[0:3]])) + f._P2Hy(np.array([c[k] for k in H3[3:6]]))
                             + f._P3Hz(np.array([c[k] for k in H3[6:9]])))(F.FLAE()),
        'complementary_Q': lambda c: F.Complementary(gyr=np.array([g(c), [c[k] for k in G2]]), acc=np.array([a(c), [c[k] for k in A2]]),
                                                     mag=np.array([m(c), [c[k] for k in M2]])).Q,
        'davenport_post': lambda c: _with_eig(c, lambda: F.Davenport().estimate(a(c), m(c))),
        'flae_eig_post': lambda c: _with_eig(c, lambda: F.FLAE(magnetic_dip=60.0).estimate(a(c), m(c), method='eig')),
        'ecompass_ned': lambda c: __import__('ahrs').common.orientation.ecompass(a(c), m(c), frame='NED', representation='quaternion'),
        'ecompass_enu': lambda c: __import__('ahrs').common.orientation.ecompass(a(c), m(c), frame='ENU', representation='quaternion'),
        'acc2q': lambda c: __import__('ahrs').common.orientation.acc2q(a(c)),
        'ekf_imu': lambda c: F.EKF(magnetic_ref=list(MREF3), P=np.array([c[k] for k in PM]).reshape(4, 4)).update(q(c), g(c), a(c)),
        'ekf_marg': lambda c: _with_inv(c, lambda: F.EKF(magnetic_ref=list(MREF3), P=np.array([c[k] for k in PM]).reshape(4, 4)).update(q(c), g(c), a(c), m(c))),
        'fkf_meas': lambda c: F.FKF().measurement_quaternion_acc_mag(q(c), a(c), m(c))[0],
    }


def _with_eig(c, call):
    from unittest import mock
    l = np.array([c[k] for k in LV[:4]]); V = np.array([c[k] for k in LV[4:]]).reshape(4, 4)
    with mock.patch('numpy.linalg.eigh', return_value=(l, V)):
        return call()


def _with_inv(c, call):
    from unittest import mock
    Si = np.array([c[k] for k in SI]).reshape(6, 6)
    with mock.patch('numpy.linalg.inv', return_value=Si):
        return call()


def _extra(rng):
    """second sample, eigen-pairs (random eigenvalues, random matrix), covariance P (SPD), stand-in for inv(S)"""
    Bm = rng.standard_normal((4, 4))
    return {**cm.d(G2, rng.standard_normal(3)), **cm.d(A2, rng.standard_normal(3)), **cm.d(M2, rng.standard_normal(3)),
            **cm.d(LV, np.r_[rng.standard_normal(4), rng.standard_normal(16)]), **cm.d(PM, (Bm @ Bm.T / 4 + np.eye(4) * 0.1).reshape(-1)),
            **cm.d(SI, (rng.standard_normal((6, 6)) * 0.3).reshape(-1))}


def correspondence(ctx):
    """regenerated float steps vs the public methods of `import ahrs` on the same bits; then the row count of the driver model"""
    I = _impl()
    n = ctx.n(24, 200)
    cases = []
    for i in range(n):
        qv = cm.rand_unit_quat(ctx.rng)
        s = 10.0 ** ctx.rng.uniform(-2, 2, 3)
        gv, av, mv = (cm.unit(ctx.rng.standard_normal(3)) * s[k] for k in range(3))
        bv = ctx.rng.standard_normal(3) * 0.01
        hv = ctx.rng.standard_normal(9)
        cases.append({**cm.d(Q, qv), **cm.d(B3, bv), **cm.d(G, gv), **cm.d(A, av), **cm.d(M, mv), **cm.d(H3, hv), **_extra(ctx.rng)})
    # canonical measurements on a generic state (exact zeros exercise the sign / branch decisions)
    for av, mv in (([0, 0, 1.0], [0.4, 0, 0.9]), ([0, 0, -2.0], [0.4, 0.1, -0.9]), ([3.0, 0, 0], [0, 0.5, 0.5]), ([0, -1.0, 0], [0.3, 0.2, 0.1])):
        qv = cm.rand_unit_quat(ctx.rng)
        cases.append({**cm.d(Q, qv), **cm.d(B3, [0, 0, 0]), **cm.d(G, [0.1, -0.2, 0.3]), **cm.d(A, av), **cm.d(M, mv), **cm.d(H3, range(9)), **_extra(ctx.rng)})
    loose = {'complementary_Q', 'ekf_imu', 'ekf_marg', 'ecompass_ned', 'ecompass_enu', 'aqua_imu', 'aqua_marg', 'fqa', 'tilt_acc', 'tilt_am', 'tilt_am_angles', 'complementary_am', 'aqua_est_am', 'famc', 'fourati'}
    def one(name):
        t = ctx.targets.get(f'C03_{name}')
        if t is None:
            return
        cs = [{k: c[k] for k in t.inputs} for c in cases]
        ctx.correspond(f'C03_{name}', cs, I[name], tol_ulp=(1 << 22) if name in loose else 4096, abs_tol=1e-13)
    names = list(I)
    base = ctx.evaluations
    patched = [n for n in names if n in ('davenport_post', 'flae_eig_post', 'ekf_marg')]   # these patch numpy.linalg globally
    one(names[0])                                  # sequentially first: fills the evidence samples deterministically
    for n in patched:                              # never concurrently with anything else
        one(n)
    from concurrent.futures import ThreadPoolExecutor
    with ThreadPoolExecutor(max_workers=4) as ex:  # the rest: one coqc (vm_compute) per target, independent of each other
        list(ex.map(one, [n for n in names[1:] if n not in patched]))
    ctx.evaluations = base + sum(ctx.corr_stats.get(f'C03_{n}', {}).get('cases', 0) for n in names)
    # driver model: exactly one row per sample
    Ns = [2, 3, 4, 5, 7]
    pre = ['From Coq Require Import List.', 'From AhrsModel Require Import C03_driver.', 'Import ListNotations.']
    ex = [f"(length (batch nat nat (fun s x => s + x) (fun x => x) (repeat 1 {N})), length (pointwise nat nat (fun x => x) (repeat 1 {N})))" for N in Ns]
    outs = ctx.coq_eval('C03_driver_rows', pre, ex)
    if outs is not None:
        cfgs = configs()
        for N, o in zip(Ns, outs):
            want = [int(x) for x in __import__('re').findall(r'\d+', o)]
            H = rand_hist(ctx.rng, N)
            for cfg in cfgs[N % 3::3]:
                np.random.seed(1)
                r = __import__('vlib.core', fromlist=['call_outcome']).call_outcome(_observe, *cfg, *[h.copy() for h in H])
                if r[0] == 'raise':
                    continue                        # rejections are the search oracle's business
                rows = [len(np.asarray(X)) for _, _, X in r[1]]
                if any(k != want[0] or k != want[1] for k in rows):
                    ctx.disagree('C03_driver_rows', {'cfg': list(map(str, cfg)), 'N': N}, want, rows, 'row count differs from the scan/map driver model')
                else:
                    ctx.agree('C03_driver_rows')


# ------------------------------------------------------------------------------------------
# search oracle: the property statement evaluated on the implementation
# ------------------------------------------------------------------------------------------
TOL = 1e-9
_W2 = [0.3, 0.7]

# parameter sets per class (index = pset).  Only *valid* settings (the property quantifies over valid gains,
# sampling rates and noise settings).  Arrays are rebuilt on every call (FLAE normalises `weights` in place).
PSETS = {
    'Madgwick': [{}, {'gain': 0.5}, {'frequency': 10.0, 'beta': 1.0}, {'Dt': 0.001, 'gain': 0.01, 'q0': [0.5, -0.5, 0.5, 0.5]}],
    'Mahony': [{}, {'k_P': 5.0, 'k_I': 0.1}, {'frequency': 10.0}, {'k_P': 0.1, 'k_I': 2.0, 'Dt': 0.001, 'q0': [0.5, -0.5, 0.5, 0.5]}],
    'EKF': [{}, {'noises': [0.01, 0.04, 0.09]}, {'frequency': 10.0}, {'magnetic_ref': 60.0, 'q0': [0.5, -0.5, 0.5, 0.5]}],
    'UKF': [{}, {'alpha': 0.01}, {'frequency': 10.0}, {'kappa': 1.0, 'beta': 1.0}],
    'AQUA': [{}, {'alpha': 0.1, 'beta': 0.1}, {'adaptive': True}, {'threshold': 0.5, 'frequency': 10.0}],
    'Fourati': [{}, {'gain': 1.0}, {'frequency': 10.0}, {'magnetic_dip': 60.0}],
    'ROLEQ': [{}, {'weights': _W2}, {'frequency': 10.0}, {'magnetic_ref': 60.0}],
    'FKF': [{}, {'sigma_g': 0.1}, {'frequency': 10.0}, {'sigma_a': 0.1, 'sigma_m': 0.2}],
    'Complementary': [{}, {'gain': 0.5}, {'frequency': 10.0}, {'gain': 1.0}],
    'AngularRate': [{}, {'method': 'series', 'order': 2}, {'method': 'integration'}, {'method': 'series', 'order': 4, 'frequency': 10.0}],
    'Tilt': [{}],
    'SAAM': [{}],
    'FAMC': [{}],
    'FQA': [{}, {'mag_ref': [0.3, 0.1, 0.9]}],
    'QUEST': [{}, {'weights': _W2}, {'magnetic_dip': 60.0}],
    'Davenport': [{}, {'weights': _W2}, {'magnetic_dip': 60.0}],
    'FLAE': [{}, {'weights': _W2}, {'magnetic_dip': 60.0}],
    'OLEQ': [{}, {'weights': _W2}, {'magnetic_ref': 60.0}],
    'TRIAD': [{}, {'v2': [0.6, 0.0, 0.8]}],
}
_ARRAY_KW = ('weights', 'q0', 'mag_ref', 'noises', 'v2')

# class -> list of (arch, frames)
ARCHS = {
    'Madgwick': [('IMU', [None]), ('MARG', [None])],
    'Mahony': [('IMU', [None]), ('MARG', [None])],
    'EKF': [('IMU', ['NED', 'ENU']), ('MARG', ['NED', 'ENU'])],
    'UKF': [('IMU', [None])],
    'AQUA': [('acc', ['NED', 'ENU']), ('am', ['NED', 'ENU']), ('IMU', ['NED', 'ENU']), ('MARG', ['NED', 'ENU'])],
    'Fourati': [('MARG', [None])],
    'ROLEQ': [('MARG', ['NED', 'ENU'])],
    'FKF': [('MARG', [None])],
    'Complementary': [('IMU', [None]), ('MARG', [None])],
    'AngularRate': [('gyr-quaternion', [None]), ('gyr-rotmat', [None]), ('gyr-angles', [None])],
    'Tilt': [('acc-quaternion', [None]), ('acc-angles', [None]), ('acc-rotmat', [None]),
             ('am-quaternion', [None]), ('am-angles', [None]), ('am-rotmat', [None])],
    'SAAM': [('am-quaternion', [None]), ('am-rotmat', [None])],
    'FAMC': [('am', [None])],
    'FQA': [('acc', [None]), ('am', [None])],
    'QUEST': [('am', [None])],
    'Davenport': [('am', [None])],
    'FLAE': [('am-symbolic', [None]), ('am-eig', [None]), ('am-newton', [None])],
    'OLEQ': [('am', ['NED', 'ENU'])],
    'TRIAD': [('am-rotmat', ['NED', 'ENU']), ('am-quaternion', ['NED', 'ENU'])],
}


def configs():
    out = []
    for cls, archs in ARCHS.items():
        for arch, frames in archs:
            for fr in frames:
                for ps in range(len(PSETS[cls])):
                    out.append((cls, arch, fr, ps))
    return out


def _ref_kw(cls, ref, dip_deg):
    """the class's own way of being told the magnetic reference the structured histories were generated with"""
    if ref is None:
        return {}
    r = [float(x) for x in ref]
    if cls == 'FQA':
        return {'mag_ref': np.array(r)}
    if cls in ('ROLEQ', 'OLEQ', 'EKF'):
        return {'magnetic_ref': np.array(r)}
    if cls == 'TRIAD':
        return {'v2': np.array(r)}
    if cls == 'QUEST':
        return {'magnetic_dip': np.array(r)}
    if cls == 'Fourati':
        return {'magnetic_dip': np.array([0.0] + r)}
    if cls in ('Davenport', 'FLAE'):
        return {'magnetic_dip': float(dip_deg)}
    return {}


def _observe(cls, arch, frame, ps, gyr, acc, mag, ref=None, dip_deg=0.0):
    """build the filter through its public constructor; return [(attribute, kind, value)]"""
    import ahrs.filters as F
    kw = {}
    for k, v in PSETS[cls][ps].items():
        kw[k] = np.array(v, dtype=float) if k in _ARRAY_KW else v
    for k, v in _ref_kw(cls, ref, dip_deg).items():
        kw.pop('magnetic_dip', None); kw.pop('magnetic_ref', None); kw.pop('mag_ref', None); kw.pop('v2', None)
        kw[k] = v
    if frame is not None:
        kw['frame'] = frame
    base, _, rep = arch.partition('-')
    C = getattr(F, cls)
    if cls in ('Madgwick', 'Mahony', 'EKF', 'Complementary'):
        o = C(gyr=gyr, acc=acc, **kw) if base == 'IMU' else C(gyr=gyr, acc=acc, mag=mag, **kw)
        if cls == 'Complementary':
            return [('W', 'angles', o.W), ('Q', 'quaternion', o.Q)]
        return [('Q', 'quaternion', o.Q)]
    if cls == 'UKF':
        return [('Q', 'quaternion', C(gyr=gyr, acc=acc, **kw).Q)]
    if cls == 'AQUA':
        a = {'acc': dict(acc=acc), 'am': dict(acc=acc, mag=mag), 'IMU': dict(acc=acc, gyr=gyr),
             'MARG': dict(acc=acc, gyr=gyr, mag=mag)}[base]
        return [('Q', 'quaternion', C(**a, **kw).Q)]
    if cls in ('Fourati', 'ROLEQ', 'FKF'):
        return [('Q', 'quaternion', C(gyr=gyr, acc=acc, mag=mag, **kw).Q)]
    if cls == 'AngularRate':
        o = C(gyr=gyr, representation=rep, **kw)
        attr = {'quaternion': 'Q', 'rotmat': 'R', 'angles': 'W'}[rep]
        return [(attr, rep, getattr(o, attr))]
    if cls == 'Tilt':
        o = C(acc=acc, representation=rep, **kw) if base == 'acc' else C(acc=acc, mag=mag, representation=rep, **kw)
        return [('Q', rep, o.Q)]
    if cls == 'SAAM':
        o = C(acc=acc, mag=mag, representation=rep)
        return [('Q', 'quaternion', o.Q)] + ([('A', 'rotmat', o.A)] if rep == 'rotmat' else [])
    if cls == 'FQA':
        o = C(acc=acc, **kw) if base == 'acc' else C(acc=acc, mag=mag, **kw)
        return [('Q', 'quaternion', o.Q)]
    if cls == 'FLAE':
        return [('Q', 'quaternion', C(acc=acc, mag=mag, method=rep, **kw).Q)]
    if cls == 'TRIAD':
        return [('A', rep, C(w1=acc, w2=mag, representation=rep, **kw).A)]
    return [('Q', 'quaternion', C(acc=acc, mag=mag, **kw).Q)]        # FAMC QUEST Davenport OLEQ


def _validate(kind, X, N):
    """None when X is N valid attitudes of the given kind, else (failure-kind, observed)"""
    if X is None:
        return ('shape', 'None')
    X = np.asarray(X)
    want = {'quaternion': (N, 4), 'rotmat': (N, 3, 3), 'angles': (N, 3)}[kind]
    if X.shape != want:
        return ('shape', list(X.shape))
    if X.dtype.kind == 'c':
        return ('complex', str(X.dtype))
    if X.dtype.kind != 'f':
        return ('dtype', str(X.dtype))
    if not np.all(np.isfinite(X)):
        return ('nonfinite', X[~np.all(np.isfinite(X.reshape(N, -1)), axis=1)][:1])
    if kind == 'quaternion':
        n = np.linalg.norm(X, axis=1)
        i = int(np.argmax(np.abs(n - 1)))
        if abs(n[i] - 1) > TOL:
            return ('non-unit', {'index': i, 'norm': float(n[i])})
    if kind == 'rotmat':
        r = max(float(np.max(np.abs(X @ np.transpose(X, (0, 2, 1)) - np.eye(3)))), float(np.max(np.abs(np.linalg.det(X) - 1))))
        if r > TOL:
            return ('not-SO3', r)
    return None


NANFAM = 'nan-or-nan-rejected'


def _nan_rejected(r):
    """a NaN produced inside a filter that surfaces as the Quaternion/QuaternionArray constructor's rejection
    ('... cannot have NaN or infinite values') is the same defect as a NaN row in the output: one tag family"""
    return r[0] == 'raise' and r[1] == 'ValueError' and 'nan' in str(r[2]).lower()


def o_attitudes(inp):
    """one filter class x architecture x frame x parameter set on one sensor history: exactly N attitudes, each a real,
    finite unit quaternion / proper rotation matrix / finite angle triple"""
    from vlib.core import call_outcome
    cls, arch, frame, ps = inp['cls'], inp['arch'], inp.get('frame'), int(inp.get('pset', 0))
    gyr, acc, mag = (np.array(inp[k], dtype=float) for k in ('gyr', 'acc', 'mag'))
    N = len(acc)
    form = inp.get('form', 'float64')
    region = inp.get('region', 'generic')
    where = f"{cls}.{arch}" + (f".{frame}" if frame else '')
    suffix = '' if region == 'generic' else f"@{region}"
    np.random.seed(12345)                      # OLEQ draws its start vector from NumPy's global generator
    if form == 'list':
        args = (gyr.tolist(), acc.tolist(), mag.tolist())
    elif form == 'int':
        args = (gyr.astype(int), acc.astype(int), mag.astype(int))
        suffix += '+int'
    else:
        args = (gyr.copy(), acc.copy(), mag.copy())
    r = call_outcome(_observe, cls, arch, frame, ps, *args, inp.get('ref'), inp.get('dip_deg', 0.0))
    if _nan_rejected(r):
        return {'tag': f"{where}/{NANFAM}{suffix}", 'observed': list(r[1:]), 'expected': f'{N} valid attitudes'}
    if r[0] == 'raise':
        return {'tag': f"{where}/raises-{r[1]}{suffix}", 'observed': list(r[1:]), 'expected': f'{N} valid attitudes'}
    for attr, kind, X in r[1]:
        bad = _validate(kind, X, N)
        if bad is not None:
            what = NANFAM if bad[0] == 'nonfinite' else f"{attr}-{bad[0]}"
            return {'tag': f"{where}/{what}{suffix}", 'observed': bad[1],
                    'expected': f'{N} real finite {kind} rows (unit norm / SO(3) within {TOL})'}
    return None


# ---- one update step through the public method (the objects of the unit_after_step theorems) ----------------------
STEPS = {
    'Madgwick.updateIMU': lambda F, q, g, a, m: F.Madgwick().updateIMU(q, g, a),
    'Madgwick.updateMARG': lambda F, q, g, a, m: F.Madgwick().updateMARG(q, g, a, m),
    'Mahony.updateIMU': lambda F, q, g, a, m: F.Mahony().updateIMU(q, g, a),
    'Mahony.updateMARG': lambda F, q, g, a, m: F.Mahony().updateMARG(q, g, a, m),
    'AQUA.updateIMU': lambda F, q, g, a, m: F.AQUA().updateIMU(q, g, a),
    'AQUA.updateMARG': lambda F, q, g, a, m: F.AQUA().updateMARG(q, g, a, m),
    'Fourati.update': lambda F, q, g, a, m: F.Fourati().update(q, g, a, m),
    'ROLEQ.update': lambda F, q, g, a, m: F.ROLEQ().update(q, g, a, m),
    'AngularRate.update': lambda F, q, g, a, m: F.AngularRate().update(q, g),
    'AngularRate.update-series3': lambda F, q, g, a, m: F.AngularRate().update(q, g, method='series', order=3),
    'EKF.update': lambda F, q, g, a, m: F.EKF().update(q, g, a),
}
# single-sample entry points of the single-frame estimators (generic samples only: the canonical poses are exercised,
# with their recorded findings, through the batch constructors)
ESTIMATES = {
    'Tilt.estimate': lambda F, q, g, a, m: F.Tilt().estimate(a, m),
    'Tilt.estimate-acc': lambda F, q, g, a, m: F.Tilt().estimate(a),
    'AQUA.estimate': lambda F, q, g, a, m: F.AQUA().estimate(a, m),
    'SAAM.estimate': lambda F, q, g, a, m: F.SAAM().estimate(a, m),
    'FAMC.estimate': lambda F, q, g, a, m: F.FAMC().estimate(a, m),
    'FQA.estimate': lambda F, q, g, a, m: F.FQA().estimate(a, m),
    'QUEST.estimate': lambda F, q, g, a, m: F.QUEST().estimate(a, m),
    'Davenport.estimate': lambda F, q, g, a, m: F.Davenport().estimate(a, m),
    'FLAE.estimate': lambda F, q, g, a, m: F.FLAE().estimate(a, m),
    'FLAE.estimate-eig': lambda F, q, g, a, m: F.FLAE().estimate(a, m, method='eig'),
    'OLEQ.estimate': lambda F, q, g, a, m: F.OLEQ().estimate(a, m),
    'TRIAD.estimate-quaternion': lambda F, q, g, a, m: F.TRIAD().estimate(a, m, representation='quaternion'),
}
STEPS.update(ESTIMATES)


def o_step(inp):
    """one update step from a unit quaternion on non-zero samples returns a real, finite unit quaternion"""
    import ahrs.filters as F
    from vlib.core import call_outcome
    q, g, a, m = (np.array(inp[k], dtype=float) for k in ('q', 'gyr', 'acc', 'mag'))
    kind = inp.get('kind', 'generic')
    suffix = '' if kind == 'generic' else f'@{kind}'
    np.random.seed(12345)
    r = call_outcome(STEPS[inp['cls']], F, q.copy(), g.copy(), a.copy(), m.copy())
    if _nan_rejected(r):
        return {'tag': f"{inp['cls']}/{NANFAM}{suffix}", 'observed': list(r[1:])}
    if r[0] == 'raise':
        return {'tag': f"{inp['cls']}/raises-{r[1]}{suffix}", 'observed': list(r[1:])}
    bad = _validate('quaternion', np.asarray(r[1])[None] if np.ndim(r[1]) == 1 else r[1], 1)
    if bad is not None:
        return {'tag': f"{inp['cls']}/{NANFAM if bad[0] == 'nonfinite' else bad[0]}{suffix}", 'observed': bad[1], 'expected': 'a real finite unit quaternion'}
    return None


def step_cases(rng, n):
    out = []
    for cls in STEPS:
        for k in range(n):
            q = cm.rand_unit_quat(rng)
            g, a, m = rand_hist(rng, 1)
            out.append({'cls': cls, 'kind': 'generic', 'q': q.tolist(), 'gyr': g[0].tolist(), 'acc': a[0].tolist(), 'mag': m[0].tolist()})
        if cls in ESTIMATES:
            continue
        # thin regions: measured gravity exactly opposite to / exactly equal to the gravity predicted by the state
        for q, a, kind in (([1.0, 0, 0, 0], [0, 0, -1.0], 'antipodal'), ([0, 1.0, 0, 0], [0, 0, 2.0], 'antipodal'),
                           ([0, 0, 1.0, 0], [0, 0, 0.5], 'antipodal'), ([1.0, 0, 0, 0], [0, 0, 3.0], 'aligned'),
                           ([0.5, 0.5, 0.5, 0.5], [2.0, 0, 0], 'aligned'), ([0.5, 0.5, 0.5, 0.5], [-2.0, 0, 0], 'antipodal')):
            out.append({'cls': cls, 'kind': kind, 'q': list(map(float, q)), 'gyr': [0.01, -0.02, 0.03], 'acc': list(map(float, a)),
                        'mag': [0.4, 0.1, -0.3]})
    return out


def _call_step(inp):
    from vlib.core import call_outcome
    r = call_outcome(o_step, inp)
    if r[0] == 'raise':
        return {'tag': f"{inp['cls']}/oracle-raises-{r[1]}", 'observed': list(r[1:])}
    return r[1]


# ---- streaming: the per-sample public entry points driven sample by sample from one instance ------------------------
# name -> (class, call, frames, constructor variants).  Every sensor combination the method signature allows; the instance is
# data-less ('none') or, where the class has two architectures, was built from IMU / MARG data and is then fed the OTHER (or the
# same) combination through the method.
_BOTH = ('none', 'IMU', 'MARG')
STREAMS = {
    'EKF.update': ('EKF', lambda f, q, g, a, m: f.update(q, g, a), ('NED', 'ENU'), _BOTH),
    'EKF.update+mag': ('EKF', lambda f, q, g, a, m: f.update(q, g, a, m), ('NED', 'ENU'), _BOTH),
    'EKF.update+mag-kw': ('EKF', lambda f, q, g, a, m: f.update(q, g, a, mag=m, dt=0.02), ('NED',), _BOTH),
    'Madgwick.updateIMU': ('Madgwick', lambda f, q, g, a, m: f.updateIMU(q, g, a), (None,), _BOTH),
    'Madgwick.updateMARG': ('Madgwick', lambda f, q, g, a, m: f.updateMARG(q, g, a, m), (None,), _BOTH),
    'Mahony.updateIMU': ('Mahony', lambda f, q, g, a, m: f.updateIMU(q, g, a), (None,), _BOTH),
    'Mahony.updateMARG': ('Mahony', lambda f, q, g, a, m: f.updateMARG(q, g, a, m), (None,), _BOTH),
    'UKF.update': ('UKF', lambda f, q, g, a, m: f.update(q, g, a), (None,), ('none', 'IMU')),
    'AQUA.updateIMU': ('AQUA', lambda f, q, g, a, m: f.updateIMU(q, g, a), ('NED', 'ENU'), ('none',)),
    'AQUA.updateMARG': ('AQUA', lambda f, q, g, a, m: f.updateMARG(q, g, a, m), ('NED', 'ENU'), ('none',)),
    'Fourati.update': ('Fourati', lambda f, q, g, a, m: f.update(q, g, a, m), (None,), ('none', 'MARG')),
    'ROLEQ.update': ('ROLEQ', lambda f, q, g, a, m: f.update(q, g, a, m), ('NED', 'ENU'), ('none', 'MARG')),
    'AngularRate.update': ('AngularRate', lambda f, q, g, a, m: f.update(q, g), (None,), ('none',)),
    'AngularRate.update-series2': ('AngularRate', lambda f, q, g, a, m: f.update(q, g, method='series', order=2), (None,), ('none',)),
}


def _stream(key, frame, ctor, q, gyr, acc, mag):
    import ahrs.filters as F
    cls, call, _, _ = STREAMS[key]
    kw = {} if frame is None else {'frame': frame}
    C = getattr(F, cls)
    if ctor == 'IMU':
        f = C(gyr=gyr.copy(), acc=acc.copy(), **kw)
    elif ctor == 'MARG':
        f = C(gyr=gyr.copy(), acc=acc.copy(), mag=mag.copy(), **kw)
    else:
        f = C(**kw)
    out = []
    for t in range(len(gyr)):
        q = call(f, q, gyr[t].copy(), acc[t].copy(), mag[t].copy())
        out.append(np.array(q))
        q = np.asarray(q, dtype=float)
    return out


def o_stream(inp):
    """a per-sample public entry point (update / updateIMU / updateMARG), called sample after sample on one instance with
    every sensor combination its signature allows, returns a real finite unit quaternion on every call (no exception)"""
    from vlib.core import call_outcome
    key, frame, ctor = inp['key'], inp.get('frame'), inp.get('ctor', 'none')
    q, gyr, acc, mag = (np.array(inp[k], dtype=float) for k in ('q', 'gyr', 'acc', 'mag'))
    where = f"{key}[{ctor}]" + (f".{frame}" if frame else '')
    r = call_outcome(_stream, key, frame, ctor, q, gyr, acc, mag)
    if _nan_rejected(r):
        return {'tag': f"{where}/{NANFAM}", 'observed': list(r[1:])}
    if r[0] == 'raise':
        return {'tag': f"{where}/raises-{r[1]}", 'observed': list(r[1:]), 'expected': 'a unit quaternion per call'}
    for t, X in enumerate(r[1]):
        bad = _validate('quaternion', X[None] if np.ndim(X) == 1 else X, 1)
        if bad is not None:
            return {'tag': f"{where}/{NANFAM if bad[0] == 'nonfinite' else bad[0]}", 'observed': {'call': t, 'what': bad[1]},
                    'expected': 'a real finite unit quaternion per call'}
    return None


def stream_cases(rng, n):
    out = []
    for key, (cls, call, frames, ctors) in STREAMS.items():
        for fr in frames:
            for ctor in ctors:
                for k in range(n):
                    g, a, m = rand_hist(rng, NS[k % len(NS)])
                    out.append({'key': key, 'frame': fr, 'ctor': ctor, 'q': cm.rand_unit_quat(rng).tolist(),
                                'gyr': g.tolist(), 'acc': a.tolist(), 'mag': m.tolist()})
    return out


def _call_stream(inp):
    from vlib.core import call_outcome
    r = call_outcome(o_stream, inp)
    if r[0] == 'raise':
        return {'tag': f"{inp['key']}/oracle-raises-{r[1]}", 'observed': list(r[1:])}
    return r[1]


ORACLES = {'attitudes': o_attitudes, 'step': o_step, 'stream': o_stream}

NS = (2, 3, 4, 5, 7)

# ---- histories -----------------------------------------------------------------------------
DIP = math.radians(64.0)


def _snap(v):
    v = np.array(v, dtype=float)
    v[np.abs(v) < 1e-15] = 0.0
    for t in (1.0, -1.0):
        v[np.abs(v - t) < 1e-15] = t
    return v


def _Rz(a): return np.array([[math.cos(a), -math.sin(a), 0], [math.sin(a), math.cos(a), 0], [0, 0, 1.0]])
def _Rx(a): return np.array([[1.0, 0, 0], [0, math.cos(a), -math.sin(a)], [0, math.sin(a), math.cos(a)]])
def _Ry(a): return np.array([[math.cos(a), 0, math.sin(a)], [0, 1.0, 0], [-math.sin(a), 0, math.cos(a)]])


def poses():
    """canonical poses as (region, name, body gravity direction, body magnetic direction): level at 8 headings, upside-down,
    each body axis vertical; gravity reference +z, magnetic reference north/down (dip 64 deg) and its ENU twin"""
    out = []
    mrefs = {'ned': np.array([math.cos(DIP), 0.0, math.sin(DIP)]), 'enu': np.array([0.0, math.cos(DIP), -math.sin(DIP)])}
    for mname, mref in mrefs.items():
        def add(region, name, R):
            out.append((region, f"{name}-{mname}", _snap(R.T @ np.array([0.0, 0.0, 1.0])), _snap(R.T @ mref)))
        for k in range(8):
            add('level', f"level-h{45 * k}", _Rz(k * math.pi / 4))
        for k in (0, 1, 2, 5):
            add('inverted', f"inverted-h{45 * k}", _Rz(k * math.pi / 4) @ _Rx(math.pi))
        for s, nm in ((1, 'up'), (-1, 'down')):
            for k in (0, 3):
                add('x-vertical', f"x-{nm}-h{45 * k}", _Rz(k * math.pi / 4) @ _Ry(-s * math.pi / 2))
                add('y-vertical', f"y-{nm}-h{45 * k}", _Rz(k * math.pi / 4) @ _Rx(s * math.pi / 2))
    return out


def _angle_ok(a, m):
    c = abs(float(a @ m)) / (np.linalg.norm(a) * np.linalg.norm(m))
    return c < math.cos(math.radians(1.0))


def rand_hist(rng, N):
    """random history: every sample non-zero, acc/mag at least 1 degree from parallel, magnitudes 1e-3..1e3 per sensor"""
    sg, sa, sm = (10.0 ** rng.uniform(-3, 3) for _ in range(3))
    gyr = rng.standard_normal((N, 3)) * sg
    acc = np.zeros((N, 3)); mag = np.zeros((N, 3))
    for i in range(N):
        while True:
            a, m = cm.unit(rng.standard_normal(3)), cm.unit(rng.standard_normal(3))
            if _angle_ok(a, m):
                break
        acc[i], mag[i] = a * sa * rng.uniform(0.5, 2), m * sm * rng.uniform(0.5, 2)
    return gyr, acc, mag


def pose_hist(rng, pose, N, lead=0, integer=False):
    """N samples of one canonical pose (exact directions, random positive magnitudes), optionally preceded by `lead` random
    samples so that a recursive filter's state is generic when the canonical measurement arrives"""
    _, _, a, m = pose
    sa, sm = 10.0 ** rng.uniform(-3, 3), 10.0 ** rng.uniform(-3, 3)
    gyr = rng.standard_normal((N + lead, 3)) * 10.0 ** rng.uniform(-3, 1)
    if integer:           # exactly representable integer-valued samples (handed over as an integer array)
        a, m = np.round(a * 10), np.round(m * 10)
        sa = sm = 1.0
        gyr = np.round(rng.uniform(1, 3, (N + lead, 3))) * rng.choice([-1.0, 1.0], (N + lead, 3))
    acc = np.tile(a * sa, (N + lead, 1)); mag = np.tile(m * sm, (N + lead, 1))
    if lead:
        g0, a0, m0 = rand_hist(rng, lead)
        acc[:lead], mag[:lead] = a0, m0
    return gyr, acc, mag


def tilt_hist(rng, kind, N):
    """thin region: the device is only pitched (a_y == 0 exactly) or only rolled (a_x == 0 exactly) by an integer number of
    degrees, upright or upside-down, any heading: quotients such as a_z / sqrt(1 - a_x^2) are +-1 up to rounding"""
    mref = np.array([math.cos(DIP), 0.0, math.sin(DIP)])
    acc = np.zeros((N, 3)); mag = np.zeros((N, 3))
    sa, sm = 10.0 ** rng.uniform(-3, 3), 10.0 ** rng.uniform(-3, 3)
    for i in range(N):
        ang = math.radians(int(rng.integers(1, 90)))
        flip = float(rng.choice([-1.0, 1.0]))
        head = math.radians(float(rng.choice([40.0, 200.0, 305.0])))
        if kind == 'pitch-only':
            acc[i] = [math.sin(ang), 0.0, flip * math.cos(ang)]
            R = _Rz(head) @ _Ry(-ang if flip > 0 else math.pi + ang)
        else:
            acc[i] = [0.0, math.sin(ang), flip * math.cos(ang)]
            R = _Rz(head) @ _Rx(ang if flip > 0 else math.pi - ang)
        mag[i] = R.T @ mref
    gyr = rng.standard_normal((N, 3)) * 10.0 ** rng.uniform(-3, 1)
    return gyr, acc * sa, mag * sm


def spin_hist(rng, N=25):
    """thin region: a fast SUSTAINED rotation (60 rad/s about a fixed random axis) so that integrated angles leave [-2pi, 2pi]
    within the record (angle-accumulating filters: Complementary, AngularRate 'integration')"""
    g, a, m = rand_hist(rng, N)
    axis = cm.unit(rng.standard_normal(3))
    return np.tile(axis * 60.0, (N, 1)), a, m


def aligned_hists(rng):
    """structured noise-free histories: heading exactly aligned / anti-aligned / at +-90 deg with the magnetic reference's heading
    (yaw = 0, 90, 180, 270 deg; images with exact zeros kept), several tilts and dips, both gravity conventions; the reference is handed
    to the estimators that take one.  Quotients such as the azimuth cosine are +-1 (or 0) up to rounding there."""
    out = []
    for gsign in (1.0, -1.0):
        for dip_deg in (64.0, -30.0, 0.0):
            dec = float(rng.choice([0.0, rng.uniform(-math.pi, math.pi)]))
            dip = math.radians(dip_deg)
            ref = _snap([math.cos(dip) * math.cos(dec), math.cos(dip) * math.sin(dec), math.sin(dip)])
            def hist(rows):
                N = len(rows)
                sa, sm = 10.0 ** rng.uniform(-2, 2, (N, 1)), 10.0 ** rng.uniform(-2, 2, (N, 1))
                return (rng.standard_normal((N, 3)) * 0.1, np.array([r[0] for r in rows]) * sa, np.array([r[1] for r in rows]) * sm)

            def image(R):
                return _snap(R.T @ np.array([0.0, 0.0, gsign])), _snap(R.T @ ref)
            for yaw, ntilt in ((0.0, 6), (180.0, 4), (90.0, 2), (270.0, 2)):
                Rz = np.round(_Rz(math.radians(yaw)))                                   # exact quarter turns about z
                out.append((ref, dip_deg, yaw == 0.0 and 'must' or 'exact', hist([image(Rz)] * 2)))
                rows = [image(Rz @ _Ry(rng.uniform(-1.4, 1.4)) @ _Rx(rng.uniform(-3.0, 3.0))) for _ in range(ntilt)]
                out.append((ref, dip_deg, yaw == 0.0 and 'must' or 'tilted', hist(rows)))
    return out


SCALES = (-12, -9, -6, -3, 0, 3, 6, 9, 12)


def scale_region(ea, em):
    f = lambda e: '-' if e <= -6 else '+' if e >= 6 else '0'
    return f"scale-a{f(ea)}m{f(em)}"


def scale_hist(rng, ea, em, N=3):
    """magnitude sweep: generic directions, acc scaled by 10^ea and mag by 10^em independently (tesla / gauss / nT, g / m s^-2 / mg):
    tiny NON-ZERO magnitudes are inside the property's domain"""
    g, a, m = rand_hist(rng, N)
    a = a / np.linalg.norm(a, axis=1)[:, None] * 10.0 ** ea * rng.uniform(1, 9)
    m = m / np.linalg.norm(m, axis=1)[:, None] * 10.0 ** em * rng.uniform(1, 9)
    return rng.standard_normal((N, 3)) * 0.1, a, m


def _inp(cfg, region, H):
    cls, arch, fr, ps = cfg
    g, a, m = H
    return {'cls': cls, 'arch': arch, 'frame': fr, 'pset': ps, 'region': region,
            'gyr': g.tolist(), 'acc': a.tolist(), 'mag': m.tolist()}


def search(ctx, scale):
    cfgs = configs()
    P = poses()
    nrand = 3 * scale
    for ci, cfg in enumerate(cfgs):
        for j in range(nrand):
            N = NS[(ci + j) % len(NS)]
            inp = _inp(cfg, 'generic', rand_hist(ctx.rng, N))
            if (ci + j) % 4 == 3:
                inp['form'] = 'list'
            ctx.check('attitudes', inp, _call(inp), nontrivial_key=(cfg, 'generic', j))
        for pi, pose in enumerate(P):
            if scale == 1 and (pi + ci) % 2:         # quick tier: every second pose per configuration (all poses over two configs)
                continue
            lead = (0, 2)[(pi // 2 + ci) % 2]
            N = NS[(ci + pi) % len(NS)]
            inp = _inp(cfg, pose[0], pose_hist(ctx.rng, pose, N, lead))
            if (ci + pi) % 5 == 0:
                inp['form'] = 'list'
            inp['pose'] = pose[1]
            ctx.check('attitudes', inp, _call(inp), nontrivial_key=(cfg, pose[1], lead))
        for j in range(2 * scale):
            kind = ('pitch-only', 'roll-only')[(ci + j) % 2]
            inp = _inp(cfg, kind, tilt_hist(ctx.rng, kind, 7))
            ctx.check('attitudes', inp, _call(inp), nontrivial_key=(cfg, kind, j))
        for j in range(scale):
            inp = _inp(cfg, 'spin', spin_hist(ctx.rng))
            ctx.check('attitudes', inp, _call(inp), nontrivial_key=(cfg, 'spin', j))
    AH = aligned_hists(ctx.rng)
    for ci, cfg in enumerate(cfgs):
        for k, (ref, dip_deg, kind, H) in enumerate(AH):
            if scale == 1 and kind != 'must' and (k + ci) % 3:
                continue
            inp = _inp(cfg, 'aligned', H)
            inp['ref'], inp['dip_deg'] = ref.tolist(), dip_deg
            ctx.check('attitudes', inp, _call(inp), nontrivial_key=(cfg, 'aligned', k))
        for j in range(len(SCALES) * (1 if scale == 1 else 3)):
            ea = SCALES[(ci + j) % len(SCALES)]
            em = SCALES[(2 * ci + 5 * j + j // len(SCALES)) % len(SCALES)]
            inp = _inp(cfg, scale_region(ea, em), scale_hist(ctx.rng, ea, em))
            ctx.check('attitudes', inp, _call(inp), nontrivial_key=(cfg, 'scale', ea, em))
    for inp in stream_cases(ctx.rng, 3 * scale):
        ctx.check('stream', inp, _call_stream(inp), nontrivial_key=(inp['key'], inp['frame'], inp['ctor'], tuple(np.round(inp['q'], 6))))
    for inp in step_cases(ctx.rng, 6 * scale):
        ctx.check('step', inp, _call_step(inp), nontrivial_key=(inp['cls'], inp['kind'], tuple(np.round(inp['q'], 6))))
    if len(ctx.samples) < 8:
        ctx.samples.append({'kind': 'search', 'oracle': 'attitudes',
                            'input': {k: v for k, v in _inp(cfgs[0], 'generic', rand_hist(ctx.rng, 2)).items()}})


def _call(inp):
    from vlib.core import call_outcome
    r = call_outcome(o_attitudes, inp)
    if r[0] == 'raise':
        return {'tag': f"{inp['cls']}.{inp['arch']}/oracle-raises-{r[1]}", 'observed': list(r[1:])}
    return r[1]
