"""C03 — every estimator always returns valid attitudes, one per input sample."""
import math
import numpy as np
from pysym.gen import Target
from . import common as cm

PID = 'C03'

Q = ['w', 'x', 'y', 'z']
B3 = ['b0', 'b1', 'b2']
G = ['gx', 'gy', 'gz']
A = ['ax', 'ay', 'az']
M = ['mx', 'my', 'mz']
H3 = ['h00', 'h01', 'h02', 'h10', 'h11', 'h12', 'h20', 'h21', 'h22']
MREF3 = [0.6, 0.0, 0.8]          # a rational unit reference field for the filters whose default comes from the WMM


def targets():
    """one update step (recursive filters) / one estimate (single-frame estimators) through the PUBLIC method, symbolic
    state and samples, concrete default gains and sampling period"""
    F = lambda P: P.filters
    mk = lambda n, i, f, doc='', **k: Target(f'C03_{n}', i, f, doc=doc, **k)

    def mahony(P, v, marg):
        f = F(P).Mahony(b0=v.vec(*B3))
        q = f.updateMARG(v.vec(*Q), v.vec(*G), v.vec(*A), v.vec(*M)) if marg else f.updateIMU(v.vec(*Q), v.vec(*G), v.vec(*A))
        return [q, f.b]
    return [
        mk('mahony_imu', Q + B3 + G + A, lambda P, v: mahony(P, v, False), 'Mahony(b0=b).updateIMU(q, gyr, acc) -> [q_new, b_new]'),
        mk('mahony_marg', Q + B3 + G + A + M, lambda P, v: mahony(P, v, True), 'Mahony(b0=b).updateMARG(q, gyr, acc, mag) -> [q_new, b_new]'),
        mk('madgwick_imu', Q + G + A, lambda P, v: F(P).Madgwick().updateIMU(v.vec(*Q), v.vec(*G), v.vec(*A))),
        mk('madgwick_marg', Q + G + A + M, lambda P, v: F(P).Madgwick().updateMARG(v.vec(*Q), v.vec(*G), v.vec(*A), v.vec(*M))),
        mk('aqua_imu', Q + G + A, lambda P, v: F(P).AQUA().updateIMU(v.vec(*Q), v.vec(*G), v.vec(*A))),
        mk('aqua_marg', Q + G + A + M, lambda P, v: F(P).AQUA().updateMARG(v.vec(*Q), v.vec(*G), v.vec(*A), v.vec(*M))),
        mk('aqua_est_acc', A, lambda P, v: F(P).AQUA().estimate(v.vec(*A))),
        mk('aqua_est_am', A + M, lambda P, v: F(P).AQUA().estimate(v.vec(*A), v.vec(*M))),
        mk('fourati', Q + G + A + M, lambda P, v: F(P).Fourati(magnetic_dip=[0.0, 0.6, 0.0, 0.8]).update(v.vec(*Q), v.vec(*G), v.vec(*A), v.vec(*M))),
        mk('roleq', Q + G + A + M, lambda P, v: F(P).ROLEQ(magnetic_ref=list(MREF3), weights=np.ones(2)).update(v.vec(*Q), v.vec(*G), v.vec(*A), v.vec(*M))),
        mk('angular_closed', Q + G, lambda P, v: F(P).AngularRate().update(v.vec(*Q), v.vec(*G))),
        mk('angular_series1', Q + G, lambda P, v: F(P).AngularRate().update(v.vec(*Q), v.vec(*G), method='series', order=1)),
        mk('angular_series2', Q + G, lambda P, v: F(P).AngularRate().update(v.vec(*Q), v.vec(*G), method='series', order=2)),
        mk('tilt_acc', A, lambda P, v: F(P).Tilt().estimate(v.vec(*A))),
        mk('tilt_am', A + M, lambda P, v: F(P).Tilt().estimate(v.vec(*A), v.vec(*M))),
        mk('tilt_am_angles', A + M, lambda P, v: F(P).Tilt().estimate(v.vec(*A), v.vec(*M), representation='angles')),
        mk('complementary_am', A + M, lambda P, v: F(P).Complementary().am_estimation(v.vec(*A), v.vec(*M))),
        mk('saam', A + M, lambda P, v: F(P).SAAM().estimate(v.vec(*A), v.vec(*M))),
        mk('famc', A + M, lambda P, v: F(P).FAMC().estimate(v.vec(*A), v.vec(*M))),
        mk('fqa', A + M, lambda P, v: F(P).FQA(mag_ref=list(MREF3)).estimate(v.vec(*A), v.vec(*M))),
        mk('triad', A + M, lambda P, v: F(P).TRIAD(v1=[0.0, 0.0, 1.0], v2=list(MREF3)).estimate(v.vec(*A), v.vec(*M))),
        mk('flae_W', H3, lambda P, v: (lambda f: f._P1Hx(v.vec(*H3[0:3])) + f._P2Hy(v.vec(*H3[3:6])) + f._P3Hz(v.vec(*H3[6:9])))(F(P).FLAE()),
           "FLAE's W matrix (the argument of eig) from the rows of H"),
        mk('fkf_meas', Q + A + M, lambda P, v: F(P).FKF().measurement_quaternion_acc_mag(v.vec(*Q), v.vec(*A), v.vec(*M))[0],
           "FKF's measurement quaternion (first output)"),
    ]


STAGES = []


# ------------------------------------------------------------------------------------------
# search oracle: the property statement evaluated on the implementation
# ------------------------------------------------------------------------------------------
TOL = 1e-9
_W2 = [0.3, 0.7]

# parameter sets per class (index = pset).  Only *valid* settings (the property quantifies over valid gains,
# sampling rates and noise settings).  Arrays are rebuilt on every call (FLAE normalises `weights` in place).
PSETS = {
    'Madgwick': [{}, {'gain': 0.5}, {'frequency': 10.0, 'beta': 1.0}, {'Dt': 0.001, 'gain': 0.01, 'q0': [0.5, -0.5, 0.5, 0.5]}],
    'Mahony': [{}, {'k_P': 5.0, 'k_I': 0.1}, {'frequency': 10.0}, {'k_P': 0.1, 'k_I': 2.0, 'Dt': 0.001, 'q0': [0.5, -0.5, 0.5, 0.5]}],
    'EKF': [{}, {'noises': [0.01, 0.04, 0.09]}, {'frequency': 10.0}, {'magnetic_ref': 60.0, 'q0': [0.5, -0.5, 0.5, 0.5]}],
    'UKF': [{}, {'alpha': 0.01}, {'frequency': 10.0}, {'kappa': 1.0, 'beta': 1.0}],
    'AQUA': [{}, {'alpha': 0.1, 'beta': 0.1}, {'adaptive': True}, {'threshold': 0.5, 'frequency': 10.0}],
    'Fourati': [{}, {'gain': 1.0}, {'frequency': 10.0}, {'magnetic_dip': 60.0}],
    'ROLEQ': [{}, {'weights': _W2}, {'frequency': 10.0}, {'magnetic_ref': 60.0}],
    'FKF': [{}, {'sigma_g': 0.1}, {'frequency': 10.0}, {'sigma_a': 0.1, 'sigma_m': 0.2}],
    'Complementary': [{}, {'gain': 0.5}, {'frequency': 10.0}, {'gain': 1.0}],
    'AngularRate': [{}, {'method': 'series', 'order': 2}, {'method': 'integration'}, {'method': 'series', 'order': 4, 'frequency': 10.0}],
    'Tilt': [{}],
    'SAAM': [{}],
    'FAMC': [{}],
    'FQA': [{}, {'mag_ref': [0.3, 0.1, 0.9]}],
    'QUEST': [{}, {'weights': _W2}, {'magnetic_dip': 60.0}],
    'Davenport': [{}, {'weights': _W2}, {'magnetic_dip': 60.0}],
    'FLAE': [{}, {'weights': _W2}, {'magnetic_dip': 60.0}],
    'OLEQ': [{}, {'weights': _W2}, {'magnetic_ref': 60.0}],
    'TRIAD': [{}, {'v2': 60.0}],
}
_ARRAY_KW = ('weights', 'q0', 'mag_ref', 'noises')

# class -> list of (arch, frames)
ARCHS = {
    'Madgwick': [('IMU', [None]), ('MARG', [None])],
    'Mahony': [('IMU', [None]), ('MARG', [None])],
    'EKF': [('IMU', ['NED', 'ENU']), ('MARG', ['NED', 'ENU'])],
    'UKF': [('IMU', [None])],
    'AQUA': [('acc', ['NED', 'ENU']), ('am', ['NED', 'ENU']), ('IMU', ['NED', 'ENU']), ('MARG', ['NED', 'ENU'])],
    'Fourati': [('MARG', [None])],
    'ROLEQ': [('MARG', ['NED', 'ENU'])],
    'FKF': [('MARG', [None])],
    'Complementary': [('IMU', [None]), ('MARG', [None])],
    'AngularRate': [('gyr-quaternion', [None]), ('gyr-rotmat', [None]), ('gyr-angles', [None])],
    'Tilt': [('acc-quaternion', [None]), ('acc-angles', [None]), ('acc-rotmat', [None]),
             ('am-quaternion', [None]), ('am-angles', [None]), ('am-rotmat', [None])],
    'SAAM': [('am-quaternion', [None]), ('am-rotmat', [None])],
    'FAMC': [('am', [None])],
    'FQA': [('acc', [None]), ('am', [None])],
    'QUEST': [('am', [None])],
    'Davenport': [('am', [None])],
    'FLAE': [('am-symbolic', [None]), ('am-eig', [None]), ('am-newton', [None])],
    'OLEQ': [('am', ['NED', 'ENU'])],
    'TRIAD': [('am-rotmat', ['NED', 'ENU']), ('am-quaternion', ['NED', 'ENU'])],
}


def configs():
    out = []
    for cls, archs in ARCHS.items():
        for arch, frames in archs:
            for fr in frames:
                for ps in range(len(PSETS[cls])):
                    out.append((cls, arch, fr, ps))
    return out


def _observe(cls, arch, frame, ps, gyr, acc, mag):
    """build the filter through its public constructor; return [(attribute, kind, value)]"""
    import ahrs.filters as F
    kw = {}
    for k, v in PSETS[cls][ps].items():
        kw[k] = np.array(v, dtype=float) if k in _ARRAY_KW else v
    if frame is not None:
        kw['frame'] = frame
    base, _, rep = arch.partition('-')
    C = getattr(F, cls)
    if cls in ('Madgwick', 'Mahony', 'EKF', 'Complementary'):
        o = C(gyr=gyr, acc=acc, **kw) if base == 'IMU' else C(gyr=gyr, acc=acc, mag=mag, **kw)
        if cls == 'Complementary':
            return [('W', 'angles', o.W), ('Q', 'quaternion', o.Q)]
        return [('Q', 'quaternion', o.Q)]
    if cls == 'UKF':
        return [('Q', 'quaternion', C(gyr=gyr, acc=acc, **kw).Q)]
    if cls == 'AQUA':
        a = {'acc': dict(acc=acc), 'am': dict(acc=acc, mag=mag), 'IMU': dict(acc=acc, gyr=gyr),
             'MARG': dict(acc=acc, gyr=gyr, mag=mag)}[base]
        return [('Q', 'quaternion', C(**a, **kw).Q)]
    if cls in ('Fourati', 'ROLEQ', 'FKF'):
        return [('Q', 'quaternion', C(gyr=gyr, acc=acc, mag=mag, **kw).Q)]
    if cls == 'AngularRate':
        o = C(gyr=gyr, representation=rep, **kw)
        attr = {'quaternion': 'Q', 'rotmat': 'R', 'angles': 'W'}[rep]
        return [(attr, rep, getattr(o, attr))]
    if cls == 'Tilt':
        o = C(acc=acc, representation=rep, **kw) if base == 'acc' else C(acc=acc, mag=mag, representation=rep, **kw)
        return [('Q', rep, o.Q)]
    if cls == 'SAAM':
        o = C(acc=acc, mag=mag, representation=rep)
        return [('Q', 'quaternion', o.Q)] + ([('A', 'rotmat', o.A)] if rep == 'rotmat' else [])
    if cls == 'FQA':
        o = C(acc=acc, **kw) if base == 'acc' else C(acc=acc, mag=mag, **kw)
        return [('Q', 'quaternion', o.Q)]
    if cls == 'FLAE':
        return [('Q', 'quaternion', C(acc=acc, mag=mag, method=rep, **kw).Q)]
    if cls == 'TRIAD':
        return [('A', rep, C(w1=acc, w2=mag, representation=rep, **kw).A)]
    return [('Q', 'quaternion', C(acc=acc, mag=mag, **kw).Q)]        # FAMC QUEST Davenport OLEQ


def _validate(kind, X, N):
    """None when X is N valid attitudes of the given kind, else (failure-kind, observed)"""
    if X is None:
        return ('shape', 'None')
    X = np.asarray(X)
    want = {'quaternion': (N, 4), 'rotmat': (N, 3, 3), 'angles': (N, 3)}[kind]
    if X.shape != want:
        return ('shape', list(X.shape))
    if X.dtype.kind == 'c':
        return ('complex', str(X.dtype))
    if X.dtype.kind != 'f':
        return ('dtype', str(X.dtype))
    if not np.all(np.isfinite(X)):
        return ('nonfinite', X[~np.all(np.isfinite(X.reshape(N, -1)), axis=1)][:1])
    if kind == 'quaternion':
        n = np.linalg.norm(X, axis=1)
        i = int(np.argmax(np.abs(n - 1)))
        if abs(n[i] - 1) > TOL:
            return ('non-unit', {'index': i, 'norm': float(n[i])})
    if kind == 'rotmat':
        r = max(float(np.max(np.abs(X @ np.transpose(X, (0, 2, 1)) - np.eye(3)))), float(np.max(np.abs(np.linalg.det(X) - 1))))
        if r > TOL:
            return ('not-SO3', r)
    return None


def o_attitudes(inp):
    """one filter class x architecture x frame x parameter set on one sensor history: exactly N attitudes, each a real,
    finite unit quaternion / proper rotation matrix / finite angle triple"""
    from vlib.core import call_outcome
    cls, arch, frame, ps = inp['cls'], inp['arch'], inp.get('frame'), int(inp.get('pset', 0))
    gyr, acc, mag = (np.array(inp[k], dtype=float) for k in ('gyr', 'acc', 'mag'))
    N = len(acc)
    region = inp.get('region', 'generic')
    where = f"{cls}.{arch}" + (f".{frame}" if frame else '')
    suffix = '' if region == 'generic' else f"@{region}"
    np.random.seed(12345)                      # OLEQ draws its start vector from NumPy's global generator
    r = call_outcome(_observe, cls, arch, frame, ps, gyr.copy(), acc.copy(), mag.copy())
    if r[0] == 'raise':
        return {'tag': f"{where}/raises-{r[1]}{suffix}", 'observed': list(r[1:]), 'expected': f'{N} valid attitudes'}
    for attr, kind, X in r[1]:
        bad = _validate(kind, X, N)
        if bad is not None:
            return {'tag': f"{where}/{attr}-{bad[0]}{suffix}", 'observed': bad[1],
                    'expected': f'{N} real finite {kind} rows (unit norm / SO(3) within {TOL})'}
    return None


ORACLES = {'attitudes': o_attitudes}

# ---- histories -----------------------------------------------------------------------------
DIP = math.radians(64.0)


def _snap(v):
    v = np.array(v, dtype=float)
    v[np.abs(v) < 1e-15] = 0.0
    for t in (1.0, -1.0):
        v[np.abs(v - t) < 1e-15] = t
    return v


def _Rz(a): return np.array([[math.cos(a), -math.sin(a), 0], [math.sin(a), math.cos(a), 0], [0, 0, 1.0]])
def _Rx(a): return np.array([[1.0, 0, 0], [0, math.cos(a), -math.sin(a)], [0, math.sin(a), math.cos(a)]])
def _Ry(a): return np.array([[math.cos(a), 0, math.sin(a)], [0, 1.0, 0], [-math.sin(a), 0, math.cos(a)]])


def poses():
    """canonical poses as (region, name, body gravity direction, body magnetic direction): level at 8 headings, upside-down,
    each body axis vertical; gravity reference +z, magnetic reference north/down (dip 64 deg) and its ENU twin"""
    out = []
    mrefs = {'ned': np.array([math.cos(DIP), 0.0, math.sin(DIP)]), 'enu': np.array([0.0, math.cos(DIP), -math.sin(DIP)])}
    for mname, mref in mrefs.items():
        def add(region, name, R):
            out.append((region, f"{name}-{mname}", _snap(R.T @ np.array([0.0, 0.0, 1.0])), _snap(R.T @ mref)))
        for k in range(8):
            add('level', f"level-h{45 * k}", _Rz(k * math.pi / 4))
        for k in (0, 1, 2, 5):
            add('inverted', f"inverted-h{45 * k}", _Rz(k * math.pi / 4) @ _Rx(math.pi))
        for s, nm in ((1, 'up'), (-1, 'down')):
            for k in (0, 3):
                add('x-vertical', f"x-{nm}-h{45 * k}", _Rz(k * math.pi / 4) @ _Ry(-s * math.pi / 2))
                add('y-vertical', f"y-{nm}-h{45 * k}", _Rz(k * math.pi / 4) @ _Rx(s * math.pi / 2))
    return out


def _angle_ok(a, m):
    c = abs(float(a @ m)) / (np.linalg.norm(a) * np.linalg.norm(m))
    return c < math.cos(math.radians(1.0))


def rand_hist(rng, N):
    """random history: every sample non-zero, acc/mag at least 1 degree from parallel, magnitudes 1e-3..1e3 per sensor"""
    sg, sa, sm = (10.0 ** rng.uniform(-3, 3) for _ in range(3))
    gyr = rng.standard_normal((N, 3)) * sg
    acc = np.zeros((N, 3)); mag = np.zeros((N, 3))
    for i in range(N):
        while True:
            a, m = cm.unit(rng.standard_normal(3)), cm.unit(rng.standard_normal(3))
            if _angle_ok(a, m):
                break
        acc[i], mag[i] = a * sa * rng.uniform(0.5, 2), m * sm * rng.uniform(0.5, 2)
    return gyr, acc, mag


def pose_hist(rng, pose, N, lead=0):
    """N samples of one canonical pose (exact directions, random positive magnitudes), optionally preceded by `lead` random
    samples so that a recursive filter's state is generic when the canonical measurement arrives"""
    _, _, a, m = pose
    sa, sm = 10.0 ** rng.uniform(-3, 3), 10.0 ** rng.uniform(-3, 3)
    gyr = rng.standard_normal((N + lead, 3)) * 10.0 ** rng.uniform(-3, 1)
    acc = np.tile(a * sa, (N + lead, 1)); mag = np.tile(m * sm, (N + lead, 1))
    if lead:
        g0, a0, m0 = rand_hist(rng, lead)
        acc[:lead], mag[:lead] = a0, m0
    return gyr, acc, mag


def _inp(cfg, region, H):
    cls, arch, fr, ps = cfg
    g, a, m = H
    return {'cls': cls, 'arch': arch, 'frame': fr, 'pset': ps, 'region': region,
            'gyr': g.tolist(), 'acc': a.tolist(), 'mag': m.tolist()}


def search(ctx, scale):
    from .C01 import cm_call
    cfgs = configs()
    P = poses()
    nrand = 2 * scale
    npose = 4 * scale
    k = 0
    for ci, cfg in enumerate(cfgs):
        for j in range(nrand):
            N = int(ctx.rng.integers(2, 9))
            inp = _inp(cfg, 'generic', rand_hist(ctx.rng, N))
            ctx.check('attitudes', inp, _call(inp), nontrivial_key=(cfg, 'generic', j))
        for j in range(npose):
            pose = P[(ci * 7 + k) % len(P)] if scale == 1 else P[(ci + k) % len(P)]
            k += 1
            lead = (0, 2)[j % 2]
            inp = _inp(cfg, pose[0], pose_hist(ctx.rng, pose, int(ctx.rng.integers(2, 5)), lead))
            inp['pose'] = pose[1]
            ctx.check('attitudes', inp, _call(inp), nontrivial_key=(cfg, pose[1], lead))
    if len(ctx.samples) < 8:
        ctx.samples.append({'kind': 'search', 'oracle': 'attitudes',
                            'input': {k: v for k, v in _inp(cfgs[0], 'generic', rand_hist(ctx.rng, 2)).items()}})


def _call(inp):
    from vlib.core import call_outcome
    r = call_outcome(o_attitudes, inp)
    if r[0] == 'raise':
        return {'tag': f"{inp['cls']}.{inp['arch']}/oracle-raises-{r[1]}", 'observed': list(r[1:])}
    return r[1]
