"""C04 — single-frame estimators recover the attitude exactly from consistent data."""
import math, warnings
import numpy as np
from pysym.gen import Target
from . import common as cm

PID = 'C04'
Q = ['w', 'x', 'y', 'z']
IN = Q + ['sa', 'sm', 'cd', 'sd']        # attitude, the two positive scalings, cos/sin of the magnetic dip
IND = IN + ['ce', 'se']                  # ... and cos/sin of a magnetic declination (reference with an East component)


# ------------------------------------------------------------------------------------------
# how each estimator documents / uses its references (verified against the code, see notes/design/C04.md)
#   gref, mref : reference directions as functions of (cd, sd) = (cos dip, sin dip)
#   meas       : 'T'  measurement = s * Rspec(q)^T ref   (sensor frame = inverse rotation of the reference)
#                'R'  measurement = s * Rspec(q)   ref
#   ret        : 'q' | 'q*' | 'R' | 'RT'   what the estimator returns for that measurement convention
# ------------------------------------------------------------------------------------------
def _ned(cd, sd): return [cd, 0, sd]
def _ned_neg(cd, sd): return [cd, 0, -sd]
def _enu(cd, sd): return [0, cd, -sd]
def _oleq_ned(cd, sd): return [sd, 0, cd]
UP, DOWN = [0, 0, 1], [0, 0, -1]


# ---- symbolic side ------------------------------------------------------------------------
def _sym_R(v):
    from pysym import symnp
    w, x, y, z = v.w, v.x, v.y, v.z
    return symnp.array([[1 - 2 * (y * y + z * z), 2 * (x * y - w * z), 2 * (x * z + w * y)],
                        [2 * (x * y + w * z), 1 - 2 * (x * x + z * z), 2 * (y * z - w * x)],
                        [2 * (x * z - w * y), 2 * (w * x + y * z), 1 - 2 * (x * x + y * y)]])


def _sym_vec(l):
    from pysym import symnp
    from pysym.sym import S
    return symnp.array([S.const(e) if not isinstance(e, S) else e for e in l])


def _rotz(m, ce, se):
    """the reference turned about the vertical by the declination (ce, se) = (cos, sin): a non-zero East component"""
    return [m[0] * ce - m[1] * se, m[0] * se + m[1] * ce, m[2]]


def _sym_meas(v, gref, mref, meas='T', decl=False):
    """(acc, mag) = (sa * M g, sm * M m) with M = Rspec(q)^T or Rspec(q), all symbolic"""
    R = _sym_R(v)
    M = R.T if meas == 'T' else R
    mm = mref(v.cd, v.sd)
    if decl:
        mm = _rotz(mm, v['ce'], v['se'])
    g, m = _sym_vec(gref), _sym_vec(mm)
    return v.sa * (M @ g), v.sm * (M @ m), g, m


class _Captured(Exception):
    def __init__(self, args):
        self.payload = args


def _capture(A, names, thunk):
    """run thunk(); return the positional arguments of the first call the traced package makes to one of
    np.linalg.<names> (LAPACK routines cannot run on symbols; their *input* is what the model is about)"""
    la = A.filters.davenport.np.linalg          # the proxy module's linalg object, shared by the traced package
    def hook(*a, **k):
        raise _Captured(a)
    for n in names:
        la.__dict__[n] = hook
    try:
        thunk()
    except _Captured as c:
        return c.payload
    finally:
        for n in names:
            la.__dict__.pop(n, None)
    from pysym.sym import Unsupported
    raise Unsupported(f"np.linalg.{'/'.join(names)} was not reached")


def _not_converged(atom, value):
    """prune predicate for the tolerance-terminated Newton loops: `abs(l_old - l) > 1e-8` decided True"""
    from fractions import Fraction
    a = atom.args[0]
    return bool(value) and atom.op == 'lt' and a.op == 'const' and a.value == Fraction(1, 10 ** 8)


def targets():
    mk = lambda n, f, doc='', **k: Target(f'C04_{n}', IN, f, doc=doc, **k)
    F = lambda A: A.filters
    O = lambda A: A.common.orientation

    def triad(mref, rep):
        def fn(A, v):
            a, m, g, mr = _sym_meas(v, UP, mref)
            return F(A).TRIAD(v1=g, v2=mr).estimate(a, m, rep)
        return fn

    def triad_ctor(mref):
        def fn(A, v):
            a, m, g, mr = _sym_meas(v, UP, mref)
            return F(A).TRIAD(a, m, v1=g, v2=mr).A
        return fn

    def ecompass(frame, mref, rep):
        def fn(A, v):
            a, m, _, _ = _sym_meas(v, UP, mref)
            return O(A).ecompass(a, m, frame=frame, representation=rep)
        return fn

    def am2dcm(frame, gref, mref):
        def fn(A, v):
            a, m, _, _ = _sym_meas(v, gref, mref)
            return O(A).am2DCM(a, m, frame=frame)
        return fn

    def tilt(rep):
        def fn(A, v):
            a, m, _, _ = _sym_meas(v, UP, _ned)
            return F(A).Tilt().estimate(a, m, rep)
        return fn

    def aqua(A, v):
        a, m, _, _ = _sym_meas(v, UP, _ned, meas='R')
        return F(A).AQUA().estimate(a, m)

    def saam(A, v):
        a, m, _, _ = _sym_meas(v, UP, _ned)
        return F(A).SAAM().estimate(a, m)

    def famc(A, v):
        a, m, _, _ = _sym_meas(v, UP, _ned)
        return F(A).FAMC().estimate(a, m)

    def fqa(A, v):
        a, m, _, mr = _sym_meas(v, DOWN, _ned)
        e = F(A).FQA(mag_ref=np.array([0.5, 0.0, 0.8660254037844386]))
        e.m_ref = mr                         # public attribute; the constructor rejects non-float entries
        return e.estimate(a, m)

    def quest(A, v):
        a, m, _, mr = _sym_meas(v, UP, _ned)
        e = F(A).QUEST(magnetic_dip=60.0)
        e.m_q = mr
        return e.estimate(a, m)

    def _quest_trace(A, v):
        """run QUEST.estimate on consistent data, recording the operands of every convergence test
        `abs(l_old - l_max) > 1e-8` (the path is the converged one: see _not_converged)"""
        from pysym import sym
        seen = []
        def watch(atom, value):
            if atom.op == 'lt' and atom.args[0].op == 'const' and atom.args[1].op == 'fn' and atom.args[1].args[0] == 'abs':
                d = atom.args[1].args[1]
                if d.op == 'sub':
                    seen.append((d.args[0], d.args[1]))
            return _not_converged(atom, value)
        a, m, _, mr = _sym_meas(v, UP, _ned)
        e = F(A).QUEST(magnetic_dip=60.0)
        e.m_q = mr
        # inner run along the converged side: every convergence test is decided False and NOT recorded in the target's own
        # decision tree (the guarded model is C04_quest; these derived targets are the values computed along that path)
        saved = (sym.CTX.prune, sym.CTX.trace, sym.CTX.known, sym.CTX.prefix)
        sym.CTX.prune, sym.CTX.trace, sym.CTX.known, sym.CTX.prefix = watch, [], {}, [False] * 64
        try:
            out = e.estimate(a, m)
            inner = list(sym.CTX.trace)
        finally:
            sym.CTX.prune, sym.CTX.trace, sym.CTX.known, sym.CTX.prefix = saved
        if len(inner) != len(seen):
            raise sym.Unsupported("QUEST.estimate took a data-dependent decision other than its convergence test")
        return out, seen

    def quest_newton1(A, v):
        """numerator and denominator of the FIRST Newton step l_max -= phi/phi_prime, started at sum(weights) = 1"""
        from pysym.sym import Unsupported
        out, seen = _quest_trace(A, v)
        l0, l1 = seen[0]
        if not (l0.op == 'const' and l0.value == 1 and l1.op == 'sub' and l1.args[0] is l0 and l1.args[1].op == 'div'):
            raise Unsupported("first Newton step of QUEST is not of the form 1 - phi/phi_prime")
        return [l1.args[1].args[0], l1.args[1].args[1]]

    def quest_at_root(A, v):
        """the code's closed-form quaternion with the final Newton iterate replaced by the root 1"""
        from pysym.sym import S
        out, seen = _quest_trace(A, v)
        lfin = seen[-1][1]
        memo = {}
        def sub(e):
            if not isinstance(e, S):
                return e
            if e is lfin:
                return S.const(1)
            r = memo.get(e.uid)
            if r is None:
                r = S(e.op, *[sub(t) for t in e.args]) if e.op not in ('const', 'var', 'pi') else e
                memo[e.uid] = r
            return r
        return [sub(t) for t in np.asarray(out).reshape(-1)]

    def am2q(frame, gref, mref):
        def fn(A, v):
            a, m, _, _ = _sym_meas(v, gref, mref)
            return O(A).am2q(a, m, frame=frame)
        return fn

    def acc2q(A, v):
        a, _, _, _ = _sym_meas(v, UP, _ned)
        return O(A).acc2q(a)

    def saam_vec(A, v):
        # the vectorised copy of the formula (N-sample constructor); second row: a concrete consistent sample
        a, m, _, _ = _sym_meas(v, UP, _ned)
        from pysym import symnp
        acc = symnp.array([list(a), [0.0, 2.0, 0.0]])
        mag = symnp.array([list(m), [0.0, 2.4, 1.8]])
        return F(A).SAAM(acc, mag).Q[0]

    def oleq_fixed(frame, gref, mref):
        def fn(A, v):
            # OLEQ draws its start from the global RNG: for the duration of the call the draw is replaced by q + 0.5 (the code
            # subtracts 0.5), i.e. the iteration is started at the true attitude; later convergence tests are followed on their
            # converged side only
            from pysym import sym
            a, m, g, mr = _sym_meas(v, gref, mref)
            e = F(A).OLEQ(magnetic_ref=np.array([0.5, 0.0, 0.8660254037844386]), weights=np.array([1.0, 1.0]), frame=frame)
            e.m_ref, e.a_ref = mr, g
            rnd = A.filters.oleq.np.random
            count = [0]
            def pr(atom, value):
                if _not_converged(atom, value):
                    count[0] += 1
                    return count[0] > 1          # the first test (against the arbitrary [1,0,0,0]) may say "not converged"
                return False
            rnd.__dict__['random'] = lambda n=None: v.vec(*Q) + 0.5
            old = sym.CTX.prune
            sym.CTX.prune = pr
            try:
                return e.estimate(a, m)
            finally:
                sym.CTX.prune = old
                rnd.__dict__.pop('random', None)
        return fn

    def davenport_K(A, v):
        a, m, _, mr = _sym_meas(v, UP, _ned)
        e = F(A).Davenport(magnetic_dip=60.0, gravity=1.0)
        e.m_q = mr
        return _capture(A, ('eig', 'eigh'), lambda: e.estimate(a, m))[0]

    def flae_W(A, v):
        a, m, g, mr = _sym_meas(v, UP, _ned_neg)
        e = F(A).FLAE(magnetic_dip=60.0, weights=np.array([0.5, 0.5]))
        e.ref = np.vstack((np.array(g), np.array(mr)))
        return _capture(A, ('eig', 'eigh'), lambda: e.estimate(a, m, method='eig'))[0]

    def flae_newton_N(A, v):
        a, m, g, mr = _sym_meas(v, UP, _ned_neg)
        e = F(A).FLAE(magnetic_dip=60.0, weights=np.array([0.5, 0.5]))
        e.ref = np.vstack((np.array(g), np.array(mr)))
        from pysym.sym import Unsupported
        try:
            return _capture(A, ('inv',), lambda: e.estimate(a, m, method='newton'))[0]
        except Unsupported as ex:
            if 'was not reached' in str(ex) or 'np.linalg' in str(ex):
                return []        # the singularity test is gone (repaired): the `_refuted` file then no longer compiles
            raise

    mkd = lambda n, f, doc='', **k: Target(f'C04_{n}', IND, f, doc=doc, **k)

    def triad_decl(A, v):
        a, m, g, mr = _sym_meas(v, UP, _ned, decl=True)
        return F(A).TRIAD(v1=g, v2=mr).estimate(a, m)

    def triad_reuse(A, v):
        # one object: first estimate under the ENU-style pair, then v1/v2 re-assigned (as the docstring shows) and a second estimate
        a0, m0, g0, mr0 = _sym_meas(v, DOWN, _enu)
        a, m, g, mr = _sym_meas(v, UP, _ned, decl=True)
        t = F(A).TRIAD(v1=g0, v2=mr0)
        t.estimate(a0, m0)
        t.v1, t.v2 = g, mr
        return t.estimate(a, m)

    def fqa_decl(A, v):
        a, m, _, mr = _sym_meas(v, DOWN, _ned, decl=True)
        e = F(A).FQA(mag_ref=np.array([0.5, 0.0, 0.8660254037844386]))
        e.m_ref = mr
        return e.estimate(a, m)

    def quest_decl(A, v):
        a, m, _, mr = _sym_meas(v, UP, _ned, decl=True)
        e = F(A).QUEST(magnetic_dip=60.0)
        e.m_q = mr
        return e.estimate(a, m)

    def davenport_K_decl(A, v):
        a, m, _, mr = _sym_meas(v, UP, _ned, decl=True)
        e = F(A).Davenport(magnetic_dip=60.0, gravity=1.0)
        e.m_q = mr
        return _capture(A, ('eig', 'eigh'), lambda: e.estimate(a, m))[0]

    def flae_W_decl(A, v):
        a, m, g, mr = _sym_meas(v, UP, _ned_neg, decl=True)
        e = F(A).FLAE(magnetic_dip=60.0, weights=np.array([0.5, 0.5]))
        e.ref = np.vstack((np.array(g), np.array(mr)))
        return _capture(A, ('eig', 'eigh'), lambda: e.estimate(a, m, method='eig'))[0]

    return [
        mkd('triad_decl', triad_decl, "TRIAD with a magnetic reference turned by a declination: v2 = (cd*ce, cd*se, sd)"),
        mkd('triad_reuse', triad_reuse, "one TRIAD object: estimate under ENU-style references, re-assign v1/v2, estimate again"),
        mkd('fqa_decl', fqa_decl, "FQA with mag_ref = (cd*ce, cd*se, sd)"),
        mkd('quest_decl', quest_decl, "QUEST with m_q = (cd*ce, cd*se, sd)", prune=_not_converged),
        mkd('davenport_K_decl', davenport_K_decl, "Davenport's K with m_q = (cd*ce, cd*se, sd)"),
        mkd('flae_W_decl', flae_W_decl, "FLAE's W with magnetic reference (cd*ce, cd*se, -sd)"),
        mk('triad_NED', triad(_ned, 'rotmat'), "TRIAD(v1=(0,0,1), v2=(cd,0,sd)).estimate(sa R^T v1, sm R^T v2)"),
        mk('triad_ENU', triad(_enu, 'rotmat'), "TRIAD(v1=(0,0,1), v2=(0,cd,-sd)).estimate(...)"),
        mk('triad_ctor', triad_ctor(_ned), "TRIAD(w1, w2, v1, v2).A"),
        mk('ecompass_NED', ecompass('NED', _ned, 'rotmat')),
        mk('ecompass_ENU', ecompass('ENU', _enu, 'rotmat')),
        mk('am2DCM_ENU', am2dcm('ENU', UP, _enu)),
        mk('am2DCM_NED', am2dcm('NED', DOWN, _ned)),
        mk('tilt_q', tilt('quaternion')),
        mk('tilt_R', tilt('rotmat')),
        mk('tilt_angles', tilt('angles')),
        mk('aqua', aqua),
        mk('saam', saam),
        mk('famc', famc),
        mk('fqa', fqa),
        mk('quest', quest, "QUEST.estimate; Newton loop traced on its converged side only", prune=_not_converged),
        mk('quest_newton1', quest_newton1, "QUEST: (phi, phi_prime) of the first Newton step from l = sum(weights) = 1", prune=_not_converged),
        mk('quest_at_root', quest_at_root, "QUEST: closed-form quaternion of the code with the Newton result replaced by 1", prune=_not_converged),
        mk('triad_q', triad(_ned, 'quaternion'), "TRIAD ... estimate(representation='quaternion') (through chiaverini)"),
        mk('ecompass_NED_q', ecompass('NED', _ned, 'quaternion'), "ecompass(..., 'NED', 'quaternion') (through chiaverini)"),
        mk('acc2q', acc2q, "acc2q(sa R^T (0,0,1))"),
        mk('saam_vec', saam_vec, "SAAM(acc, mag).Q[0] for a 2-row input: the vectorised copy of the closed form"),
        mk('oleq_fixed_NED', oleq_fixed('NED', DOWN, _oleq_ned), "OLEQ('NED').estimate started at the true attitude"),
        mk('oleq_fixed_ENU', oleq_fixed('ENU', UP, _enu), "OLEQ('ENU').estimate started at the true attitude"),
        mk('davenport_K', davenport_K, "the matrix Davenport.estimate hands to np.linalg.eig"),
        mk('flae_W', flae_W, "the matrix FLAE.estimate(method='eig') hands to np.linalg.eig"),
        mk('flae_newton_N', flae_newton_N, "the matrix FLAE.estimate(method='newton') hands to np.linalg.inv", prune=_not_converged),
    ]


STAGES = []


STAGES = [['C04_tac.v'],
          ['C04_matrix.v', 'C04_eigen.v', 'C04_closed.v', 'C04_decl.v', 'C04_tilt.v',
           ('C04_refuted_flae.v', {'finding': 'flae_newton/identity-fallback'})],
          ['C04.v']]
STAGES_THOROUGH = [['C04_quest.v', 'C04_oleq.v'], ['C04_quest_cf.v'], ['C04_thorough.v']]
COQ_TIMEOUT = 600

LEVEL_TEXT = ("Coq theorems over the regenerated estimators run on symbolic consistent data (acc = sa*M*g, mag = sm*M*m, all sa, sm > 0, every dip "
              "in (-90,90) deg): TRIAD (estimate, constructor, both reference styles, with a declination, re-used object), ecompass and am2DCM "
              "(both frames) and Tilt are exact for EVERY unit quaternion; OLEQ's iteration has the true attitude as fixed point (both frames, every "
              "unit q); Davenport's K and FLAE's W (captured at the LAPACK call, also with a declination) are symmetric with the true quaternion as "
              "eigenvector for sa+sm resp. 1; FLAE's quartic has the root 1; SAAM (scalar and vectorised copy) is exact in general position; QUEST: "
              "1 is a root of the code's quartic and the closed form at that root is +-q under the explicit premise det S <> 0. AQUA, FAMC, FQA and the "
              "quaternion outputs through chiaverini/dcm2quat/acc2q rest on their regenerated models, the correspondence and the search oracle; "
              "FLAE symbolic/newton, OLEQ's capped iteration and Davenport's unnormalised weighting are recorded known findings")
TECHNIQUE = "pysym regeneration of the public estimate() entry points on symbolic images of the references + Coq (ring/field modulo unit norms, sqrt lemmas) + numeric search oracle"
RULE = ("attitudes: the named singular poses (level at 8 headings, inverted, each body axis vertical, half-turns about axis-aligned and "
        "oblique axes, identity) for the singularity-free class, uniform draws on S^3 filtered by the property's general-position guard "
        "for the closed-form class; dips -80..80 deg, NED and ENU reference styles, scalings 1e-2..1e2 log-uniform; every estimator and "
        "mode; scalar estimate(), one-sample constructor and N-sample constructor with N in {2,3,4,5,7}; list / integer-valued inputs; "
        "second call on the same object. Non-trivial = attitude differs from the identity; distinct = (estimator, call form, rounded input)")
TRUSTED = ["Coq 8.16.1 kernel; vm_compute for the float copies",
           "pysym tracing translator incl. the capture of the argument of np.linalg.eig/eigh/inv and the pruning of the not-converged side of QUEST/FLAE Newton loops",
           "stdlib real-number axioms", "real arithmetic stands for binary64 (measured by correspondence and search)",
           "LAPACK eigh and the selection of its top eigenvector: contract `eig_sym` (Section hypothesis)"]
PARTIAL = ("proved: TRIAD/ecompass/am2DCM/Tilt exact on all of SO(3); OLEQ fixed point; Davenport K and FLAE W eigen-equations (incl. declination); "
           "FLAE quartic root; SAAM scalar + vectorised exact in general position; QUEST root and closed form at the root under det S <> 0 (about "
           "derived targets, the Newton chain itself is argued on paper and measured). Not proved (regenerated model + correspondence + search only): "
           "AQUA, FAMC, FQA, quaternion outputs through chiaverini/dcm2quat (triad/ecompass 'quaternion', am2q), acc2q, Tilt rotmat/angles and its "
           "vectorised constructor; maximality/simplicity of the Davenport/FLAE eigenvalue is a premise; convergence of OLEQ/QUEST/FLAE iterations from a "
           "non-root start; FLAE symbolic/newton, OLEQ cap and Davenport ill-scaling are known findings")


# ------------------------------------------------------------------------------------------
# implementation side: every estimator / mode with its documented convention
# ------------------------------------------------------------------------------------------
def _f(x):
    return np.asarray(x, dtype=float)


def _impl():
    """name -> dict(gref, mref, meas, ret, cls, one(a, m, dipdeg, g, mr) -> result, many(A, M, dipdeg, g, mr) -> results or None)"""
    import ahrs
    from ahrs.common import orientation as O
    Fl = ahrs.filters
    T = {}

    def add(name, gref, mref, meas, ret, cls, one, many=None):
        T[name] = dict(gref=gref, mref=mref, meas=meas, ret=ret, cls=cls, one=one, many=many)

    for fr, mref in (('NED', _ned), ('ENU', _enu)):
        add(f'triad_{fr}', UP, mref, 'T', 'RT', 'free',
            lambda a, m, d, g, mr: Fl.TRIAD(v1=_f(g), v2=_f(mr)).estimate(a, m),
            lambda A, M, d, g, mr: Fl.TRIAD(A, M, v1=_f(g), v2=_f(mr)).A)
        add(f'triad_{fr}_q', UP, mref, 'T', 'q*', 'closed',
            lambda a, m, d, g, mr: Fl.TRIAD(v1=_f(g), v2=_f(mr)).estimate(a, m, 'quaternion'),
            lambda A, M, d, g, mr: Fl.TRIAD(A, M, v1=_f(g), v2=_f(mr), representation='quaternion').A)
        add(f'ecompass_{fr}', UP, mref, 'T', 'R', 'free', lambda a, m, d, g, mr, fr=fr: O.ecompass(a, m, frame=fr))
        add(f'ecompass_{fr}_q', UP, mref, 'T', 'q', 'closed',
            lambda a, m, d, g, mr, fr=fr: O.ecompass(a, m, frame=fr, representation='quaternion'))
    add('am2DCM_ENU', UP, _enu, 'T', 'RT', 'free', lambda a, m, d, g, mr: O.am2DCM(a, m, frame='ENU'))
    add('am2DCM_NED', DOWN, _ned, 'T', 'RT', 'free', lambda a, m, d, g, mr: O.am2DCM(a, m, frame='NED'))
    add('am2q_ENU', UP, _enu, 'T', 'q', 'closed', lambda a, m, d, g, mr: O.am2q(a, m, frame='ENU'))
    add('am2q_NED', DOWN, _ned, 'T', 'q', 'closed', lambda a, m, d, g, mr: O.am2q(a, m, frame='NED'))
    add('tilt', UP, _ned, 'T', 'q', 'free', lambda a, m, d, g, mr: Fl.Tilt().estimate(a, m),
        lambda A, M, d, g, mr: Fl.Tilt(A, M).Q)
    add('tilt_rotmat', UP, _ned, 'T', 'R', 'free', lambda a, m, d, g, mr: Fl.Tilt().estimate(a, m, 'rotmat'),
        lambda A, M, d, g, mr: Fl.Tilt(A, M, representation='rotmat').Q)
    add('aqua', UP, _ned, 'R', 'q', 'free', lambda a, m, d, g, mr: Fl.AQUA().estimate(a, m))
    add('davenport', UP, _ned, 'T', 'q', 'free', lambda a, m, d, g, mr: Fl.Davenport(magnetic_dip=d).estimate(a, m),
        lambda A, M, d, g, mr: Fl.Davenport(A, M, magnetic_dip=d).Q)
    add('flae_eig', UP, _ned_neg, 'T', 'q', 'free', lambda a, m, d, g, mr: Fl.FLAE(magnetic_dip=d).estimate(a, m, method='eig'),
        lambda A, M, d, g, mr: Fl.FLAE(A, M, method='eig', magnetic_dip=d).Q)
    add('flae_symbolic', UP, _ned_neg, 'T', 'q', 'closed', lambda a, m, d, g, mr: Fl.FLAE(magnetic_dip=d).estimate(a, m, method='symbolic'),
        lambda A, M, d, g, mr: Fl.FLAE(A, M, method='symbolic', magnetic_dip=d).Q)
    add('flae_newton', UP, _ned_neg, 'T', 'q', 'closed', lambda a, m, d, g, mr: Fl.FLAE(magnetic_dip=d).estimate(a, m, method='newton'),
        lambda A, M, d, g, mr: Fl.FLAE(A, M, method='newton', magnetic_dip=d).Q)
    add('quest', UP, _ned, 'T', 'q', 'closed', lambda a, m, d, g, mr: Fl.QUEST(magnetic_dip=d).estimate(a, m),
        lambda A, M, d, g, mr: Fl.QUEST(A, M, magnetic_dip=d).Q)
    add('saam', UP, _ned, 'T', 'q*', 'closed', lambda a, m, d, g, mr: Fl.SAAM().estimate(a, m),
        lambda A, M, d, g, mr: Fl.SAAM(A, M).Q)
    add('famc', UP, _ned, 'T', 'q', 'closed', lambda a, m, d, g, mr: Fl.FAMC().estimate(a, m),
        lambda A, M, d, g, mr: Fl.FAMC(A, M).Q)
    add('fqa', DOWN, _ned, 'T', 'q', 'closed', lambda a, m, d, g, mr: Fl.FQA(mag_ref=_f(mr)).estimate(a, np.array(m, dtype=float)),
        lambda A, M, d, g, mr: Fl.FQA(A, M, mag_ref=_f(mr)).Q)
    add('oleq_NED', DOWN, _oleq_ned, 'T', 'q', 'closed', lambda a, m, d, g, mr: Fl.OLEQ(magnetic_ref=d, frame='NED').estimate(a, m),
        lambda A, M, d, g, mr: Fl.OLEQ(A, M, magnetic_ref=d, frame='NED').Q)
    add('oleq_ENU', UP, _enu, 'T', 'q', 'closed', lambda a, m, d, g, mr: Fl.OLEQ(magnetic_ref=d, frame='ENU').estimate(a, m),
        lambda A, M, d, g, mr: Fl.OLEQ(A, M, magnetic_ref=d, frame='ENU').Q)
    # the same estimators handed the reference as a VECTOR (any declination; the entries above pass the dip in degrees)
    def dav(a, m, d, g, mr):
        e = Fl.Davenport(magnetic_dip=d); e.m_q = _f(mr); return e.estimate(a, m)
    def flae(meth):
        def f(a, m, d, g, mr):
            e = Fl.FLAE(magnetic_dip=d); e.ref = np.vstack((_f(g), _f(mr))); return e.estimate(a, m, method=meth)
        return f
    add('davenport_vec', UP, _ned, 'T', 'q', 'free', dav)
    add('flae_eig_vec', UP, _ned_neg, 'T', 'q', 'free', flae('eig'))
    add('quest_vec', UP, _ned, 'T', 'q', 'closed', lambda a, m, d, g, mr: Fl.QUEST(magnetic_dip=[float(t) for t in mr]).estimate(a, m),
        lambda A, M, d, g, mr: Fl.QUEST(A, M, magnetic_dip=[float(t) for t in mr]).Q)
    add('fqa_ENUref', DOWN, _enu, 'T', 'q', 'closed', lambda a, m, d, g, mr: Fl.FQA(mag_ref=_f(mr)).estimate(a, np.array(m, dtype=float)),
        lambda A, M, d, g, mr: Fl.FQA(A, M, mag_ref=_f(mr)).Q)
    for n in ('triad_NED', 'triad_ENU', 'triad_NED_q', 'triad_ENU_q', 'fqa', 'fqa_ENUref', 'davenport_vec', 'flae_eig_vec', 'quest_vec'):
        T[n]['decl'] = True          # takes the reference as a vector: exercised with declinations
    return T


_IMPL = None


def impl():
    global _IMPL
    if _IMPL is None:
        _IMPL = _impl()
    return _IMPL


def _measure(q, dipdeg, sa, sm, e, decl=0.0):
    """consistent data for table entry e: (acc, mag, g, mref, expected rotation matrix of the returned attitude)"""
    q = _f(q)
    R = cm.Rspec(q)
    cd, sd = math.cos(math.radians(dipdeg)), math.sin(math.radians(dipdeg))
    mm = e['mref'](cd, sd)
    if decl:
        mm = _rotz(mm, math.cos(math.radians(decl)), math.sin(math.radians(decl)))
    g, mr = _f(e['gref']), _f(mm)
    M = R.T if e['meas'] == 'T' else R
    exp = {'q': R, 'R': R, 'q*': R.T, 'RT': R.T}[e['ret']]
    return sa * (M @ g), sm * (M @ mr), g, mr, exp


def _as_rot(res, ret):
    """returned value -> rotation matrix, or a string describing why it is not an attitude"""
    a = np.asarray(res)
    if np.iscomplexobj(a):
        if np.max(np.abs(a.imag)) > 0:
            return 'complex-valued'
        a = a.real                           # dtype leak with zero imaginary part is C03's subject, not this property's
    a = np.asarray(a, dtype=float)
    if not np.all(np.isfinite(a)):
        return 'non-finite'
    if ret in ('q', 'q*'):
        if a.shape != (4,):
            return f'shape{a.shape}'
        n = np.linalg.norm(a)
        if abs(n - 1) > 1e-6:
            return f'norm={n:.6g}'
        return cm.Rspec(a / n)
    if a.shape != (3, 3):
        return f'shape{a.shape}'
    return a


def _angle(Ra, Rb):
    """rotation angle between two rotation matrices, accurate for small angles"""
    D = Ra @ Rb.T
    s = np.linalg.norm(D - D.T) / (2 * math.sqrt(2))          # sin(theta)
    c = (np.trace(D) - 1) / 2
    return math.atan2(s, c)


TOL = 1e-7


def _bucket(err):
    return 'error<=0.1rad' if err <= 0.1 else 'error>0.1rad'


def in_general_position(q):
    q = _f(q)
    R = cm.Rspec(q)
    c3 = math.cos(math.radians(3.0))
    return (min(abs(q)) >= 0.05 and 2 * math.acos(min(1.0, abs(q[0]))) <= math.pi - 0.1
            and abs(R[2, 2]) <= c3 and abs(R[2, 0]) <= c3 and abs(R[0, 2]) <= c3)


def o_estimate(inp):
    """one estimator/mode on consistent data: the returned attitude is the true one within 1e-7 rad.
    inp: est, q, dip (deg), sa, sm, form ('estimate' | 'ctor1' | 'ctorN'), n, row, seed, as_list"""
    T = impl()
    est = inp['est']
    e = T[est]
    q = _f(inp['q'])
    decl = float(inp.get('decl', 0.0)) if e.get('decl') else 0.0
    a, m, g, mr, exp = _measure(q, inp['dip'], inp['sa'], inp['sm'], e, decl)
    form = inp.get('form', 'estimate')
    np.random.seed(int(inp.get('seed', 0)) % (2 ** 32))          # OLEQ draws its start from the global NumPy RNG
    with warnings.catch_warnings():
        warnings.simplefilter('ignore')
        with np.errstate(all='ignore'):
            if form == 'estimate':
                aa, mm = (a.tolist(), m.tolist()) if inp.get('as_list') and est not in ('fqa',) else (a.copy(), m.copy())
                res = e['one'](aa, mm, inp['dip'], g, mr)
                if inp.get('twice'):
                    res2 = e['one'](a.copy(), m.copy(), inp['dip'], g, mr)
            else:
                n = 1 if form == 'ctor1' else int(inp['n'])
                row = int(inp.get('row', 0)) % n
                # the other rows hold other consistent attitudes (deterministic in the input)
                rng = np.random.default_rng(int(inp.get('seed', 0)))
                A, Mg = np.zeros((n, 3)), np.zeros((n, 3))
                for i in range(n):
                    if i == row:
                        A[i], Mg[i] = a, m
                    else:
                        qi = cm.rand_unit_quat(rng)
                        while not in_general_position(qi):
                            qi = cm.rand_unit_quat(rng)
                        A[i], Mg[i] = _measure(qi, inp['dip'], inp['sa'], inp['sm'], e, decl)[:2]
                if form == 'ctor1':
                    out = e['many'](A[0].copy(), Mg[0].copy(), inp['dip'], g, mr)
                    res = np.asarray(out)
                else:
                    out = np.asarray(e['many'](A.copy(), Mg.copy(), inp['dip'], g, mr))
                    if out.shape[0] != n:
                        return {'tag': f'{est}/{form}-wrong-length', 'observed': list(out.shape), 'expected': n}
                    res = out[row]
    if res is None:
        return {'tag': f'{est}/returns-None', 'observed': None}
    Rr = _as_rot(res, e['ret'])
    if isinstance(Rr, str):
        return {'tag': f'{est}/not-an-attitude-{Rr.split("=")[0].split("(")[0]}', 'observed': np.asarray(res), 'note': Rr}
    err = _angle(Rr, exp)
    if not err <= TOL:
        ret = np.asarray(res).real
        kind = 'identity-fallback' if (ret.shape == (4,) and np.array_equal(ret, [1.0, 0.0, 0.0, 0.0])) else _bucket(err)
        special = _ratio_tag(est, inp['sa'] * 9.80665, inp['sm'], kind) if est in ('davenport', 'davenport_vec') else None
        if special:
            return {'tag': special, 'observed': {'angle_error_rad': err, 'returned': ret}, 'expected': {'rotation': exp, 'tolerance_rad': TOL}}
        return {'tag': f'{est}/{kind}', 'observed': {'angle_error_rad': err, 'returned': ret},
                'expected': {'rotation': exp, 'tolerance_rad': TOL}}
    if form == 'estimate' and inp.get('twice'):
        R2 = _as_rot(res2, e['ret'])
        if isinstance(R2, str) or not _angle(R2, exp) <= TOL:
            return {'tag': f'{est}/second-call-differs', 'observed': np.asarray(res2)}
    return None


def o_acc2q(inp):
    """acc2q: the returned quaternion maps the vertical onto the measured gravity direction (inverse rotation), any magnitude"""
    from ahrs.common import orientation as O
    q = _f(inp['q'])
    a = inp['sa'] * (cm.Rspec(q).T @ np.array([0.0, 0.0, 1.0]))
    r = np.asarray(O.acc2q(a.copy()), dtype=float)
    if r.shape != (4,) or not np.all(np.isfinite(r)) or abs(np.linalg.norm(r) - 1) > 1e-9:
        return {'tag': 'acc2q/not-a-versor', 'observed': r}
    d = cm.Rspec(r).T @ np.array([0.0, 0.0, 1.0]) - a / inp['sa']
    if np.linalg.norm(d) > TOL:
        return {'tag': 'acc2q/gravity-not-recovered', 'observed': cm.Rspec(r).T[:, 2], 'expected': a / inp['sa']}
    return None


def o_triad_dip(inp):
    """TRIAD documents a float dip angle as second reference (`_set_second_triad_reference`)"""
    import ahrs
    fr = inp['frame']
    T = impl()
    e = dict(T[f'triad_{fr}'])
    if fr == 'ENU':
        e['gref'] = DOWN            # TRIAD's default first reference in ENU
    a, m, g, mr, exp = _measure(inp['q'], inp['dip'], inp['sa'], inp['sm'], e)
    try:
        A = ahrs.filters.TRIAD(v2=float(inp['dip']), frame=fr).estimate(a, m)
    except Exception as ex:            # noqa: the outcome is the observation
        return {'tag': f'triad_dip_{fr}/raises-{type(ex).__name__}', 'observed': str(ex)[:200]}
    Rr = _as_rot(A, 'RT')
    if isinstance(Rr, str):
        return {'tag': f'triad_dip_{fr}/not-an-attitude', 'observed': A}
    err = _angle(Rr, exp)
    if not err <= TOL:
        return {'tag': f'triad_dip_{fr}/{_bucket(err)}', 'observed': err, 'expected': f'<= {TOL}'}
    return None


def o_oleq_fixed(inp):
    """OLEQ's iteration matrix has the true attitude as a fixed point: started there (the draw of the global RNG is
    replaced by the true quaternion for the duration of the call), estimate() returns it.  Independent of the iteration cap."""
    import ahrs
    fr = inp['frame']
    e = impl()[f'oleq_{fr}']
    q = _f(inp['q'])
    decl = float(inp.get('decl', 0.0))
    a, m, g, mr, exp = _measure(q, inp['dip'], inp['sa'], inp['sm'], e, decl)
    rnd = np.random.random
    np.random.random = lambda n=None: q + 0.5
    try:
        with warnings.catch_warnings():
            warnings.simplefilter('ignore')
            if decl:
                res = ahrs.filters.OLEQ(magnetic_ref=_f(mr), frame=fr).estimate(a, m)
            else:
                res = e['one'](a, m, inp['dip'], g, mr)
    finally:
        np.random.random = rnd
    Rr = _as_rot(res, 'q') if res is not None else 'None'
    if isinstance(Rr, str):
        return {'tag': f'oleq_{fr}/fixed-point-not-an-attitude', 'observed': res}
    err = _angle(Rr, exp)
    if not err <= TOL:
        return {'tag': f'oleq_{fr}/fixed-point-moves', 'observed': {'angle_error_rad': err, 'returned': np.asarray(res)},
                'expected': {'rotation': exp, 'tolerance_rad': TOL}}
    return None


def _reuse_table():
    """class -> (make(), set(obj, g, mr, wts), estimate(obj, a, m), gref, mref, ret, exact?)   — `set` only touches public
    attributes the docstrings present as settable (references, weights)"""
    import ahrs
    Fl = ahrs.filters
    def set_triad(o, g, mr, w): o.v1, o.v2 = _f(g), _f(mr)
    def set_mq(o, g, mr, w): o.m_q, o.w = _f(mr), _f(w)
    def set_flae(o, g, mr, w): o.ref, o.a = np.vstack((_f(g), _f(mr))), _f(w) / np.sum(w)
    def set_oleq(o, g, mr, w): o.m_ref, o.a_ref, o.a = _f(mr), _f(g), _f(w)
    def set_fqa(o, g, mr, w): o.m_ref = _f(mr)
    nop = lambda o, g, mr, w: None
    est = lambda o, a, m: o.estimate(a, m)
    return {
        'TRIAD': (lambda: Fl.TRIAD(v1=_f(DOWN), v2=_f(_enu(0.5, 0.8660254037844386))), set_triad, est, UP, _ned, 'RT', True),
        'TRIAD_q': (lambda: Fl.TRIAD(v1=_f(DOWN), v2=_f(_enu(0.5, 0.8660254037844386))), set_triad,
                    lambda o, a, m: o.estimate(a, m, 'quaternion'), UP, _ned, 'q*', True),
        'Davenport': (lambda: Fl.Davenport(magnetic_dip=-20.0), set_mq, est, UP, _ned, 'q', True),
        'QUEST': (lambda: Fl.QUEST(magnetic_dip=-20.0), set_mq, est, UP, _ned, 'q', True),
        'FLAE_eig': (lambda: Fl.FLAE(magnetic_dip=-20.0), set_flae, lambda o, a, m: o.estimate(a, m, method='eig'), UP, _ned_neg, 'q', True),
        'FLAE_newton': (lambda: Fl.FLAE(magnetic_dip=-20.0), set_flae, lambda o, a, m: o.estimate(a, m, method='newton'), UP, _ned_neg, 'q', False),
        'FLAE_symbolic': (lambda: Fl.FLAE(magnetic_dip=-20.0), set_flae, lambda o, a, m: o.estimate(a, m, method='symbolic'), UP, _ned_neg, 'q', False),
        'OLEQ': (lambda: Fl.OLEQ(magnetic_ref=-20.0, frame='ENU'), set_oleq, est, DOWN, _oleq_ned, 'q', False),
        'FQA': (lambda: Fl.FQA(mag_ref=_f(_enu(0.5, 0.8660254037844386))), set_fqa, lambda o, a, m: o.estimate(a, np.array(m, dtype=float)), DOWN, _ned, 'q', True),
        'SAAM': (lambda: Fl.SAAM(), nop, est, UP, _ned, 'q*', True),
        'FAMC': (lambda: Fl.FAMC(), nop, est, UP, _ned, 'q', True),
        'Tilt': (lambda: Fl.Tilt(), nop, est, UP, _ned, 'q', True),
        'AQUA': (lambda: Fl.AQUA(), nop, est, UP, _ned, 'q', True),
    }


def o_reuse(inp):
    """object re-use: estimate -> re-assign the public reference / weight attributes -> estimate again gives what a fresh
    object with the same attributes gives (bit for bit), and, for the exact estimators, the true attitude within 1e-7 rad.
    inp: cls, q0 (first call), q, dip, decl, sa, sm, w (weights for the second call), seed"""
    cls = inp['cls']
    make, setref, est, gref, mref, ret, exact = _reuse_table()[cls]
    e = dict(gref=gref, mref=mref, meas='R' if cls == 'AQUA' else 'T', ret=ret)
    decl = 0.0 if cls in ('SAAM', 'FAMC', 'Tilt', 'AQUA') else float(inp.get('decl', 0.0))     # these take no reference
    a, m, g, mr, exp = _measure(inp['q'], inp['dip'], inp['sa'], inp['sm'], e, decl)
    # first call: data consistent with the object's ORIGINAL references are not needed — any valid sample exercises the state
    a0, m0 = _measure(inp['q0'], 35.0, 1.0, 1.0, e, 0.0)[:2]
    w = inp.get('w', [1.0, 1.0])
    with warnings.catch_warnings():
        warnings.simplefilter('ignore')
        with np.errstate(all='ignore'):
            used = make()
            np.random.seed(int(inp.get('seed', 0)) % (2 ** 32))
            est(used, a0.copy(), m0.copy())
            setref(used, g, mr, w)
            np.random.seed(int(inp.get('seed', 0)) % (2 ** 32))
            r1 = est(used, a.copy(), m.copy())
            fresh = make()
            setref(fresh, g, mr, w)
            np.random.seed(int(inp.get('seed', 0)) % (2 ** 32))
            r2 = est(fresh, a.copy(), m.copy())
    r1, r2 = np.real(np.asarray(r1, dtype=complex)), np.real(np.asarray(r2, dtype=complex))
    if r1.shape != r2.shape or not np.all(np.isfinite(r1)) or min(np.max(np.abs(r1 - r2)), np.max(np.abs(r1 + r2))) > 1e-12:
        return {'tag': f'{cls}/reuse-differs-from-fresh', 'observed': r1, 'expected': r2}
    if exact and in_general_position(inp['q']):
        Rr = _as_rot(r1, ret)
        if isinstance(Rr, str):
            return {'tag': f'{cls}/reuse-not-an-attitude', 'observed': r1}
        err = _angle(Rr, exp)
        if not err <= TOL:
            return {'tag': f'{cls}/reuse-inexact', 'observed': {'angle_error_rad': err, 'returned': r1}, 'expected': {'rotation': exp}}
    return None


def _default_table():
    """estimators built with NO reference argument: class -> (make, refs(obj) -> (g, m) as stored, estimate, ret)"""
    import ahrs
    Fl = ahrs.filters
    est = lambda o, a, m: o.estimate(a, m)
    return {
        'TRIAD': (lambda: Fl.TRIAD(), lambda o: (o.v1, o.v2), est, 'RT'),
        'TRIAD_ENU': (lambda: Fl.TRIAD(frame='ENU'), lambda o: (o.v1, o.v2), est, 'RT'),
        'Davenport': (lambda: Fl.Davenport(), lambda o: (o.g_q, o.m_q), est, 'q'),
        'QUEST': (lambda: Fl.QUEST(), lambda o: (o.g_q, o.m_q), est, 'q'),
        'FLAE_eig': (lambda: Fl.FLAE(), lambda o: (o.ref[0], o.ref[1]), lambda o, a, m: o.estimate(a, m, method='eig'), 'q'),
        'FLAE_newton': (lambda: Fl.FLAE(), lambda o: (o.ref[0], o.ref[1]), lambda o, a, m: o.estimate(a, m, method='newton'), 'q'),
        'FQA': (lambda: Fl.FQA(), lambda o: (_f(DOWN), o.m_ref), lambda o, a, m: o.estimate(a, np.array(m, dtype=float)), 'q'),
        'OLEQ': (lambda: Fl.OLEQ(), lambda o: (o.a_ref, o.m_ref), est, 'q'),
        'OLEQ_ENU': (lambda: Fl.OLEQ(frame='ENU'), lambda o: (o.a_ref, o.m_ref), est, 'q'),
    }


def _ratio_tag(name, wa, wm, kind):
    """Davenport neither normalises its inputs nor its references: the two observations enter K with weights
    |acc|*|g_ref| and |mag|*|m_ref|; binary64 resolves the smaller one only while the ratio stays below ~1e7.
    The failure kind stays in the tag, so that anything other than the recorded small loss of accuracy is still reported."""
    r = max(wa, wm) / max(min(wa, wm), 1e-300)
    kind = kind if kind == 'identity-fallback' else 'inexact'      # the size of the loss is erratic in this region (1e-7 .. 0.2 rad seen)
    return f'{name}/weight-ratio>=1e7-{kind}' if r >= 1e7 else None


def o_default_refs(inp):
    """estimator constructed WITHOUT reference arguments; measurements = images of the references the object itself
    stores (directions), with independent magnitudes |acc| = sa, |mag| = sm over many decades"""
    cls = inp['cls']
    make, refs, est, ret = _default_table()[cls]
    q = _f(inp['q'])
    R = cm.Rspec(q)
    with warnings.catch_warnings():
        warnings.simplefilter('ignore')
        with np.errstate(all='ignore'):
            o = make()
            g, mr = (_f(t) for t in refs(o))
            a = inp['sa'] * (R.T @ (g / np.linalg.norm(g)))
            m = inp['sm'] * (R.T @ (mr / np.linalg.norm(mr)))
            rnd = np.random.random
            if cls.startswith('OLEQ'):
                np.random.random = lambda n=None: q + 0.5          # start at the fixed point (the iteration cap is a recorded finding)
            try:
                res = est(o, a.copy(), m.copy())
            finally:
                np.random.random = rnd
    exp = R if ret == 'q' else R.T
    Rr = _as_rot(res, ret) if res is not None else 'None'
    wts = (inp['sa'] * np.linalg.norm(g), inp['sm'] * np.linalg.norm(mr))
    if isinstance(Rr, str):
        return {'tag': f'{cls}/default-refs-not-an-attitude', 'observed': res, 'note': Rr}
    err = _angle(Rr, exp)
    if not err <= TOL:
        r = np.asarray(res).real
        kind = 'identity-fallback' if (r.shape == (4,) and np.array_equal(r, [1.0, 0.0, 0.0, 0.0])) else _bucket(err)
        special = _ratio_tag(cls, wts[0], wts[1], kind) if cls == 'Davenport' else None
        return {'tag': special or f'{cls}/default-refs-{kind}', 'observed': {'angle_error_rad': err, 'returned': r, 'acc': a, 'mag': m},
                'expected': {'rotation': exp, 'tolerance_rad': TOL}}
    return None


# ---- reference-shaping keywords: what the object REPORTS after construction against what was REQUESTED -----------------
_REF_KEYWORDS = ('magnetic_dip', 'magnetic_ref', 'mag_ref', 'v1', 'v2', 'frame', 'weights', 'gravity')


def ref_keywords():
    """class name -> reference-shaping keywords it accepts (from inspect.signature and the `kw.get('...')` reads of __init__)"""
    import ahrs, inspect, re
    out = {}
    for name in ('TRIAD', 'Davenport', 'QUEST', 'FLAE', 'OLEQ', 'FQA', 'SAAM', 'FAMC', 'Tilt', 'AQUA'):
        cls = getattr(ahrs.filters, name)
        found = set(inspect.signature(cls.__init__).parameters)
        try:
            found |= set(re.findall(r"kw(?:args)?\.get\(\s*['\"](\w+)['\"]", inspect.getsource(cls.__init__)))
        except (OSError, TypeError):
            pass
        out[name] = sorted(k for k in found if k in _REF_KEYWORDS)
    return out


def _dirs(dip, frame_style):
    cd, sd = math.cos(math.radians(float(dip))), math.sin(math.radians(float(dip)))
    return {'ned': [cd, 0.0, sd], 'ned_neg': [cd, 0.0, -sd], 'enu': [0.0, cd, -sd], 'oleq_ned': [sd, 0.0, cd]}[frame_style]


def o_refkw(inp):
    """construct with ONE reference-shaping keyword set to `value` (falsy-but-valid 0, 0.0, -0.0 included) and compare the
    reference the object reports with the requested one.  inp: cls, kw, value, frame"""
    import ahrs
    Fl = ahrs.filters
    cls, kw, val, fr = inp['cls'], inp['kw'], inp['value'], inp.get('frame', 'NED')
    unit = lambda t: _f(t) / np.linalg.norm(_f(t))
    with warnings.catch_warnings():
        warnings.simplefilter('ignore')
        if kw in ('magnetic_dip', 'magnetic_ref', 'v2') and not isinstance(val, list):
            if cls == 'Davenport':
                got, exp = Fl.Davenport(magnetic_dip=val).m_q, _dirs(val, 'ned')
            elif cls == 'QUEST':
                got, exp = Fl.QUEST(magnetic_dip=val).m_q, _dirs(val, 'ned')
            elif cls == 'FLAE':
                got, exp = Fl.FLAE(magnetic_dip=val).ref[1], _dirs(val, 'ned_neg')
            elif cls == 'OLEQ':
                got, exp = Fl.OLEQ(magnetic_ref=val, frame=fr).m_ref, _dirs(val, 'oleq_ned' if fr == 'NED' else 'enu')
            elif cls == 'TRIAD':
                got, exp = Fl.TRIAD(v2=float(val), frame=fr).v2, _dirs(val, 'ned' if fr == 'NED' else 'enu')
            else:
                return None
        elif kw in ('magnetic_dip', 'magnetic_ref', 'mag_ref', 'v2', 'v1'):          # vector-valued reference
            o = {'QUEST': lambda: Fl.QUEST(magnetic_dip=list(val)).m_q, 'OLEQ': lambda: Fl.OLEQ(magnetic_ref=_f(val), frame=fr).m_ref,
                 'FQA': lambda: Fl.FQA(mag_ref=_f(val)).m_ref, 'TRIAD': lambda: getattr(Fl.TRIAD(**{kw: _f(val)}), kw)}.get(cls)
            if o is None:
                return None
            got, exp = o(), val
        elif kw == 'gravity':
            got, exp = Fl.Davenport(gravity=val).g_q, [0.0, 0.0, 1.0]
            if abs(np.linalg.norm(got) - float(val)) > 1e-12 * max(1.0, abs(float(val))):
                return {'tag': f'{cls}/gravity-magnitude-differs', 'observed': got, 'expected': val}
        elif kw == 'weights':
            o = {'Davenport': lambda: Fl.Davenport(weights=_f(val)).w, 'QUEST': lambda: Fl.QUEST(weights=_f(val)).w,
                 'FLAE': lambda: Fl.FLAE(weights=_f(val)).a * np.sum(val), 'OLEQ': lambda: Fl.OLEQ(weights=_f(val)).a}[cls]
            got = _f(o())
            if got.shape != (2,) or np.max(np.abs(got - _f(val))) > 1e-12:
                return {'tag': f'{cls}/weights-differ', 'observed': got, 'expected': val}
            return None
        elif kw == 'frame' and cls == 'AQUA':
            # AQUA's algebraic estimate does not depend on `frame`: the keyword must not change it
            e = impl()['aqua']
            a, m, g, mr, exp = _measure([0.5, -0.3, 0.4, math.sqrt(1 - 0.5)], 40.0, 2.0, 30.0, e)
            Rr = _as_rot(Fl.AQUA(frame=val).estimate(a, m), 'q')
            if isinstance(Rr, str) or not _angle(Rr, exp) <= TOL:
                return {'tag': f'AQUA/frame-changes-estimate', 'observed': Rr, 'expected': exp}
            return None
        elif kw == 'frame':
            o = {'TRIAD': lambda: Fl.TRIAD(frame=val).v1, 'OLEQ': lambda: Fl.OLEQ(frame=val).a_ref}[cls]
            got = o()
            exp = {('TRIAD', 'NED'): UP, ('TRIAD', 'ENU'): DOWN, ('OLEQ', 'NED'): DOWN, ('OLEQ', 'ENU'): UP}[(cls, val)]
        else:
            return None
    got = _f(got)
    if got.shape != (3,) or not np.all(np.isfinite(got)) or np.linalg.norm(got) == 0 or np.max(np.abs(unit(got) - unit(exp))) > 1e-12:
        return {'tag': f'{cls}/{kw}-reference-differs', 'observed': got, 'expected': unit(exp)}
    return None


ORACLES = {'refkw': o_refkw, 'default_refs': o_default_refs, 'estimate': o_estimate, 'acc2q': o_acc2q, 'triad_dip': o_triad_dip, 'oleq_fixed': o_oleq_fixed, 'reuse': o_reuse}


def _call(f, inp, name):
    from vlib.core import call_outcome
    r = call_outcome(f, inp)
    if r[0] == 'raise':
        return {'tag': f"{name}/raises-{r[1]}", 'observed': list(r[1:])}
    return r[1]


def singular_poses():
    s = math.sqrt(0.5)
    out = [('identity', [1.0, 0, 0, 0])]
    for k in range(8):
        out.append((f'level-heading-{45 * k}', cm.axang_q([0, 0, 1], k * math.pi / 4).tolist()))
    out.append(('inverted-x', [0.0, 1, 0, 0]))
    out.append(('inverted-y', [0.0, 0, 1, 0]))
    out.append(('half-turn-z', [0.0, 0, 0, 1]))
    out.append(('x-axis-up', [s, 0, s, 0]))
    out.append(('x-axis-down', [s, 0, -s, 0]))
    out.append(('y-axis-up', [s, -s, 0, 0]))
    out.append(('y-axis-down', [s, s, 0, 0]))
    for ax in ([1, 1, 0], [1, 2, 3], [0, 1, -1], [-1, 1, 1]):
        out.append(('half-turn-oblique', cm.axang_q(ax, math.pi).tolist()))
        out.append(('inverted-heading', cm.qmul(cm.axang_q([0, 0, 1], 0.7), [0.0, 1, 0, 0]).tolist()))
    out.append(('x-up-heading', cm.qmul(cm.axang_q([0, 0, 1], 1.1), [s, 0, s, 0]).tolist()))
    out.append(('half-turn-z-tilted', cm.qmul([s, s, 0, 0], [0.0, 0, 0, 1]).tolist()))
    return out


def _gp_quat(rng):
    while True:
        q = cm.rand_unit_quat(rng)
        if in_general_position(q):
            return q


def search(ctx, scale):
    T = impl()
    rng = ctx.rng
    names = list(T)
    free = [n for n in names if T[n]['cls'] == 'free']
    draw = lambda: dict(dip=float(rng.uniform(-80, 80)), sa=float(10 ** rng.uniform(-2, 2)), sm=float(10 ** rng.uniform(-2, 2)),
                        seed=int(rng.integers(0, 2 ** 31)),
                        decl=float(rng.choice([0.0, 30.0, -30.0, float(rng.uniform(-30, 30)), float(rng.uniform(-180, 180))])))
    k = lambda est, form, q: (est, form, tuple(np.round(q, 5)))
    # 1. singular poses for the singularity-free class (exactly representable inputs, also as Python lists)
    for j, (region, q) in enumerate(singular_poses()):
        for est in free:
            for dip in ((60.0, -80.0, 0.0, 80.0) if scale > 1 else (60.0, -35.0)):
                inp = dict(est=est, q=q, region=region, form='estimate', as_list=bool(j % 2), **draw())
                inp.update(dip=dip, sa=1.0 if j % 3 else 9.81, sm=1.0 if j % 2 else 48.0)
                ctx.check('estimate', inp, _call(o_estimate, inp, est), nontrivial_key=k(est, region, q) if region != 'identity' else None)
    # 2. general position: every estimator and mode, scalar estimate(), second call
    for i in range(12 * scale):
        q = _gp_quat(rng)
        for est in names:
            inp = dict(est=est, q=q.tolist(), form='estimate', twice=(i % 4 == 0 and not est.startswith('oleq')), **draw())
            ctx.check('estimate', inp, _call(o_estimate, inp, est), nontrivial_key=k(est, 'estimate', q))
    # 3. whole SO(3) for the singularity-free class
    for i in range(15 * scale):
        q = cm.rand_unit_quat(rng)
        for est in free:
            inp = dict(est=est, q=q.tolist(), form='estimate', **draw())
            ctx.check('estimate', inp, _call(o_estimate, inp, est), nontrivial_key=k(est, 'estimate', q))
    # 4. constructor paths: one sample and N samples, N in {2,3,4,5,7}
    for i, n in enumerate((1, 2, 3, 4, 5, 7) * (1 if scale == 1 else 3)):
        q = _gp_quat(rng)
        for est in names:
            if T[est]['many'] is None:
                continue
            if n == 1 and est in ('flae_eig', 'flae_newton'):
                continue            # one-sample FLAE(acc, mag, method=...) ignores `method`: owned by property C07
            # first and last row always (pre-allocation / off-by-one patterns), plus a random one
            for row in sorted({0, n - 1, int(rng.integers(0, n))}):
                inp = dict(est=est, q=q.tolist(), form='ctor1' if n == 1 else 'ctorN', n=n, row=row, **draw())
                ctx.check('estimate', inp, _call(o_estimate, inp, est), nontrivial_key=k(est, inp['form'] + str(n) + '/' + str(row), q))
    # 5. acc2q and TRIAD with a float dip
    for i in range(10 * scale):
        q = cm.rand_unit_quat(rng) if i % 2 else _f(singular_poses()[i % len(singular_poses())][1])
        inp = dict(q=_f(q).tolist(), sa=float(10 ** rng.uniform(-2, 2)))
        ctx.check('acc2q', inp, _call(o_acc2q, inp, 'acc2q'), nontrivial_key=('acc2q', tuple(np.round(q, 5))))
        for fr in ('NED', 'ENU'):
            inp = dict(q=_f(q).tolist(), frame=fr, **draw())
            ctx.check('triad_dip', inp, _call(o_triad_dip, inp, f'triad_dip_{fr}'), nontrivial_key=('triad_dip', fr, tuple(np.round(q, 5))))
    # 8. independent magnitudes over many decades (sensor units: g / m/s^2, Tesla / Gauss / uT / nT), explicit and default references
    AN, MN = (1e-3, 1.0, 9.81, 1e3), (1e-9, 0.5, 48.0, 4.8e4, 1e6)
    for i in range(2 * scale):
        q = _gp_quat(rng)
        for sa in AN:
            for sm in MN:
                d = draw()
                for est in names:
                    inp = dict(est=est, q=q.tolist(), form='estimate', **{**d, 'sa': sa, 'sm': sm})
                    ctx.check('estimate', inp, _call(o_estimate, inp, est), nontrivial_key=(est, 'decades', sa, sm, i))
                for cls in _default_table():
                    inp = dict(cls=cls, q=q.tolist(), sa=sa, sm=sm)
                    ctx.check('default_refs', inp, _call(o_default_refs, inp, cls), nontrivial_key=(cls, 'default', sa, sm, i))
    # 9. nearly-unit magnitudes: a sample within 1e-5 of norm 1 that is not exactly normalised (accelerometer in g reading 1.000008)
    NEAR = [1.0] + [1.0 + sg * d for d in (1e-8, 1e-7, 1e-6, 5e-6, 9e-6) for sg in (1, -1)]
    for i in range(1 * scale):
        q = _gp_quat(rng)
        for j, s1 in enumerate(NEAR):
            s2 = NEAR[(3 * j + 1 + i) % len(NEAR)]
            for (sa, sm) in ((s1, s2), (s1, 1.0), (1.0, s1)):
                for dip in (80.0, -75.0, 20.0):
                    for est in names:
                        inp = dict(est=est, q=q.tolist(), form='estimate', **{**draw(), 'sa': sa, 'sm': sm, 'dip': dip})
                        ctx.check('estimate', inp, _call(o_estimate, inp, est), nontrivial_key=(est, 'near-unit', sa, sm, dip, i))
    # 10. reference-shaping keywords, falsy-but-valid and boundary values included: reported vs requested reference, and exactness
    #     on data consistent with the REQUESTED reference (dip 0 => horizontal field)
    DIPS = [0, 0.0, -0.0, 1e-9, -1e-9, 30, -30.0, 45, 80.0, -80.0, 89.0, -89.0]
    VECS = [[1.0, 0.0, 0.0], [0.5, 0.5, 0.7], [0.0, 1.0, -1.0], [20000.0, -1500.0, 44000.0], [0.0, 0.0, 1.0e-3 + 1.0]]
    for cls, kws in ref_keywords().items():
        for kw in kws:
            vals = {'magnetic_dip': DIPS + (VECS if cls == 'QUEST' else []), 'magnetic_ref': DIPS + VECS, 'mag_ref': VECS[:4],
                    'v2': DIPS + VECS[:4], 'v1': [[0.0, 0.0, 1.0], [0.0, 0.0, -2.0], [0.1, 0.2, 3.0]], 'frame': ['NED', 'ENU'],
                    'weights': [[1.0, 1.0], [0.3, 0.7], [2.0, 0.5]], 'gravity': [1.0, 9.81, 0.5, 1]}[kw]
            for val in vals:
                for fr in (('NED', 'ENU') if cls in ('OLEQ', 'TRIAD') and kw != 'frame' else ('NED',)):
                    inp = dict(cls=cls, kw=kw, value=val, frame=fr)
                    ctx.check('refkw', inp, _call(o_refkw, inp, cls), nontrivial_key=('refkw', cls, kw, repr(val), fr))
    for i in range(2 * scale):
        q = _gp_quat(rng)
        for dip in (0, 0.0, -0.0, 1e-9, 80.0, -80.0):
            for est in names:
                inp = dict(est=est, q=q.tolist(), form='estimate' if i % 2 == 0 or impl()[est]['many'] is None else 'ctorN', n=3, row=0,
                           **{**draw(), 'dip': dip, 'decl': 0.0})
                ctx.check('estimate', inp, _call(o_estimate, inp, est), nontrivial_key=(est, 'dip-edge', repr(dip), i))
            for fr in ('NED', 'ENU'):
                inp = dict(q=q.tolist(), frame=fr, **{**draw(), 'dip': float(dip)})
                ctx.check('triad_dip', inp, _call(o_triad_dip, inp, f'triad_dip_{fr}'), nontrivial_key=('triad_dip-edge', fr, repr(dip), i))
    # 7. object re-use after re-assigning references / weights (declinations, other plane, other weights)
    for i in range(6 * scale):
        q0, q = _gp_quat(rng), _gp_quat(rng)
        for cls in _reuse_table():
            inp = dict(cls=cls, q0=q0.tolist(), q=q.tolist(), w=[0.3, 0.7] if i % 2 else [1.0, 1.0], **draw())
            ctx.check('reuse', inp, _call(o_reuse, inp, cls), nontrivial_key=('reuse', cls, tuple(np.round(q, 5))))
    # 6. OLEQ started at the true attitude (fixed point of its iteration; not affected by the recorded iteration-cap findings)
    for i in range(20 * scale):
        q = _gp_quat(rng)
        for fr in ('NED', 'ENU'):
            inp = dict(q=q.tolist(), frame=fr, **draw())
            ctx.check('oleq_fixed', inp, _call(o_oleq_fixed, inp, f'oleq_{fr}'), nontrivial_key=('oleq_fixed', fr, tuple(np.round(q, 5))))
    ctx.samples.append({'kind': 'search', 'oracle': 'estimate', 'input': dict(est='quest', q=[0.5, 0.5, 0.5, 0.5], dip=60.0, sa=9.81, sm=48.0)})


# ------------------------------------------------------------------------------------------
# correspondence: regenerated float models (run inside Coq) against the public entry points
# ------------------------------------------------------------------------------------------
_CORR = {   # target -> table entry whose scalar call returns the same thing
    'triad_NED': 'triad_NED', 'triad_ENU': 'triad_ENU', 'ecompass_NED': 'ecompass_NED', 'ecompass_ENU': 'ecompass_ENU',
    'am2DCM_ENU': 'am2DCM_ENU', 'am2DCM_NED': 'am2DCM_NED', 'tilt_q': 'tilt', 'tilt_R': 'tilt_rotmat', 'aqua': 'aqua',
    'saam': 'saam', 'famc': 'famc', 'fqa': 'fqa', 'quest': 'quest',
}


def _cases(ctx, n, cls):
    out = []
    poses = [q for _, q in singular_poses()] if cls == 'free' else []
    for i in range(n):
        if i < len(poses) and i % 2 == 0:
            q = _f(poses[i])
        else:
            q = _gp_quat(ctx.rng) if cls == 'closed' else cm.rand_unit_quat(ctx.rng)
        dip = float(ctx.rng.uniform(-80, 80))
        de = float(ctx.rng.choice([30.0, -30.0, float(ctx.rng.uniform(-180, 180))]))
        out.append(dict(zip(IND, [*q, float(10 ** ctx.rng.uniform(-2, 2)), float(10 ** ctx.rng.uniform(-2, 2)),
                                  math.cos(math.radians(dip)), math.sin(math.radians(dip)),
                                  math.cos(math.radians(de)), math.sin(math.radians(de))])))
    return out


def _run_impl(name, c):
    import ahrs
    e = impl()[name]
    q = _f([c[k] for k in Q])
    R = cm.Rspec(q)
    g, mr = _f(e['gref']), _f(e['mref'](c['cd'], c['sd']))
    M = R.T if e['meas'] == 'T' else R
    a, m = c['sa'] * (M @ g), c['sm'] * (M @ mr)
    Fl = ahrs.filters
    with warnings.catch_warnings():
        warnings.simplefilter('ignore')
        # the dip enters the models as (cd, sd): hand the reference vector itself to the estimators that accept one
        if name == 'quest':
            est = Fl.QUEST(magnetic_dip=60.0); est.m_q = mr
            return est.estimate(a, m)
        if name == 'tilt':
            return Fl.Tilt().estimate(a, m)
        return e['one'](a, m, None, g, mr)


def correspondence(ctx):
    n = ctx.n(24, 200)
    T = impl()
    for tname, name in _CORR.items():
        cases = _cases(ctx, n, T[name]['cls'])
        quat = T[name]['ret'] in ('q', 'q*')
        ctx.correspond(f'C04_{tname}', cases, (lambda c, name=name: _run_impl(name, c)), tol_ulp=64, abs_tol=2e-9, up_to_sign=quat)
    # TRIAD through the constructor
    import ahrs
    from ahrs.common import orientation as O_
    ctx.correspond('C04_triad_ctor', _cases(ctx, n, 'free'),
                   lambda c: (lambda a, m, g, mr: ahrs.filters.TRIAD(a, m, v1=g, v2=mr).A)(*_meas_c(c, 'triad_NED')), tol_ulp=64, abs_tol=2e-9)
    # references with a declination; re-used TRIAD object
    def q_decl(c):
        a, m, g, mr = _meas_c(c, 'quest', True)
        est = ahrs.filters.QUEST(magnetic_dip=60.0); est.m_q = mr
        return est.estimate(a, m)
    def triad_reuse(c):
        a0, m0, g0, mr0 = _meas_c(c, 'am2DCM_NED')          # gravity reference down
        a0, m0, g0, mr0 = c['sa'] * (cm.Rspec(_f([c[k] for k in Q])).T @ _f(DOWN)), None, _f(DOWN), _f(_enu(c['cd'], c['sd']))
        m0 = c['sm'] * (cm.Rspec(_f([c[k] for k in Q])).T @ mr0)
        a, m, g, mr = _meas_c(c, 'triad_NED', True)
        t = ahrs.filters.TRIAD(v1=g0, v2=mr0); t.estimate(a0, m0); t.v1, t.v2 = g, mr
        return t.estimate(a, m)
    with warnings.catch_warnings():
        warnings.simplefilter('ignore')
        ctx.correspond('C04_triad_decl', _cases(ctx, n, 'free'),
                       lambda c: (lambda a, m, g, mr: ahrs.filters.TRIAD(v1=g, v2=mr).estimate(a, m))(*_meas_c(c, 'triad_NED', True)), tol_ulp=64, abs_tol=2e-9)
        ctx.correspond('C04_triad_reuse', _cases(ctx, n, 'free'), triad_reuse, tol_ulp=64, abs_tol=2e-9)
        ctx.correspond('C04_fqa_decl', _cases(ctx, n, 'closed'),
                       lambda c: (lambda a, m, g, mr: ahrs.filters.FQA(mag_ref=mr).estimate(a, np.array(m)))(*_meas_c(c, 'fqa', True)),
                       tol_ulp=64, abs_tol=2e-9, up_to_sign=True)
        ctx.correspond('C04_quest_at_root', _cases(ctx, n, 'closed'), (lambda c: _run_impl('quest', c)), tol_ulp=64, abs_tol=2e-9, up_to_sign=True)
        ctx.correspond('C04_triad_q', _cases(ctx, n, 'closed'), (lambda c: _run_impl('triad_NED_q', c)), tol_ulp=64, abs_tol=2e-9, up_to_sign=True)
        ctx.correspond('C04_ecompass_NED_q', _cases(ctx, n, 'closed'), (lambda c: _run_impl('ecompass_NED_q', c)), tol_ulp=64, abs_tol=2e-9, up_to_sign=True)
        ctx.correspond('C04_acc2q', _cases(ctx, n, 'free'), (lambda c: O_.acc2q(_meas_c(c, 'tilt')[0])), tol_ulp=64, abs_tol=2e-9, up_to_sign=True)
        ctx.correspond('C04_saam_vec', _cases(ctx, n, 'closed'),
                       (lambda c: (lambda a, m, g, mr: ahrs.filters.SAAM(np.array([a, [0.0, 2.0, 0.0]]), np.array([m, [0.0, 2.4, 1.8]])).Q[0])(*_meas_c(c, 'saam'))),
                       tol_ulp=64, abs_tol=2e-9, up_to_sign=True)
        def oleq_fx(fr):
            def f(c):
                a, m, g, mr = _meas_c(c, f'oleq_{fr}')
                e = ahrs.filters.OLEQ(magnetic_ref=np.array([0.5, 0.0, 0.8660254037844386]), weights=np.array([1.0, 1.0]), frame=fr)
                e.m_ref, e.a_ref = mr, g
                rnd = np.random.random
                np.random.random = lambda n=None: _f([c[k] for k in Q]) + 0.5
                try:
                    return e.estimate(a, m)
                finally:
                    np.random.random = rnd
            return f
        ctx.correspond('C04_oleq_fixed_NED', _cases(ctx, n, 'free'), oleq_fx('NED'), tol_ulp=64, abs_tol=2e-9)
        ctx.correspond('C04_oleq_fixed_ENU', _cases(ctx, n, 'free'), oleq_fx('ENU'), tol_ulp=64, abs_tol=2e-9)
        ctx.correspond('C04_quest_decl', _cases(ctx, n, 'closed'), q_decl, tol_ulp=64, abs_tol=2e-9, up_to_sign=True)
    # captured LAPACK inputs: the top eigenvector of the model's matrix (evaluated inside Coq) is what the public call returns
    from vlib import core
    for tname, name in (('davenport_K', 'davenport'), ('flae_W', 'flae_eig'), ('davenport_K_decl', 'davenport'), ('flae_W_decl', 'flae_eig')):
        t = ctx.targets.get(f'C04_{tname}')
        if t is None or t.error:
            continue
        cases = _cases(ctx, ctx.n(12, 100), 'free')
        from pysym import emit
        pre = ['From Coq Require Import List. From Coq Require Import Uint63. From Coq Require Import PrimFloat.',
               'From AhrsLib Require Import FBase.', 'From AhrsGen Require Import C04gen_F.', 'Import ListNotations.', 'Open Scope float_scope.']
        exprs = [f"C04_{tname}_F " + ' '.join(emit._hexf(float(c[v])) for v in t.inputs) for c in cases]
        outs = ctx.coq_eval(f'C04_{tname}', pre, exprs)
        if outs is None:
            continue
        for c, o in zip(cases, outs):
            r = core.parse_evals('= ' + o + '\n     : x')
            if not r or r[0][0] != 'val' or len(r[0][1]) != 16:
                ctx.disagree(f'C04_{tname}', c, o, None, 'model did not return a 4x4 matrix')
                continue
            K = np.array(r[0][1]).reshape(4, 4)
            wv, V = np.linalg.eigh((K + K.T) / 2)
            top = V[:, int(np.argmax(wv))]
            a, m, g, mr = _meas_c(c, name, tname.endswith('_decl'))
            if name == 'davenport':
                est = ahrs.filters.Davenport(magnetic_dip=60.0, gravity=1.0); est.m_q = mr
                got = np.real(est.estimate(a, m))
            else:
                est = ahrs.filters.FLAE(magnetic_dip=60.0, weights=np.array([0.5, 0.5])); est.ref = np.vstack((g, mr))
                got = np.real(est.estimate(a, m, method='eig'))
            got = got / np.linalg.norm(got)
            d = min(np.max(np.abs(got - top)), np.max(np.abs(got + top)))
            gap = np.sort(wv)[-1] - np.sort(wv)[-2]
            if d > 1e-9 / max(gap, 1e-6) or np.max(np.abs(K - K.T)) > 1e-12 * max(1.0, np.max(np.abs(K))):
                ctx.disagree(f'C04_{tname}', c, top, got, f'top eigenvector of the model matrix differs from the public output by {d:.3g}')
            else:
                ctx.agree(f'C04_{tname}')
        ctx.say(f"[corr] C04_{tname}: {len(cases)} cases, top eigenvector of the regenerated matrix vs public estimate()")


def _meas_c(c, name, decl=False):
    e = impl()[name]
    R = cm.Rspec(_f([c[k] for k in Q]))
    mm = e['mref'](c['cd'], c['sd'])
    if decl:
        mm = _rotz(mm, c['ce'], c['se'])
    g, mr = _f(e['gref']), _f(mm)
    M = R.T if e['meas'] == 'T' else R
    return c['sa'] * (M @ g), c['sm'] * (M @ mr), g, mr
