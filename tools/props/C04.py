"""C04 — single-frame estimators recover the attitude exactly from consistent data."""
import math, warnings
import numpy as np
from pysym.gen import Target
from . import common as cm

PID = 'C04'
Q = ['w', 'x', 'y', 'z']
IN = Q + ['sa', 'sm', 'cd', 'sd']        # attitude, the two positive scalings, cos/sin of the magnetic dip


# ------------------------------------------------------------------------------------------
# how each estimator documents / uses its references (verified against the code, see notes/design/C04.md)
#   gref, mref : reference directions as functions of (cd, sd) = (cos dip, sin dip)
#   meas       : 'T'  measurement = s * Rspec(q)^T ref   (sensor frame = inverse rotation of the reference)
#                'R'  measurement = s * Rspec(q)   ref
#   ret        : 'q' | 'q*' | 'R' | 'RT'   what the estimator returns for that measurement convention
# ------------------------------------------------------------------------------------------
def _ned(cd, sd): return [cd, 0, sd]
def _ned_neg(cd, sd): return [cd, 0, -sd]
def _enu(cd, sd): return [0, cd, -sd]
def _oleq_ned(cd, sd): return [sd, 0, cd]
UP, DOWN = [0, 0, 1], [0, 0, -1]


# ---- symbolic side ------------------------------------------------------------------------
def _sym_R(v):
    from pysym import symnp
    w, x, y, z = v.w, v.x, v.y, v.z
    return symnp.array([[1 - 2 * (y * y + z * z), 2 * (x * y - w * z), 2 * (x * z + w * y)],
                        [2 * (x * y + w * z), 1 - 2 * (x * x + z * z), 2 * (y * z - w * x)],
                        [2 * (x * z - w * y), 2 * (w * x + y * z), 1 - 2 * (x * x + y * y)]])


def _sym_vec(l):
    from pysym import symnp
    from pysym.sym import S
    return symnp.array([S.const(e) if not isinstance(e, S) else e for e in l])


def _sym_meas(v, gref, mref, meas='T'):
    """(acc, mag) = (sa * M g, sm * M m) with M = Rspec(q)^T or Rspec(q), all symbolic"""
    R = _sym_R(v)
    M = R.T if meas == 'T' else R
    g, m = _sym_vec(gref), _sym_vec(mref(v.cd, v.sd))
    return v.sa * (M @ g), v.sm * (M @ m), g, m


class _Captured(Exception):
    def __init__(self, args):
        self.payload = args


def _capture(A, names, thunk):
    """run thunk(); return the positional arguments of the first call the traced package makes to one of
    np.linalg.<names> (LAPACK routines cannot run on symbols; their *input* is what the model is about)"""
    la = A.filters.davenport.np.linalg          # the proxy module's linalg object, shared by the traced package
    def hook(*a, **k):
        raise _Captured(a)
    for n in names:
        la.__dict__[n] = hook
    try:
        thunk()
    except _Captured as c:
        return c.payload
    finally:
        for n in names:
            la.__dict__.pop(n, None)
    from pysym.sym import Unsupported
    raise Unsupported(f"np.linalg.{'/'.join(names)} was not reached")


def _not_converged(atom, value):
    """prune predicate for the tolerance-terminated Newton loops: `abs(l_old - l) > 1e-8` decided True"""
    from fractions import Fraction
    a = atom.args[0]
    return bool(value) and atom.op == 'lt' and a.op == 'const' and a.value == Fraction(1, 10 ** 8)


def targets():
    mk = lambda n, f, doc='', **k: Target(f'C04_{n}', IN, f, doc=doc, **k)
    F = lambda A: A.filters
    O = lambda A: A.common.orientation

    def triad(mref, rep):
        def fn(A, v):
            a, m, g, mr = _sym_meas(v, UP, mref)
            return F(A).TRIAD(v1=g, v2=mr).estimate(a, m, rep)
        return fn

    def triad_ctor(mref):
        def fn(A, v):
            a, m, g, mr = _sym_meas(v, UP, mref)
            return F(A).TRIAD(a, m, v1=g, v2=mr).A
        return fn

    def ecompass(frame, mref, rep):
        def fn(A, v):
            a, m, _, _ = _sym_meas(v, UP, mref)
            return O(A).ecompass(a, m, frame=frame, representation=rep)
        return fn

    def am2dcm(frame, gref, mref):
        def fn(A, v):
            a, m, _, _ = _sym_meas(v, gref, mref)
            return O(A).am2DCM(a, m, frame=frame)
        return fn

    def tilt(rep):
        def fn(A, v):
            a, m, _, _ = _sym_meas(v, UP, _ned)
            return F(A).Tilt().estimate(a, m, rep)
        return fn

    def aqua(A, v):
        a, m, _, _ = _sym_meas(v, UP, _ned, meas='R')
        return F(A).AQUA().estimate(a, m)

    def saam(A, v):
        a, m, _, _ = _sym_meas(v, UP, _ned)
        return F(A).SAAM().estimate(a, m)

    def famc(A, v):
        a, m, _, _ = _sym_meas(v, UP, _ned)
        return F(A).FAMC().estimate(a, m)

    def fqa(A, v):
        a, m, _, mr = _sym_meas(v, DOWN, _ned)
        e = F(A).FQA(mag_ref=np.array([0.5, 0.0, 0.8660254037844386]))
        e.m_ref = mr                         # public attribute; the constructor rejects non-float entries
        return e.estimate(a, m)

    def quest(A, v):
        a, m, _, mr = _sym_meas(v, UP, _ned)
        e = F(A).QUEST(magnetic_dip=60.0)
        e.m_q = mr
        return e.estimate(a, m)

    def davenport_K(A, v):
        a, m, _, mr = _sym_meas(v, UP, _ned)
        e = F(A).Davenport(magnetic_dip=60.0, gravity=1.0)
        e.m_q = mr
        return _capture(A, ('eig', 'eigh'), lambda: e.estimate(a, m))[0]

    def flae_W(A, v):
        a, m, g, mr = _sym_meas(v, UP, _ned_neg)
        e = F(A).FLAE(magnetic_dip=60.0, weights=np.array([0.5, 0.5]))
        e.ref = np.vstack((np.array(g), np.array(mr)))
        return _capture(A, ('eig', 'eigh'), lambda: e.estimate(a, m, method='eig'))[0]

    def flae_newton_N(A, v):
        a, m, g, mr = _sym_meas(v, UP, _ned_neg)
        e = F(A).FLAE(magnetic_dip=60.0, weights=np.array([0.5, 0.5]))
        e.ref = np.vstack((np.array(g), np.array(mr)))
        return _capture(A, ('inv',), lambda: e.estimate(a, m, method='newton'))[0]

    return [
        mk('triad_NED', triad(_ned, 'rotmat'), "TRIAD(v1=(0,0,1), v2=(cd,0,sd)).estimate(sa R^T v1, sm R^T v2)"),
        mk('triad_ENU', triad(_enu, 'rotmat'), "TRIAD(v1=(0,0,1), v2=(0,cd,-sd)).estimate(...)"),
        mk('triad_ctor', triad_ctor(_ned), "TRIAD(w1, w2, v1, v2).A"),
        mk('ecompass_NED', ecompass('NED', _ned, 'rotmat')),
        mk('ecompass_ENU', ecompass('ENU', _enu, 'rotmat')),
        mk('am2DCM_ENU', am2dcm('ENU', UP, _enu)),
        mk('am2DCM_NED', am2dcm('NED', DOWN, _ned)),
        mk('tilt_q', tilt('quaternion')),
        mk('tilt_R', tilt('rotmat')),
        mk('tilt_angles', tilt('angles')),
        mk('aqua', aqua),
        mk('saam', saam),
        mk('famc', famc),
        mk('fqa', fqa),
        mk('quest', quest, "QUEST.estimate; Newton loop traced on its converged side only", prune=_not_converged),
        mk('davenport_K', davenport_K, "the matrix Davenport.estimate hands to np.linalg.eig"),
        mk('flae_W', flae_W, "the matrix FLAE.estimate(method='eig') hands to np.linalg.eig"),
        mk('flae_newton_N', flae_newton_N, "the matrix FLAE.estimate(method='newton') hands to np.linalg.inv", prune=_not_converged),
    ]


STAGES = []
