"""C15 — WMM answers depend only on (date, place, frame), not on call path or history.

Three ties to /repo's current source, all redone on every run:
  * `extract_facts`  : a Python-`ast` abstract walk of ahrs/utils/wmm.py -> gen/C15facts.v (which methods reload /
                       scale self.c, self.cd, under which condition; the constructor's guard and the date it passes on);
  * pysym targets    : the derived-elements tail of `magnetic_field`, the ENU rotation, the longitude harmonics and the
                       in-place Schmidt scaling of `denormalize_coefficients`, cut out of the method bodies by `ast` and
                       executed by the tracing symbolic executor on a bare object of the traced class;
  * correspondence   : the state-machine model (coq/model/C15_wmm_object.v) instantiated with the regenerated facts and
                       run by vm_compute against real objects on generated call sequences.
"""
import ast, copy, datetime, inspect, itertools, math, os, types
import numpy as np
from pysym.gen import Target
from vlib import core
from . import common as cm

PID = 'C15'
LEVEL_TEXT = ("Coq theorems over (i) a state-machine model of the WMM object parameterised by facts re-extracted from wmm.py by a "
              "Python-ast walk on every run and (ii) pysym-regenerated definitions of the derived-elements tail, the ENU rotation, "
              "the longitude harmonics and the in-place coefficient scaling; the model is run against real objects on call sequences")
TECHNIQUE = "Coq proof over regenerated facts + regenerated formula code; differential run of the object model; numeric search"
RULE = ("call sequences of length 1..6 on one object vs fresh objects, constructor and method, dates as float / int / datetime.date / None, "
        "on and off the 0.1-year grid and at the 2020/2025 file boundaries, places incl. latitude 0, +-90, longitude 0, +-180, both frames; "
        "non-trivial = distinct (entry point, date kind, place class, frame, history length)")
TRUSTED = ["Coq 8.16.1 kernel; vm_compute for the executable instance of the object model and the float copies",
           "pysym tracing translator; the ast cut that isolates the tail / harmonics / scaling statements of the method bodies",
           "the ast fact extractor (abstract walk of the WMM methods) -- validated on every run by the differential run of the model",
           "hand-written state-machine model coq/model/C15_wmm_object.v -- tied by correspondence only",
           "stdlib real-number axioms; real arithmetic stands for binary64 (measured by correspondence)"]
WMM_REL = os.path.join('ahrs', 'utils', 'wmm.py')


# =============================================================================================
# 1. fact extractor (Python ast)
# =============================================================================================
class ExtractError(Exception):
    pass


def _src():
    p = os.path.join(core.REPO, WMM_REL)
    return open(p).read()


def _cls(tree, name='WMM'):
    for n in tree.body:
        if isinstance(n, ast.ClassDef) and n.name == name:
            return n
    raise ExtractError(f'class {name} not found')


def _methods(cls):
    return {n.name: n for n in cls.body if isinstance(n, ast.FunctionDef)}


def _is_self_attr(n, attr=None):
    return (isinstance(n, ast.Attribute) and isinstance(n.value, ast.Name) and n.value.id == 'self'
            and (attr is None or n.attr == attr))


def _coef_target(t):
    """'fresh' for `self.c = ...`, 'inplace' for `self.c[...] op= ...` / `self.c[...] = ...`, else None; with the attribute"""
    if _is_self_attr(t) and t.attr in ('c', 'cd'):
        return ('fresh', t.attr)
    if isinstance(t, ast.Subscript) and _is_self_attr(t.value) and t.value.attr in ('c', 'cd'):
        return ('inplace', t.value.attr)
    return None


def _date_test(test, date_none):
    """abstract truth of a guard when the parameter `date` is None (date_none=True) or not (False); None = unknown"""
    if isinstance(test, ast.UnaryOp) and isinstance(test.op, ast.Not):
        v = _date_test(test.operand, date_none)
        return None if v is None else (not v)
    if (isinstance(test, ast.Compare) and len(test.ops) == 1 and isinstance(test.left, ast.Name) and test.left.id == 'date'
            and isinstance(test.comparators[0], ast.Constant) and test.comparators[0].value is None and date_none is not None):
        if isinstance(test.ops[0], ast.Is):
            return date_none
        if isinstance(test.ops[0], ast.IsNot):
            return not date_none
    return None


class _Walk:
    """abstract walk of one method: ordered events ('R' reload = fresh self.c and self.cd, 'S' in-place scaling), each
    flagged definite / maybe, following calls to other methods of the class; tracks whether `date` is None"""

    def __init__(self, methods):
        self.methods = methods

    def events(self, name, date_none, depth=0):
        if depth > 6:
            raise ExtractError('method call depth')
        self.ev = []
        self.date_none = date_none
        self._body(self.methods[name].body, True, depth)
        return self._fresh_pairs(self.ev)

    @staticmethod
    def _fresh_pairs(ev):
        """a reload needs both tables replaced: collapse F(c) F(cd) pairs into one R"""
        out, seen = [], {}
        for kind, what, definite in ev:
            if kind == 'F':
                seen[what] = definite
                if 'c' in seen and 'cd' in seen:
                    out.append(('R', seen['c'] and seen['cd']))
                    seen = {}
            else:
                out.append((kind, definite))
        return out

    def _body(self, stmts, definite, depth):
        for s in stmts:
            self._stmt(s, definite, depth)

    def _calls(self, node, definite, depth):
        for c in ast.walk(node):
            if isinstance(c, ast.Call) and _is_self_attr(c.func) and c.func.attr in self.methods:
                callee = c.func.attr
                sub = _Walk(self.methods)
                # the callee's own `date` parameter: unknown unless it is literally our `date`
                dn = None
                for a in list(c.args) + [k.value for k in c.keywords]:
                    if isinstance(a, ast.Name) and a.id == 'date':
                        dn = self.date_none
                for kind, d in sub.events(callee, dn, depth + 1):
                    self.ev.append((kind, None, definite and d) if kind != 'R' else ('F', 'c', definite and d))
                    if kind == 'R':
                        self.ev.append(('F', 'cd', definite and d))

    def _stmt(self, s, definite, depth):
        if isinstance(s, ast.If):
            v = _date_test(s.test, self.date_none)
            self._calls(s.test, definite, depth)
            if v is True:
                self._body(s.body, definite, depth)
            elif v is False:
                self._body(s.orelse, definite, depth)
            else:
                dn = self.date_none
                self._body(s.body, False, depth)
                self.date_none = dn
                self._body(s.orelse, False, depth)
                self.date_none = dn
            return
        if isinstance(s, (ast.For, ast.While)):
            self._body(s.body, False, depth)
            self._body(s.orelse, False, depth)
            return
        if isinstance(s, (ast.With, ast.Try)):
            for blk in ('body', 'orelse', 'finalbody'):
                self._body(getattr(s, blk, []), definite if blk == 'body' and isinstance(s, ast.With) else False, depth)
            return
        if isinstance(s, (ast.FunctionDef, ast.ClassDef)):
            return
        self._calls(s, definite, depth)
        tgts = []
        if isinstance(s, ast.Assign):
            tgts = [x for t in s.targets for x in (t.elts if isinstance(t, ast.Tuple) else [t])]
            for t in s.targets:
                if isinstance(t, ast.Name) and t.id == 'date':
                    self.date_none = (True if isinstance(s.value, ast.Constant) and s.value.value is None else
                                      False if definite or self.date_none is False else None)
        elif isinstance(s, (ast.AugAssign, ast.AnnAssign)):
            tgts = [s.target]
        for t in tgts:
            k = _coef_target(t)
            if k is None:
                continue
            reads = isinstance(s, ast.AugAssign) or any(_coef_target(x) or (_is_self_attr(x) and x.attr in ('c', 'cd'))
                                                        for x in ast.walk(s.value) if isinstance(x, (ast.Attribute, ast.Subscript)))
            if k[0] == 'fresh' and not isinstance(s, ast.AugAssign):
                self.ev.append(('F', k[1], definite))
            elif reads:
                self.ev.append(('S', None, definite))     # self.c[..] *= ..  /  self.c[..] = f(self.c[..])
            # a plain item store whose right-hand side does not read the tables only fills a fresh table (load_coefficients)


def _reload_before_scale(ev):
    """(reloads_before_scaling, scales): the first possible scaling is preceded by a definite reload"""
    reloaded = False
    for kind, definite in ev:
        if kind == 'R' and definite:
            reloaded = True
        if kind == 'S':
            return reloaded, True
    return reloaded, False


def _scales_in_place(ev):
    return any(k == 'S' for k, _ in ev)


def _place_sensitive_tests(fn):
    """branch conditions that mention latitude / longitude in a way that can single out the value 0"""
    bad = []
    names = {'latitude', 'longitude', 'lat', 'lon'}

    def mentions(n):
        for x in ast.walk(n):
            if isinstance(x, ast.Name) and x.id in names:
                return True
            if isinstance(x, ast.Attribute) and x.attr in names:
                return True
        return False

    def harmless(t):
        # place <|>|<=|>= non-zero constant   (the +-55 degree grivation thresholds)
        if isinstance(t, ast.Compare) and len(t.ops) == 1 and isinstance(t.ops[0], (ast.Gt, ast.Lt, ast.GtE, ast.LtE)):
            sides = [t.left, t.comparators[0]]
            for a, b in (sides, sides[::-1]):
                try:
                    c = ast.literal_eval(b)
                except Exception:
                    continue
                if isinstance(c, (int, float)) and c != 0 and mentions(a):
                    return True
        return False

    for n in ast.walk(fn):
        tests = []
        if isinstance(n, (ast.If, ast.While, ast.IfExp)):
            tests.append(n.test)
        if isinstance(n, ast.Assert):
            tests.append(n.test)
        if isinstance(n, ast.BoolOp):
            tests.extend(n.values)
        for t in tests:
            if isinstance(t, ast.BoolOp):
                continue
            if mentions(t) and not harmless(t):
                bad.append(ast.unparse(t))
    return bad


def _ctor_call(init):
    """the (guard-expression | None, call node) of the magnetic_field call inside __init__"""
    found = []

    def rec(stmts, guards):
        for s in stmts:
            if isinstance(s, ast.If):
                rec(s.body, guards + [(s.test, True)])
                rec(s.orelse, guards + [(s.test, False)])
                continue
            if isinstance(s, (ast.For, ast.While, ast.With, ast.Try)):
                raise_if = [c for c in ast.walk(s) if isinstance(c, ast.Call) and _is_self_attr(c.func, 'magnetic_field')]
                if raise_if:
                    raise ExtractError('constructor calls magnetic_field inside a loop/with/try')
                continue
            for c in ast.walk(s):
                if isinstance(c, ast.Call) and _is_self_attr(c.func, 'magnetic_field'):
                    found.append((guards, c))
    rec(init.body, [])
    return found


def _eval_guard(guards, lat, lon):
    ns = {'self': types.SimpleNamespace(latitude=lat, longitude=lon, height=0.5, frame='NED'),
          'latitude': lat, 'longitude': lon, 'height': 0.5, 'frame': 'NED', 'date': 2020.5}
    for test, pol in guards:
        v = bool(eval(compile(ast.Expression(test), '<guard>', 'eval'), {'__builtins__': {'all': all, 'any': any, 'abs': abs,
                 'isinstance': isinstance, 'float': float, 'int': int, 'bool': bool, 'len': len, 'None': None}}, ns))
        if v != pol:
            return False
    return True


def extract_facts(src=None):
    """-> dict of facts about the WMM class of the current working tree (raises ExtractError: fail closed)"""
    tree = ast.parse(src if src is not None else _src())
    cls = _cls(tree)
    M = _methods(cls)
    for need in ('__init__', 'reset_coefficients', 'load_coefficients', 'denormalize_coefficients', 'magnetic_field'):
        if need not in M:
            raise ExtractError(f'method {need} not found')
    W = _Walk(M)
    f = {}
    ev_reset = W.events('reset_coefficients', None)
    f['reset_reloads'] = any(k == 'R' and d for k, d in ev_reset) and not _scales_in_place(ev_reset)
    ev_den = W.events('denormalize_coefficients', None)
    f['denorm_scales_in_place'] = _scales_in_place(ev_den)
    f['denorm_reloads'] = any(k == 'R' and d for k, d in ev_den)
    ev_some = W.events('magnetic_field', False)
    ev_none = W.events('magnetic_field', True)
    f['field_reloads_if_date'], s1 = _reload_before_scale(ev_some)
    f['field_reloads_if_none'], s2 = _reload_before_scale(ev_none)
    f['field_scales_in_place'] = s1 or s2
    f['events_date'] = ''.join(k if d else k.lower() for k, d in ev_some)
    f['events_none'] = ''.join(k if d else k.lower() for k, d in ev_none)
    # constructor
    init = M['__init__']
    ev_init = _Walk(M).events('__init__', None)
    calls = _ctor_call(init)
    if len(calls) > 1:
        raise ExtractError('constructor calls magnetic_field more than once')
    # does the constructor reset (load fresh tables) before anything scales?  Walk only the statements before the call.
    f['ctor_resets_first'] = bool(ev_init) and ev_init[0] == ('R', True)
    if not calls:
        f['ctor_guard'] = [False] * 4
        f['ctor_guard_src'] = 'never'
        f['ctor_date'] = 'none'
    else:
        guards, call = calls[0]
        f['ctor_guard_src'] = ' and '.join(('' if p else 'not ') + ast.unparse(t) for t, p in guards) or 'always'
        try:
            # (lat = 0, lon = 0), (lat = 0), (lon = 0), (neither)
            f['ctor_guard'] = [_eval_guard(guards, la, lo) for la, lo in ((0.0, 0.0), (0.0, 7.0), (7.0, 0.0), (7.0, 7.0))]
            ints = [_eval_guard(guards, la, lo) for la, lo in ((0, 0), (0, 7), (7, 0), (7, 7))]
        except Exception as e:
            raise ExtractError(f'cannot evaluate the constructor guard {f["ctor_guard_src"]!r}: {e}')
        if ints != f['ctor_guard']:
            raise ExtractError('constructor guard distinguishes int from float places')
        # the date value handed to magnetic_field
        sig = [a.arg for a in M['magnetic_field'].args.args]
        dnode = None
        for k in call.keywords:
            if k.arg == 'date':
                dnode = k.value
        if dnode is None and 'date' in sig and len(call.args) >= sig.index('date'):
            dnode = call.args[sig.index('date') - 1]
        if dnode is None:
            f['ctor_date'] = 'default'
        elif isinstance(dnode, ast.Name) and dnode.id == 'date':
            f['ctor_date'] = 'given'
        elif _is_self_attr(dnode, 'date'):
            f['ctor_date'] = 'calendar'
        elif _is_self_attr(dnode, 'date_dec'):
            f['ctor_date'] = 'decimal'
        elif isinstance(dnode, ast.Constant) and dnode.value is None:
            f['ctor_date'] = 'none'
        else:
            raise ExtractError(f'constructor passes an unrecognised date expression {ast.unparse(dnode)!r}')
        f['ctor_date_src'] = ast.unparse(dnode) if dnode is not None else '<default>'
    # default of magnetic_field's date parameter
    a = M['magnetic_field'].args
    defaults = dict(zip([x.arg for x in a.args][len(a.args) - len(a.defaults):], a.defaults))
    dd = defaults.get('date')
    f['field_default_date_src'] = ast.unparse(dd) if dd is not None else '<required>'
    f['field_default_is_none'] = isinstance(dd, ast.Constant) and dd.value is None
    f['field_default_is_call'] = dd is not None and any(isinstance(x, ast.Call) for x in ast.walk(dd))
    # zero-sensitive branches
    fns = [M['magnetic_field'], M['denormalize_coefficients']] + [n for n in tree.body if isinstance(n, ast.FunctionDef)
                                                                    and n.name == 'geodetic2spherical']
    zs = [t for fn in fns for t in _place_sensitive_tests(fn)]
    f['method_zero_branch'] = bool(zs)
    f['method_zero_branch_src'] = zs
    return f


def _b(x):
    return 'true' if x else 'false'


def facts_v(f):
    kind = {'given': 'PassGiven', 'calendar': 'PassCalendar', 'none': 'PassNone', 'decimal': 'PassDecimal',
            'default': 'PassDefault'}[f['ctor_date']]
    g = f['ctor_guard']
    return f"""(* GENERATED by /verif/tools/props/C15.py (Python-ast walk of ahrs/utils/wmm.py of the current working tree) — do not edit.
   magnetic_field events with a date : {f['events_date']}   (R reload, S in-place scaling; lower case = not on every path)
   magnetic_field events, date=None  : {f['events_none']}
   constructor guard                 : {f['ctor_guard_src']}
   constructor passes date           : {f.get('ctor_date_src', '-')}
   magnetic_field default date       : {f['field_default_date_src']}
   zero-sensitive branches           : {f['method_zero_branch_src']} *)
From AhrsModel Require Import C15_wmm_object.
Definition C15_facts : facts := {{|
  reset_reloads := {_b(f['reset_reloads'])};
  denorm_in_place := {_b(f['denorm_scales_in_place'])};
  field_reloads_if_date := {_b(f['field_reloads_if_date'])};
  field_reloads_if_none := {_b(f['field_reloads_if_none'])};
  field_scales := {_b(f['field_scales_in_place'])};
  ctor_resets_first := {_b(f['ctor_resets_first'])};
  ctor_guard_00 := {_b(g[0])}; ctor_guard_0x := {_b(g[1])}; ctor_guard_x0 := {_b(g[2])}; ctor_guard_xx := {_b(g[3])};
  ctor_date := {kind};
  method_zero_branch := {_b(f['method_zero_branch'])};
  default_date_frozen := {_b(f['field_default_is_call'])} |}}.
"""


if __name__ == '__main__':
    import json
    print(json.dumps(extract_facts(), indent=1))


# =============================================================================================
# 2. pysym targets: statements cut out of the method bodies by ast, run on a bare traced object
# =============================================================================================
def _assigns_self(stmt, attr):
    for n in ast.walk(stmt):
        if isinstance(n, (ast.Assign, ast.AugAssign, ast.AnnAssign)):
            tg = n.targets if isinstance(n, ast.Assign) else [n.target]
            for t in tg:
                for x in (t.elts if isinstance(t, ast.Tuple) else [t]):
                    if _is_self_attr(x, attr):
                        return True
    return False


def _first(body, pred, what):
    for i, s in enumerate(body):
        if pred(s):
            return i
    raise ExtractError(f'magnetic_field: cannot locate {what}')


def cuts(src=None):
    """statement lists cut from WMM.magnetic_field: 'tail' (self.X.. to the end), 'frame' (between the rotation into
    geodetic axes and self.H), 'derived' (self.H .. end), 'rotate' (self.X/Y/Z assignments), 'lon' (degrees->radians .. the
    cos/sin(m*lon) recurrence)"""
    tree = ast.parse(src if src is not None else _src())
    body = _methods(_cls(tree))['magnetic_field'].body
    top = lambda s, a: not isinstance(s, (ast.If, ast.For, ast.While)) and _assigns_self(s, a)
    iX = _first(body, lambda s: top(s, 'X'), 'the assignment of self.X')
    iZ = _first(body, lambda s: top(s, 'Z'), 'the assignment of self.Z')
    iH = _first(body, lambda s: top(s, 'H'), 'the assignment of self.H')
    if not iX <= iZ < iH:
        raise ExtractError('magnetic_field: unexpected order of the X/Z/H assignments')
    isnm = lambda t: isinstance(t, ast.Name) and t.id in ('latitude', 'longitude')
    iL = _first(body, lambda s: (isinstance(s, ast.AugAssign) and isnm(s.target)) or
                (isinstance(s, ast.Assign) and any(isnm(t) for t in s.targets)), 'the degrees->radians conversion')
    iF = _first(body[iL:], lambda s: isinstance(s, ast.For), 'the cos/sin(m*lon) recurrence') + iL
    return {'tail': body[iX:], 'rotate': body[iX:iZ + 1], 'frame': body[iZ + 1:iH], 'derived': body[iH:], 'lon': body[iL:iF + 1]}


def _run_cut(A, stmts, self_attrs, local):
    """exec the cut statements in the namespace of the traced module, on a bare instance of the traced class"""
    mod = A.utils.wmm
    w = mod.WMM.__new__(mod.WMM)
    for k, x in self_attrs.items():
        setattr(w, k, x)
    code = compile(ast.fix_missing_locations(ast.Module(body=copy.deepcopy(stmts), type_ignores=[])),
                   os.path.join(core.REPO, WMM_REL), 'exec')
    loc = dict(local)
    loc['self'] = w
    exec(code, mod.__dict__, loc)
    return w, loc


ELEMS = ['X', 'Y', 'Z', 'H', 'F', 'I', 'D', 'GV']
SC_IN = ['g10', 'g11', 'h11', 'g20', 'g21', 'h21', 'g22', 'h22', 'd20', 'phi']
# where the packed table keeps them: g_n^m at [m, n], h_n^m at [n, m-1]
SC_POS = {'g10': (0, 1), 'g11': (1, 1), 'h11': (1, 0), 'g20': (0, 2), 'g21': (1, 2), 'h21': (2, 0), 'g22': (2, 2), 'h22': (2, 1)}


def _t_tail(frame):
    def fn(A, v):
        w, _ = _run_cut(A, cuts()['tail'], {'frame': frame, 'latitude': v.glat, 'longitude': v.glon},
                        {'Xp': v.xp, 'Yp': v.yp, 'Zp': v.zp, 'lat_prime': v.lp, 'latitude': v.la})
        return [getattr(w, k) for k in ELEMS]
    return fn


def _t_derived(A, v):
    w, _ = _run_cut(A, cuts()['derived'], {'frame': 'NED', 'X': v.x, 'Y': v.y, 'Z': v.z, 'latitude': v.glat, 'longitude': v.glon}, {})
    return [getattr(w, k) for k in ELEMS[3:]]


def _t_frame(frame):
    def fn(A, v):
        w, _ = _run_cut(A, cuts()['frame'], {'frame': frame, 'X': v.x, 'Y': v.y, 'Z': v.z}, {})
        return [w.X, w.Y, w.Z]
    return fn


def _t_lon(A, v):
    w, _ = _run_cut(A, cuts()['lon'], {'degree': 3, 'height': v.h, 'latitude': v.lat, 'longitude': v.lon},
                    {'latitude': v.lat, 'longitude': v.lon, 'height': v.h, 'date': None})
    return [w.sp[1], w.sp[2], w.sp[3], w.cp[1], w.cp[2], w.cp[3]]


def _t_scale(A, v):
    from pysym import symnp
    mod = A.utils.wmm
    w = mod.WMM.__new__(mod.WMM)
    w.degree = 2
    w.c = symnp.zeros((3, 3))
    w.cd = symnp.zeros((3, 3))
    for k, (i, j) in SC_POS.items():
        w.c[i, j] = v[k]
    w.cd[0, 2] = v.d20
    w.denormalize_coefficients(v.phi)
    return [w.c[i, j] for (i, j) in SC_POS.values()] + [w.cd[0, 2]]


def targets():
    T = ['xp', 'yp', 'zp', 'lp', 'la', 'glat', 'glon']
    return [
        Target('C15_elements_NED', T, _t_tail('NED'), doc='tail of magnetic_field from the rotation into geodetic axes to the end, frame NED: '
               'inputs X\', Y\', Z\', spherical and geodetic latitude (rad), geodetic latitude and longitude (deg) -> X,Y,Z,H,F,I,D,GV'),
        Target('C15_elements_ENU', T, _t_tail('ENU'), doc='the same statements with frame ENU'),
        Target('C15_derived', ['x', 'y', 'z', 'glat', 'glon'], _t_derived, doc='statements from self.H to the end: H,F,I,D,GV from the stored X,Y,Z'),
        Target('C15_frame_NED', ['x', 'y', 'z'], _t_frame('NED'), doc='statements between the rotation and self.H, frame NED'),
        Target('C15_frame_ENU', ['x', 'y', 'z'], _t_frame('ENU'), doc='statements between the rotation and self.H, frame ENU'),
        Target('C15_lon_harmonics', ['lat', 'lon', 'h'], _t_lon, doc='degrees->radians .. the sin/cos(m*lon) recurrence, truncated at m = 3: sp[1..3], cp[1..3]'),
        Target('C15_scale', SC_IN, _t_scale, doc='denormalize_coefficients on a degree-2 object: the packed g/h entries after the in-place Schmidt scaling'),
    ]
