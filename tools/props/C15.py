"""C15 — WMM answers depend only on (date, place, frame), not on call path or history.

Three ties to /repo's current source, all redone on every run:
  * `extract_facts`  : a Python-`ast` abstract walk of ahrs/utils/wmm.py -> gen/C15facts.v (which methods reload /
                       scale self.c, self.cd, under which condition; the constructor's guard and the date it passes on);
  * pysym targets    : the derived-elements tail of `magnetic_field`, the ENU rotation, the longitude harmonics and the
                       in-place Schmidt scaling of `denormalize_coefficients`, cut out of the method bodies by `ast` and
                       executed by the tracing symbolic executor on a bare object of the traced class;
  * correspondence   : the state-machine model (coq/model/C15_wmm_object.v) instantiated with the regenerated facts and
                       run by vm_compute against real objects on generated call sequences.
"""
import ast, copy, datetime, inspect, itertools, math, os, types
import numpy as np
from pysym.gen import Target
from vlib import core
from . import common as cm

PID = 'C15'
LEVEL_TEXT = ("Coq theorems over (i) a state-machine model of the WMM object parameterised by facts re-extracted from wmm.py by a "
              "Python-ast walk on every run and (ii) pysym-regenerated definitions of the derived-elements tail, the ENU rotation, "
              "the longitude harmonics and the in-place coefficient scaling; the model is run against real objects on call sequences")
TECHNIQUE = "Coq proof over regenerated facts + regenerated formula code; differential run of the object model; numeric search"
RULE = ("call sequences of length 1..6 on one object vs fresh objects, constructor and method, dates as float / int / datetime.date / None, "
        "on and off the 0.1-year grid and at the 2020/2025 file boundaries, places incl. latitude 0, +-90, longitude 0, +-180, both frames; "
        "non-trivial = distinct (entry point, date kind, place class, frame, history length)")
TRUSTED = ["Coq 8.16.1 kernel; vm_compute for the executable instance of the object model and the float copies",
           "pysym tracing translator; the ast cut that isolates the tail / harmonics / scaling statements of the method bodies",
           "the ast fact extractor (abstract walk of the WMM methods) -- validated on every run by the differential run of the model",
           "hand-written state-machine model coq/model/C15_wmm_object.v -- tied by correspondence only",
           "stdlib real-number axioms; real arithmetic stands for binary64 (measured by correspondence)"]
PARTIAL = ("on the pinned tree three clauses are refuted inside the model and recorded as known findings with fix proposals (date=None "
           "re-scales; constructor silent at latitude/longitude 0; constructor answers for the day-rounded date); the theorems for them are "
           "conditional on the regenerated facts (+ `_partial` forms, + unconditional `C15_fixed_*.v` once the facts hold). The harmonic "
           "synthesis itself is abstract in the object model (C14's subject); `finite at the poles` and `+180 = -180 for the full elements` "
           "are explored by the search oracle, proved only for the longitude harmonics; the rotation statements X,Y,Z <- X',Y',Z' are tied "
           "by regeneration only (their inputs are not public)")
ASSUMPTIONS = ["datetime.date.today() is an input of the model (`w_today`); the wall clock is not controlled except in the default_date oracle",
               "the ast walk recognises reloads as fresh assignments of self.c and self.cd, scalings as in-place updates that read them"]
WMM_REL = os.path.join('ahrs', 'utils', 'wmm.py')


# =============================================================================================
# 1. fact extractor (Python ast)
# =============================================================================================
class ExtractError(Exception):
    pass


def _src():
    p = os.path.join(core.REPO, WMM_REL)
    return open(p).read()


def _cls(tree, name='WMM'):
    for n in tree.body:
        if isinstance(n, ast.ClassDef) and n.name == name:
            return n
    raise ExtractError(f'class {name} not found')


def _methods(cls):
    return {n.name: n for n in cls.body if isinstance(n, ast.FunctionDef)}


def _is_self_attr(n, attr=None):
    return (isinstance(n, ast.Attribute) and isinstance(n.value, ast.Name) and n.value.id == 'self'
            and (attr is None or n.attr == attr))


def _coef_target(t):
    """'fresh' for `self.c = ...`, 'inplace' for `self.c[...] op= ...` / `self.c[...] = ...`, else None; with the attribute"""
    if _is_self_attr(t) and t.attr in ('c', 'cd'):
        return ('fresh', t.attr)
    if isinstance(t, ast.Subscript) and _is_self_attr(t.value) and t.value.attr in ('c', 'cd'):
        return ('inplace', t.value.attr)
    return None


def _date_test(test, date_none):
    """abstract truth of a guard when the parameter `date` is None (date_none=True) or not (False); None = unknown"""
    if isinstance(test, ast.UnaryOp) and isinstance(test.op, ast.Not):
        v = _date_test(test.operand, date_none)
        return None if v is None else (not v)
    if isinstance(test, ast.Compare) and len(test.ops) == 1 and date_none is not None:
        a, b = test.left, test.comparators[0]
        isdate = lambda n: isinstance(n, ast.Name) and n.id == 'date'
        isnone = lambda n: isinstance(n, ast.Constant) and n.value is None
        if (isdate(a) and isnone(b)) or (isnone(a) and isdate(b)):          # either order of the operands
            if isinstance(test.ops[0], (ast.Is, ast.Eq)):
                return date_none
            if isinstance(test.ops[0], (ast.IsNot, ast.NotEq)):
                return not date_none
    return None


def _terminates(stmts):
    """the statement list always leaves the function (its last statement is a return / raise, or an if whose arms all do)"""
    if not stmts:
        return False
    last = stmts[-1]
    if isinstance(last, (ast.Return, ast.Raise)):
        return True
    if isinstance(last, ast.If):
        return _terminates(last.body) and _terminates(last.orelse)
    return False


class _Walk:
    """abstract walk of one method: ordered events ('R' reload = fresh self.c and self.cd, 'S' in-place scaling), each
    flagged definite / maybe, following calls to other methods of the class; tracks whether `date` is None"""

    def __init__(self, methods):
        self.methods = methods

    def events(self, name, date_none, depth=0):
        if depth > 6:
            raise ExtractError('method call depth')
        self.ev = []
        self.date_none = date_none
        self._body(self.methods[name].body, True, depth)
        return self._fresh_pairs(self.ev)

    @staticmethod
    def _fresh_pairs(ev):
        """a reload needs both tables replaced: collapse F(c) F(cd) pairs into one R"""
        out, seen = [], {}
        for kind, what, definite in ev:
            if kind == 'F':
                seen[what] = definite
                if 'c' in seen and 'cd' in seen:
                    out.append(('R', seen['c'] and seen['cd']))
                    seen = {}
            else:
                out.append((kind, definite))
        return out

    def _body(self, stmts, definite, depth):
        """-> True when the walked path has definitely left the function"""
        for s in stmts:
            if self._stmt(s, definite, depth):
                return True
        return False

    def _calls(self, node, definite, depth):
        for c in ast.walk(node):
            if isinstance(c, ast.Call) and _is_self_attr(c.func) and c.func.attr in self.methods:
                callee = c.func.attr
                sub = _Walk(self.methods)
                # the callee's own `date` parameter: unknown unless it is literally our `date`
                dn = None
                for a in list(c.args) + [k.value for k in c.keywords]:
                    if isinstance(a, ast.Name) and a.id == 'date':
                        dn = self.date_none
                for kind, d in sub.events(callee, dn, depth + 1):
                    self.ev.append((kind, None, definite and d) if kind != 'R' else ('F', 'c', definite and d))
                    if kind == 'R':
                        self.ev.append(('F', 'cd', definite and d))

    def _stmt(self, s, definite, depth):
        if isinstance(s, ast.If):
            v = _date_test(s.test, self.date_none)
            self._calls(s.test, definite, depth)
            if v is True:
                return self._body(s.body, definite, depth)
            elif v is False:
                return self._body(s.orelse, definite, depth)
            else:
                dn = self.date_none
                t1 = self._body(s.body, False, depth)
                self.date_none = dn
                t2 = self._body(s.orelse, False, depth)
                self.date_none = dn
                return bool(t1 and t2)
        if isinstance(s, (ast.For, ast.While)):
            self._body(s.body, False, depth)
            self._body(s.orelse, False, depth)
            return False
        if isinstance(s, (ast.With, ast.Try)):
            for blk in ('body', 'orelse', 'finalbody'):
                self._body(getattr(s, blk, []), definite if blk == 'body' and isinstance(s, ast.With) else False, depth)
            return False
        if isinstance(s, (ast.FunctionDef, ast.ClassDef)):
            return False
        self._calls(s, definite, depth)
        if isinstance(s, (ast.Return, ast.Raise)):
            return True
        tgts = []
        if isinstance(s, ast.Assign):
            tgts = [x for t in s.targets for x in (t.elts if isinstance(t, ast.Tuple) else [t])]
            for t in s.targets:
                if isinstance(t, ast.Name) and t.id == 'date':
                    self.date_none = (True if isinstance(s.value, ast.Constant) and s.value.value is None else
                                      False if definite or self.date_none is False else None)
        elif isinstance(s, (ast.AugAssign, ast.AnnAssign)):
            tgts = [s.target]
        for t in tgts:
            k = _coef_target(t)
            if k is None:
                continue
            reads = isinstance(s, ast.AugAssign) or any(_coef_target(x) or (_is_self_attr(x) and x.attr in ('c', 'cd'))
                                                        for x in ast.walk(s.value) if isinstance(x, (ast.Attribute, ast.Subscript)))
            if k[0] == 'fresh' and not isinstance(s, ast.AugAssign):
                self.ev.append(('F', k[1], definite))
            elif reads:
                self.ev.append(('S', None, definite))     # self.c[..] *= ..  /  self.c[..] = f(self.c[..])
            # a plain item store whose right-hand side does not read the tables only fills a fresh table (load_coefficients)


def _reload_before_scale(ev):
    """(reloads_before_scaling, scales): the first possible scaling is preceded by a definite reload"""
    reloaded = False
    for kind, definite in ev:
        if kind == 'R' and definite:
            reloaded = True
        if kind == 'S':
            return reloaded, True
    return reloaded, False


def _scales_in_place(ev):
    return any(k == 'S' for k, _ in ev)


_CONSTS = {}      # module-level named constants of the file being analysed (set by extract_facts / hidden_state)


def module_constants(tree):
    """NAME = <literal> at module level (numbers, strings, tuples of them, signs), bound exactly once in the whole file and
    never declared global: the value the name stands for everywhere"""
    stores = {}
    for x in ast.walk(tree):
        if isinstance(x, ast.Name) and isinstance(x.ctx, (ast.Store, ast.Del)):
            stores[x.id] = stores.get(x.id, 0) + 1
        if isinstance(x, (ast.Global, ast.Nonlocal)):
            for n in x.names:
                stores[n] = stores.get(n, 0) + 2
        if isinstance(x, ast.arg):
            stores[x.arg] = stores.get(x.arg, 0) + 2          # shadowed by a parameter somewhere: do not resolve
        if isinstance(x, (ast.Import, ast.ImportFrom)):
            for a in x.names:
                nm = (a.asname or a.name).split('.')[0]
                stores[nm] = stores.get(nm, 0) + 2
    out = {}
    for n in tree.body:
        tgt = None
        if isinstance(n, ast.Assign) and len(n.targets) == 1 and isinstance(n.targets[0], ast.Name):
            tgt, val = n.targets[0].id, n.value
        elif isinstance(n, ast.AnnAssign) and isinstance(n.target, ast.Name) and n.value is not None:
            tgt, val = n.target.id, n.value
        if tgt is None or stores.get(tgt, 0) != 1:
            continue
        try:
            v = _const_eval(val, out)
        except Exception:
            continue
        ok = lambda v: isinstance(v, (int, float, str)) and not isinstance(v, bool)
        if ok(v) or (isinstance(v, tuple) and all(ok(e) for e in v)):
            out[tgt] = v
    return out


class _Subst(ast.NodeTransformer):
    def __init__(self, consts):
        self.consts = consts

    def visit_Name(self, n):
        if isinstance(n.ctx, ast.Load) and n.id in self.consts:
            return ast.copy_location(ast.parse(repr(self.consts[n.id]), mode='eval').body, n)
        return n


def _const_eval(node, consts=None):
    """the literal value of an expression built from literals, signs and resolved module-level constants (raises otherwise)"""
    consts = _CONSTS if consts is None else consts
    return ast.literal_eval(_Subst(consts).visit(copy.deepcopy(node)))


def _place_sensitive_tests(fn):
    """branch conditions that mention latitude / longitude in a way that can single out the value 0"""
    bad = []
    names = {'latitude', 'longitude', 'lat', 'lon'}

    def mentions(n):
        for x in ast.walk(n):
            if isinstance(x, ast.Name) and x.id in names:
                return True
            if isinstance(x, ast.Attribute) and x.attr in names:
                return True
        return False

    def harmless(t):
        # place <|>|<=|>= non-zero constant   (the +-55 degree grivation thresholds)
        if isinstance(t, ast.Compare) and len(t.ops) == 1 and isinstance(t.ops[0], (ast.Gt, ast.Lt, ast.GtE, ast.LtE)):
            sides = [t.left, t.comparators[0]]
            for a, b in (sides, sides[::-1]):
                try:
                    c = _const_eval(b)
                except Exception:
                    continue
                if isinstance(c, (int, float)) and c != 0 and mentions(a):
                    return True
        return False

    for n in ast.walk(fn):
        tests = []
        if isinstance(n, (ast.If, ast.While, ast.IfExp)):
            tests.append(n.test)
        if isinstance(n, ast.Assert):
            tests.append(n.test)
        if isinstance(n, ast.BoolOp):
            tests.extend(n.values)
        for t in tests:
            if isinstance(t, ast.BoolOp):
                continue
            if mentions(t) and not harmless(t):
                bad.append(ast.unparse(t))
    return bad


def _ctor_call(init):
    """the (guard-expression | None, call node) of the magnetic_field call inside __init__"""
    found = []

    def rec(stmts, guards):
        for s in stmts:
            if isinstance(s, ast.If):
                rec(s.body, guards + [(s.test, True)])
                rec(s.orelse, guards + [(s.test, False)])
                # `if t: return` ... rest   ==   `if not t:` rest      (and the mirror image)
                if _terminates(s.body) and not _terminates(s.orelse):
                    guards = guards + [(s.test, False)]
                elif _terminates(s.orelse) and not _terminates(s.body):
                    guards = guards + [(s.test, True)]
                elif _terminates(s.body) and _terminates(s.orelse):
                    return
                continue
            if isinstance(s, (ast.Return, ast.Raise)):
                return
            if isinstance(s, (ast.For, ast.While, ast.With, ast.Try)):
                raise_if = [c for c in ast.walk(s) if isinstance(c, ast.Call) and _is_self_attr(c.func, 'magnetic_field')]
                if raise_if:
                    raise ExtractError('constructor calls magnetic_field inside a loop/with/try')
                continue
            for c in ast.walk(s):
                if isinstance(c, ast.Call) and _is_self_attr(c.func, 'magnetic_field'):
                    found.append((guards, c))
    rec(init.body, [])
    return found


def _eval_guard(guards, lat, lon):
    ns = {'self': types.SimpleNamespace(latitude=lat, longitude=lon, height=0.5, frame='NED'),
          'latitude': lat, 'longitude': lon, 'height': 0.5, 'frame': 'NED', 'date': 2020.5}
    for test, pol in guards:
        v = bool(eval(compile(ast.Expression(test), '<guard>', 'eval'), {'__builtins__': {'all': all, 'any': any, 'abs': abs,
                 'isinstance': isinstance, 'float': float, 'int': int, 'bool': bool, 'len': len, 'None': None}}, ns))
        if v != pol:
            return False
    return True


# ---- undeclared state ------------------------------------------------------------------------
CARRIED = {'c', 'cd', 'date', 'date_dec', 'epoch', 'model', 'modeldate', 'wmm_filename', 'degree', 'latitude', 'longitude',
           'height', 'frame', 'X', 'Y', 'Z', 'H', 'F', 'I', 'D', 'GV'}            # the state the object model carries (or constants of it)
SCRATCH = {'k', 'P', 'dP', 'sp', 'cp', 'gh'}                                      # rebuilt from scratch inside every query
OK_DECORATORS = {'property', 'staticmethod', 'classmethod'}
MUTABLE_CALLS = {'dict', 'list', 'set', 'defaultdict', 'OrderedDict', 'Counter', 'deque', 'WeakKeyDictionary', 'WeakValueDictionary'}


def _str_const(n):
    if isinstance(n, ast.Constant) and isinstance(n.value, str):
        return n.value
    if isinstance(n, ast.Name) and isinstance(_CONSTS.get(n.id), str):      # a module-level named string constant
        return _CONSTS[n.id]
    return None


def _mutable_value(v):
    if isinstance(v, (ast.Dict, ast.List, ast.Set, ast.ListComp, ast.DictComp, ast.SetComp)):
        return True
    if isinstance(v, ast.Call):
        f = v.func
        name = f.id if isinstance(f, ast.Name) else f.attr if isinstance(f, ast.Attribute) else ''
        return name in MUTABLE_CALLS
    return False


def _literal_names(n):
    """tuple / list / set literal of string constants -> the strings, else None"""
    if isinstance(n, (ast.Tuple, ast.List, ast.Set)) and n.elts and all(_str_const(e) is not None for e in n.elts):
        return [_str_const(e) for e in n.elts]
    if isinstance(n, ast.Name) and isinstance(_CONSTS.get(n.id), tuple) and _CONSTS[n.id] and all(isinstance(e, str) for e in _CONSTS[n.id]):
        return list(_CONSTS[n.id])                                           # a module-level named tuple of names
    return None


def _dict_keys(node, M, depth=0):
    """the key set of a dictionary-valued expression when it can be read off the source, else None:
    {'a': ..}, dict(zip(<literal names>, ..)), dict.fromkeys(<literal names>[, v]), dict(a=.., b=..), self.<method>(..) whose
    returned dictionary is built that way (plus .update({..}) / d['k'] = .. on it)"""
    if depth > 3 or node is None:
        return None
    if isinstance(node, ast.Dict):
        ks = [_str_const(k) if k is not None else None for k in node.keys]
        return None if any(k is None for k in ks) else ks
    if isinstance(node, ast.Call):
        f = node.func
        if isinstance(f, ast.Name) and f.id == 'dict':
            if not node.args:
                return [k.arg for k in node.keywords] if all(k.arg for k in node.keywords) else None
            a = node.args[0]
            if len(node.args) == 1 and not node.keywords:
                if isinstance(a, ast.Call) and isinstance(a.func, ast.Name) and a.func.id == 'zip' and a.args:
                    return _literal_names(a.args[0])
                return _dict_keys(a, M, depth + 1)
            return None
        if isinstance(f, ast.Attribute) and f.attr == 'fromkeys' and isinstance(f.value, ast.Name) and f.value.id == 'dict' and node.args:
            return _literal_names(node.args[0])
        if _is_self_attr(f) and f.attr in M:
            fn = M[f.attr]
            rets = [x for x in ast.walk(fn) if isinstance(x, ast.Return)]
            if len(rets) != 1 or rets[0].value is None:
                return None
            r = rets[0].value
            if not isinstance(r, ast.Name):
                return _dict_keys(r, M, depth + 1)
            keys = None
            for st in fn.body:                     # straight-line construction only
                touched = any(isinstance(x, ast.Name) and x.id == r.id for x in ast.walk(st))
                if not touched or st is rets[0]:
                    continue
                if isinstance(st, ast.Assign) and len(st.targets) == 1 and isinstance(st.targets[0], ast.Name) and st.targets[0].id == r.id:
                    keys = _dict_keys(st.value, M, depth + 1)
                    if keys is None:
                        return None
                elif (isinstance(st, ast.Expr) and isinstance(st.value, ast.Call) and isinstance(st.value.func, ast.Attribute)
                      and st.value.func.attr == 'update' and isinstance(st.value.func.value, ast.Name) and st.value.func.value.id == r.id
                      and len(st.value.args) == 1 and keys is not None):
                    more = _dict_keys(st.value.args[0], M, depth + 1)
                    if more is None:
                        return None
                    keys = keys + more
                elif (isinstance(st, ast.Assign) and len(st.targets) == 1 and isinstance(st.targets[0], ast.Subscript)
                      and isinstance(st.targets[0].value, ast.Name) and st.targets[0].value.id == r.id
                      and _str_const(st.targets[0].slice) is not None and keys is not None):
                    keys = keys + [_str_const(st.targets[0].slice)]
                else:
                    return None
            return keys
    return None


def _name_bindings(fn, M):
    """local names that provably range over a known finite set of attribute names inside a `for`:
    `for v in (<literal names>)`, `for k, _ in <dict with known keys>.items()`, `for k in <dict with known keys>`
    -> {id(node inside the loop body): {name: [strings]}} resolved through `lookup(name, node)`"""
    env = []      # (loop node, variable, names)
    for loop in [x for x in ast.walk(fn) if isinstance(x, (ast.For, ast.comprehension))]:
        tgt, it = loop.target, loop.iter
        names, var = None, None
        if isinstance(tgt, ast.Name):
            var = tgt.id
            names = _literal_names(it) or _dict_keys(it, M)
            if names is None and isinstance(it, ast.Call) and isinstance(it.func, ast.Attribute) and it.func.attr == 'keys' and not it.args:
                names = _dict_keys(it.func.value, M)
        elif isinstance(tgt, ast.Tuple) and len(tgt.elts) == 2 and isinstance(tgt.elts[0], ast.Name):
            if isinstance(it, ast.Call) and isinstance(it.func, ast.Attribute) and it.func.attr == 'items' and not it.args:
                var = tgt.elts[0].id
                names = _dict_keys(it.func.value, M)
        if var and names is not None:
            # the variable must not be rebound inside the loop
            body = loop.body if isinstance(loop, ast.For) else []
            rebound = any(isinstance(x, ast.Name) and x.id == var and isinstance(x.ctx, ast.Store) for st in body for x in ast.walk(st))
            if not rebound:
                env.append((loop, var, names))
    return env


def _resolve_names(arg, node_line, fn, env, local_consts):
    """the attribute names a setattr/getattr name argument can take, or None (unknown)"""
    k = _str_const(arg)
    if k is not None:
        return [k]
    if isinstance(arg, ast.Name):
        for loop, var, names in env:
            if var == arg.id and isinstance(loop, ast.For) and any(x is arg for st in loop.body for x in ast.walk(st)):
                return names
        if arg.id in local_consts:
            return [local_consts[arg.id]]
    return None


def hidden_state(tree):
    """every way the class can remember something the object model does not carry: instance attributes outside the declared
    sets that some method/property reads without having just written them, dynamic attribute writes, class-level and
    module-level mutable state, memoising decorators, mutable default arguments, `global`.  -> list of descriptions"""
    global _CONSTS
    _CONSTS = module_constants(tree)
    out = []
    cls = _cls(tree)
    M = _methods(cls)
    declared = CARRIED | SCRATCH | set(M)
    for n in cls.body:
        if isinstance(n, ast.FunctionDef):
            for d in n.decorator_list:
                nm = d.id if isinstance(d, ast.Name) else (d.attr if isinstance(d, ast.Attribute) and d.attr in ('setter', 'getter', 'deleter') else ast.unparse(d))
                if nm not in OK_DECORATORS | {'setter', 'getter', 'deleter'}:
                    out.append(f'decorator @{ast.unparse(d)} on {n.name}')
        elif isinstance(n, ast.Expr) and isinstance(n.value, ast.Constant):
            pass
        else:
            out.append(f'class-level statement: {ast.unparse(n)[:60]}')
    for n in tree.body:
        if isinstance(n, (ast.Assign, ast.AnnAssign, ast.AugAssign)) and _mutable_value(getattr(n, 'value', None)):
            out.append(f'module-level mutable object: {ast.unparse(n)[:60]}')
        if isinstance(n, ast.FunctionDef) and n.decorator_list:
            out.append(f'decorator on module function {n.name}: {ast.unparse(n.decorator_list[0])}')
    for fn in [x for x in ast.walk(tree) if isinstance(x, (ast.FunctionDef, ast.Lambda))]:
        a = fn.args
        for dflt in list(a.defaults) + [d for d in a.kw_defaults if d is not None]:
            if _mutable_value(dflt):
                out.append(f'mutable default argument in {getattr(fn, "name", "<lambda>")}: {ast.unparse(dflt)[:40]}')
        for x in ast.walk(fn) if isinstance(fn, ast.FunctionDef) else []:
            if isinstance(x, (ast.Global, ast.Nonlocal)):
                out.append(f'{type(x).__name__.lower()} {", ".join(x.names)} in {fn.name}')
    selfish = lambda n: isinstance(n, ast.Name) and n.id == 'self'
    for name, fn in M.items():
        env = _name_bindings(fn, M)
        # names bound once, at top level, to a string constant
        local_consts = {}
        for st in fn.body:
            if isinstance(st, ast.Assign) and len(st.targets) == 1 and isinstance(st.targets[0], ast.Name) and _str_const(st.value) is not None:
                nm = st.targets[0].id
                if sum(1 for x in ast.walk(fn) if isinstance(x, ast.Name) and x.id == nm and isinstance(x.ctx, ast.Store)) == 1:
                    local_consts[nm] = st.value.value
        top_stores = {}                 # attr -> line of an unconditional (top-level) store in this function
        for st in fn.body:
            if isinstance(st, (ast.Assign, ast.AnnAssign)):
                for t in (st.targets if isinstance(st, ast.Assign) else [st.target]):
                    for x in (t.elts if isinstance(t, ast.Tuple) else [t]):
                        if _is_self_attr(x):
                            top_stores.setdefault(x.attr, st.lineno)
        for x in ast.walk(fn):
            # dynamic / indirect attribute traffic
            if isinstance(x, ast.Call):
                f = x.func
                fname = f.id if isinstance(f, ast.Name) else None
                if fname in ('setattr', 'delattr') and x.args and selfish(x.args[0]):
                    ks = _resolve_names(x.args[1], x.lineno, fn, env, local_consts) if len(x.args) > 1 else None
                    if ks is None or any(k not in declared for k in ks):
                        out.append(f'{name}: {ast.unparse(x)[:60]}')
                if (fname in ('getattr', 'hasattr') and x.args and selfish(x.args[0])) or \
                        (isinstance(f, ast.Attribute) and f.attr in ('__getattribute__', '__getattr__') and selfish(f.value)):
                    arg = (x.args[1] if len(x.args) > 1 else None) if fname else (x.args[0] if x.args else None)
                    ks = _resolve_names(arg, x.lineno, fn, env, local_consts) if arg is not None else None
                    if ks is None or any(k not in declared for k in ks):
                        out.append(f'{name}: reads undeclared attribute through {ast.unparse(x)[:60]}')
                if isinstance(f, ast.Attribute) and f.attr in ('update', 'setdefault', 'pop', '__setitem__') and \
                        isinstance(f.value, ast.Attribute) and f.value.attr == '__dict__':
                    ks = _dict_keys(x.args[0], M) if (f.attr == 'update' and len(x.args) == 1 and not x.keywords and selfish(f.value.value)) else None
                    if ks is None or any(k not in declared for k in ks):
                        out.append(f'{name}: dynamic attribute write {ast.unparse(x)[:70]}')
                if fname == 'vars' and x.args and selfish(x.args[0]):
                    out.append(f'{name}: vars(self)')
            if isinstance(x, ast.Subscript) and isinstance(x.value, ast.Attribute) and x.value.attr == '__dict__' and \
                    isinstance(x.ctx, (ast.Store, ast.Del)):
                k = _str_const(x.slice)
                if k is None or k not in declared:
                    out.append(f'{name}: {ast.unparse(x)[:60]} written')
            # class attributes used as storage
            if isinstance(x, ast.Attribute) and isinstance(x.ctx, (ast.Store, ast.Del)) and not selfish(x.value):
                base = ast.unparse(x.value)
                if base in (cls.name, 'type(self)', 'self.__class__', 'cls'):
                    out.append(f'{name}: class attribute {ast.unparse(x)} written')
            if isinstance(x, ast.Attribute) and isinstance(x.ctx, ast.Load) and isinstance(x.value, ast.Name) and x.value.id == cls.name \
                    and x.attr not in M and not x.attr.startswith('__'):
                out.append(f'{name}: class attribute {ast.unparse(x)} read')
            # undeclared instance attributes that are read without having just been written unconditionally
            if _is_self_attr(x) and x.attr not in declared and not (x.attr.startswith('__') and x.attr.endswith('__')):
                if isinstance(x.ctx, ast.Load) and not (x.attr in top_stores and top_stores[x.attr] < x.lineno):
                    out.append(f'{name}: reads undeclared attribute self.{x.attr}')
    return sorted(set(out))


def extract_facts(src=None):
    """-> dict of facts about the WMM class of the current working tree (raises ExtractError: fail closed)"""
    global _CONSTS
    tree = ast.parse(src if src is not None else _src())
    _CONSTS = module_constants(tree)
    cls = _cls(tree)
    M = _methods(cls)
    for need in ('__init__', 'reset_coefficients', 'load_coefficients', 'denormalize_coefficients', 'magnetic_field'):
        if need not in M:
            raise ExtractError(f'method {need} not found')
    W = _Walk(M)
    f = {}
    ev_reset = W.events('reset_coefficients', None)
    f['reset_reloads'] = any(k == 'R' and d for k, d in ev_reset) and not _scales_in_place(ev_reset)
    ev_den = W.events('denormalize_coefficients', None)
    f['denorm_scales_in_place'] = _scales_in_place(ev_den)
    f['denorm_reloads'] = any(k == 'R' and d for k, d in ev_den)
    ev_some = W.events('magnetic_field', False)
    ev_none = W.events('magnetic_field', True)
    f['field_reloads_if_date'], s1 = _reload_before_scale(ev_some)
    f['field_reloads_if_none'], s2 = _reload_before_scale(ev_none)
    f['field_scales_in_place'] = s1 or s2
    f['events_date'] = ''.join(k if d else k.lower() for k, d in ev_some)
    f['events_none'] = ''.join(k if d else k.lower() for k, d in ev_none)
    # constructor
    init = M['__init__']
    ev_init = _Walk(M).events('__init__', None)
    calls = _ctor_call(init)
    if len(calls) > 1:
        raise ExtractError('constructor calls magnetic_field more than once')
    # does the constructor reset (load fresh tables) before anything scales?  Walk only the statements before the call.
    f['ctor_resets_first'] = bool(ev_init) and ev_init[0] == ('R', True)
    if not calls:
        f['ctor_guard'] = [False] * 4
        f['ctor_guard_src'] = 'never'
        f['ctor_date'] = 'none'
    else:
        guards, call = calls[0]
        f['ctor_guard_src'] = ' and '.join(('' if p else 'not ') + ast.unparse(t) for t, p in guards) or 'always'
        try:
            # (lat = 0, lon = 0), (lat = 0), (lon = 0), (neither)
            f['ctor_guard'] = [_eval_guard(guards, la, lo) for la, lo in ((0.0, 0.0), (0.0, 7.0), (7.0, 0.0), (7.0, 7.0))]
            ints = [_eval_guard(guards, la, lo) for la, lo in ((0, 0), (0, 7), (7, 0), (7, 7))]
        except Exception as e:
            raise ExtractError(f'cannot evaluate the constructor guard {f["ctor_guard_src"]!r}: {e}')
        if ints != f['ctor_guard']:
            raise ExtractError('constructor guard distinguishes int from float places')
        # the date value handed to magnetic_field
        sig = [a.arg for a in M['magnetic_field'].args.args]
        dnode = None
        for k in call.keywords:
            if k.arg == 'date':
                dnode = k.value
        if dnode is None and 'date' in sig and len(call.args) >= sig.index('date'):
            dnode = call.args[sig.index('date') - 1]
        if dnode is None:
            f['ctor_date'] = 'default'
        elif isinstance(dnode, ast.Name) and dnode.id == 'date':
            f['ctor_date'] = 'given'
        elif _is_self_attr(dnode, 'date'):
            f['ctor_date'] = 'calendar'
        elif _is_self_attr(dnode, 'date_dec'):
            f['ctor_date'] = 'decimal'
        elif isinstance(dnode, ast.Constant) and dnode.value is None:
            f['ctor_date'] = 'none'
        else:
            raise ExtractError(f'constructor passes an unrecognised date expression {ast.unparse(dnode)!r}')
        f['ctor_date_src'] = ast.unparse(dnode) if dnode is not None else '<default>'
    # default of magnetic_field's date parameter
    a = M['magnetic_field'].args
    defaults = dict(zip([x.arg for x in a.args][len(a.args) - len(a.defaults):], a.defaults))
    dd = defaults.get('date')
    f['field_default_date_src'] = ast.unparse(dd) if dd is not None else '<required>'
    f['field_default_is_none'] = isinstance(dd, ast.Constant) and dd.value is None
    f['field_default_is_call'] = dd is not None and any(isinstance(x, ast.Call) for x in ast.walk(dd))
    # zero-sensitive branches
    fns = [M['magnetic_field'], M['denormalize_coefficients']] + [n for n in tree.body if isinstance(n, ast.FunctionDef)
                                                                    and n.name == 'geodetic2spherical']
    zs = [t for fn in fns for t in _place_sensitive_tests(fn)]
    f['method_zero_branch'] = bool(zs)
    f['hidden_state_src'] = hidden_state(tree)
    f['no_hidden_state'] = not f['hidden_state_src']
    f['method_zero_branch_src'] = zs
    return f


def _b(x):
    return 'true' if x else 'false'


def facts_v(f):
    kind = {'given': 'PassGiven', 'calendar': 'PassCalendar', 'none': 'PassNone', 'decimal': 'PassDecimal',
            'default': 'PassDefault'}[f['ctor_date']]
    g = f['ctor_guard']
    return f"""(* GENERATED by /verif/tools/props/C15.py (Python-ast walk of ahrs/utils/wmm.py of the current working tree) — do not edit.
   magnetic_field events with a date : {f['events_date']}   (R reload, S in-place scaling; lower case = not on every path)
   magnetic_field events, date=None  : {f['events_none']}
   constructor guard                 : {f['ctor_guard_src']}
   constructor passes date           : {f.get('ctor_date_src', '-')}
   magnetic_field default date       : {f['field_default_date_src']}
   zero-sensitive branches           : {f['method_zero_branch_src']}
   undeclared state                  : {f['hidden_state_src']} *)
From AhrsModel Require Import C15_wmm_object.
Definition C15_facts : facts := {{|
  reset_reloads := {_b(f['reset_reloads'])};
  denorm_in_place := {_b(f['denorm_scales_in_place'])};
  field_reloads_if_date := {_b(f['field_reloads_if_date'])};
  field_reloads_if_none := {_b(f['field_reloads_if_none'])};
  field_scales := {_b(f['field_scales_in_place'])};
  ctor_resets_first := {_b(f['ctor_resets_first'])};
  ctor_guard_00 := {_b(g[0])}; ctor_guard_0x := {_b(g[1])}; ctor_guard_x0 := {_b(g[2])}; ctor_guard_xx := {_b(g[3])};
  ctor_date := {kind};
  method_zero_branch := {_b(f['method_zero_branch'])};
  default_date_frozen := {_b(f['field_default_is_call'])};
  no_hidden_state := {_b(f['no_hidden_state'])} |}}.
"""


if __name__ == '__main__':
    import json
    print(json.dumps(extract_facts(), indent=1))


# =============================================================================================
# 2. pysym targets: statements cut out of the method bodies by ast, run on a bare traced object
# =============================================================================================
def _assigns_self(stmt, attr):
    for n in ast.walk(stmt):
        if isinstance(n, (ast.Assign, ast.AugAssign, ast.AnnAssign)):
            tg = n.targets if isinstance(n, ast.Assign) else [n.target]
            for t in tg:
                for x in (t.elts if isinstance(t, ast.Tuple) else [t]):
                    if _is_self_attr(x, attr):
                        return True
    return False


def _first(body, pred, what):
    for i, s in enumerate(body):
        if pred(s):
            return i
    raise ExtractError(f'magnetic_field: cannot locate {what}')


def _inline_helpers(body, M, depth=0):
    """replace every top-level statement `self.<helper>()` (a method of the class taking only self, whose value is not used,
    without return / yield) by the helper's own statements -- one level, so that code moved into a private helper is found
    where it runs.  Anything else is left as it is (the call then simply executes on the traced object)."""
    out = []
    for s in body:
        c = s.value if isinstance(s, ast.Expr) else None
        if (isinstance(c, ast.Call) and _is_self_attr(c.func) and c.func.attr in M and not c.args and not c.keywords and depth < 1):
            fn = M[c.func.attr]
            plain = (len(fn.args.args) == 1 and not fn.args.vararg and not fn.args.kwarg and not fn.args.kwonlyargs
                     and not fn.decorator_list
                     and not any(isinstance(x, (ast.Return, ast.Yield, ast.YieldFrom, ast.Global, ast.Nonlocal)) for x in ast.walk(fn)))
            if plain:
                inner = [t for t in fn.body if not (isinstance(t, ast.Expr) and isinstance(t.value, ast.Constant))]
                out.extend(_inline_helpers(inner, M, depth + 1))
                continue
        out.append(s)
    return out


def cuts(src=None):
    """statement lists cut from WMM.magnetic_field (private helpers called as `self._h()` inlined one level): 'rotate' (the first
    plain assignments of self.X .. self.Z: rotation into geodetic axes), 'frame' (from there to the LAST statement that
    assigns self.X, self.Y or self.Z: the frame handling), 'derived' (everything after it; must assign H, F, I, D, GV),
    'tail' (all three), 'lon' (degrees->radians .. the cos/sin(m*lon) recurrence)"""
    tree = ast.parse(src if src is not None else _src())
    M = _methods(_cls(tree))
    body = _inline_helpers(M['magnetic_field'].body, M)
    top = lambda s, a: not isinstance(s, (ast.If, ast.For, ast.While)) and _assigns_self(s, a)
    iX = _first(body, lambda s: top(s, 'X'), 'the assignment of self.X')
    iZ = _first(body, lambda s: top(s, 'Z'), 'the assignment of self.Z')
    xyz = [i for i, s in enumerate(body) if any(_assigns_self(s, a) for a in 'XYZ')]
    iH = xyz[-1] + 1                   # the derived elements are whatever is computed after X, Y, Z have their final values
    missing = [a for a in ('H', 'F', 'I', 'D', 'GV') if not any(_assigns_self(s, a) for s in body[iH:])]
    if missing:
        raise ExtractError(f'magnetic_field: no assignment of self.{missing[0]} after the last assignment of self.X/Y/Z')
    if any(_assigns_self(s, a) for s in body[:iH] for a in ('H', 'F', 'I', 'D', 'GV')):
        raise ExtractError('magnetic_field: a derived element is assigned before X, Y, Z have their final values')
    if not iX <= iZ < iH:
        raise ExtractError('magnetic_field: unexpected order of the X/Z/H assignments')
    isnm = lambda t: isinstance(t, ast.Name) and t.id in ('latitude', 'longitude')
    iL = _first(body, lambda s: (isinstance(s, ast.AugAssign) and isnm(s.target)) or
                (isinstance(s, ast.Assign) and any(isnm(t) for t in s.targets)), 'the degrees->radians conversion')
    iF = _first(body[iL:], lambda s: isinstance(s, ast.For), 'the cos/sin(m*lon) recurrence') + iL
    return {'tail': body[iX:], 'rotate': body[iX:iZ + 1], 'frame': body[iZ + 1:iH], 'derived': body[iH:], 'lon': body[iL:iF + 1]}


def _run_cut(A, stmts, self_attrs, local):
    """exec the cut statements in the namespace of the traced module, on a bare instance of the traced class"""
    mod = A.utils.wmm
    w = mod.WMM.__new__(mod.WMM)
    for k, x in self_attrs.items():
        setattr(w, k, x)
    code = compile(ast.fix_missing_locations(ast.Module(body=copy.deepcopy(stmts), type_ignores=[])),
                   os.path.join(core.REPO, WMM_REL), 'exec')
    loc = dict(local)
    loc['self'] = w
    exec(code, mod.__dict__, loc)
    return w, loc


ELEMS = ['X', 'Y', 'Z', 'H', 'F', 'I', 'D', 'GV']
SC_IN = ['g10', 'g11', 'h11', 'g20', 'g21', 'h21', 'g22', 'h22', 'd20', 'phi']
# where the packed table keeps them: g_n^m at [m, n], h_n^m at [n, m-1]
SC_POS = {'g10': (0, 1), 'g11': (1, 1), 'h11': (1, 0), 'g20': (0, 2), 'g21': (1, 2), 'h21': (2, 0), 'g22': (2, 2), 'h22': (2, 1)}


def _t_tail(frame):
    def fn(A, v):
        w, _ = _run_cut(A, cuts()['tail'], {'frame': frame, 'latitude': v.glat, 'longitude': v.glon},
                        {'Xp': v.xp, 'Yp': v.yp, 'Zp': v.zp, 'lat_prime': v.lp, 'latitude': v.la})
        return [getattr(w, k) for k in ELEMS]
    return fn


def _t_derived(A, v):
    w, _ = _run_cut(A, cuts()['derived'], {'frame': 'NED', 'X': v.x, 'Y': v.y, 'Z': v.z, 'latitude': v.glat, 'longitude': v.glon}, {})
    return [getattr(w, k) for k in ELEMS[3:]]


def _t_frame(frame):
    def fn(A, v):
        w, _ = _run_cut(A, cuts()['frame'], {'frame': frame, 'X': v.x, 'Y': v.y, 'Z': v.z}, {})
        return [w.X, w.Y, w.Z]
    return fn


def _t_lon(A, v):
    w, _ = _run_cut(A, cuts()['lon'], {'degree': 3, 'height': v.h, 'latitude': v.lat, 'longitude': v.lon},
                    {'latitude': v.lat, 'longitude': v.lon, 'height': v.h, 'date': None})
    return [w.sp[1], w.sp[2], w.sp[3], w.cp[1], w.cp[2], w.cp[3]]


def _t_scale(A, v):
    from pysym import symnp
    mod = A.utils.wmm
    w = mod.WMM.__new__(mod.WMM)
    w.degree = 2
    w.c = symnp.zeros((3, 3))
    w.cd = symnp.zeros((3, 3))
    for k, (i, j) in SC_POS.items():
        w.c[i, j] = v[k]
    w.cd[0, 2] = v.d20
    w.denormalize_coefficients(v.phi)
    return [w.c[i, j] for (i, j) in SC_POS.values()] + [w.cd[0, 2]]


def targets():
    T = ['xp', 'yp', 'zp', 'lp', 'la', 'glat', 'glon']
    return [
        Target('C15_elements_NED', T, _t_tail('NED'), doc='tail of magnetic_field from the rotation into geodetic axes to the end, frame NED: '
               'inputs X\', Y\', Z\', spherical and geodetic latitude (rad), geodetic latitude and longitude (deg) -> X,Y,Z,H,F,I,D,GV'),
        Target('C15_elements_ENU', T, _t_tail('ENU'), doc='the same statements with frame ENU'),
        Target('C15_derived', ['x', 'y', 'z', 'glat', 'glon'], _t_derived, doc='statements from self.H to the end: H,F,I,D,GV from the stored X,Y,Z'),
        Target('C15_frame_NED', ['x', 'y', 'z'], _t_frame('NED'), doc='statements between the rotation and self.H, frame NED'),
        Target('C15_frame_ENU', ['x', 'y', 'z'], _t_frame('ENU'), doc='statements between the rotation and self.H, frame ENU'),
        Target('C15_lon_harmonics', ['lat', 'lon', 'h'], _t_lon, doc='degrees->radians .. the sin/cos(m*lon) recurrence, truncated at m = 3: sp[1..3], cp[1..3]'),
        Target('C15_scale', SC_IN, _t_scale, doc='denormalize_coefficients on a degree-2 object: the packed g/h entries after the in-place Schmidt scaling'),
    ]


# =============================================================================================
# 3. pregen: facts -> gen/C15facts.v; the proof stages depend on what the facts say
# =============================================================================================
T_NONE = 'magnetic_field/date-none-after-call'
T_ZERO = 'constructor/skips-lat0'
T_ZERO_LON = 'constructor/skips-lon0'
T_DATE = 'constructor/float-date-off-grid'
T_DEFAULT = 'magnetic_field/default-date-frozen-at-import'
STAGES = [['C15_elements.v', 'C15_object.v'],
          [('C15_refuted_none.v', {'finding': T_NONE}), ('C15_refuted_zero.v', {'finding': T_ZERO}),
           ('C15_refuted_date.v', {'finding': T_DATE})],
          ['C15.v']]
FACTS = {}


def pregen(ctx):
    """regenerate the facts the object model rests on; choose, per defect, the `_refuted` witness file (the regenerated facts
    exhibit the defect) or the unconditional `_fixed` theorem file (they do not)"""
    global STAGES, FACTS
    try:
        f = extract_facts()
    except Exception as e:          # fail closed: no facts file -> the object proofs cannot compile
        ctx.broken.append({'kind': 'translation', 'target': 'C15facts', 'error': f'{type(e).__name__}: {e}'})
        ctx.say(f'[gen] C15facts: extraction FAILED: {type(e).__name__}: {e}')
        return
    FACTS = f
    path = os.path.join(ctx.build, 'gen', 'C15facts.v')
    with open(path, 'w') as fh:
        fh.write(facts_v(f))
    r = ctx.coqc(path)
    if r['rc'] != 0:
        ctx.broken.append({'kind': 'translation', 'target': 'C15facts', 'error': 'generated facts file does not compile',
                           'detail': (r['err'] or r['out'])[-1500:]})
        ctx.say(f"[gen] C15facts.v does not compile:\n{(r['err'] or r['out'])[-800:]}")
    ctx.targets_meta['C15_facts'] = {'tie': 'regenerated (ast walk)', 'sha': core.sha(facts_v(f))[:16],
                                     **{k: v for k, v in f.items() if not k.endswith('_src')}}
    second = [
        ('C15_refuted_none.v', {'finding': T_NONE}) if not f['field_reloads_if_none'] else 'C15_fixed_none.v',
        ('C15_refuted_zero.v', {'finding': T_ZERO}) if not all(f['ctor_guard']) else 'C15_fixed_zero.v',
        ('C15_refuted_date.v', {'finding': T_DATE}) if f['ctor_date'] == 'calendar' else
        ('C15_fixed_date.v' if f['ctor_date'] == 'given' else None),
    ]
    STAGES = [['C15_elements.v', 'C15_object.v'], [s for s in second if s], ['C15.v']]
    ctx.say(f"[gen] C15facts.v: reload-before-scale with date={f['field_reloads_if_date']} date=None={f['field_reloads_if_none']} "
            f"(events {f['events_date']!r}/{f['events_none']!r}); ctor guard {f['ctor_guard_src']!r} -> {f['ctor_guard']}; "
            f"ctor passes {f.get('ctor_date_src')!r}; default date {f['field_default_date_src']!r}; zero branches {f['method_zero_branch_src']}; undeclared state {f['hidden_state_src']}")


# =============================================================================================
# 4. the real object
# =============================================================================================
def _WMM():
    from ahrs.utils.wmm import WMM
    return WMM


def dval(spec):
    """JSON date spec -> the Python value handed to the library"""
    if spec is None:
        return None
    k, v = spec['kind'], spec['v']
    if k == 'float':
        return float(v)
    if k == 'int':
        return int(v)
    if k == 'date':
        return datetime.date(*v)
    raise ValueError(k)


class ReadersDisagree(Exception):
    """the public readers of one object (attributes X..GV, the magnetic_elements dictionary, geodetic_vector) contradict each other"""


def elements(w):
    """the object's current answer, read through EVERY public reader; they must show the same numbers"""
    d = w.magnetic_elements
    if sorted(d) != sorted(ELEMS):
        raise ReadersDisagree(f'magnetic_elements has keys {sorted(d)}')
    at = [getattr(w, k) for k in ELEMS]
    di = [d[k] for k in ELEMS]
    gv = list(w.geodetic_vector)
    for name, a, b in [(k, x, y) for k, x, y in zip(ELEMS, at, di)] + [(f'geodetic_vector[{i}]', at[i], gv[i]) for i in range(3)]:
        if (a is None) != (b is None) or (a is not None and not (float(a) == float(b) or (a != a and b != b))):
            which = 'geodetic_vector' if name.startswith('geo') else 'magnetic_elements'
            raise ReadersDisagree(f'{which}: {name} reads {b!r} but the attribute is {a!r} (frame {w.frame}, date_dec {w.date_dec}, '
                                  f'place {w.latitude}, {w.longitude}, {w.height})')
    return None if at[0] is None else [float(x) for x in at]


_FIRST = {}      # (date, place, frame) -> the first answer a fresh object ever gave in this process


class NotReproducible(Exception):
    pass


def fresh_answer(date, lat, lon, h, frame):
    """the reference: a new object of that frame, asked once through the method with an explicit date.  The first answer to
    each question is remembered for the whole run: a later fresh object that answers differently (state shared between
    objects through the class, the module or a default argument) is itself a violation."""
    w = _WMM()(frame=frame)
    date = date if date is not None else datetime.date.today()
    w.magnetic_field(lat, lon, h, date=date)
    e = elements(w)
    key = (repr(date), float(lat), float(lon), float(h), frame.upper())
    if len(_FIRST) < 20000:
        first = _FIRST.setdefault(key, e)
        if first != e and not (first is None or e is None or any(x != x for x in first + e)):
            raise NotReproducible(f"a fresh object asked {key} answered {e[:3]}; an earlier fresh object answered {first[:3]}")
    return e


def _angdiff(a, b):
    return abs((a - b + 180.0) % 360.0 - 180.0)


def elem_diff(a, b):
    """(max |difference| over X,Y,Z,H,F in nT, max angular difference over I,D,GV in degrees)"""
    if a is None or b is None:
        return (math.inf, math.inf)
    if not all(math.isfinite(x) for x in list(a) + list(b)):
        return (math.inf, math.inf)
    return (max(abs(x - y) for x, y in zip(a[:5], b[:5])), max(_angdiff(x, y) for x, y in zip(a[5:], b[5:])))


TOL_NT, TOL_DEG = 1e-6, 1e-9      # same code on the same inputs: equal to the bit; defects are 1..1e6 nT


def same(a, b):
    d = elem_diff(a, b)
    return d[0] <= TOL_NT and d[1] <= TOL_DEG


# =============================================================================================
# 5. correspondence
# =============================================================================================
DATE_TABLE = [   # token (1-based index) -> date spec.  On and off the 0.1-year grid, file boundaries, every accepted type
    {'kind': 'float', 'v': 2017.5}, {'kind': 'float', 'v': 2017.25}, {'kind': 'float', 'v': 2019.999}, {'kind': 'float', 'v': 2020.0},
    {'kind': 'float', 'v': 2022.7}, {'kind': 'float', 'v': 2024.95}, {'kind': 'float', 'v': 2025.0}, {'kind': 'float', 'v': 2026.33},
    {'kind': 'int', 'v': 2016}, {'kind': 'int', 'v': 2023}, {'kind': 'date', 'v': [2018, 7, 4]}, {'kind': 'date', 'v': [2021, 12, 31]},
    {'kind': 'date', 'v': [2025, 1, 1]}, {'kind': 'float', 'v': 2015.0}, {'kind': 'float', 'v': 2028.15},
]
PLACE_TABLE = [  # (lat, lon, h)
    (48.13723, 11.575508, 0.521), (0.0, 25.0, 0.0), (-33.9, 0.0, 1.2), (0.0, 0.0, 0.0), (90.0, 40.0, 0.0), (-90.0, -120.0, 3.0),
    (12.5, 180.0, 0.3), (12.5, -180.0, 0.3), (80.0, -179.5, 10.0), (-60.0, 77.7, 100.0), (35.0, -100.0, 600.0), (-5.0, 5.0, -0.4),
    (0, 15, 0), (20, 0, 1),
]


def _tok_value(tok, cache):
    """interpretation of a date token of the executable model: t = literal of the table, t+1000 = the calendar date an object
    reset to t holds in .date, t+2000 = its .date_dec, 999 = today (None).  Only public attributes are read."""
    if tok in cache:
        return cache[tok]
    if tok == 999:
        v = None
    elif tok >= 1000:
        base = _tok_value(tok % 1000, cache)
        w = _WMM()()
        w.reset_coefficients(base)
        v = w.date if tok < 2000 else w.date_dec
    else:
        v = dval(DATE_TABLE[tok - 1])
    cache[tok] = v
    return v


def _ref_state(tok, cache):
    """(date_dec, file) of an object reset to the token's value"""
    key = ('ref', tok)
    if key not in cache:
        w = _WMM()()
        w.reset_coefficients(_tok_value(tok, cache))
        cache[key] = (w.date_dec, w.wmm_filename)
    return cache[key]


def _raw_table(fn, cache):
    key = ('raw', fn)
    if key not in cache:
        w = _WMM()()
        w.load_coefficients(fn)
        cache[key] = w.c.copy()
    return cache[key]


def _scale_count(w, cache):
    """how many times the tables of the object have been scaled since they were loaded: g_2^0 grows by 3/2 per scaling"""
    raw = _raw_table(w.wmm_filename, cache)
    ratio = w.c[0, 2] / raw[0, 2]
    k = round(math.log(ratio) / math.log(1.5))
    return k if abs(ratio - 1.5 ** k) < 1e-9 * 1.5 ** k else -1


def _gen_session(rng):
    np_ = len(PLACE_TABLE)
    od = None if rng.random() < 0.15 else int(rng.integers(1, len(DATE_TABLE) + 1))
    ctor = (od, int(rng.integers(0, np_)), bool(rng.integers(0, 2)))
    calls = []
    for _ in range(int(rng.integers(1, 6))):
        u = rng.random()
        if u < 0.70:
            d = None if rng.random() < 0.4 else int(rng.integers(1, len(DATE_TABLE) + 1))
            calls.append(('field', int(rng.integers(0, np_)), d))
        elif u < 0.80:
            calls.append(('reset', int(rng.integers(1, len(DATE_TABLE) + 1))))
        elif u < 0.90:
            calls.append(('frame', bool(rng.integers(0, 2))))
        else:
            calls.append(('denorm',))
    return ctor, calls


def _xplace(i):
    la, lo, _ = PLACE_TABLE[i]
    return f"({i}, {'true' if la == 0 else 'false'}, {'true' if lo == 0 else 'false'})"


def _xopt(t):
    return 'None' if t is None else f'(Some {t})'


def _session_expr(ctor, calls):
    cs = []
    for c in calls:
        if c[0] == 'field':
            cs.append(f"XField {_xplace(c[1])} {_xopt(c[2])}")
        elif c[0] == 'reset':
            cs.append(f"XReset {c[1]}")
        elif c[0] == 'frame':
            cs.append(f"XSetFrame {'true' if c[1] else 'false'}")
        else:
            cs.append("XDenorm")
    return (f"xsession C15_facts {_xopt(ctor[0])} {_xplace(ctor[1])} {'true' if ctor[2] else 'false'} "
            f"[{'; '.join(cs)}]")


def _parse_rows(txt):
    import json
    return json.loads(txt.replace(';', ','))


def _real_session(ctor, calls, cache):
    """rows of public observations: ctor row, then one per call: None (no answer) or
    dict(reloaded, k, date_dec, file, elems)"""
    W = _WMM()
    od, pi, enu = ctor
    la, lo, h = PLACE_TABLE[pi]
    w = W(_tok_value(od, cache) if od is not None else None, la, lo, h, 'ENU' if enu else 'NED')
    rows = []

    def obs(reloaded):
        return {'reloaded': reloaded, 'k': _scale_count(w, cache), 'date_dec': w.date_dec, 'file': w.wmm_filename, 'elems': elements(w)}
    rows.append(obs(True) if w.X is not None else None)
    for c in calls:
        prev = w.c
        if c[0] == 'field':
            la, lo, h = PLACE_TABLE[c[1]]
            w.magnetic_field(la, lo, h, date=_tok_value(c[2], cache) if c[2] is not None else None)
            rows.append(obs(w.c is not prev))
        elif c[0] == 'reset':
            w.reset_coefficients(_tok_value(c[1], cache))
            elements(w)                 # the readers must stay mutually consistent after every step
            rows.append(None)
        elif c[0] == 'frame':
            w.frame = 'ENU' if c[1] else 'NED'
            elements(w)
            rows.append(None)
        else:
            w.denormalize_coefficients(0.3)
            elements(w)
            rows.append(None)
    return rows


def _compare_session(ctx, label, ctor, calls, mrows, rrows, cache, stats):
    inp = {'ctor': ctor, 'calls': calls}
    if len(mrows) != len(rrows):
        ctx.disagree(label, inp, mrows, len(rrows), 'row count')
        return False
    ok = True
    for i, (m, r) in enumerate(zip(mrows, rrows)):
        if (m == []) != (r is None):
            ctx.disagree(label, inp, m, r, f'row {i}: the model {"computes" if m else "computes nothing"}, the object {"does not" if m else "does"}')
            return False
        if r is None:
            continue
        if i == 0:
            m = [None] + m          # constructor row has no reloaded flag
        rel, ltok, k, dtok, pidx, fr, sp = m
        what = None
        if i > 0 and bool(rel) != r['reloaded']:
            what = f"row {i}: reloaded model={bool(rel)} object={r['reloaded']}"
        elif k != r['k']:
            what = f"row {i}: scaled {k}x in the model, {r['k']}x in the object"
        elif _ref_state(ltok, cache)[1] != r['file']:
            what = f"row {i}: coefficient file model={_ref_state(ltok, cache)[1]} object={r['file']}"
        elif _ref_state(dtok, cache)[0] != r['date_dec']:
            what = f"row {i}: date_dec model={_ref_state(dtok, cache)[0]!r} object={r['date_dec']!r}"
        else:
            pla = PLACE_TABLE[pidx]
            ref = fresh_answer(_tok_value(dtok, cache), pla[0], pla[1], pla[2], 'ENU' if fr else 'NED')
            eq = same(ref, r['elems'])
            pure_pred = (k == 1 and sp == 0 and _ref_state(ltok, cache)[1] == _ref_state(dtok, cache)[1])
            stats['pure' if pure_pred else 'impure'] += 1
            if pure_pred and ref != r['elems']:
                what = f"row {i}: model predicts the pure answer; object {r['elems'][:3]} vs fresh {ref[:3]} (not bit-equal)"
            elif not pure_pred and eq:
                what = f"row {i}: model predicts a corrupted answer (scaled {k}x) but the object's answer equals the fresh one"
        if what:
            ctx.disagree(label, inp, m, {k_: v for k_, v in r.items() if k_ != 'elems'}, what)
            ok = False
            break
    return ok


def correspondence(ctx):
    # (a) the object model, instantiated with the regenerated facts, against real objects on generated call sequences
    label = 'C15_object_model'
    n = ctx.n(60, 500)
    sessions = [((1, 0, False), [('field', 0, 1), ('field', 0, None), ('field', 0, None)]),          # the defect's own shape
                ((2, 1, True), [('field', 3, None), ('denorm',), ('field', 2, 3), ('reset', 5), ('field', 1, None)]),
                ((None, 0, False), [('field', 4, None), ('field', 5, 7)]),
                ((5, 0, False), [('field', 9, 5), ('frame', True), ('field', 9, 5), ('frame', False), ('field', 9, 5)]),   # only the frame changes
                ((5, 3, True), [('field', 3, 4), ('frame', False), ('field', 3, 4), ('field', 3, 7), ('field', 12, 7)])]
    while len(sessions) < n:
        sessions.append(_gen_session(ctx.rng))
    pre = ['From Coq Require Import List. Import ListNotations.', 'From AhrsModel Require Import C15_wmm_object.',
           'From AhrsGen Require Import C15facts.']
    outs = ctx.coq_eval(label, pre, [_session_expr(c, cs) for c, cs in sessions])
    cache, stats = {}, {'pure': 0, 'impure': 0}
    if outs is not None:
        for (ctor, calls), txt in zip(sessions, outs):
            r = core.call_outcome(_real_session, ctor, calls, cache)
            if r[0] == 'raise':
                ctx.disagree(label, {'ctor': ctor, 'calls': calls}, txt, list(r[1:]), 'the real session raises')
                continue
            if _compare_session(ctx, label, ctor, calls, _parse_rows(txt), r[1], cache, stats):
                ctx.agree(label)
        st = ctx.corr_stats.setdefault(label, {'cases': 0, 'disagree': 0})
        st['answers_predicted_pure'] = stats['pure']
        st['answers_predicted_corrupted'] = stats['impure']
        ctx.say(f"[corr] {label}: {st['cases']} sessions agree, {st['disagree']} disagree; answers predicted pure {stats['pure']} "
                f"(bit-equal to a fresh object), predicted corrupted {stats['impure']} (differ from it)")
        if len(ctx.samples) < 6:
            ctx.samples.append({'kind': 'correspondence', 'target': label, 'input': {'ctor': sessions[0][0], 'calls': sessions[0][1]},
                                'model': outs[0]})
    # (b) the regenerated formula code against the public outputs of real calls
    W = _WMM()
    m = ctx.n(40, 300)
    real = {}
    cases_d, cases_f, cases_l = [], [], []
    for i in range(m):
        if i < len(PLACE_TABLE):
            la, lo, h = map(float, PLACE_TABLE[i])
        else:
            la, lo, h = float(ctx.rng.uniform(-90, 90)), float(ctx.rng.uniform(-180, 180)), float(ctx.rng.uniform(-1, 600))
        d = float(np.round(ctx.rng.uniform(2015.0, 2029.9), 1))
        ned, enu = W(frame='NED'), W(frame='ENU')
        ned.magnetic_field(la, lo, h, date=d)
        enu.magnetic_field(la, lo, h, date=d)
        for w in (ned, enu):
            c = {'x': float(w.X), 'y': float(w.Y), 'z': float(w.Z), 'glat': la, 'glon': lo}
            real[('d',) + tuple(c.values())] = [w.H, w.F, w.I, w.D, w.GV]
            cases_d.append(c)
        c = {'x': float(ned.X), 'y': float(ned.Y), 'z': float(ned.Z)}
        real[('f',) + tuple(c.values())] = [enu.X, enu.Y, enu.Z]
        cases_f.append(c)
        c = {'lat': la, 'lon': lo, 'h': h}
        real[('l',) + tuple(c.values())] = [ned.sp[1], ned.sp[2], ned.sp[3], ned.cp[1], ned.cp[2], ned.cp[3]]
        cases_l.append(c)
    ctx.correspond('C15_derived', cases_d, lambda c: real[('d',) + tuple(c.values())], tol_ulp=64)
    ctx.correspond('C15_frame_ENU', cases_f, lambda c: real[('f',) + tuple(c.values())], tol_ulp=0.5)
    ctx.correspond('C15_frame_NED', cases_f, lambda c: [c['x'], c['y'], c['z']], tol_ulp=0.5)
    ctx.correspond('C15_lon_harmonics', cases_l, lambda c: real[('l',) + tuple(c.values())], tol_ulp=16)

    def scale_impl(c):
        w = W()
        w.degree = 2
        w.c, w.cd = np.zeros((3, 3)), np.zeros((3, 3))
        for k, (i, j) in SC_POS.items():
            w.c[i, j] = c[k]
        w.cd[0, 2] = c['d20']
        w.denormalize_coefficients(c['phi'])
        return [w.c[i, j] for (i, j) in SC_POS.values()] + [w.cd[0, 2]]
    cases_s = [{k: float(ctx.rng.uniform(-3e4, 3e4)) for k in SC_IN[:-1]} | {'phi': float(ctx.rng.uniform(-1.5, 1.5))} for _ in range(ctx.n(10, 60))]
    ctx.correspond('C15_scale', cases_s, scale_impl, tol_ulp=8)


# =============================================================================================
# 6. search oracles: the property statement evaluated on the implementation
# =============================================================================================
def _kind(spec):
    if spec is None:
        return 'none'
    if spec['kind'] == 'float':
        return 'float-on-grid' if abs(spec['v'] * 10 - round(spec['v'] * 10)) < 1e-9 else 'float-off-grid'
    return spec['kind']


def _place_class(la, lo):
    return ('lat0' if la == 0 else 'pole' if abs(la) == 90 else 'polar' if abs(la) > 55 else 'mid') + \
           ('/lon0' if lo == 0 else '/lon180' if abs(lo) == 180 else '')


def o_sequence(inp):
    """one object asked a sequence of questions: every answer equals the answer of a fresh object asked only that question"""
    W = _WMM()
    c = inp['ctor']
    w = W(dval(c['date']), c['lat'], c['lon'], c['h'], c['frame'])
    cur = c['date']                               # the object's date, as the caller knows it
    frame = c['frame']
    after = 'ctor-computed' if w.X is not None else 'reset'
    last = elements(w)                            # every step is observed through all readers (attributes, dictionary, vector)
    for i, call in enumerate(inp['calls']):
        op = call['op']
        if op in ('reset', 'denorm', 'set_frame'):
            if op == 'reset':
                w.reset_coefficients(dval(call['date']))
                cur, after = call['date'], 'reset'
            elif op == 'denorm':
                w.denormalize_coefficients(call.get('phi', 0.3))
                after = 'call'
            else:
                w.frame = frame = call['frame']
                after = after if after == 'reset' else 'frame-switch'
            now = elements(w)
            if now != last:
                return {'tag': f'{op}/changes-the-stored-answer', 'observed': now, 'expected': last, 'note': f'step #{i}'}
            continue
        d = call['date']
        w.magnetic_field(call['lat'], call['lon'], call['h'], date=dval(d))
        if d is not None:
            cur = d
        got = last = elements(w)
        ref = fresh_answer(dval(cur), call['lat'], call['lon'], call['h'], frame)
        if not same(got, ref):
            tag = f"magnetic_field/explicit-date-after-{after}" if d is not None else \
                  ('magnetic_field/date-none-after-reset' if after == 'reset' else f'magnetic_field/date-none-after-{"call" if after != "frame-switch" else after}')
            return {'tag': tag, 'observed': got, 'expected': ref, 'note': f'call #{i} of the sequence; elements X,Y,Z,H,F,I,D,GV'}
        after = 'call'
    return None


def o_ctor(inp):
    """constructor = method on a fresh object, for the same date, place and frame; the constructor always answers"""
    W = _WMM()
    d = inp['date']
    w = W(dval(d), inp['lat'], inp['lon'], inp['h'], inp['frame'])
    got = elements(w)
    if got is None:
        return {'tag': T_ZERO if inp['lat'] == 0 else T_ZERO_LON if inp['lon'] == 0 else 'constructor/no-answer', 'observed': None,
                'expected': fresh_answer(dval(d), inp['lat'], inp['lon'], inp['h'], inp['frame'])}
    ref = fresh_answer(dval(d), inp['lat'], inp['lon'], inp['h'], inp['frame'])
    if not same(got, ref):
        return {'tag': f'constructor/{_kind(d)}' if _kind(d) != 'float-off-grid' else T_DATE, 'observed': got, 'expected': ref,
                'note': f'constructor answered for date_dec={w.date_dec!r} (file {w.wmm_filename})'}
    return None


def _query(inp, frame=None, lat=None, lon=None):
    """one answer through the entry point named in inp"""
    W = _WMM()
    la = inp['lat'] if lat is None else lat
    lo = inp['lon'] if lon is None else lon
    fr = frame or inp.get('frame', 'NED')
    if inp.get('entry') == 'constructor':
        return elements(W(dval(inp['date']), la, lo, inp['h'], fr))
    w = W(frame=fr)
    w.magnetic_field(la, lo, inp['h'], date=dval(inp['date']))
    return elements(w)


def o_consistency(inp):
    """H, F, I, D follow from X, Y, Z; GV from D; everything finite (poles included)"""
    e = _query(inp)
    ent, fr = inp.get('entry', 'magnetic_field'), inp.get('frame', 'NED')
    if e is None:
        return None             # the constructor's silence is o_ctor's business
    X, Y, Z, H, F, I, D, GV = e
    reg = _place_class(inp['lat'], inp['lon']).split('/')[0]
    if not all(math.isfinite(v) for v in e):
        return {'tag': f'{ent}/{fr}/non-finite-{reg}', 'observed': e}
    sc = max(1.0, abs(F))
    checks = [('H', H, math.hypot(X, Y), 1e-9 * sc), ('F', F, math.sqrt(X * X + Y * Y + Z * Z), 1e-9 * sc),
              ('I', I, math.degrees(math.atan2(Z, H)), 1e-9), ('D', D, math.degrees(math.atan2(Y, X)), 1e-9),
              ('GV', GV, D - inp['lon'] if inp['lat'] > 55 else D + inp['lon'] if inp['lat'] < -55 else D, 1e-9)]
    for name, got, exp, tol in checks:
        if abs(got - exp) > tol:
            return {'tag': f'{ent}/{fr}/{name}-inconsistent', 'observed': got, 'expected': exp}
    return None


def o_frames(inp):
    """ENU = NED with north/east swapped and down negated; H and F do not depend on the frame"""
    a, b = _query(inp, frame='NED'), _query(inp, frame='ENU')
    ent = inp.get('entry', 'magnetic_field')
    if a is None or b is None:
        return None
    exp = [a[1], a[0], -a[2], a[3], a[4]]
    if max(abs(x - y) for x, y in zip(b[:5], exp)) > TOL_NT:
        return {'tag': f'{ent}/ENU-not-swapped-NED', 'observed': b[:5], 'expected': exp}
    for fr, ref in (('enu', b), ('Ned', a)):          # the frame name is accepted in any case
        c = _query(inp, frame=fr)
        if c is None or not same(c, ref):
            return {'tag': f'{ent}/frame-name-case', 'observed': c, 'expected': ref}
    return None


def o_lon180(inp):
    """+180 and -180 are the same meridian: the same elements (angles compared modulo 360)"""
    a, b = _query(inp, lon=180.0), _query(inp, lon=-180.0)
    ent = inp.get('entry', 'magnetic_field')
    if a is None or b is None:
        return None
    d = elem_diff(a, b)
    if d[0] > 1e-6 or d[1] > 1e-8:
        return {'tag': f'{ent}/lon-pm180-differ', 'observed': a, 'expected': b}
    return None


def o_zero(inp):
    """the equator and the prime meridian are computed like anywhere else: the answer there is the limit of its neighbours"""
    ent = inp.get('entry', 'magnetic_field')
    which = inp['which']
    eps = 1e-9
    at = _query(inp, **{which: 0.0})
    if at is None:
        return None if ent == 'constructor' else {'tag': f'{ent}/no-answer-{which}0', 'observed': None}
    for s in (+1, -1):
        nb = _query(inp, **{which: s * eps})
        d = elem_diff(at, nb)
        if d[0] > 1e-3 or d[1] > 1e-6:
            return {'tag': f'{ent}/{which}0-special-cased', 'observed': at, 'expected': nb}
    return None


def _ne(e, frame):
    """(north, east, down) of an answer in either frame"""
    return (e[0], e[1], e[2]) if frame.upper() == 'NED' else (e[1], e[0], -e[2])


GRAD = 3000.0        # nT per degree: generous bound on |d element / d latitude| (observed at the poles on HEAD: ~730 nT/deg)


def o_pole(inp):
    """a geographic pole is ONE place whatever longitude names it: Z, H, F, |I| are the same for every longitude, the horizontal
    vector is the same earth-fixed vector (its north/east components merely turn with the longitude), everything is finite,
    and the values join continuously (gradient x distance) with those 1e-6 and 1e-9 degrees away along each meridian"""
    ent, fr = inp.get('entry', 'magnetic_field'), inp.get('frame', 'NED')
    pole = float(inp['pole'])
    name = 'north-pole' if pole > 0 else 'south-pole'
    ref = None
    for lo in inp['lons']:
        e = _query(inp, lat=inp['pole'], lon=lo)
        if e is None or not all(math.isfinite(v) for v in e):
            return {'tag': f'{ent}/{name}-non-finite', 'observed': e, 'note': f'longitude {lo}'}
        N, E, Dn = _ne(e, fr)
        lam = math.radians(lo)
        if pole > 0:      # local north points along the meridian towards the pole, i.e. to (-cos, -sin) in the polar plane
            vx, vy = -N * math.cos(lam) - E * math.sin(lam), -N * math.sin(lam) + E * math.cos(lam)
        else:
            vx, vy = N * math.cos(lam) - E * math.sin(lam), N * math.sin(lam) + E * math.cos(lam)
        inv = [Dn, e[3], e[4], abs(e[5])]
        if ref is None:
            ref = (lo, inv, (vx, vy))
        else:
            if max(abs(a - b) for a, b in zip(inv[:3], ref[1][:3])) > 1e-6 or abs(inv[3] - ref[1][3]) > 1e-9:
                return {'tag': f'{ent}/{name}-depends-on-longitude', 'observed': inv, 'expected': ref[1],
                        'note': f'(down, H, F, |I|) at longitude {lo} vs longitude {ref[0]}'}
            if max(abs(vx - ref[2][0]), abs(vy - ref[2][1])) > 1e-6:
                return {'tag': f'{ent}/{name}-horizontal-vector-not-earth-fixed', 'observed': [vx, vy], 'expected': list(ref[2]),
                        'note': f'longitude {lo} vs longitude {ref[0]}'}
        for eps in (1e-6, 1e-9):
            nb = _query(inp, lat=pole - math.copysign(eps, pole), lon=lo)
            if nb is None or not all(math.isfinite(v) for v in nb):
                return {'tag': f'{ent}/{name}-neighbour-non-finite', 'observed': nb}
            tol = GRAD * eps + 2e-5
            d = max(abs(a - b) for a, b in zip(e[:5], nb[:5]))
            da = max(_angdiff(e[5], nb[5]), _angdiff(e[6], nb[6]))
            if d > tol or da > 4 * math.degrees(tol / max(e[3], 1.0)) + 1e-8:
                return {'tag': f'{ent}/{name}-discontinuous', 'observed': e, 'expected': nb,
                        'note': f'longitude {lo}: pole vs {eps} degrees away: {d} nT, {da} degrees'}
    return None


def o_dateline(inp):
    """+180, -180 and their immediate neighbours on either side are the same place to within 1e-9 degrees"""
    ent = inp.get('entry', 'magnetic_field')
    es = [(lo, _query(inp, lon=lo)) for lo in (180.0, -180.0, 180.0 - 1e-9, -180.0 + 1e-9, 180, -180)]
    ref = es[0][1]
    if ref is None:
        return None
    for lo, e in es[1:]:
        if e is None:
            return {'tag': f'{ent}/date-line-no-answer', 'observed': None, 'note': f'longitude {lo!r}'}
        d = elem_diff(ref, e)
        if d[0] > 1e-4 or d[1] > 1e-6:
            return {'tag': f'{ent}/date-line-discontinuous', 'observed': e, 'expected': ref, 'note': f'longitude {lo!r} vs 180.0'}
    return None


class _FakeMeta(type(datetime.date)):
    def __instancecheck__(cls, inst):
        return isinstance(inst, datetime.date)


def o_default_date(inp):
    """an omitted date means 'today' in the constructor and in the method alike: with the clock moved (the module's view of
    datetime.date.today patched to another day) both must follow it"""
    import ahrs.utils.wmm as M
    W = M.WMM
    y, mo, da = inp['today']

    class FakeDate(datetime.date, metaclass=_FakeMeta):
        @classmethod
        def today(cls):
            return datetime.date(y, mo, da)
    saved = M.datetime
    M.datetime = types.SimpleNamespace(date=FakeDate)
    try:
        a = elements(W(None, inp['lat'], inp['lon'], inp['h']))         # constructor: today at call time
        w = W(None, inp['lat'], inp['lon'], inp['h'])
        w.magnetic_field(inp['lat'], inp['lon'], inp['h'])              # method, date omitted
        b = elements(w)
        w.magnetic_field(inp['lat'], inp['lon'], inp['h'], date=datetime.date(y, mo, da))
        c = elements(w)
    finally:
        M.datetime = saved
    if not same(a, c):
        return {'tag': 'constructor/today-not-followed', 'observed': a, 'expected': c}
    if not same(b, c):
        frozen = isinstance(inspect.signature(W.magnetic_field).parameters['date'].default, datetime.date)
        return {'tag': T_DEFAULT if frozen else 'magnetic_field/default-date', 'observed': b, 'expected': c,
                'note': f"default argument = {inspect.signature(W.magnetic_field).parameters['date'].default!r}"}
    return None


def _public_state(w):
    return (w.c.tobytes(), w.cd.tobytes(), w.date_dec, w.date, w.epoch, w.wmm_filename, w.frame, w.latitude, w.longitude, w.height,
            tuple(repr(getattr(w, k)) for k in ELEMS))


def o_two_objects(inp):
    """two objects alive at once: creating or using one never changes the other, and each answers like a fresh object"""
    W = _WMM()
    objs, cur = [], []
    frames = [c['frame'] for c in inp['ctors']]
    for c in inp['ctors']:
        before = [_public_state(o) for o in objs]
        objs.append(W(dval(c['date']), c['lat'], c['lon'], c['h'], c['frame']))
        cur.append(c['date'])
        for o, b in zip(objs[:-1], before):
            if _public_state(o) != b:
                return {'tag': 'constructor/changes-another-object', 'observed': 'public state of an existing object changed'}
    for i, call in enumerate(inp['calls']):
        k = call['obj']
        others = [(j, _public_state(o)) for j, o in enumerate(objs) if j != k]
        d = call['date']
        if call.get('frame'):
            objs[k].frame = call['frame']
            frames[k] = call['frame']
        objs[k].magnetic_field(call['lat'], call['lon'], call['h'], date=dval(d))
        for j, b in others:
            if _public_state(objs[j]) != b:
                return {'tag': 'magnetic_field/changes-another-object', 'observed': f'call #{i} on object {k} changed object {j}'}
        if d is None:
            continue                        # date=None on a used object is o_sequence's business
        got = elements(objs[k])
        ref = fresh_answer(dval(d), call['lat'], call['lon'], call['h'], frames[k])
        if not same(got, ref):
            return {'tag': 'magnetic_field/explicit-date-with-other-objects-alive', 'observed': got, 'expected': ref}
    return None


def o_types(inp):
    """integer-typed latitude / longitude / height / year mean the same as the equal floats; datetime.date(Y, 1, 1) the same as Y.0"""
    ent = inp.get('entry', 'magnetic_field')
    la, lo, h, y = inp['lat'], inp['lon'], inp['h'], inp['year']
    assert all(isinstance(v, int) for v in (la, lo, h, y))
    q = lambda la, lo, h, d: _query({'entry': ent, 'lat': la, 'lon': lo, 'h': h, 'date': d, 'frame': inp.get('frame', 'NED')})
    ref = q(float(la), float(lo), float(h), {'kind': 'float', 'v': float(y)})
    for name, e in (('int-place', q(la, lo, h, {'kind': 'float', 'v': float(y)})),
                    ('int-year', q(float(la), float(lo), float(h), {'kind': 'int', 'v': y})),
                    ('int-all', q(la, lo, h, {'kind': 'int', 'v': y})),
                    ('first-of-january', q(float(la), float(lo), float(h), {'kind': 'date', 'v': [y, 1, 1]}))):
        if (e is None) != (ref is None):
            return {'tag': f'{ent}/{name}-answers-differently', 'observed': e, 'expected': ref}
        if e is not None and not same(e, ref):
            return {'tag': f'{ent}/{name}-differs-from-float', 'observed': e, 'expected': ref}
    return None


ORACLES = {'pole': o_pole, 'dateline': o_dateline, 'two_objects': o_two_objects, 'types': o_types, 'sequence': o_sequence, 'ctor': o_ctor, 'consistency': o_consistency, 'frames': o_frames, 'lon180': o_lon180,
           'zero': o_zero, 'default_date': o_default_date}


def _call(name, inp):
    r = core.call_outcome(ORACLES[name], inp)
    if r[0] == 'raise':
        if r[1] == 'ReadersDisagree':
            return {'tag': f"{r[2].split(':')[0]}/disagrees-with-attributes", 'observed': r[2]}
        ent = inp.get('entry', 'constructor' if name == 'ctor' else 'magnetic_field')
        return {'tag': f"{ent}/raises-{r[1]}", 'observed': list(r[1:])}
    return r[1]


def _rand_date(rng, allow_none=False):
    u = rng.random()
    if allow_none and u < 0.3:
        return None
    if u < 0.5:
        return {'kind': 'float', 'v': float(np.round(rng.uniform(2015.0, 2029.9), 1))}
    if u < 0.75:
        return {'kind': 'float', 'v': float(np.round(rng.uniform(2015.0, 2029.99), int(rng.integers(2, 5))))}
    if u < 0.85:
        return {'kind': 'int', 'v': int(rng.integers(2015, 2030))}
    return {'kind': 'date', 'v': [int(rng.integers(2015, 2030)), int(rng.integers(1, 13)), int(rng.integers(1, 29))]}


EDGE_DATES = [{'kind': 'float', 'v': v} for v in (2015.0, 2019.9, 2019.999, 2020.0, 2024.9, 2024.999, 2025.0, 2017.25, 2029.9)] + \
             [{'kind': 'date', 'v': [2019, 12, 31]}, {'kind': 'date', 'v': [2020, 1, 1]}, {'kind': 'date', 'v': [2024, 12, 31]}, {'kind': 'int', 'v': 2020}]


def _rand_place(rng):
    """table places (ints stay ints), exact 0 / +-90 / +-55 / +-180 / h = 0, integer-typed draws, generic floats"""
    u = rng.random()
    if u < 0.3:
        return PLACE_TABLE[int(rng.integers(0, len(PLACE_TABLE)))]
    if u < 0.4:
        return int(rng.integers(-90, 91)), int(rng.integers(-180, 181)), int(rng.integers(0, 5))
    la = float(rng.choice([0.0, 90.0, -90.0, 55.0, -55.0])) if rng.random() < 0.2 else float(rng.uniform(-90, 90))
    lo = float(rng.choice([0.0, 180.0, -180.0])) if rng.random() < 0.2 else float(rng.uniform(-180, 180))
    h = 0.0 if rng.random() < 0.2 else float(rng.uniform(-1, 600))
    return la, lo, h


def search(ctx, scale):
    rng = ctx.rng
    # call sequences on one object
    for i in range(40 * scale):
        la, lo, h = _rand_place(rng)
        ctor = {'date': _rand_date(rng, True) if i % 3 else EDGE_DATES[i % len(EDGE_DATES)], 'lat': la, 'lon': lo, 'h': h,
                'frame': 'ENU' if rng.random() < 0.4 else 'NED'}
        calls = []
        for _ in range(int(rng.integers(1, 7))):
            u = rng.random()
            if u < 0.75:
                la, lo, h = _rand_place(rng)
                calls.append({'op': 'field', 'lat': la, 'lon': lo, 'h': h, 'date': _rand_date(rng, True)})
            elif u < 0.84:
                calls.append({'op': 'reset', 'date': _rand_date(rng)})
            elif u < 0.93:
                calls.append({'op': 'set_frame', 'frame': str(rng.choice(['NED', 'ENU', 'enu']))})
            else:
                calls.append({'op': 'denorm', 'phi': float(rng.uniform(-1.5, 1.5))})
        inp = {'ctor': ctor, 'calls': calls}
        key = (ctor['frame'], _kind(ctor['date']), tuple((c['op'], _kind(c.get('date')) if c['op'] != 'denorm' else '') for c in calls))
        ctx.check('sequence', inp, _call('sequence', inp), nontrivial_key=key)
    # the same question repeated on one object after changing EXACTLY ONE argument (frame, height, date, latitude, longitude)
    for i in range(30 * scale):
        la, lo, h = _rand_place(rng)
        d = EDGE_DATES[i % len(EDGE_DATES)] if i % 3 == 0 else _rand_date(rng)
        fr = 'ENU' if i % 2 else 'NED'
        ctor = {'date': _rand_date(rng, True), 'lat': 48.13723, 'lon': 11.575508, 'h': 0.521, 'frame': fr} if i % 4 else \
               {'date': d, 'lat': la, 'lon': lo, 'h': h, 'frame': fr}           # constructor already asked the very question
        q = {'lat': la, 'lon': lo, 'h': h, 'date': d}
        calls, kinds = [dict(q, op='field')], []
        for _ in range(int(rng.integers(2, 6))):
            what = str(rng.choice(['frame', 'frame', 'h', 'date', 'lat', 'lon', 'same']))
            kinds.append(what)
            if what == 'frame':
                fr = 'NED' if fr.upper() == 'ENU' else 'ENU'
                calls.append({'op': 'set_frame', 'frame': fr})
            elif what == 'h':
                q = dict(q, h=0.0 if (q['h'] != 0 and rng.random() < 0.4) else float(np.round(rng.uniform(0, 50), 1)))
            elif what == 'date':
                q = dict(q, date=_rand_date(rng))
            elif what == 'lat':
                q = dict(q, lat=float(rng.choice([0.0, 90.0, -90.0])) if rng.random() < 0.4 else float(np.round(rng.uniform(-90, 90), 2)))
            elif what == 'lon':
                q = dict(q, lon=float(rng.choice([0.0, 180.0, -180.0])) if rng.random() < 0.4 else float(np.round(rng.uniform(-180, 180), 2)))
            calls.append(dict(q, op='field'))
        inp = {'ctor': ctor, 'calls': calls}
        ctx.check('sequence', inp, _call('sequence', inp), nontrivial_key=('one-change', ctor['frame'], tuple(kinds)))
    # single questions through both entry points
    for i in range(60 * scale):
        la, lo, h = _rand_place(rng)
        d = EDGE_DATES[i % len(EDGE_DATES)] if i % 4 == 0 else _rand_date(rng, allow_none=(i % 7 == 3))
        fr = 'ENU' if i % 3 == 0 else 'NED'
        inp = {'date': d, 'lat': la, 'lon': lo, 'h': h, 'frame': fr}
        ctx.check('ctor', inp, _call('ctor', inp), nontrivial_key=(_kind(d), _place_class(la, lo), fr))
        d2 = d if d is not None else {'kind': 'float', 'v': 2026.5}
        for ent in ('magnetic_field', 'constructor'):
            q = {'entry': ent, 'date': d2, 'lat': la, 'lon': lo, 'h': h, 'frame': fr}
            ctx.check('consistency', q, _call('consistency', q), nontrivial_key=(ent, fr, _place_class(la, lo)))
            if i % 2 == 0:
                ctx.check('frames', q, _call('frames', q), nontrivial_key=(ent, _place_class(la, lo)))
            if i % 3 == 0:
                ctx.check('lon180', q, _call('lon180', q), nontrivial_key=(ent, round(la)))
            if i % 3 == 1:
                for which in ('lat', 'lon'):
                    qq = dict(q, which=which)
                    ctx.check('zero', qq, _call('zero', qq), nontrivial_key=(ent, which, round(la), round(lo)))
    # two or three objects alive at once, interleaved calls
    for i in range(12 * scale):
        nobj = 2 + (i % 2)
        ctors = []
        for _ in range(nobj):
            la, lo, h = _rand_place(rng)
            ctors.append({'date': _rand_date(rng, True), 'lat': la, 'lon': lo, 'h': h, 'frame': 'ENU' if rng.random() < 0.5 else 'NED'})
        calls = []
        for _ in range(int(rng.integers(2, 7))):
            la, lo, h = _rand_place(rng)
            calls.append({'obj': int(rng.integers(0, nobj)), 'lat': la, 'lon': lo, 'h': h, 'date': _rand_date(rng, allow_none=True)})
            if rng.random() < 0.3:
                calls[-1]['frame'] = str(rng.choice(['NED', 'ENU']))
        inp = {'ctors': ctors, 'calls': calls}
        ctx.check('two_objects', inp, _call('two_objects', inp),
                  nontrivial_key=(tuple(c['frame'] for c in ctors), tuple((c['obj'], _kind(c['date'])) for c in calls)))
    # integer-typed arguments against the equal floats
    for i in range(16 * scale):
        la = int(rng.choice([0, 90, -90, 55, -56, 45])) if i % 2 else int(rng.integers(-90, 91))
        lo = int(rng.choice([0, 180, -180, 15])) if i % 3 == 0 else int(rng.integers(-180, 181))
        for ent in ('magnetic_field', 'constructor'):
            inp = {'entry': ent, 'lat': la, 'lon': lo, 'h': int(rng.integers(0, 4)), 'year': int(rng.integers(2015, 2030)),
                   'frame': 'ENU' if i % 4 == 1 else 'NED'}
            ctx.check('types', inp, _call('types', inp), nontrivial_key=(ent, _place_class(la, lo), inp['frame']))
    # the poles as single places; the date line
    for i in range(6 * scale):
        d = EDGE_DATES[i % len(EDGE_DATES)] if i % 2 else _rand_date(rng)
        h = 0.0 if i % 3 == 0 else float(np.round(rng.uniform(0, 100), 1))
        lons = [0.0, 45.0, -45.0, 90.0, -90.0, 180.0, -180.0, float(rng.uniform(-180, 180)), int(rng.integers(-180, 181))]
        for pole in (90.0, -90.0, 90, -90)[:(4 if i % 3 == 0 else 2)]:
            for ent in ('magnetic_field', 'constructor'):
                fr = 'ENU' if (i + (ent == 'constructor')) % 2 else 'NED'
                inp = {'entry': ent, 'date': d, 'pole': pole, 'lat': pole, 'lon': 0.0, 'h': h, 'frame': fr, 'lons': lons}
                ctx.check('pole', inp, _call('pole', inp), nontrivial_key=(ent, fr, pole, _kind(d), h == 0))
        for la in (0.0, float(np.round(rng.uniform(-89, 89), 1)), float(rng.choice([60.0, -75.0, 55.0, 89.999]))):
            for ent in ('magnetic_field', 'constructor'):
                inp = {'entry': ent, 'date': d, 'lat': la, 'lon': 180.0, 'h': h, 'frame': 'ENU' if i % 2 else 'NED'}
                ctx.check('dateline', inp, _call('dateline', inp), nontrivial_key=(ent, inp['frame'], round(la)))
    for t in ([2021, 6, 1], [2027, 2, 3]):
        inp = {'today': t, 'lat': 48.13723, 'lon': 11.575508, 'h': 0.521}
        ctx.check('default_date', inp, _call('default_date', inp), nontrivial_key=tuple(t))
    # a recorded finding whose witness no longer fails has been repaired: a violation that carries its tag is then a NEW failure
    # of the same kind and must not be absorbed by the stale record
    stale = set()
    for k in core.load_findings(PID):
        if k.get('status', 'known') == 'known' and k['oracle'] in ORACLES:
            r = _call(k['oracle'], k['witness'])
            if r is None or r.get('tag') != k['tag']:
                stale.add((k['oracle'], k['tag']))
    for v in ctx.violations:
        if (v.oracle, v.tag) in stale:
            v.tag += '/recorded-witness-no-longer-fails'
    ctx.samples.append({'kind': 'search', 'oracle': 'sequence',
                        'input': {'ctor': {'date': {'kind': 'float', 'v': 2017.5}, 'lat': 10.0, 'lon': -20.0, 'h': 10.5, 'frame': 'NED'},
                                  'calls': [{'op': 'field', 'lat': 10.0, 'lon': -20.0, 'h': 10.5, 'date': None}]}})
