"""C05 — recursive filters converge to the sensed attitude from any initial orientation (proof, PARTIAL).

Proved (Coq, over the regenerated one-step functions): the correction of every traced filter vanishes at the true
attitude (fixed points), the Jacobians are the exact derivatives, the correction has the descent sign, the
complementary filter converges geometrically for every gyro history, AQUA's gravity correction contracts.
Explored (search oracle = the property as written): N-step convergence of all eight filters from errors up to 175 deg."""
import math, warnings
import numpy as np
from pysym.gen import Target
from . import common as cm

PID = 'C05'
LEVEL_TEXT = ("proof, partial: Coq theorems over the regenerated one-step updates (fixed points at +-q*, exact Jacobians, "
              "descent sign of the Mahony/Madgwick corrections, AQUA tilt contraction, full geometric convergence of the "
              "Complementary filter); N-step convergence of Madgwick, Mahony, EKF, UKF, ROLEQ, FKF is explored by the search "
              "oracle only")
LEVEL_NOTE = "N-step convergence of the six nonlinear/Kalman filters is not proved (named remainder)"
TECHNIQUE = "pysym regeneration of one update step per filter + Coq (ring/field/nra, stdlib trig) + numeric convergence oracle"

Q = ['w', 'x', 'y', 'z']
G = ['gx', 'gy', 'gz']
AC = ['ax', 'ay', 'az']
MG = ['mx', 'my', 'mz']
B0 = ['b0', 'b1', 'b2']
RF = ['r0', 'r1', 'r2']
E0 = ['e0', 'e1', 'e2']
U0 = ['u0', 'u1', 'u2']

RULE = ("8 filters x IMU/MARG x frames x default and non-default gains; true attitudes uniform on S^3 plus axis-aligned ones; "
        "initial error = rotation by 5..175 deg about a navigation-frame axis from pure tilt to pure heading; gyro noise uniform "
        "with norm <= 1e-3 rad/s (and exactly zero in a separate stream); a case is non-trivial when the initial error is >= 5 deg; "
        "distinct = distinct (configuration, attitude, initial error)")
TRUSTED = [
    "Coq 8.16.1 kernel; vm_compute for the float copies",
    "pysym tracing translator (one update step of each filter is regenerated from /repo on every run)",
    "the drivers (_compute_all loops) are not modelled in Coq: the N-step statement for the Complementary filter is about the "
    "iteration of the regenerated one-step blend; that the driver iterates exactly this step is checked numerically "
    "(correspondence 'compl_driver')",
    "stdlib real-number axioms, Classical_Prop.classic (stdlib trigonometry)",
    "real arithmetic stands for binary64 (measured by correspondence)",
]
PARTIAL = ("NOT proved: N-step convergence / settling time / monotone error envelope for Madgwick, Mahony, EKF, UKF, ROLEQ, FKF "
           "(explored by the search oracle); EKF/UKF/FKF Kalman-gain algebra (LAPACK inverse, Cholesky) is outside the traced "
           "pieces; UKF and FKF have no Coq theorem at all; AQUA contraction is proved for the gravity correction only; "
           "Complementary's 'error never exceeds the initial error' is false in the rotation-angle metric (known finding) and "
           "proved only per Euler angle")


# ------------------------------------------------------------------------------------------
# targets: one update step of each filter, all numeric inputs symbolic
# ------------------------------------------------------------------------------------------
def _madgwick(A, v, marg):
    f = A.filters.Madgwick()
    f.gain = v.beta
    if marg:
        return f.updateMARG(v.vec(*Q), v.vec(*G), v.vec(*AC), v.vec(*MG), dt=v.dt)
    return f.updateIMU(v.vec(*Q), v.vec(*G), v.vec(*AC), dt=v.dt)


def _mahony(A, v, marg):
    f = A.filters.Mahony()
    f.k_P, f.k_I, f.b = v.kp, v.ki, v.vec(*B0)
    if marg:
        q = f.updateMARG(v.vec(*Q), v.vec(*G), v.vec(*AC), v.vec(*MG), dt=v.dt)
    else:
        q = f.updateIMU(v.vec(*Q), v.vec(*G), v.vec(*AC), dt=v.dt)
    return [q, f.b]


def _aqua(A, v, marg):
    f = A.filters.AQUA()
    f.alpha = v.alpha
    if marg:
        f.beta = v.beta
        return f.updateMARG(v.vec(*Q), v.vec(*G), v.vec(*AC), v.vec(*MG), dt=v.dt)
    return f.updateIMU(v.vec(*Q), v.vec(*G), v.vec(*AC), dt=v.dt)


def _roleq(A, v, frame):
    f = A.filters.ROLEQ(frame=frame, magnetic_ref=[0.6, 0.0, 0.8], weights=np.array([1.0, 1.0]))
    f.m_ref = v.vec(*RF)
    f.a = v.vec('wa', 'wm')
    return f.update(v.vec(*Q), v.vec(*G), v.vec(*AC), v.vec(*MG), dt=v.dt)


def _ekf(A, v, frame, marg):
    e = A.filters.EKF(frame=frame, magnetic_ref=[0.6, 0.0, 0.8], mag=(np.zeros((1, 3)) if marg else None))
    if marg:
        e.m_ref = v.vec(*RF)
    return e


def _compl(A, v, marg):
    c = A.filters.Complementary()
    c.gain, c.Dt = v.gain, v.dt
    c.gyr = v.mat([U0, G])
    c.acc = v.mat([AC, AC])
    c.w0 = v.vec(*E0)
    c.mag = v.mat([MG, MG]) if marg else None
    return c._compute_all()[1]


def targets():
    mk = lambda n, i, f, doc='': Target(f'C05_{n}', i, f, doc=doc)
    return [
        mk('madgwick_imu', Q + G + AC + ['dt', 'beta'], lambda A, v: _madgwick(A, v, False), 'Madgwick().updateIMU(q, gyr, acc, dt), gain = beta'),
        mk('madgwick_marg', Q + G + AC + MG + ['dt', 'beta'], lambda A, v: _madgwick(A, v, True), 'Madgwick().updateMARG(q, gyr, acc, mag, dt)'),
        mk('mahony_imu', Q + G + AC + ['dt', 'kp', 'ki'] + B0, lambda A, v: _mahony(A, v, False), 'Mahony.updateIMU -> [q_new, b_new]'),
        mk('mahony_marg', Q + G + AC + MG + ['dt', 'kp', 'ki'] + B0, lambda A, v: _mahony(A, v, True), 'Mahony.updateMARG -> [q_new, b_new]'),
        mk('aqua_imu', Q + G + AC + ['dt', 'alpha'], lambda A, v: _aqua(A, v, False), 'AQUA.updateIMU, threshold 0.9'),
        mk('aqua_marg', Q + G + AC + MG + ['dt', 'alpha', 'beta'], lambda A, v: _aqua(A, v, True), 'AQUA.updateMARG, threshold 0.9'),
        mk('roleq_ned', Q + G + AC + MG + RF + ['dt', 'wa', 'wm'], lambda A, v: _roleq(A, v, 'NED'), "ROLEQ(frame='NED').update, m_ref = r, weights = (wa, wm)"),
        mk('roleq_enu', Q + G + AC + MG + RF + ['dt', 'wa', 'wm'], lambda A, v: _roleq(A, v, 'ENU'), "ROLEQ(frame='ENU').update"),
        mk('ekf_h_imu_ned', Q, lambda A, v: _ekf(A, v, 'NED', False).h(v.vec(*Q))),
        mk('ekf_h_imu_enu', Q, lambda A, v: _ekf(A, v, 'ENU', False).h(v.vec(*Q))),
        mk('ekf_h_marg_ned', Q + RF, lambda A, v: _ekf(A, v, 'NED', True).h(v.vec(*Q))),
        mk('ekf_h_marg_enu', Q + RF, lambda A, v: _ekf(A, v, 'ENU', True).h(v.vec(*Q))),
        mk('ekf_dhdq_imu_ned', Q, lambda A, v: _ekf(A, v, 'NED', False).dhdq(v.vec(*Q))),
        mk('ekf_dhdq_imu_enu', Q, lambda A, v: _ekf(A, v, 'ENU', False).dhdq(v.vec(*Q))),
        mk('ekf_dhdq_marg_ned', Q + RF, lambda A, v: _ekf(A, v, 'NED', True).dhdq(v.vec(*Q))),
        mk('ekf_dhdq_marg_enu', Q + RF, lambda A, v: _ekf(A, v, 'ENU', True).dhdq(v.vec(*Q))),
        mk('ekf_dhdq_ref_imu_ned', Q, lambda A, v: _ekf(A, v, 'NED', False).dhdq(v.vec(*Q), mode='refactored')),
        mk('ekf_dhdq_ref_marg_ned', Q + RF, lambda A, v: _ekf(A, v, 'NED', True).dhdq(v.vec(*Q), mode='refactored')),
        mk('ekf_f', Q + G + ['dt'], lambda A, v: _ekf(A, v, 'NED', False).f(v.vec(*Q), v.vec(*G), v.dt)),
        mk('ekf_dfdq', G + ['dt'], lambda A, v: _ekf(A, v, 'NED', False).dfdq(v.vec(*G), v.dt)),
        mk('ekf_Omega', G, lambda A, v: _ekf(A, v, 'NED', False).Omega(v.vec(*G))),
        mk('compl_imu', E0 + U0 + G + AC + ['dt', 'gain'], lambda A, v: _compl(A, v, False),
           'second row of Complementary._compute_all() on two samples (the blend of one step), IMU'),
        mk('compl_marg', E0 + U0 + G + AC + MG + ['dt', 'gain'], lambda A, v: _compl(A, v, True), 'same, MARG'),
        mk('compl_am', AC + MG, lambda A, v: A.filters.Complementary().am_estimation(v.mat([AC]), v.mat([MG]))[0],
           'Complementary.am_estimation(acc[None], mag[None])[0]'),
    ]


STAGES = [['C05_base.v', 'C05_walk.v'],
          ['C05_mahony.v', 'C05_ekf.v', 'C05_compl.v', 'C05_scale.v', 'C05_scale_lock.v', 'C05_scale_lock_roleq.v', 'C05_fixed_madgwick.v'],
          ['C05.v', ('C05_refuted_ekf.v', {'finding': 'ekf.dhdq-refactored/not-derivative-of-h'}),
           ('C05_refuted_zero_gyro.v', {'finding': 'mahony/zero-gyro-frozen'})]]
# thorough tier only: evaluation / lockstep walks that take minutes
STAGES_THOROUGH = [['C05_fixed_t_aqua.v', 'C05_fixed_t_roleq.v', 'C05_fixed_t_mahony.v', 'C05_scale_t_mahony.v', 'C05_scale_t_aqua.v'],
                   ['C05_thorough.v']]
COQ_TIMEOUT = 1500


def _impl():
    import ahrs
    F = ahrs.filters
    A = lambda c, ks: np.array([c[k] for k in ks], float)

    def madg(c, marg):
        f = F.Madgwick(); f.gain = c['beta']
        return f.updateMARG(A(c, Q), A(c, G), A(c, AC), A(c, MG), dt=c['dt']) if marg else f.updateIMU(A(c, Q), A(c, G), A(c, AC), dt=c['dt'])

    def mah(c, marg):
        f = F.Mahony(); f.k_P, f.k_I, f.b = c['kp'], c['ki'], A(c, B0)
        q = f.updateMARG(A(c, Q), A(c, G), A(c, AC), A(c, MG), dt=c['dt']) if marg else f.updateIMU(A(c, Q), A(c, G), A(c, AC), dt=c['dt'])
        return [np.asarray(q), f.b]

    def aqua(c, marg):
        f = F.AQUA(); f.alpha = c['alpha']
        if marg:
            f.beta = c['beta']
            return f.updateMARG(A(c, Q), A(c, G), A(c, AC), A(c, MG), dt=c['dt'])
        return f.updateIMU(A(c, Q), A(c, G), A(c, AC), dt=c['dt'])

    def roleq(c, frame):
        f = F.ROLEQ(frame=frame, magnetic_ref=[0.6, 0.0, 0.8], weights=np.array([1.0, 1.0]))
        f.m_ref = A(c, RF); f.a = np.array([c['wa'], c['wm']])
        return f.update(A(c, Q), A(c, G), A(c, AC), A(c, MG), dt=c['dt'])

    def ekf(c, frame, marg):
        e = F.EKF(frame=frame, magnetic_ref=[0.6, 0.0, 0.8], mag=(np.zeros((1, 3)) if marg else None))
        if marg:
            e.m_ref = A(c, RF)
        return e

    def compl(c, marg):
        # the PUBLIC route: constructor on two samples (gain must be a Python float there)
        gyr = np.array([A(c, U0), A(c, G)]); acc = np.array([A(c, AC)] * 2)
        mag = np.array([A(c, MG)] * 2) if marg else None
        return F.Complementary(gyr=gyr, acc=acc, mag=mag, w0=A(c, E0), Dt=float(c['dt']), gain=float(c['gain'])).W[1]

    return {
        'madgwick_imu': lambda c: madg(c, False), 'madgwick_marg': lambda c: madg(c, True),
        'mahony_imu': lambda c: mah(c, False), 'mahony_marg': lambda c: mah(c, True),
        'aqua_imu': lambda c: aqua(c, False), 'aqua_marg': lambda c: aqua(c, True),
        'roleq_ned': lambda c: roleq(c, 'NED'), 'roleq_enu': lambda c: roleq(c, 'ENU'),
        'ekf_h_imu_ned': lambda c: ekf(c, 'NED', False).h(A(c, Q)), 'ekf_h_imu_enu': lambda c: ekf(c, 'ENU', False).h(A(c, Q)),
        'ekf_h_marg_ned': lambda c: ekf(c, 'NED', True).h(A(c, Q)), 'ekf_h_marg_enu': lambda c: ekf(c, 'ENU', True).h(A(c, Q)),
        'ekf_dhdq_imu_ned': lambda c: ekf(c, 'NED', False).dhdq(A(c, Q)), 'ekf_dhdq_imu_enu': lambda c: ekf(c, 'ENU', False).dhdq(A(c, Q)),
        'ekf_dhdq_marg_ned': lambda c: ekf(c, 'NED', True).dhdq(A(c, Q)), 'ekf_dhdq_marg_enu': lambda c: ekf(c, 'ENU', True).dhdq(A(c, Q)),
        'ekf_dhdq_ref_imu_ned': lambda c: ekf(c, 'NED', False).dhdq(A(c, Q), mode='refactored'),
        'ekf_dhdq_ref_marg_ned': lambda c: ekf(c, 'NED', True).dhdq(A(c, Q), mode='refactored'),
        'ekf_f': lambda c: ekf(c, 'NED', False).f(A(c, Q), A(c, G), c['dt']),
        'ekf_dfdq': lambda c: ekf(c, 'NED', False).dfdq(A(c, G), c['dt']),
        'ekf_Omega': lambda c: ekf(c, 'NED', False).Omega(A(c, G)),
        'compl_imu': lambda c: compl(c, False), 'compl_marg': lambda c: compl(c, True),
        'compl_am': lambda c: F.Complementary().am_estimation(np.array([A(c, AC)]), np.array([A(c, MG)]))[0],
    }


def correspondence(ctx):
    """regenerated float step == the public update call on the same floats; inputs: unit q (also -q, non-unit), measurements
    both consistent with a true attitude (fixed-point region) and generic, gyro noise-sized, zero and large"""
    import ahrs
    I = _impl()
    n = ctx.n(12, 120)
    rng = ctx.rng
    T = {t.name: t for t in targets()}
    for name, f in I.items():
        t = T['C05_' + name]
        cases = []
        for k in range(n):
            q = cm.rand_unit_quat(rng) * (1.0 if k % 4 else -1.0)
            # Madgwick normalises its gradient: exactly at the fixed point the gradient is rounding noise and its direction (hence a
            # beta*dt-sized part of the output) is not a function of the real-number model; those cases are excluded for Madgwick
            qs = q if (k % 3 == 0 and not name.startswith('madgwick')) else cm.rand_unit_quat(rng)
            R = cm.Rspec(qs)
            g = rng.standard_normal(3) * (1e-3 if k % 2 else 0.5)
            if k % 7 == 3:
                g = np.zeros(3)
            r = cm.unit(rng.standard_normal(3))
            a = R.T @ np.array([0, 0, 1.0]) * (9.81 if k % 2 else 1.0)
            m = R.T @ np.array([_CD, 0, _SD]) * (50.0 if k % 2 else 1.0)
            if k % 5 == 4:
                a, m = rng.standard_normal(3), rng.standard_normal(3)
            c = {**cm.d(Q, q), **cm.d(G, g), **cm.d(AC, a), **cm.d(MG, m), **cm.d(RF, r), **cm.d(B0, rng.standard_normal(3) * 1e-2),
                 **cm.d(E0, rng.uniform(-3, 3, 3)), **cm.d(U0, rng.standard_normal(3)),
                 'dt': float((0.01, 0.1, 0.5)[k % 3]), 'beta': float((0.033, 0.5)[k % 2]), 'alpha': float((0.01, 0.3)[k % 2]),
                 'kp': float((1.0, 3.0)[k % 2]), 'ki': float((0.3, 0.0)[k % 2]), 'wa': float((1.0, 0.7)[k % 2]),
                 'wm': float((1.0, 0.3)[k % 2]), 'gain': float((0.9, 0.5, 0.0)[k % 3])}
            cases.append({v: c[v] for v in t.inputs})
        tol = 4096 if name.startswith(('madgwick', 'aqua', 'roleq', 'mahony')) else 256
        # trig / acos branches: the oracle-parameter evaluation and libm may differ in the last bits
        ctx.correspond('C05_' + name, cases, f, tol_ulp=tol, abs_tol=1e-12 if name.startswith(('aqua', 'compl')) else 0.0)
    # the driver of the Complementary filter iterates exactly the two-sample step (ties the N-step theorem to _compute_all)
    F = ahrs.filters
    for k in range(ctx.n(3, 20)):
        N = int(rng.integers(3, 9))
        gyr, acc, mag = rng.standard_normal((N, 3)) * 0.1, np.tile(rng.standard_normal(3), (N, 1)), np.tile(rng.standard_normal(3), (N, 1))
        w0 = rng.uniform(-3, 3, 3)
        gain = float(rng.uniform(0, 1))
        W = F.Complementary(gyr=gyr, acc=acc, mag=mag, w0=w0, gain=gain).W
        w = w0.copy()
        ok = True
        for i in range(1, N):
            w = F.Complementary(gyr=gyr[i - 1:i + 1], acc=acc[:2], mag=mag[:2], w0=w, gain=gain).W[1]
            ok = ok and cm.maxabs(w, W[i]) <= 1e-12
        if ok:
            ctx.agree('compl_driver')
        else:
            ctx.disagree('compl_driver', {'gyr': gyr, 'acc': acc[0], 'mag': mag[0], 'w0': w0, 'gain': gain}, w, W[-1],
                         'driver is not the iteration of the one-step blend')


# ------------------------------------------------------------------------------------------
# search oracle: the property as written, on the implementation
# ------------------------------------------------------------------------------------------
DIP = 60.0      # magnetic dip wherever the reference is selectable (EKF, ROLEQ); the others build their own reference
_CD, _SD = math.cos(math.radians(DIP)), math.sin(math.radians(DIP))


def _axang(ax, th):
    ax = cm.unit(ax)
    return np.array([math.cos(th / 2), *(math.sin(th / 2) * ax)])


def _refs(filt, frame):
    """(g_ref, m_ref): the reference directions of the filter in its own navigation frame.  Convention of this module:
    v_nav = Rspec(q) v_body, measurement = Rspec(q)^T ref  (AQUA stores the conjugate quaternion)."""
    import ahrs
    if filt == 'mahony':
        return np.array([0, 0, 1.0]), np.array([0, _CD, _SD])          # v_m = R^T [0, |h_xy|, h_z]
    if filt in ('madgwick', 'aqua', 'complementary', 'fkf', 'ukf'):
        return np.array([0, 0, 1.0]), np.array([_CD, 0, _SD])          # b = [|h_xy|, 0, h_z]
    if filt == 'ekf':
        e = ahrs.filters.EKF(frame=frame, magnetic_ref=DIP)
        return np.array(e.a_ref, float), np.array(e.m_ref, float)
    if filt == 'roleq':
        e = ahrs.filters.ROLEQ(frame=frame, magnetic_ref=DIP)
        return np.array(e.a_ref, float), np.array(e.m_ref, float)
    raise KeyError(filt)


def _initial(qstar, ang_deg, el_deg, az_deg, g):
    """q0 = d * q*, d = rotation by ang about the navigation-frame axis at elevation el above the horizontal plane
    (el = 90: pure heading error, el = 0: pure tilt error) and azimuth az"""
    up = g / np.linalg.norm(g)
    e1 = cm.unit(np.cross(up, [1.0, 0.3, 0.2]))
    e2 = np.cross(up, e1)
    el, az = math.radians(el_deg), math.radians(az_deg)
    ax = math.cos(el) * (math.cos(az) * e1 + math.sin(az) * e2) + math.sin(el) * up
    return cm.qmul(_axang(ax, math.radians(ang_deg)), qstar)


def _err_total(q, qstar):
    d = abs(float(np.dot(q, qstar))) / (np.linalg.norm(q) * np.linalg.norm(qstar))
    return 2 * math.degrees(math.acos(min(1.0, d)))


def _err_tilt(q, a, g):
    q = np.asarray(q, float) / np.linalg.norm(q)
    v = cm.Rspec(q).T @ g
    c = float(np.dot(v, a)) / (np.linalg.norm(v) * np.linalg.norm(a))
    return math.degrees(math.acos(max(-1.0, min(1.0, c))))


def _gains(g):
    out = {}
    for k, v in (g or {}).items():
        out[k] = np.array(v, float) if isinstance(v, list) else v
    return out


def _stream(F, filt, marg, frame, gains, freq, q0, gyr, acc, mag, N):
    """the same history fed sample by sample through the public update methods, starting from q0"""
    if filt == 'madgwick':
        f = F.Madgwick(gyr=gyr[:2], acc=acc[:2], mag=(mag[:2] if marg else None), frequency=freq, **gains)   # selects gain_imu / gain_marg
        step = (lambda q, t: f.updateMARG(q, gyr[t], acc[t], mag[t])) if marg else (lambda q, t: f.updateIMU(q, gyr[t], acc[t]))
    elif filt == 'mahony':
        f = F.Mahony(frequency=freq, **gains)
        step = (lambda q, t: f.updateMARG(q, gyr[t], acc[t], mag[t])) if marg else (lambda q, t: f.updateIMU(q, gyr[t], acc[t]))
    elif filt == 'aqua':
        f = F.AQUA(frequency=freq, frame=frame, **gains)
        q0 = cm.qconj(q0)
        step = (lambda q, t: f.updateMARG(q, gyr[t], acc[t], mag[t])) if marg else (lambda q, t: f.updateIMU(q, gyr[t], acc[t]))
    elif filt == 'ekf':
        f = F.EKF(frequency=freq, frame=frame, magnetic_ref=DIP, **gains)
        step = (lambda q, t: f.update(q, gyr[t], acc[t], mag[t])) if marg else (lambda q, t: f.update(q, gyr[t], acc[t]))
    elif filt == 'roleq':
        f = F.ROLEQ(frequency=freq, frame=frame, magnetic_ref=DIP, **gains)
        step = lambda q, t: f.update(q, gyr[t], acc[t], mag[t])
    elif filt == 'ukf':
        f = F.UKF(frequency=freq, **gains)
        step = lambda q, t: f.update(q, gyr[t], acc[t])
    else:
        raise KeyError(f'{filt} has no streaming entry point')
    Qs = np.zeros((N, 4))
    Qs[0] = q0
    for t in range(1, N):
        Qs[t] = np.asarray(step(Qs[t - 1].copy(), t), float)
    return Qs


STREAMABLE = ('madgwick', 'mahony', 'aqua', 'ekf', 'roleq', 'ukf')


def _acc_scale(inp):
    """accelerometer magnitude: a number, or 'k*G' = k times the gravity constant AQUA's adaptive gain compares with"""
    v = inp.get('acc_scale', 9.81)
    if isinstance(v, str) and v.endswith('*G'):
        from ahrs.filters.aqua import GRAVITY
        return float(v[:-2]) * float(GRAVITY)
    return float(v)


def run_filter(inp):
    """run one filter through its public constructor (the streaming update where the constructor cannot take q0) on a
    motionless history; returns the error history in degrees (total angle for MARG, tilt for IMU) and Q"""
    import ahrs
    F = ahrs.filters
    filt, marg, frame = inp['filter'], bool(inp['marg']), inp.get('frame', 'NED')
    qstar = cm.unit(inp['qstar'])
    N = int(inp['N'])
    gains = _gains(inp.get('gains'))
    freq = float(inp.get('frequency', 100.0))
    g, mref = _refs(filt, frame)
    R = cm.Rspec(qstar)
    a, m = R.T @ g, R.T @ mref
    # axis-aligned truths: body-frame images with components that are zero up to rounding are made EXACTLY zero (a random
    # attitude never produces an exact zero; guards such as `not np.all(mag)` only show on exact zeros)
    a = np.where(np.abs(a) < 1e-13, 0.0, a)
    m = np.where(np.abs(m) < 1e-13, 0.0, m)
    q0 = _initial(qstar, inp['ang'], inp.get('el', 0.0), inp.get('az', 0.0), g)
    rng = np.random.default_rng(int(inp.get('noise_seed', 0)))
    gyr = rng.uniform(-1, 1, (N, 3)) * float(inp.get('gyro_noise', 1e-3)) / math.sqrt(3)
    # magnitudes are free in the property (exact IMAGES of the reference directions): m/s^2, g, raw counts, off-nominal
    sa, sm = _acc_scale(inp), float(inp.get('mag_scale', 50.0))
    acc = np.tile(a * sa, (N, 1))
    mag = np.tile(m * sm, (N, 1)) if marg else None
    conj = False
    with warnings.catch_warnings(), np.errstate(all='ignore'):
        warnings.simplefilter('ignore')
        if inp.get('stream'):
            Qs = _stream(F, filt, marg, frame, gains, freq, q0, gyr, acc, mag, N)
            conj = filt == 'aqua'
        elif filt == 'madgwick':
            if not marg:
                Qs = F.Madgwick(gyr=gyr, acc=acc, q0=q0, frequency=freq, **gains).Q
            else:       # the MARG constructor ignores q0 (ecompass of sample 0): stream the public update from q0
                f = F.Madgwick(gyr=gyr[:2], acc=acc[:2], mag=mag[:2], frequency=freq, **gains)
                Qs = np.zeros((N, 4)); Qs[0] = q0
                for t in range(1, N):
                    Qs[t] = f.updateMARG(Qs[t - 1], gyr[t], acc[t], mag[t])
        elif filt == 'mahony':
            Qs = F.Mahony(gyr=gyr, acc=acc, mag=mag, q0=q0, frequency=freq, **gains).Q
        elif filt == 'ekf':
            Qs = F.EKF(gyr=gyr, acc=acc, mag=mag, q0=q0, frequency=freq, frame=frame, magnetic_ref=DIP, **gains).Q
        elif filt == 'ukf':
            Qs = F.UKF(gyr=gyr, acc=acc, q0=q0.copy(), frequency=freq, **gains).Q
        elif filt == 'aqua':
            Qs = F.AQUA(gyr=gyr, acc=acc, mag=mag, q0=cm.qconj(q0), frequency=freq, frame=frame, **gains).Q
            conj = True
        elif filt == 'roleq':
            Qs = F.ROLEQ(gyr=gyr, acc=acc, mag=mag, q0=q0, frequency=freq, frame=frame, magnetic_ref=DIP, **gains).Q
        elif filt == 'fkf':     # no q0 parameter: sample 0 carries the initial attitude (ecompass of sample 0)
            acc, mag = acc.copy(), mag.copy()
            acc[0] = cm.Rspec(q0).T @ g * sa
            mag[0] = cm.Rspec(q0).T @ mref * sm
            Qs = F.FKF(gyr=gyr, acc=acc, mag=mag, frequency=freq, **gains).Q
        elif filt == 'complementary':
            w0 = np.array(ahrs.Quaternion(q0).to_angles())
            Qs = F.Complementary(gyr=gyr, acc=acc, mag=mag, w0=w0, frequency=freq, **gains).Q
        else:
            raise KeyError(filt)
    Qs = np.asarray(Qs, float)
    if conj:
        Qs = Qs * np.array([1, -1, -1, -1.0])
    if Qs.shape != (N, 4) or cm.bad(Qs):
        return None, Qs
    if marg:
        e = np.array([_err_total(q, qstar) for q in Qs])
    else:
        e = np.array([_err_tilt(q, a, g) for q in Qs])
    return e, Qs


def _name(inp):
    nm = f"{inp['filter']}-{'marg' if inp['marg'] else 'imu'}"
    # FKF with a small initial covariance (default Pk = 0.01 I): the Kalman gain collapses before a large error is removed; for
    # some (attitude, initial error) pairs several degrees remain after 10 000 samples (known finding, own tag so that the
    # well-conditioned FKF row stays actively checked)
    if inp['filter'] == 'fkf' and not (inp.get('gains') or {}).get('Pk'):
        nm += '-slowgain'
    return nm


def o_converge(inp):
    """from the given initial error the estimate reaches the truth: error below tol from sample `settle` to the end,
    and never above the initial error by more than `slack` degrees"""
    from vlib.core import call_outcome
    r = call_outcome(run_filter, inp)
    nm = _name(inp)
    if r[0] == 'raise':
        return {'tag': f'{nm}/raises-{r[1]}', 'observed': list(r[1:])}
    e, Qs = r[1]
    if e is None:
        return {'tag': f'{nm}/shape-or-nonfinite', 'observed': np.asarray(Qs)[-1:]}
    tol, settle, slack = float(inp['tol']), int(inp['settle']), float(inp.get('slack', 0.5))
    # the settling clause is tested first: a run that ends away from the truth is reported as such even when its error
    # also rose above the initial one (several MARG filters do the latter on the unchanged tree: known findings)
    tail = e[settle:]
    if float(tail.max()) > tol:
        k = settle + int(np.argmax(tail))
        return {'tag': f'{nm}/not-settled', 'observed': {'initial': float(e[0]), 'error': float(e[k]), 'at': k, 'final': float(e[-1])},
                'expected': f'error <= {tol} deg from sample {settle} on'}
    over = float(np.max(e - e[0]))
    if over > slack:
        k = int(np.argmax(e))
        return {'tag': f'{nm}/exceeds-initial', 'observed': {'initial': float(e[0]), 'max': float(e[k]), 'at': k},
                'expected': f'error <= initial + {slack} deg'}
    return None


def o_zero_gyro(inp):
    """the same with a gyroscope that reads exactly zero (a realisation of |noise| <= 1e-3): the correction must not
    depend on the measured rate being non-zero"""
    from vlib.core import call_outcome
    inp2 = dict(inp, gyro_noise=0.0)
    r = call_outcome(run_filter, inp2)
    nm = inp['filter']
    if r[0] == 'raise':
        return {'tag': f'{nm}/zero-gyro-raises-{r[1]}', 'observed': list(r[1:])}
    e, Qs = r[1]
    if e is None:
        return {'tag': f'{nm}/zero-gyro-nonfinite', 'observed': np.asarray(Qs)[-1:]}
    if e[-1] > 0.5 * e[0]:
        frozen = bool(np.max(np.abs(Qs - Qs[0])) < 1e-12)
        return {'tag': f"{nm}/zero-gyro-{'frozen' if frozen else 'not-converging'}",
                'observed': {'initial': float(e[0]), 'final': float(e[-1])}, 'expected': 'final error < half the initial error'}
    return None


def o_tiny_gyro(inp):
    """gyro noise that is non-zero but tiny (1e-7 ... 1e-12 rad/s) is an admissible realisation: over a short record the
    filter must move exactly as it does with 1e-3 noise (the noise contributes < 0.1 deg), in particular it must not freeze"""
    from vlib.core import call_outcome
    nm = inp['filter']
    ref = call_outcome(run_filter, dict(inp, gyro_noise=1e-3))
    r = call_outcome(run_filter, inp)
    if ref[0] == 'raise' or ref[1][0] is None:
        return None                         # reported by 'converge'
    if r[0] == 'raise':
        return {'tag': f'{nm}/tiny-gyro-noise-raises-{r[1]}', 'observed': list(r[1:])}
    e, Qs = r[1]
    if e is None:
        return {'tag': f'{nm}/tiny-gyro-noise-nonfinite', 'observed': np.asarray(Qs)[-1:]}
    if float(np.max(np.abs(Qs - Qs[0]))) < 1e-9:
        return {'tag': f'{nm}/tiny-gyro-noise-frozen', 'observed': {'noise': inp['gyro_noise'], 'initial': float(e[0]), 'final': float(e[-1])},
                'expected': 'the estimate moves towards the truth'}
    eref = ref[1][0]
    if nm != 'ukf' and abs(float(e[-1]) - float(eref[-1])) > 1.0:
        return {'tag': f'{nm}/tiny-gyro-noise-differs', 'observed': {'noise': inp['gyro_noise'], 'final': float(e[-1]), 'final with 1e-3': float(eref[-1])},
                'expected': 'same error (<= 1 deg) as with 1e-3 rad/s noise'}
    return None


def o_long(inp):
    """converges AND THEN STAYS THERE: a long record, settled-error clause checked to the last sample"""
    r = o_converge(inp)
    if r is None:
        return None
    kind = r['tag'].split('/', 1)[1]
    if kind == 'exceeds-initial':
        return None                         # that clause belongs to 'converge'
    r['tag'] = f"{_name(inp)}/long-record-{kind}"
    return r


def o_jacobian(inp):
    """EKF: dhdq(q) (both modes) is the derivative of the measurement model along the unit sphere: central differences of
    h along tangent directions; and dfdq is the derivative of f"""
    import ahrs
    q = cm.unit(inp['q'])
    frame, marg, mode = inp.get('frame', 'NED'), bool(inp['marg']), inp.get('mode', 'normal')
    e = ahrs.filters.EKF(frame=frame, magnetic_ref=DIP, mag=(np.zeros((1, 3)) if marg else None))
    H = np.asarray(e.dhdq(q.copy(), mode=mode), float)
    nm = f"ekf.dhdq-{mode}"
    rows = 6 if marg else 3
    if H.shape != (rows, 4) or cm.bad(H):
        return {'tag': f'{nm}/shape-or-nonfinite', 'observed': H}
    eps = 1e-6
    worst = 0.0
    for k in range(4):
        d = np.zeros(4); d[k] = 1.0
        d = d - np.dot(d, q) * q            # tangent direction
        num = (np.asarray(e.h(cm.unit(q + eps * d)), float) - np.asarray(e.h(cm.unit(q - eps * d)), float)) / (2 * eps)
        worst = max(worst, cm.maxabs(H @ d, num))
    if worst > 1e-6:
        return {'tag': f'{nm}/not-derivative-of-h', 'observed': worst, 'expected': '<= 1e-6'}
    w = np.array(inp.get('omega', [0.1, -0.2, 0.3]), float)
    Fm = np.asarray(e.dfdq(w, 0.01), float)
    for k in range(4):
        d = np.zeros(4); d[k] = 1.0
        num = np.asarray(e.f(q + d, w, 0.01), float) - np.asarray(e.f(q, w, 0.01), float)
        if cm.maxabs(Fm @ d, num) > 1e-12:
            return {'tag': 'ekf.dfdq/not-derivative-of-f', 'observed': cm.maxabs(Fm @ d, num)}
    return None


def o_scale(inp):
    """the measurements are images of reference DIRECTIONS: multiplying the accelerometer (and magnetometer) history by a
    positive constant must not change the estimates of any filter that normalises its inputs (all but AQUA adaptive=True)"""
    from vlib.core import call_outcome
    base = dict(inp, acc_scale=1.0, mag_scale=1.0)
    r0 = call_outcome(run_filter, base)
    if r0[0] == 'raise' or r0[1][0] is None:
        return None                     # not this oracle's business (reported by 'converge')
    nm = _name(inp)
    for sa, sm in inp['scales']:
        r = call_outcome(run_filter, dict(inp, acc_scale=sa, mag_scale=sm))
        if r[0] == 'raise':
            return {'tag': f'{nm}/scaled-raises-{r[1]}', 'observed': list(r[1:]), 'note': f'acc x {sa}, mag x {sm}'}
        if r[1][0] is None:
            return {'tag': f'{nm}/scaled-nonfinite', 'observed': [sa, sm]}
        d = cm.maxabs(r[1][1], r0[1][1])
        if d > 1e-7:
            return {'tag': f'{nm}/depends-on-magnitude', 'observed': {'acc_scale': sa, 'mag_scale': sm, 'max |dQ|': d},
                    'expected': 'same quaternions (<= 1e-7) as with unit-norm measurements'}
    return None


ORACLES = {'converge': o_converge, 'zero_gyro': o_zero_gyro, 'jacobian': o_jacobian, 'scale': o_scale,
           'tiny_gyro': o_tiny_gyro, 'long': o_long}

# configuration table.  Each row: filter, marg, frame, gains, frequency, N, settle, tol (deg), slack (deg), tier.
# Calibration (unchanged tree, 2 attitudes x {175,120,45} deg x {tilt, mixed, heading}, noise 1e-3): `settle` >= 1.5 x the
# worst observed settling index, tol >= 5 x the worst observed floor (max error over the last 10 %), see notes/design/C05.md.
CONFIGS = [
    # filter          marg  frame  gains                                    freq    N     settle tol   slack tier
    ('madgwick',      0, 'NED', {},                                          10.0, 5800, 5200, 2.0,  0.5, 'q'),   # floor .37 (chatter ~ beta*dt); 175-deg starts: settle max 2082 of 30, one at ~3300 (saddle)
    ('madgwick',      1, 'NED', {},                                          10.0, 5800, 5200, 2.0,  0.5, 'q'),   # floor .37; settle max 1931 of 30, one at ~3300
    ('madgwick',      0, 'NED', {'gain': 0.5},                              100.0, 3600, 3200, 3.0,  0.5, 'q'),   # floor .52, settle max 1373 of 30
    ('madgwick',      1, 'NED', {'gain': 0.5},                              100.0, 4400, 4000, 3.0,  0.5, 't'),   # floor .47, settle 1544
    ('mahony',        0, 'NED', {},                                         100.0, 3000, 2600, 0.05, 0.5, 'q'),   # floor 5.1e-3, settle 1699
    ('mahony',        1, 'NED', {},                                          20.0, 4800, 4300, 0.15, 0.5, 'q'),   # floor 2.1e-2, settle 2851
    ('mahony',        0, 'NED', {'k_P': 3.0, 'k_I': 1.5},                   100.0, 2200, 1800, 0.05, 0.5, 'q'),   # floor 2.2e-3, settle 1202
    ('mahony',        1, 'NED', {'k_P': 3.0, 'k_I': 1.5},                   100.0, 8000, 7400, 0.15, 0.5, 't'),   # floor 2.5e-2, settle 4940
    ('ekf',           0, 'NED', {},                                         100.0, 1300, 1000, 0.05, 0.5, 'q'),   # floor 4.5e-3, settle 619
    ('ekf',           0, 'ENU', {},                                         100.0, 1300, 1000, 0.05, 0.5, 'q'),   # floor 4.5e-3, settle 620
    ('ekf',           1, 'NED', {},                                          20.0, 2400, 2000, 0.15, 12.0, 'q'),   # floor 2.0e-2, settle 1306, overshoot 1.32
    ('ekf',           1, 'ENU', {},                                          20.0, 2400, 2000, 0.15, 12.0, 'q'),   # floor 1.8e-2, settle 1255
    ('ekf',           0, 'NED', {'noises': [0.01, 0.0025, 0.0025]},         100.0, 300,  100,  0.05, 0.5, 'q'),   # floor 2.6e-3, settle 31
    ('ekf',           1, 'NED', {'noises': [0.01, 0.0025, 0.0025]},         100.0, 2800, 2400, 0.05, 12.0, 't'),   # floor 3.5e-3, settle 1573
    ('aqua',          0, 'NED', {},                                         100.0, 1500, 1250, 0.05, 0.5, 'q'),   # floor 3.2e-3, settle 815
    ('aqua',          1, 'NED', {},                                         100.0, 1900, 1650, 0.05, 0.5, 'q'),   # floor 5.4e-3, settle 1075
    ('aqua',          0, 'NED', {'alpha': 0.05, 'beta': 0.03},              100.0, 400,  250,  0.05, 0.5, 'q'),   # floor 1.9e-3, settle 159
    ('aqua',          1, 'ENU', {'alpha': 0.05, 'beta': 0.03},              100.0, 600,  450,  0.05, 0.5, 'q'),   # floor 2.8e-3, settle 279
    ('aqua',          1, 'NED', {'adaptive': True},                         100.0, 1500, 1250, 0.05, 0.5, 't'),   # floor 3.9e-3, settle 821
    ('roleq',         1, 'NED', {},                                         100.0, 200,  100,  0.01, 0.5, 'q'),   # floor 5.2e-4, settle 30
    ('roleq',         1, 'ENU', {},                                         100.0, 350,  250,  0.01, 0.5, 'q'),   # floor 1.1e-3, settle 133
    ('roleq',         1, 'NED', {'weights': [0.7, 0.3]},                    100.0, 220,  120,  0.01, 0.5, 'q'),   # floor 7.6e-4, settle 57
    ('complementary', 0, 'NED', {},                                         100.0, 250,  150,  0.01, 0.5, 'q'),   # floor 1.1e-3, settle 91
    ('complementary', 1, 'NED', {},                                         100.0, 250,  150,  0.01, 0.5, 'q'),   # floor 1.5e-3, settle 93
    ('complementary', 1, 'NED', {'gain': 0.5},                              100.0, 100,  40,   0.01, 0.5, 'q'),   # floor 3.9e-4, settle 14
    # FKF calibrated on the tree that contains fixes/C05-fkf-unit-measurement.patch (committed); re-checked on HEAD 0413f58
    ('fkf',           1, 'NED', {},                                          10.0, 4200, 3800, 0.25, 0.5, 'q'),   # floor 3.7e-2, settle 2509 (tol .2)
    ('fkf',           1, 'NED', {'sigma_g': 1.0, 'sigma_a': 0.001, 'sigma_m': 0.001, 'Pk': 1.0}, 100.0, 3600, 3300, 0.25, 0.5, 'q'),   # 24 random runs: max .31 at 1650, .083 at 2475, .021 at 3300
    ('fkf',           1, 'NED', {'sigma_g': 1.0, 'sigma_a': 0.01, 'sigma_m': 0.01}, 100.0, 5200, 4700, 0.25, 0.5, 't'),   # floor 6.3e-3, settle 3083
    # --- round 2: magnitudes over decades / off-nominal, sampling rates 10/25/100 Hz, larger gains ------------------------
    ('mahony',        0, 'NED', {'k_P': 25.0, 'k_I': 0.3},                  100.0, 2600, 2200, 0.4,  0.5, 'q', {'acc_scale': 9.81}),   # floor .073, settle 1439 (tol .05)
    ('mahony',        0, 'NED', {'k_P': 3.0, 'k_I': 0.3},                    10.0, 1000, 750,  0.05, 0.5, 'q', {'acc_scale': 9.81}),   # floor 8.6e-3, settle 490
    ('mahony',        0, 'NED', {},                                          25.0, 1500, 1200, 0.06, 0.5, 'q', {'acc_scale': 1000.0}),   # floor .0103, settle 431
    ('mahony',        1, 'NED', {'k_P': 10.0, 'k_I': 0.3},                   25.0, 4800, 4300, 0.15, 0.5, 'q', {'acc_scale': 1000.0, 'mag_scale': 4.5e4}),   # floor .028, settle 2850
    ('madgwick',      0, 'NED', {'gain': 0.5},                               25.0, 1200, 900,  12.0, 0.5, 'q', {'acc_scale': 1.0}),   # floor 2.29 (beta*dt = 1.15 deg chatter), settle 332
    ('madgwick',      1, 'NED', {'gain': 0.5},                               25.0, 1200, 900,  12.0, 0.5, 'q', {'acc_scale': 1000.0, 'mag_scale': 0.45}),   # floor 2.14, settle 445
    ('aqua',          0, 'NED', {'adaptive': True},                         100.0, 1500, 1250, 0.05, 0.5, 'q', {'acc_scale': '1.15*G'}),
    ('aqua',          1, 'NED', {'adaptive': True},                         100.0, 1900, 1650, 0.05, 0.5, 'q', {'acc_scale': '0.85*G', 'mag_scale': 0.45}),
    ('aqua',          1, 'ENU', {'adaptive': True, 'beta': 0.03},            25.0, 1900, 1650, 0.08, 0.5, 'q', {'acc_scale': 9.81}),   # floor .0148, settle 339
    ('ekf',           0, 'ENU', {},                                          25.0, 900,  600,  0.06, 0.5, 'q', {'acc_scale': 1.0}),   # floor .0117, settle 216
    ('ekf',           1, 'ENU', {'noises': [0.01, 0.0025, 0.0025]},          10.0, 1500, 1200, 0.15, 12.0, 'q', {'acc_scale': 1000.0, 'mag_scale': 4.5e4}),
    ('roleq',         1, 'ENU', {'weights': [0.7, 0.3]},                     10.0, 700,  500,  0.1,  0.5, 'q', {'acc_scale': 1.0, 'mag_scale': 4.5e4}),   # floor .0162, settle 297 (tol .02)
    ('complementary', 1, 'NED', {'gain': 0.98},                              25.0, 1500, 1200, 0.1,  0.5, 'q', {'acc_scale': 1000.0, 'mag_scale': 0.45}),   # floor .0185, settle 424
    ('fkf',           1, 'NED', {'sigma_g': 1.0, 'sigma_a': 0.001, 'sigma_m': 0.001, 'Pk': 1.0}, 25.0, 5000, 4500, 0.25, 0.5, 't', {'acc_scale': 1.0, 'mag_scale': 4.5e4}),   # floor .025, settle 2991
    ('ukf',           0, 'NED', {},                                         100.0, 2000, 1600, 5.0,  0.5, 'q'),   # UKF: see known findings
]


def _cfg_inp(row, qstar, ang, el, az, seed):
    filt, marg, frame, gains, freq, N, settle, tol, slack, _ = row[:10]
    extra = row[10] if len(row) > 10 else {}
    return {'filter': filt, 'marg': bool(marg), 'frame': frame, 'gains': gains, 'frequency': freq, 'N': N,
            'settle': settle, 'tol': tol, 'slack': slack, 'qstar': [float(x) for x in qstar], 'ang': float(ang),
            'el': float(el), 'az': float(az), 'noise_seed': int(seed), 'gyro_noise': 1e-3, **extra}


_S2 = math.sqrt(0.5)
# truths whose body-frame measurements have exactly-zero components: identity, quarter turns about each axis (both signs for
# pitch), a half turn, and a roll-then-yaw combination
AXIS_ALIGNED = [np.array([1.0, 0, 0, 0]), np.array([_S2, 0, _S2, 0]), np.array([_S2, _S2, 0, 0]), np.array([_S2, 0, 0, _S2]),
                np.array([_S2, 0, -_S2, 0]), np.array([0.0, 1.0, 0, 0]), np.array([0.5, 0.5, 0.5, 0.5])]


def _attitudes(rng, n):
    out = [np.array([1.0, 0, 0, 0]), cm.axang_q([1, 0, 0], math.pi / 2), cm.axang_q([0, 1, 0], -2.0), cm.axang_q([0, 0, 1], math.pi)]
    while len(out) < n + 4:
        out.append(cm.rand_unit_quat(rng))
    return out


def search(ctx, scale):
    thorough = scale > 1
    rng = ctx.rng
    atts = _attitudes(rng, 4)
    # quick: per configuration 3 runs (175 deg at rotating elevation, one mid error, one small); thorough: a grid
    for ci, row in enumerate(CONFIGS):
        if row[9] == 't' and not thorough:
            continue
        marg = row[1]
        if not thorough:
            if marg:    # tilt-only, heading-only beyond 90 deg (rotation about the vertical), heading-only 175, mixed (every 4th row: 5 deg)
                plan = [(atts[4 + ci % 4], 175.0, 0.0, 40.0),
                        (AXIS_ALIGNED[ci % 7], (100.0, 135.0, 160.0)[ci % 3], 90.0, 0.0),        # axis-aligned truth, far heading start
                        (atts[4 + (ci + 2) % 4], 175.0, 90.0, 0.0),
                        (atts[4 + (ci + 1) % 4], (150.0, 120.0, 60.0, 5.0)[ci % 4], 45.0, 200.0)]
            else:
                plan = [(atts[4 + ci % 4], 175.0, 0.0, 40.0),
                        (AXIS_ALIGNED[ci % 7], (120.0, 90.0, 60.0)[ci % 3], 0.0, 200.0),          # axis-aligned truth
                        (atts[4 + (ci + 1) % 4], 5.0, 0.0, 300.0)]
        else:
            plan = []
            for ai, q in enumerate(atts):
                for ang in (175.0, (150.0, 120.0, 90.0, 45.0, 10.0)[(ai + ci) % 5]):
                    for el in ((0.0, 45.0, 90.0) if marg else (0.0,)):
                        plan.append((q, ang, el, float(rng.uniform(0, 360))))
                if marg:
                    plan.append((q, (95.0, 120.0, 150.0)[(ai + ci) % 3], 90.0, 0.0))
            for qa in AXIS_ALIGNED:
                plan.append((qa, 140.0, 90.0 if marg else 0.0, 0.0))
        for k, (q, ang, el, az) in enumerate(plan):
            inp = _cfg_inp(row, q, ang, el if marg else min(el, 60.0), az, seed=1000 * ci + k)
            ctx.check('converge', inp, o_converge(inp),
                      nontrivial_key=(ci, tuple(np.round(q, 6)), ang, el, round(az, 3)) if ang >= 5 else None)
    # the same through the streaming entry points (update / updateIMU / updateMARG), first row of each (filter, mode, frame)
    seen = set()
    for ci, row in enumerate(CONFIGS):
        key = (row[0], row[1], row[2])
        if row[0] not in STREAMABLE or key in seen or (row[9] == 't' and not thorough):
            continue
        seen.add(key)
        for k, (ang, el) in enumerate(((150.0, 90.0), (175.0, 30.0)) if row[1] else ((150.0, 0.0),)):
            inp = _cfg_inp(row, atts[4 + (ci + k) % 4], ang, el, 77.0, seed=500 + ci)
            inp['stream'] = True
            ctx.check('converge', inp, o_converge(inp), nontrivial_key=('stream', ci, ang, el))
    # exact-zero gyroscope: one run per filter and mode
    for ci, row in enumerate(CONFIGS):
        if row[3] or row[9] == 't' or len(row) > 10:
            continue
        inp = _cfg_inp(row, atts[4 + ci % 2], 30.0, 45.0, 100.0, seed=7)
        inp['N'] = min(inp['N'], 300 if row[0] in ('madgwick', 'mahony', 'aqua') else 1500)   # frozen filters show it at once
        ctx.check('zero_gyro', inp, o_zero_gyro(inp), nontrivial_key=('zero', ci))
    # tiny but non-zero gyro noise (guards like allclose(gyr, 0) freeze the filter): every (filter, mode, frame), 5 levels
    seen = set()
    for ci, row in enumerate(CONFIGS):
        key = (row[0], row[1], row[2])
        if key in seen or (row[9] == 't' and not thorough):
            continue
        seen.add(key)
        for k, lvl in enumerate((1e-7, 1e-8, 5e-9, 1e-10, 1e-12)):
            inp = _cfg_inp(row[:10], atts[4 + (ci + k) % 4], 120.0, 45.0, 33.0 * k, seed=900 + ci)
            inp['N'] = 80
            inp['gyro_noise'] = lvl
            if row[0] in STREAMABLE and k % 2:
                inp['stream'] = True
            ctx.check('tiny_gyro', inp, o_tiny_gyro(inp), nontrivial_key=('tiny', key, lvl))
    # long records ("... and then stays there"): Complementary at two gains (cheap), one long record for three more filters
    # in the quick tier, 20000 samples for every (filter, mode, frame) in the thorough tier (UKF and the slow-gain FKF rows,
    # whose not-settled behaviour is a known finding, are left out)
    for gain, N in ((0.5, 1500), (0.9, 8000)):
        for marg in (0, 1):
            row = ('complementary', marg, 'NED', {'gain': gain}, 100.0, N, 200, 0.05, 0.5, 'q')
            inp = _cfg_inp(row, atts[4 + marg], 60.0, 45.0, 10.0, seed=950 + marg)
            ctx.check('long', inp, o_long(inp), nontrivial_key=('long', 'complementary', marg, gain))
    seen = set()
    for ci, row in enumerate(CONFIGS):
        key = (row[0], row[1], row[2])
        if key in seen or row[0] in ('ukf', 'complementary') or len(row) > 10 or (row[3] and row[0] != 'fkf'):
            continue
        if row[0] == 'fkf' and not row[3].get('Pk'):
            continue
        seen.add(key)
        if not thorough and key not in (('roleq', 1, 'NED'), ('aqua', 0, 'NED'), ('mahony', 0, 'NED')):
            continue
        r2 = list(row[:10])
        r2[5] = 20000 if thorough else 6000
        inp = _cfg_inp(tuple(r2), atts[4 + ci % 4], 60.0, 45.0, 10.0, seed=960 + ci)
        ctx.check('long', inp, o_long(inp), nontrivial_key=('long',) + key)
    # magnitude independence: 40 samples, acc and mag scaled over decades (m/s^2, raw counts, milli-units, off-nominal 0.85/1.15)
    done = set()
    for ci, row in enumerate(CONFIGS):
        key = (row[0], row[1], row[2])
        if key in done or row[3].get('adaptive') or (row[9] == 't' and not thorough):
            continue
        done.add(key)
        inp = _cfg_inp(row[:10], atts[4 + ci % 4], 60.0, 45.0, 10.0 * ci, seed=11 + ci)
        inp['N'] = 40
        inp['scales'] = [[9.81, 50.0], [1000.0, 4.5e4], [1e-3, 0.45], [0.85, 1.15], [1.15, 0.85]]
        ctx.check('scale', inp, o_scale(inp), nontrivial_key=('scale',) + key)
    # Jacobians numerically (both modes, both frames)
    for k in range(4 * scale):
        q = cm.rand_unit_quat(rng)
        for frame in ('NED', 'ENU'):
            for marg in (False, True):
                for mode in ('normal', 'refactored'):
                    inp = {'q': q.tolist(), 'frame': frame, 'marg': marg, 'mode': mode}
                    ctx.check('jacobian', inp, o_jacobian(inp), nontrivial_key=(frame, marg, mode, tuple(np.round(q, 6))))
    ctx.samples.append({'kind': 'search', 'oracle': 'converge', 'input': _cfg_inp(CONFIGS[4], atts[5], 175.0, 0.0, 40.0, 1)})
