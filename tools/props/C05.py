"""C05 — recursive filters converge to the sensed attitude from any initial orientation (proof, PARTIAL).

Proved (Coq, over the regenerated one-step functions): the correction of every traced filter vanishes at the true
attitude (fixed points), the Jacobians are the exact derivatives, the correction has the descent sign, the
complementary filter converges geometrically for every gyro history, AQUA's gravity correction contracts.
Explored (search oracle = the property as written): N-step convergence of all eight filters from errors up to 175 deg."""
import math, warnings
import numpy as np
from pysym.gen import Target
from . import common as cm

PID = 'C05'
LEVEL_TEXT = ("proof, partial: Coq theorems over the regenerated one-step updates (fixed points at +-q*, exact Jacobians, "
              "descent sign of the Mahony/Madgwick corrections, AQUA tilt contraction, full geometric convergence of the "
              "Complementary filter); N-step convergence of Madgwick, Mahony, EKF, UKF, ROLEQ, FKF is explored by the search "
              "oracle only")
LEVEL_NOTE = "N-step convergence of the six nonlinear/Kalman filters is not proved (named remainder)"
TECHNIQUE = "pysym regeneration of one update step per filter + Coq (ring/field/nra, stdlib trig) + numeric convergence oracle"

Q = ['w', 'x', 'y', 'z']
G = ['gx', 'gy', 'gz']
AC = ['ax', 'ay', 'az']
MG = ['mx', 'my', 'mz']
B0 = ['b0', 'b1', 'b2']
RF = ['r0', 'r1', 'r2']
E0 = ['e0', 'e1', 'e2']
U0 = ['u0', 'u1', 'u2']

RULE = ("8 filters x IMU/MARG x frames x default and non-default gains; true attitudes uniform on S^3 plus axis-aligned ones; "
        "initial error = rotation by 5..175 deg about a navigation-frame axis from pure tilt to pure heading; gyro noise uniform "
        "with norm <= 1e-3 rad/s (and exactly zero in a separate stream); a case is non-trivial when the initial error is >= 5 deg; "
        "distinct = distinct (configuration, attitude, initial error)")
TRUSTED = [
    "Coq 8.16.1 kernel; vm_compute for the float copies",
    "pysym tracing translator (one update step of each filter is regenerated from /repo on every run)",
    "the drivers (_compute_all loops) are not modelled in Coq: the N-step statement for the Complementary filter is about the "
    "iteration of the regenerated one-step blend; that the driver iterates exactly this step is checked numerically "
    "(correspondence 'compl_driver')",
    "stdlib real-number axioms, Classical_Prop.classic (stdlib trigonometry)",
    "real arithmetic stands for binary64 (measured by correspondence)",
]
PARTIAL = ("NOT proved: N-step convergence / settling time / monotone error envelope for Madgwick, Mahony, EKF, UKF, ROLEQ, FKF "
           "(explored by the search oracle); EKF/UKF/FKF Kalman-gain algebra (LAPACK inverse, Cholesky) is outside the traced "
           "pieces; UKF and FKF have no Coq theorem at all; AQUA contraction is proved for the gravity correction only; "
           "Complementary's 'error never exceeds the initial error' is false in the rotation-angle metric (known finding) and "
           "proved only per Euler angle")


# ------------------------------------------------------------------------------------------
# targets: one update step of each filter, all numeric inputs symbolic
# ------------------------------------------------------------------------------------------
def _madgwick(A, v, marg):
    f = A.filters.Madgwick()
    f.gain = v.beta
    if marg:
        return f.updateMARG(v.vec(*Q), v.vec(*G), v.vec(*AC), v.vec(*MG), dt=v.dt)
    return f.updateIMU(v.vec(*Q), v.vec(*G), v.vec(*AC), dt=v.dt)


def _mahony(A, v, marg):
    f = A.filters.Mahony()
    f.k_P, f.k_I, f.b = v.kp, v.ki, v.vec(*B0)
    if marg:
        q = f.updateMARG(v.vec(*Q), v.vec(*G), v.vec(*AC), v.vec(*MG), dt=v.dt)
    else:
        q = f.updateIMU(v.vec(*Q), v.vec(*G), v.vec(*AC), dt=v.dt)
    return [q, f.b]


def _aqua(A, v, marg):
    f = A.filters.AQUA()
    f.alpha = v.alpha
    if marg:
        f.beta = v.beta
        return f.updateMARG(v.vec(*Q), v.vec(*G), v.vec(*AC), v.vec(*MG), dt=v.dt)
    return f.updateIMU(v.vec(*Q), v.vec(*G), v.vec(*AC), dt=v.dt)


def _roleq(A, v, frame):
    f = A.filters.ROLEQ(frame=frame, magnetic_ref=[0.6, 0.0, 0.8], weights=np.array([1.0, 1.0]))
    f.m_ref = v.vec(*RF)
    f.a = v.vec('wa', 'wm')
    return f.update(v.vec(*Q), v.vec(*G), v.vec(*AC), v.vec(*MG), dt=v.dt)


def _ekf(A, v, frame, marg):
    e = A.filters.EKF(frame=frame, magnetic_ref=[0.6, 0.0, 0.8], mag=(np.zeros((1, 3)) if marg else None))
    if marg:
        e.m_ref = v.vec(*RF)
    return e


def _compl(A, v, marg):
    c = A.filters.Complementary()
    c.gain, c.Dt = v.gain, v.dt
    c.gyr = v.mat([U0, G])
    c.acc = v.mat([AC, AC])
    c.w0 = v.vec(*E0)
    c.mag = v.mat([MG, MG]) if marg else None
    return c._compute_all()[1]


def targets():
    mk = lambda n, i, f, doc='': Target(f'C05_{n}', i, f, doc=doc)
    return [
        mk('madgwick_imu', Q + G + AC + ['dt', 'beta'], lambda A, v: _madgwick(A, v, False), 'Madgwick().updateIMU(q, gyr, acc, dt), gain = beta'),
        mk('madgwick_marg', Q + G + AC + MG + ['dt', 'beta'], lambda A, v: _madgwick(A, v, True), 'Madgwick().updateMARG(q, gyr, acc, mag, dt)'),
        mk('mahony_imu', Q + G + AC + ['dt', 'kp', 'ki'] + B0, lambda A, v: _mahony(A, v, False), 'Mahony.updateIMU -> [q_new, b_new]'),
        mk('mahony_marg', Q + G + AC + MG + ['dt', 'kp', 'ki'] + B0, lambda A, v: _mahony(A, v, True), 'Mahony.updateMARG -> [q_new, b_new]'),
        mk('aqua_imu', Q + G + AC + ['dt', 'alpha'], lambda A, v: _aqua(A, v, False), 'AQUA.updateIMU, threshold 0.9'),
        mk('aqua_marg', Q + G + AC + MG + ['dt', 'alpha', 'beta'], lambda A, v: _aqua(A, v, True), 'AQUA.updateMARG, threshold 0.9'),
        mk('roleq_ned', Q + G + AC + MG + RF + ['dt', 'wa', 'wm'], lambda A, v: _roleq(A, v, 'NED'), "ROLEQ(frame='NED').update, m_ref = r, weights = (wa, wm)"),
        mk('roleq_enu', Q + G + AC + MG + RF + ['dt', 'wa', 'wm'], lambda A, v: _roleq(A, v, 'ENU'), "ROLEQ(frame='ENU').update"),
        mk('ekf_h_imu_ned', Q, lambda A, v: _ekf(A, v, 'NED', False).h(v.vec(*Q))),
        mk('ekf_h_imu_enu', Q, lambda A, v: _ekf(A, v, 'ENU', False).h(v.vec(*Q))),
        mk('ekf_h_marg_ned', Q + RF, lambda A, v: _ekf(A, v, 'NED', True).h(v.vec(*Q))),
        mk('ekf_h_marg_enu', Q + RF, lambda A, v: _ekf(A, v, 'ENU', True).h(v.vec(*Q))),
        mk('ekf_dhdq_imu_ned', Q, lambda A, v: _ekf(A, v, 'NED', False).dhdq(v.vec(*Q))),
        mk('ekf_dhdq_imu_enu', Q, lambda A, v: _ekf(A, v, 'ENU', False).dhdq(v.vec(*Q))),
        mk('ekf_dhdq_marg_ned', Q + RF, lambda A, v: _ekf(A, v, 'NED', True).dhdq(v.vec(*Q))),
        mk('ekf_dhdq_marg_enu', Q + RF, lambda A, v: _ekf(A, v, 'ENU', True).dhdq(v.vec(*Q))),
        mk('ekf_dhdq_ref_imu_ned', Q, lambda A, v: _ekf(A, v, 'NED', False).dhdq(v.vec(*Q), mode='refactored')),
        mk('ekf_dhdq_ref_marg_ned', Q + RF, lambda A, v: _ekf(A, v, 'NED', True).dhdq(v.vec(*Q), mode='refactored')),
        mk('ekf_f', Q + G + ['dt'], lambda A, v: _ekf(A, v, 'NED', False).f(v.vec(*Q), v.vec(*G), v.dt)),
        mk('ekf_dfdq', G + ['dt'], lambda A, v: _ekf(A, v, 'NED', False).dfdq(v.vec(*G), v.dt)),
        mk('ekf_Omega', G, lambda A, v: _ekf(A, v, 'NED', False).Omega(v.vec(*G))),
        mk('compl_imu', E0 + U0 + G + AC + ['dt', 'gain'], lambda A, v: _compl(A, v, False),
           'second row of Complementary._compute_all() on two samples (the blend of one step), IMU'),
        mk('compl_marg', E0 + U0 + G + AC + MG + ['dt', 'gain'], lambda A, v: _compl(A, v, True), 'same, MARG'),
        mk('compl_am', AC + MG, lambda A, v: A.filters.Complementary().am_estimation(v.mat([AC]), v.mat([MG]))[0],
           'Complementary.am_estimation(acc[None], mag[None])[0]'),
    ]


STAGES = []
ORACLES = {}


def search(ctx, scale):
    pass
