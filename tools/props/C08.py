"""C08 — gyro integration is exact for constant rates, of the stated order otherwise."""
import math
import numpy as np
from pysym.gen import Target
from . import common as cm
from .C01 import cm_call

PID = 'C08'
Q = ['w', 'x', 'y', 'z']
P = ['a', 'b', 'c', 'd']
W = ['wx', 'wy', 'wz']
IN = ['dt'] + W + Q
B3 = ['b0', 'b1', 'b2']
M3 = ['m0', 'm1', 'm2']
AQ = ['alpha', 'beta', 'thr']
ORDERS = list(range(7))
# sampling rates whose period is not a multiple of 1e-4 s (and some that are): the step configured through frequency=
FREQS = [30.0, 60.0, 75.0, 128.0, 256.0, 333.0, 100.0, 50.0, 1000.0]


def _ctors(F):
    """constructors (frequency=...) of every estimator with a dead-reckoning / prediction step"""
    return [lambda **k: F.AngularRate(**k), lambda **k: F.Madgwick(**k), lambda **k: F.Mahony(**k), lambda **k: F.AQUA(**k),
            lambda **k: F.EKF(magnetic_ref=[1.0, 0.0, 1.0], **k), lambda **k: F.ROLEQ(weights=np.ones(2), magnetic_ref=[1.0, 0.0, 1.0], **k)]


CTOR_NAMES = ['AngularRate', 'Madgwick', 'Mahony', 'AQUA', 'EKF', 'ROLEQ']

LEVEL_TEXT = ("Coq theorems over the regenerated AngularRate.update ('closed'; 'series' for each order 0..6), the null-accelerometer "
              "steps of Madgwick/Mahony/AQUA, EKF.f, ROLEQ.attitude_propagation and angular_velocities: closed form = axis-angle "
              "composition for any number of steps (induction), series = k-th partial sum with true matrix powers, coefficient error "
              "<= h^(k+1)/(k+1)! (standard-library Taylor brackets), all dead-reckoning steps equal")
LEVEL_NOTE = ("the series repair (matrix_power) is in /repo; the dead-reckoning theorem is quantified over the carried filter state (bias, gains, P) too; "
              "the output-level error after the final normalisation and the N-step accumulation of the angular_velocities "
              "re-integration are explored by the oracle, not proved")
TECHNIQUE = "pysym regeneration + Coq (field/ring, induction, stdlib pre_cos_bound/pre_sin_bound, interval) + numeric search oracle"
RULE = ("initial attitudes from the named thin regions of SO(3) then uniform on S^3; rates log-uniform 1e-2..10 rad/s about axis-aligned, "
        "oblique and random axes (plus exactly-zero samples); dt log-uniform 1e-3..5e-2 plus the end points; step counts 1..400 incl. "
        "1,2,3,4,5,7; orders 0..6; inputs also as Python lists / tuples / integer arrays where exactly representable (float32 is rejected by the library's own input checks); "
        "non-trivial = non-zero rate; distinct = distinct (oracle, rounded input)")
TRUSTED = ["Coq 8.16.1 kernel; vm_compute for the float copies; Interval's primitive-float axioms (refuted file and numbers lemma only)",
           "pysym tracing translator incl. the additive symbolic np.linalg.matrix_power and np.c_ fallback in symnp.py",
           "stdlib real-number axioms and Classical_Prop.classic (Rtrigo)",
           "real arithmetic stands for binary64 (measured by correspondence and by the search oracle)"]
PARTIAL = ("proved: closed form exact for every N; series = normalised true partial sum for orders 0..6 under (|w|dt/2)^2 <= 1; coefficient "
           "error bound h^(k+1)/(k+1)! for h <= 1 and its strict decrease with k; equality of all dead-reckoning steps for every carried filter state (Madgwick.updateMARG only for a non-zero magnetometer sample: known finding, dt dropped on delegation); angular_velocities "
           "formula and its sin(h)/h scaling on a closed-form step. Explored only: the error of the series output after its final "
           "normalisation (oracle: <= 2 h^(k+1)/(k+1)!), N-step re-integration of recovered rates, the vectorised 'integration' method "
           "(known finding: not a rotation integral), float rounding")


def targets():
    mk = lambda n, i, f, doc='': Target(f'C08_{n}', i, f, doc=doc)
    F = lambda A: A.filters
    z3 = np.zeros(3)
    tg = [mk('closed', IN, lambda A, v: F(A).AngularRate().update(v.vec(*Q), v.vec(*W), method='closed', dt=v.dt),
             "AngularRate().update(q, w, method='closed', dt=dt)")]
    for k in ORDERS:
        tg.append(mk(f'series{k}', IN,
                     (lambda A, v, k=k: F(A).AngularRate().update(v.vec(*Q), v.vec(*W), method='series', order=k, dt=v.dt)),
                     f"AngularRate().update(q, w, method='series', order={k}, dt=dt)"))
    # the gyro-only steps, quantified over the CARRIED state of each filter as well (attributes set to symbols):
    # Mahony's bias estimate b and gains, Madgwick's gain, AQUA's alpha/beta/threshold (+ adaptive flag), EKF's P
    def mahony(A, v, marg):
        m = F(A).Mahony()
        m.b, m.k_P, m.k_I = v.vec(*B3), v.kp, v.ki
        q = m.updateMARG(v.vec(*Q), v.vec(*W), z3, v.vec(*M3), dt=v.dt) if marg else m.updateIMU(v.vec(*Q), v.vec(*W), z3, dt=v.dt)
        return [q, m.b]

    def madgwick(A, v, marg):
        m = F(A).Madgwick()
        m.gain = v.gain
        return m.updateMARG(v.vec(*Q), v.vec(*W), z3, v.vec(*M3), dt=v.dt) if marg else m.updateIMU(v.vec(*Q), v.vec(*W), z3, dt=v.dt)

    def aqua(A, v, marg, adaptive):
        a = F(A).AQUA(adaptive=adaptive)
        a.alpha, a.beta, a.threshold = v.alpha, v.beta, v.thr
        return a.updateMARG(v.vec(*Q), v.vec(*W), z3, v.vec(*M3), dt=v.dt) if marg else a.updateIMU(v.vec(*Q), v.vec(*W), z3, dt=v.dt)

    def ekf_f(A, v):
        ek = F(A).EKF(magnetic_ref=[1.0, 0.0, 1.0])
        ek.P = v.p * np.identity(4)
        return ek.f(v.vec(*Q), v.vec(*W), v.dt)

    tg += [
        mk('madgwick', IN + ['gain'], lambda A, v: madgwick(A, v, False), 'Madgwick(gain).updateIMU(q, w, acc=0, dt)'),
        mk('madgwick_marg', IN + ['gain'] + M3, lambda A, v: madgwick(A, v, True), 'Madgwick(gain).updateMARG(q, w, acc=0, mag, dt)'),
        mk('mahony', IN + B3 + ['kp', 'ki'], lambda A, v: mahony(A, v, False), 'Mahony(b, k_P, k_I).updateIMU(q, w, acc=0, dt) and the bias afterwards'),
        mk('mahony_marg', IN + B3 + ['kp', 'ki'] + M3, lambda A, v: mahony(A, v, True),
           'Mahony(b, k_P, k_I).updateMARG(q, w, acc=0, mag, dt) and the bias afterwards'),
        mk('aqua', IN + AQ, lambda A, v: aqua(A, v, False, False), 'AQUA(alpha, beta, threshold).updateIMU(q, w, acc=0, dt)'),
        mk('aqua_adaptive', IN + AQ, lambda A, v: aqua(A, v, False, True), 'AQUA(adaptive=True, ...).updateIMU(q, w, acc=0, dt)'),
        mk('aqua_marg', IN + AQ + M3, lambda A, v: aqua(A, v, True, True), 'AQUA(adaptive=True, ...).updateMARG(q, w, acc=0, mag, dt)'),
        mk('ekf_f', IN + ['p'], ekf_f, 'EKF(P = p I).f(q, w, dt)'),
        mk('roleq', IN, lambda A, v: F(A).ROLEQ(weights=np.ones(2), magnetic_ref=[1.0, 0.0, 1.0]).attitude_propagation(v.vec(*Q), v.vec(*W), v.dt),
           'ROLEQ(...).attitude_propagation(q, w, dt)'),
        mk('integration', ['g0', 'g1', 'g2'],
           lambda A, v: F(A).AngularRate(gyr=v.mat([['g0', 'g1', 'g2']]), Dt=0.05, method='integration').Q[0],
           "AngularRate(gyr=[g], Dt=0.05, method='integration').Q[0]"),
        mk('angvel', P + Q, lambda A, v: A.QuaternionArray(v.mat([P, Q])).angular_velocities(0.01)[0],
           'QuaternionArray([p, q]).angular_velocities(0.01)[0]'),
        mk('Dt', ['u'], lambda A, v: [[c(frequency=f).Dt for f in FREQS] for c in _ctors(F(A))],
           'the time step each estimator derives from frequency= (concrete awkward rates; u is an unused dummy input)'),
    ]
    return tg


STAGES = [['C08_lib.v'],
          ['C08_closed.v', 'C08_series.v', 'C08_series5.v', 'C08_series6.v', 'C08_bounds.v', 'C08_deadreck.v', 'C08_integration.v'],
          ['C08.v', ('C08_integration_refuted.v', {'finding': 'AngularRate-integration/not-a-rotation-integral'})]]


# ------------------------------------------------------------------------------------------
# implementation entry points
# ------------------------------------------------------------------------------------------
def _filter(kind, st=None, **kw):
    """a filter object carrying the given state (set the same way as in the traced targets: by attribute)"""
    import ahrs
    F = ahrs.filters
    st = st or {}
    if kind == 'mahony':
        o = F.Mahony(**kw)
        if 'b' in st:
            o.b = np.array(st['b'], float)
        o.k_P, o.k_I = st.get('kp', o.k_P), st.get('ki', o.k_I)
    elif kind == 'madgwick':
        o = F.Madgwick(**kw)
        o.gain = st.get('gain', o.gain)
    elif kind == 'aqua':
        o = F.AQUA(adaptive=bool(st.get('adaptive', False)), **kw)
        o.alpha, o.beta, o.threshold = st.get('alpha', o.alpha), st.get('beta', o.beta), st.get('thr', o.threshold)
    elif kind == 'ekf':
        o = F.EKF(magnetic_ref=[1.0, 0.0, 1.0], **kw)
        if 'p' in st:
            o.P = st['p'] * np.identity(4)
    else:
        raise KeyError(kind)
    return o


def _null_step(o, marg, dt, w, q, mag=None):
    z3 = np.zeros(3)
    if marg:
        return np.asarray(o.updateMARG(np.array(q, float), np.array(w, float), z3, np.array(mag, float), dt=dt), float)
    return np.asarray(o.updateIMU(np.array(q, float), np.array(w, float), z3, dt=dt), float)


def _impl():
    import ahrs
    F = ahrs.filters
    z3 = np.zeros(3)
    d = {
        'closed': lambda dt, w, q: F.AngularRate().update(np.array(q), np.array(w), method='closed', dt=dt),
        'madgwick': lambda dt, w, q: np.asarray(F.Madgwick().updateIMU(np.array(q), np.array(w), z3.copy(), dt=dt)),
        'mahony': lambda dt, w, q: np.asarray(F.Mahony().updateIMU(np.array(q), np.array(w), z3.copy(), dt=dt)),
        'aqua': lambda dt, w, q: np.asarray(F.AQUA().updateIMU(np.array(q), np.array(w), z3.copy(), dt=dt)),
        'ekf_f': lambda dt, w, q: np.asarray(_ekf().f(np.array(q), np.array(w), dt)),
        'roleq': lambda dt, w, q: np.asarray(_roleq().attitude_propagation(np.array(q), np.array(w), dt)),
    }
    for k in ORDERS:
        d[f'series{k}'] = (lambda dt, w, q, k=k: F.AngularRate().update(np.array(q), np.array(w), method='series', order=k, dt=dt))
    return d


def _state_impl(name, c):
    """the public entry point behind the traced target `name` on one case dict (all inputs of the target)"""
    dt, w, q = c['dt'], [c[k] for k in W], [c[k] for k in Q]
    mag = [c[k] for k in M3] if 'm0' in c else None
    if name in ('mahony', 'mahony_marg'):
        o = _filter('mahony', {'b': [c[k] for k in B3], 'kp': c['kp'], 'ki': c['ki']})
        r = _null_step(o, name.endswith('marg'), dt, w, q, mag)
        return [r, np.asarray(o.b, float)]
    if name in ('madgwick', 'madgwick_marg'):
        return _null_step(_filter('madgwick', {'gain': c['gain']}), name.endswith('marg'), dt, w, q, mag)
    if name in ('aqua', 'aqua_adaptive', 'aqua_marg'):
        o = _filter('aqua', {'alpha': c['alpha'], 'beta': c['beta'], 'thr': c['thr'], 'adaptive': name != 'aqua'})
        return _null_step(o, name.endswith('marg'), dt, w, q, mag)
    if name == 'ekf_f':
        return np.asarray(_filter('ekf', {'p': c['p']}).f(np.array(q), np.array(w), dt), float)
    raise KeyError(name)


_CACHE = {}


def _ekf():
    import ahrs
    if 'ekf' not in _CACHE:
        _CACHE['ekf'] = ahrs.filters.EKF(magnetic_ref=[1.0, 0.0, 1.0])
    return _CACHE['ekf']


def _roleq():
    import ahrs
    if 'roleq' not in _CACHE:
        _CACHE['roleq'] = ahrs.filters.ROLEQ(weights=np.ones(2), magnetic_ref=[1.0, 0.0, 1.0])
    return _CACHE['roleq']


# ------------------------------------------------------------------------------------------
# generators
# ------------------------------------------------------------------------------------------
AXES = [[1, 0, 0], [0, 1, 0], [0, 0, 1], [-1, 0, 0], [1, 1, 0], [1, 2, 3], [-1, 1, 1], [0, 1, -1], [3, -4, 12]]
DTS = [1e-3, 5e-2, 0.01, 0.02, 0.005]
RATES = [1e-2, 10.0, 1.0, 0.1, 5.0]


def _rate(rng, i):
    """(w, dt): end points and round values first, then log-uniform draws in the property's range"""
    mag = RATES[i % len(RATES)] if i < 15 else 10 ** rng.uniform(-2, 1)
    dt = DTS[(i // 3) % len(DTS)] if i < 15 else 10 ** rng.uniform(-3, math.log10(5e-2))
    ax = np.array(AXES[i % len(AXES)], float) if i < 27 else rng.standard_normal(3)
    return mag * ax / np.linalg.norm(ax), float(dt)


def _cases(ctx, n):
    qs = cm.quats(ctx.rng, n)
    out = []
    for i, (region, q) in enumerate(qs):
        w, dt = _rate(ctx.rng, i)
        out.append((region, q, w, dt))
    return out


def correspondence(ctx):
    I = _impl()
    n = ctx.n(30, 300)
    cs = _cases(ctx, n)
    cases = [{'dt': dt, **cm.d(W, w), **cm.d(Q, q)} for _, q, w, dt in cs]
    # the exactly-zero gyro sample, a non-unit attitude (the constructors normalise), axis-aligned exact values
    cases += [{'dt': 0.01, **cm.d(W, [0.0, 0.0, 0.0]), **cm.d(Q, cs[5][1])},
              {'dt': 0.05, **cm.d(W, [10.0, 0.0, 0.0]), **cm.d(Q, [1.0, 0.0, 0.0, 0.0])},
              {'dt': 0.02, **cm.d(W, [0.5, -0.25, 2.0]), **cm.d(Q, [2.0, 0.0, -1.0, 0.5])}]
    for name in ['closed'] + [f'series{k}' for k in ORDERS] + ['roleq']:
        f = I[name]
        ctx.correspond(f'C08_{name}', cases, (lambda c, f=f: f(c['dt'], [c[k] for k in W], [c[k] for k in Q])), tol_ulp=128)
    # the filters with a carried state: non-zero bias / gains / thresholds / covariance, zero and non-zero magnetometer
    rng = ctx.rng
    sc = []
    for i, c in enumerate(cases):
        st = {**cm.d(B3, rng.standard_normal(3) * 10 ** rng.uniform(-3, 0)), 'kp': float(rng.uniform(0.1, 3)), 'ki': float(rng.uniform(0.01, 1)),
              'gain': float(rng.uniform(0.01, 0.5)), 'alpha': float(rng.uniform(0.001, 0.9)), 'beta': float(rng.uniform(0.001, 0.9)),
              'thr': float(rng.uniform(0.5, 0.99)), 'p': float(10 ** rng.uniform(-3, 1)),
              **cm.d(M3, rng.standard_normal(3) * 40 if i % 7 else np.zeros(3))}
        if i % 5 == 0:
            st.update(cm.d(B3, [0.0, 0.0, 0.0]))
        sc.append({**c, **st})
    for name in ('madgwick', 'madgwick_marg', 'mahony', 'mahony_marg', 'aqua', 'aqua_adaptive', 'aqua_marg', 'ekf_f'):
        t = ctx.targets.get(f'C08_{name}')
        keys = t.inputs if t is not None else list(sc[0])
        ctx.correspond(f'C08_{name}', [{k: c[k] for k in keys} for c in sc], (lambda c, name=name: _state_impl(name, c)), tol_ulp=128)
    import ahrs
    two = [{**cm.d(P, cs[i][1]), **cm.d(Q, cs[(3 * i + 1) % len(cs)][1])} for i in range(len(cs))]
    two += [{**cm.d(P, 3 * cs[2][1]), **cm.d(Q, 0.5 * cs[4][1])}]
    gc = [{'g0': float(w[0]), 'g1': float(w[1]), 'g2': float(w[2])} for _, _, w, _ in cs] + [{'g0': 4.0, 'g1': 4.0, 'g2': 0.0}, {'g0': 0.0, 'g1': 0.0, 'g2': 0.0}]
    ctx.correspond('C08_integration', gc,
                   lambda c: ahrs.filters.AngularRate(gyr=np.array([[c['g0'], c['g1'], c['g2']]]), Dt=0.05, method='integration').Q[0], tol_ulp=128)
    ctx.correspond('C08_Dt', [{'u': 0.0}, {'u': 1.5}], lambda c: [[k(frequency=f).Dt for f in FREQS] for k in _ctors(ahrs.filters)], tol_ulp=1)
    ctx.correspond('C08_angvel', two,
                   lambda c: ahrs.QuaternionArray(np.array([[c[k] for k in P], [c[k] for k in Q]])).angular_velocities(0.01)[0], tol_ulp=128)


# ------------------------------------------------------------------------------------------
# search oracles
# ------------------------------------------------------------------------------------------
def _rot(w, t):
    """the rotation reached after time t at constant rate w"""
    n = float(np.linalg.norm(w))
    if n == 0:
        return np.array([1.0, 0, 0, 0])
    return np.array([math.cos(n * t / 2), *(math.sin(n * t / 2) * np.asarray(w, float) / n)])


def _as(form, a):
    """the same numbers in another container / dtype (only used when exactly representable)"""
    a = np.asarray(a, float)
    if form == 'list':
        return [float(v) for v in a]
    if form == 'tuple':
        return tuple(float(v) for v in a)
    if form == 'int':
        return np.asarray(a, dtype=int)
    if form == 'f32':
        return np.asarray(a, dtype=np.float32)
    return a.copy()


def o_closed(inp):
    """N closed-form steps at a constant rate = q0 (x) axis-angle(rate x elapsed time): through update() and through
    the AngularRate(gyr, q0=...) driver"""
    import ahrs
    q0, w, dt, N = np.array(inp['q0'], float), np.array(inp['w'], float), float(inp['dt']), int(inp['N'])
    form = inp.get('form', 'array')
    ar = ahrs.filters.AngularRate()
    q = q0.copy()
    for t in range(N):
        q = np.asarray(ar.update(_as(form, q) if t == 0 and form != 'int' else q, _as(form, w), method='closed', dt=dt), float)
        if q.shape != (4,) or cm.bad(q):
            return {'tag': 'update-closed/shape-or-nonfinite', 'observed': q}
    ref = cm.qmul(q0, _rot(w, N * dt))
    tol = (1e-12 if form != 'f32' else 1e-6) * (N + 1)
    if cm.maxabs(q, ref) > tol:
        zero = 'zero-rate' if not np.any(w) else ('one-step' if N == 1 else 'N-steps')
        return {'tag': f'update-closed/not-axis-angle-{zero}', 'observed': q, 'expected': ref}
    if abs(np.linalg.norm(q) - 1) > 1e-12:
        return {'tag': 'update-closed/not-unit', 'observed': float(np.linalg.norm(q))}
    # the driver: Q[0] = q0, row t integrates gyr[t] (gyr[0] is not used)
    G = np.tile(w, (N + 1, 1))
    Qd = np.asarray(ahrs.filters.AngularRate(gyr=_as(form, G) if form in ('int', 'f32') else G, q0=q0.copy(), Dt=dt, method='closed').Q, float)
    if Qd.shape != (N + 1, 4) or cm.bad(Qd):
        return {'tag': 'AngularRate.Q-closed/shape-or-nonfinite', 'observed': list(Qd.shape)}
    for t in sorted({0, 1, N // 2, N}):
        r = cm.qmul(q0, _rot(w, t * dt))
        if cm.maxabs(Qd[t], r) > tol:
            return {'tag': 'AngularRate.Q-closed/not-axis-angle', 'observed': Qd[t], 'expected': r, 'note': f'row {t}'}
    # frequency= instead of Dt= (non-default option), second call on the same object gives the same answer
    if inp.get('freq'):
        a = ahrs.filters.AngularRate(frequency=1.0 / dt)
        u1 = np.asarray(a.update(q0.copy(), w.copy()), float)
        u2 = np.asarray(a.update(q0.copy(), w.copy()), float)
        r = cm.qmul(q0, _rot(w, dt))
        if cm.maxabs(u1, r) > 1e-12 or cm.maxabs(u2, u1) > 0:
            return {'tag': 'update-closed/frequency-or-second-call', 'observed': u1, 'expected': r}
    return None


def _series_ref(k, w, dt, q):
    S = 0.5 * dt * np.array([[0, -w[0], -w[1], -w[2]], [w[0], 0, w[2], -w[1]], [w[1], -w[2], 0, w[0]], [w[2], w[1], -w[0], 0]])
    A = np.eye(4)
    T = np.eye(4)
    for i in range(1, k + 1):
        T = T @ S
        A = A + T / math.factorial(i)
    v = A @ q
    return v / np.linalg.norm(v)


def o_series(inp):
    """orders 0..6: the step is the normalised k-th partial sum (true matrix powers); its distance to the closed form is
    within 2 h^(k+1)/(k+1)! and does not grow with the order"""
    import ahrs
    q, w, dt = np.array(inp['q'], float), np.array(inp['w'], float), float(inp['dt'])
    form = inp.get('form', 'array')
    ar = ahrs.filters.AngularRate()
    h = float(np.linalg.norm(w)) * dt / 2
    closed = np.asarray(ar.update(q.copy(), w.copy(), method='closed', dt=dt), float)
    prev = None
    for k in ORDERS:
        s = np.asarray(ar.update(_as(form, q), _as(form, w), method='series', order=k, dt=dt), float)
        if s.shape != (4,) or cm.bad(s):
            return {'tag': f'update-series/shape-or-nonfinite', 'observed': s, 'note': f'order {k}'}
        ref = _series_ref(k, w, dt, q)
        if cm.maxabs(s, ref) > (1e-13 if form != 'f32' else 1e-6):
            return {'tag': 'update-series/not-partial-sum', 'observed': s, 'expected': ref, 'note': f'order {k}'}
        err = float(np.linalg.norm(s - closed))
        bound = 2 * h ** (k + 1) / math.factorial(k + 1) + (1e-14 if form != 'f32' else 1e-6)
        if err > bound:
            return {'tag': 'update-series/exceeds-order-bound', 'observed': err, 'expected': f'<= {bound}', 'note': f'order {k}'}
        if prev is not None and err > prev + (1e-14 if form != 'f32' else 1e-6):
            return {'tag': 'update-series/not-improving-with-order', 'observed': err, 'expected': f'<= {prev}', 'note': f'order {k}'}
        prev = err
    # the driver with method='series' and a non-default order agrees with update()
    k = int(inp.get('order', 3))
    G = np.tile(w, (4, 1))
    Qd = np.asarray(ahrs.filters.AngularRate(gyr=G, q0=q.copy(), Dt=dt, method='series', order=k).Q, float)
    r = q.copy()
    for t in range(1, 4):
        r = _series_ref(k, w, dt, r)
        if Qd.shape != (4, 4) or cm.maxabs(Qd[t], r) > 1e-12:
            return {'tag': 'AngularRate.Q-series/not-partial-sum', 'observed': Qd[t] if Qd.shape == (4, 4) else list(Qd.shape), 'expected': r,
                    'note': f'order {k} row {t}'}
    return None


def _warm(objs, q, dt, n, seed):
    """run n valid IMU / MARG samples through every filter object (so that carried state such as Mahony's bias estimate
    or AQUA's adaptive gain is no longer at its initial value)"""
    rng = np.random.default_rng(int(seed))
    qt = cm.unit(rng.standard_normal(4))
    field = np.array([22.0, 0.0, 42.0])
    chain = {k: (cm.qconj(q) if k.startswith('AQUA') else q.copy()) for k in objs}
    with np.errstate(all='ignore'):
        for _ in range(int(n)):
            g = 0.5 * rng.standard_normal(3)
            R = cm.Rspec(qt)
            acc = R.T @ np.array([0.0, 0.0, 9.81]) + 0.3 * rng.standard_normal(3)
            mag = R.T @ field + 1.0 * rng.standard_normal(3)
            for k, o in objs.items():
                if k.startswith('AQUA'):
                    qk = np.asarray(o.estimate(acc, mag), float)       # consistent attitude keeps AQUA's correction regular
                else:
                    qk = chain[k]
                r = o.updateMARG(qk, g, acc, mag, dt=dt) if k.endswith('MARG') else o.updateIMU(qk, g, acc, dt=dt)
                r = np.asarray(r, float)
                chain[k] = r if r.shape == (4,) and not cm.bad(r) else qk
            qt = cm.qmul(qt, _rot(g, dt))


def o_deadreck(inp):
    """acc = 0 steps of Madgwick, Mahony (IMU and MARG), AQUA (conjugate convention; IMU, MARG, adaptive or not), EKF.f,
    ROLEQ.attitude_propagation and the order-1 series all equal normalise(q + dt/2 q(x)(0,w)) — for fresh filter objects,
    for objects built with an initial bias b0 / other gains, and for objects that have already processed valid samples
    (carried state); the filters are also compared with each other, and the null step must leave Mahony's bias alone"""
    I = _impl()
    q, w, dt = np.array(inp['q'], float), np.array(inp['w'], float), float(inp['dt'])
    st = inp.get('state') or {}
    mag = np.array(inp.get('mag', [22.0, -3.0, 42.0]), float)
    warm, b0 = int(inp.get('warm', 0)), inp.get('b0')
    region = ('-after-warmup' if warm else '') + ('-b0' if b0 is not None else '') + ('-state' if st else '')
    d = q + 0.5 * dt * cm.qmul(q, np.array([0.0, *w]))
    ref = d / np.linalg.norm(d)
    if not np.any(w):
        ref = q
    f = np.asarray(_filter('ekf', st).f(q.copy(), w.copy(), dt), float)
    if f.shape != (4,) or cm.maxabs(f, d) > 1e-13:
        return {'tag': 'EKF.f/acc-null-step' + ('-state' if st else ''), 'observed': f, 'expected': d}
    kw = {'b0': np.array(b0, float)} if b0 is not None else {}
    objs = {'Mahony.updateIMU': _filter('mahony', st, **kw), 'Mahony.updateMARG': _filter('mahony', st, **kw),
            'Madgwick.updateIMU': _filter('madgwick', st), 'Madgwick.updateMARG': _filter('madgwick', st),
            'AQUA.updateIMU': _filter('aqua', st), 'AQUA.updateMARG': _filter('aqua', {**st, 'adaptive': True})}
    if warm:
        _warm(objs, q, dt, warm, inp.get('seed', 0))
    outs = {}
    for k, o in objs.items():
        marg = k.endswith('MARG')
        bb = np.array(o.b, float).copy() if k.startswith('Mahony') else None
        if k.startswith('AQUA'):
            v = cm.qconj(_null_step(o, marg, dt, w, cm.qconj(q), mag))
        else:
            v = _null_step(o, marg, dt, w, q, mag)
        outs[k] = v
        if bb is not None and (np.shape(o.b) != (3,) or cm.maxabs(np.asarray(o.b, float), bb) > 0):
            return {'tag': f'{k}/acc-null-step-changes-bias', 'observed': np.asarray(o.b, float), 'expected': bb}
    outs['ROLEQ.attitude_propagation'] = I['roleq'](dt, w, q)
    outs['AngularRate.update-series1'] = I['series1'](dt, w, q)
    for name, v in outs.items():
        v = np.asarray(v, float)
        if v.shape != (4,) or cm.bad(v) or cm.maxabs(v, ref) > 1e-13:
            note = f"carried bias b = {np.asarray(objs[name].b, float).tolist()}" if name.startswith('Mahony') else ''
            return {'tag': f'{name}/acc-null-step{region if name in objs else ""}', 'observed': v, 'expected': ref, 'note': note}
    names = list(outs)
    for a in range(len(names)):
        for b in range(a + 1, len(names)):
            if cm.maxabs(np.asarray(outs[names[a]], float), np.asarray(outs[names[b]], float)) > 2e-13:
                return {'tag': 'dead-reckoning/filters-disagree', 'observed': outs[names[a]], 'expected': outs[names[b]],
                        'note': f'{names[a]} vs {names[b]}'}
    # the same step through the filters' own default time step (Dt= constructor option)
    import ahrs
    for name, cls in (('Madgwick.updateIMU', ahrs.filters.Madgwick), ('Mahony.updateIMU', ahrs.filters.Mahony)):
        o = cls(Dt=dt)
        o.updateIMU(q.copy(), w.copy(), np.zeros(3))
        v = np.asarray(o.updateIMU(q.copy(), w.copy(), np.zeros(3)), float)
        if cm.maxabs(v, ref) > 1e-13:
            return {'tag': f'{name}/acc-null-step-Dt-or-second-call', 'observed': v, 'expected': ref}
    # a zero magnetometer sample on the MARG entry points (delegation to the IMU step)
    for k in ('Mahony.updateMARG', 'Madgwick.updateMARG'):
        v = _null_step(objs[k], True, dt, w, q, np.zeros(3))
        if cm.maxabs(v, ref) > 1e-13:
            d2 = q + 0.5 * objs[k].Dt * cm.qmul(q, np.array([0.0, *w]))
            if cm.maxabs(v, d2 / np.linalg.norm(d2)) <= 1e-13:       # exactly the step for the object's own Dt: the dt argument was dropped
                return {'tag': f'{k}/mag-null-delegation-drops-dt', 'observed': v, 'expected': ref}
            return {'tag': f'{k}/acc-null-step-mag-null{region}', 'observed': v, 'expected': ref}
    return None


def _dr_ref(q, w, dt, N):
    for _ in range(N):
        d = q + 0.5 * dt * cm.qmul(q, np.array([0.0, *w]))
        q = d / np.linalg.norm(d)
    return q


def o_stepcfg(inp):
    """the time step configured in every documented way — frequency= (rates whose period is not a round decimal), Dt=,
    per-call dt= — gives the same constant-rate result: AngularRate (update loop and driver) = q0 (x) axis-angle(rate x N/f),
    the filters' null-accelerometer steps (update loop and batch constructor) = N first-order steps of size 1/f; elapsed
    time and step are computed here from f, never read back from the object; and obj.Dt * obj.frequency == 1"""
    import ahrs
    F = ahrs.filters
    q0, w, f, N = np.array(inp['q0'], float), np.array(inp['w'], float), float(inp['f']), int(inp['N'])
    mode = inp.get('mode', 'frequency')
    step = 1.0 / f
    kw = {'frequency': f} if mode == 'frequency' else ({'Dt': step} if mode == 'Dt' else {})
    call = {'dt': step} if mode == 'dt' else {}
    if mode != 'dt':
        for name, c in zip(CTOR_NAMES, _ctors(F)):
            o = c(**kw)
            if abs(o.Dt * f - 1.0) > 1e-15 or (mode == 'frequency' and o.frequency != f):
                return {'tag': f'{name}.__init__/Dt-not-1-over-frequency-{mode}', 'observed': float(o.Dt), 'expected': step}
    tol = 1e-12 * (N + 1)
    ref = cm.qmul(q0, _rot(w, N / f))
    ar = F.AngularRate(**kw)
    for method in ('closed', 'series'):
        q = q0.copy()
        for _ in range(N):
            q = np.asarray(ar.update(q, w.copy(), method=method, order=6, **call), float)
        if cm.maxabs(q, ref) > tol + (0 if method == 'closed' else 2e-8 * N):
            return {'tag': f'AngularRate.update-{method}/constant-rate-{mode}', 'observed': q, 'expected': ref}
    if mode != 'dt':
        Qd = np.asarray(F.AngularRate(gyr=np.tile(w, (N + 1, 1)), q0=q0.copy(), method='closed', **kw).Q, float)
        if Qd.shape != (N + 1, 4) or cm.maxabs(Qd[N], ref) > tol:
            return {'tag': f'AngularRate.Q-closed/constant-rate-{mode}', 'observed': Qd[N] if Qd.shape == (N + 1, 4) else list(Qd.shape), 'expected': ref}
    dref = _dr_ref(q0.copy(), w, step, N) if np.any(w) else q0
    z3 = np.zeros(3)
    for name, cls in (('Madgwick', F.Madgwick), ('Mahony', F.Mahony), ('AQUA', F.AQUA)):
        conj = cm.qconj if name == 'AQUA' else (lambda x: x)
        o = cls(**kw)
        q = conj(q0.copy())
        for _ in range(N):
            q = np.asarray(o.updateIMU(q, w.copy(), z3.copy(), **call), float)
        if q.shape != (4,) or cm.maxabs(conj(q), dref) > tol:
            return {'tag': f'{name}.updateIMU/acc-null-steps-{mode}', 'observed': conj(q), 'expected': dref}
        if mode != 'dt' and name != 'AQUA':          # the batch constructor (AQUA's needs a valid first sample)
            Qb = np.asarray(cls(gyr=np.tile(w, (N + 1, 1)), acc=np.zeros((N + 1, 3)), q0=q0.copy(), **kw).Q, float)
            if Qb.shape != (N + 1, 4) or cm.maxabs(Qb[N], dref) > tol:
                return {'tag': f'{name}.Q/acc-null-steps-{mode}', 'observed': Qb[N] if Qb.shape == (N + 1, 4) else list(Qb.shape), 'expected': dref}
    return None


def o_angvel(inp):
    """angular velocities recovered from a closed-form sequence are (2/dt) sin(h) axis exactly, and integrating them back
    reproduces the sequence within the accumulated h - sin h <= h^3/6 per step"""
    import ahrs
    q0, dt, N = np.array(inp['q0'], float), float(inp['dt']), int(inp['N'])
    Wt = np.array(inp['W'], float).reshape(-1, 3)          # one rate per step (a single row = constant rate)
    if Wt.shape[0] == 1:
        Wt = np.tile(Wt, (N, 1))
    seq = [q0]
    for t in range(N):
        seq.append(cm.qmul(seq[-1], _rot(Wt[t], dt)))
    seq = np.array(seq)
    rec = np.asarray(ahrs.QuaternionArray(seq.copy()).angular_velocities(dt), float)
    if rec.shape != (N, 3) or cm.bad(rec):
        return {'tag': 'angular_velocities/shape-or-nonfinite', 'observed': list(rec.shape)}
    budget = 0.0
    for t in range(N):
        n = float(np.linalg.norm(Wt[t]))
        h = n * dt / 2
        exp = (2 / dt) * math.sin(h) * Wt[t] / n if n else np.zeros(3)
        if cm.maxabs(rec[t], exp) > 1e-9 * max(1.0, n) + 4e-13 / dt:
            return {'tag': 'angular_velocities/not-2-over-dt-vec-of-relative-rotation', 'observed': rec[t], 'expected': exp, 'note': f'row {t}'}
        budget += 2 * (h - math.sin(h))
    G = np.vstack([np.zeros(3), rec])
    back = np.asarray(ahrs.filters.AngularRate(gyr=G, q0=q0.copy(), Dt=dt, method='closed').Q, float)
    err = cm.maxabs(back, seq) if back.shape == seq.shape else float('inf')
    if err > 1.001 * budget + 1e-11 * (N + 1):
        return {'tag': 'angular_velocities/does-not-integrate-back', 'observed': err, 'expected': f'<= {1.001 * budget + 1e-11 * (N + 1)}'}
    return None


def o_integration(inp):
    """the vectorised 'integration' method should integrate a constant rate to the axis-angle rotation as well"""
    import ahrs
    w, dt, N = np.array(inp['w'], float), float(inp['dt']), int(inp['N'])
    G = np.tile(w, (N, 1))
    Qi = np.asarray(ahrs.filters.AngularRate(gyr=G, Dt=dt, method='integration').Q, float)
    if Qi.shape != (N, 4) or cm.bad(Qi):
        return {'tag': 'AngularRate-integration/shape-or-nonfinite', 'observed': list(Qi.shape)}
    ref = _rot(w, N * dt)                      # row t holds the angles accumulated over t+1 samples
    got = Qi[-1] * (1.0 if Qi[-1] @ ref >= 0 else -1.0)
    nz = int(np.count_nonzero(w))
    if cm.maxabs(got, ref) > 1e-9:
        return {'tag': 'AngularRate-integration/single-axis' if nz <= 1 else 'AngularRate-integration/not-a-rotation-integral',
                'observed': got, 'expected': ref}
    return None


ORACLES = {'stepcfg': o_stepcfg, 'closed': o_closed, 'series': o_series, 'deadreck': o_deadreck, 'angvel': o_angvel, 'integration': o_integration}


def search(ctx, scale):
    rng = ctx.rng
    n = 40 * scale
    cs = _cases(ctx, n)
    NS = [1, 2, 3, 4, 5, 7, 50, 400, 13, 200]
    rk = lambda *a: tuple(np.round(np.concatenate([np.atleast_1d(np.asarray(x, float)) for x in a]), 9))
    for i, (region, q, w, dt) in enumerate(cs):
        N = NS[i % len(NS)] if i < 30 else int(rng.integers(1, 300))
        inp = {'q0': q.tolist(), 'w': w.tolist(), 'dt': dt, 'N': N, 'freq': bool(i % 4 == 0)}
        ctx.check('closed', inp, cm_call2(o_closed, inp, 'update-closed'), nontrivial_key=rk(q, w, [dt, N]))
        inp = {'q': q.tolist(), 'w': w.tolist(), 'dt': dt, 'order': 2 + i % 5}
        ctx.check('series', inp, cm_call2(o_series, inp, 'update-series'), nontrivial_key=rk(q, w, [dt]))
        inp = {'q': q.tolist(), 'w': w.tolist(), 'dt': dt}
        if i % 3 == 1:       # carried state: the filters have already processed valid samples
            inp.update({'warm': 2 + i % 6, 'seed': int(i)})
        if i % 3 == 2:       # constructed with a non-zero initial bias and non-default gains
            inp.update({'b0': (rng.standard_normal(3) * 10 ** rng.uniform(-3, -0.5)).tolist(),
                        'state': {'kp': float(rng.uniform(0.2, 3)), 'ki': float(rng.uniform(0.05, 1)), 'gain': float(rng.uniform(0.01, 0.5)),
                                  'alpha': float(rng.uniform(0.001, 0.5)), 'thr': float(rng.uniform(0.6, 0.99)), 'p': float(rng.uniform(0.01, 5))}})
            if i % 2 == 0:
                inp.update({'warm': 3, 'seed': int(i)})
        ctx.check('deadreck', inp, cm_call2(o_deadreck, inp, 'dead-reckoning'), nontrivial_key=rk(q, w, [dt, inp.get('warm', 0), i % 3]))
        if i % 2 == 0:
            Na = NS[(i // 2) % len(NS)]
            if i % 4 == 0:
                Wt = [w.tolist()]
            else:                          # a varying-rate history
                Wt = (w[None, :] * (1 + 0.5 * np.sin(np.arange(Na))[:, None]) + 0.3 * np.linalg.norm(w) * rng.standard_normal((Na, 3))).tolist()
            inp = {'q0': q.tolist(), 'W': Wt, 'dt': dt, 'N': Na}
            ctx.check('angvel', inp, cm_call2(o_angvel, inp, 'angular_velocities'), nontrivial_key=rk(q, w, [dt, Na]))
    # the step configured through frequency= / Dt= / dt= at awkward sampling rates
    FS = FREQS + [44.1, 59.94, 7.0]
    for i in range(len(FS) * (1 if scale == 1 else 3)):
        f = FS[i % len(FS)]
        region, q, w, _ = cs[(5 * i + 3) % len(cs)]
        w = w * min(1.0, 0.5 * f / max(np.linalg.norm(w), 1e-9))          # keep |w|/f <= 0.5 rad per step
        mode = ('frequency', 'frequency', 'Dt', 'dt')[i % 4] if i >= len(FREQS) else 'frequency'
        inp = {'q0': q.tolist(), 'w': w.tolist(), 'f': f, 'N': [300, 7, 64, 1, 150][i % 5], 'mode': mode}
        ctx.check('stepcfg', inp, cm_call2(o_stepcfg, inp, 'step-configuration'), nontrivial_key=(f, mode, inp['N']))
    # exact zeros, other containers / dtypes with exactly representable values, the corners of the range
    e = [1.0, 0.0, 0.0, 0.0]
    specials = [
        ('closed', {'q0': e, 'w': [0.0, 0.0, 0.0], 'dt': 0.01, 'N': 3}),
        ('closed', {'q0': [0.0, 1.0, 0.0, 0.0], 'w': [0.0, 0.0, 0.0], 'dt': 0.05, 'N': 1}),
        ('closed', {'q0': e, 'w': [2.0, -1.0, 4.0], 'dt': 0.03125, 'N': 4, 'form': 'list'}),
        ('closed', {'q0': e, 'w': [2.0, -1.0, 4.0], 'dt': 0.03125, 'N': 3, 'form': 'int'}),
        ('closed', {'q0': e, 'w': [0.5, 0.25, -8.0], 'dt': 0.015625, 'N': 5, 'form': 'tuple'}),
        ('closed', {'q0': [0.5, 0.5, 0.5, 0.5], 'w': [10.0, 0.0, 0.0], 'dt': 0.05, 'N': 400}),
        ('closed', {'q0': [0.5, -0.5, 0.5, -0.5], 'w': [0.0, 0.0, 0.01], 'dt': 0.001, 'N': 400}),
        ('series', {'q': e, 'w': [10.0, 0.0, 0.0], 'dt': 0.05, 'order': 6}),
        ('series', {'q': [0.5, 0.5, -0.5, 0.5], 'w': [6.0, -8.0, 0.0], 'dt': 0.05, 'order': 4}),
        ('series', {'q': e, 'w': [2.0, -1.0, 4.0], 'dt': 0.03125, 'order': 5, 'form': 'list'}),
        ('series', {'q': e, 'w': [2.0, -1.0, 4.0], 'dt': 0.03125, 'order': 2, 'form': 'int'}),
        ('series', {'q': [0.0, 0.0, 1.0, 0.0], 'w': [0.25, 0.5, -8.0], 'dt': 0.015625, 'order': 3, 'form': 'tuple'}),
        ('deadreck', {'q': e, 'w': [0.0, 0.0, 0.0], 'dt': 0.01}),
        ('deadreck', {'q': [0.0, 0.6, 0.0, 0.8], 'w': [0.0, 0.0, 10.0], 'dt': 0.05}),
        ('deadreck', {'q': [0.5, 0.5, 0.5, 0.5], 'w': [0.01, 0.0, 0.0], 'dt': 0.001}),
        ('deadreck', {'q': e, 'w': [0.5, -0.25, 1.0], 'dt': 0.01, 'warm': 10, 'seed': 4}),
        ('deadreck', {'q': [0.5, -0.5, 0.5, 0.5], 'w': [1.0, 2.0, -3.0], 'dt': 0.02, 'b0': [0.05, -0.02, 0.01]}),
        ('deadreck', {'q': e, 'w': [0.0, 0.0, 0.0], 'dt': 0.01, 'b0': [0.05, -0.02, 0.01], 'warm': 2, 'seed': 1}),
        ('deadreck', {'q': [0.0, 0.6, 0.0, 0.8], 'w': [10.0, 0.0, 0.0], 'dt': 0.05, 'warm': 4, 'seed': 9}),
        ('angvel', {'q0': e, 'W': [[0.0, 0.0, 0.0]], 'dt': 0.01, 'N': 3}),
        ('angvel', {'q0': [0.5, 0.5, 0.5, 0.5], 'W': [[6.0, -8.0, 0.0]], 'dt': 0.05, 'N': 4}),
        ('integration', {'w': [1.0, 0.0, 0.0], 'dt': 0.01, 'N': 50}),
        ('integration', {'w': [0.0, 0.0, -2.0], 'dt': 0.02, 'N': 7}),
    ]
    pre = {'closed': 'update-closed', 'series': 'update-series', 'deadreck': 'dead-reckoning', 'angvel': 'angular_velocities',
           'integration': 'AngularRate-integration'}
    for o, inp in specials:
        ctx.check(o, inp, cm_call2(ORACLES[o], inp, pre[o]), nontrivial_key=(o, json_key(inp)))
    # the vectorised method on oblique axes (known finding) and on single axes
    for i in range(4 * scale):
        w, dt = _rate(rng, i + 4)
        inp = {'w': w.tolist(), 'dt': dt, 'N': NS[i % len(NS)]}
        ctx.check('integration', inp, cm_call2(o_integration, inp, 'AngularRate-integration'), nontrivial_key=rk(w, [dt, inp['N']]))
    ctx.samples.append({'kind': 'search', 'oracle': 'closed', 'input': {'q0': cs[7][1].tolist(), 'w': cs[7][2].tolist(), 'dt': cs[7][3], 'N': 7}})


def json_key(inp):
    import json
    return json.dumps(inp, sort_keys=True)


def cm_call2(f, inp, entry):
    from vlib.core import call_outcome
    r = call_outcome(f, inp)
    if r[0] == 'raise':
        return {'tag': f'{entry}/raises-{r[1]}', 'observed': list(r[1:])}
    return r[1]
