"""C11 — constructors only ever produce valid rotations and reject what cannot be one."""
import math, itertools
import numpy as np
from pysym.gen import Target
from . import common as cm

PID = 'C11'
Q = ['w', 'x', 'y', 'z']
P = ['a', 'b', 'c', 'd']
M = [['m00', 'm01', 'm02'], ['m10', 'm11', 'm12'], ['m20', 'm21', 'm22']]
MF = [n for r in M for n in r]
U = ['u1', 'u2', 'u3']
K = ['k0', 'k1', 'k2']

LEVEL_TEXT = ("Coq theorems over the regenerated constructors (Quaternion, QuaternionArray, +/-, random_attitudes with bound "
              "draws, rotate_by, DCM matrix gate, DCM(q=), Quaternion(dcm=)) and over hand models of the angle routes tied by "
              "a proved agreement at fixed angles and a float correspondence; exhaustive decision grid; numeric search")
LEVEL_NOTE = ("rejection beyond the named families (arbitrary matrices farther than 1e-4 from SO(3)) is explored, not proved; "
              "float overflow (norms >= 1e155) is outside the property's range")
TECHNIQUE = "pysym regeneration + Coq (field/nra/interval) + hand models with correspondence + exhaustive finite grid"
RULE = ("vectors: direction uniform on the sphere x norm 10^U(-100,100) plus the edge set (axis vectors, denormal components, "
        "norm exactly 1e-100/1e100, +-0 mixes); matrices: R in SO(3) from the C01 edge quaternions, perturbed entrywise by "
        "<= 1e-12 (accept) or pushed > 1e-4 away along the named families reflection / scaling / shear / NaN / generic "
        "(reject); angle sets uniform in +-720 deg plus multiples of 90 deg; non-trivial = input is not the identity / unit axis")
TRUSTED = [
    "Coq 8.16.1 kernel; vm_compute for float copies and for the decision grid",
    "pysym tracing translator; the stub that binds random_attitudes' three uniform draws to symbols",
    "hand models coq/model/C11_routes.v (rotation / rot_seq / Rodrigues) and C11_decision.v, tied by correspondence",
    "NaN semantics of the gate hand-modelled over option R (every comparison with NaN is false)",
    "stdlib real-number axioms, Classical_Prop.classic (trigonometry), primitive-float axioms via interval",
    "real arithmetic stands for binary64 (measured by correspondence and search)",
]
PARTIAL = ("proved: normalisation, rejection of zero vectors, SO(3) membership of every route, acceptance radius 1e-12, "
           "rejection of reflections/scalings/shears/NaN; explored only: rejection of arbitrary matrices farther than 1e-4 "
           "from SO(3), float overflow/underflow outside 1e-100..1e100, average() (LAPACK eig)")


# ------------------------------------------------------------------------------------------
# binding the RNG draws of random_attitudes
# ------------------------------------------------------------------------------------------
class _Gen:
    def __init__(self, us):
        self.us = us

    def uniform(self, lo, hi, size=None):
        if not (lo == 0.0 and hi == 1.0 and size == 3):
            raise RuntimeError(f"random_attitudes draws changed: uniform({lo},{hi},{size})")
        from pysym import symnp
        return symnp.array(list(self.us))


class _Rnd:
    def __init__(self, us):
        self.us = us

    def default_rng(self, *a, **k):
        return _Gen(self.us)


def _with_sym_rng(us, f):
    from pysym import symnp
    old = symnp.random
    symnp.random = _Rnd(us)
    try:
        return f()
    finally:
        symnp.random = old


class _FixedGen:
    """stands in for numpy's Generator on the implementation side: returns the given draws"""
    def __init__(self, u):
        self.u = np.array(u, dtype=float)

    def uniform(self, lo, hi, size=None):
        assert lo == 0.0 and hi == 1.0
        if size == 3:
            return self.u.copy()
        return np.tile(self.u[:, None], (1, size[1]))


def random_attitude_with(u, n=1, representation='quaternion'):
    """ahrs.common.quaternion.random_attitudes with its three uniform draws bound to u"""
    import ahrs.common.quaternion as qm
    old = np.random.default_rng
    np.random.default_rng = lambda *a, **k: _FixedGen(u)
    try:
        return qm.random_attitudes(n, representation)
    finally:
        np.random.default_rng = old


# ------------------------------------------------------------------------------------------
# targets
# ------------------------------------------------------------------------------------------
AX_C = (0.3, -1.25, 2.0)          # concrete angles of the traced angle routes (tie of the hand models)
RPY_C = (0.5, -0.25, 2.0)
EUL_C = ('zxz', (0.5, -0.25, 2.0))
ANG_C = 0.75


def targets():
    mk = lambda n, i, f, doc='': Target(f'C11_{n}', i, f, doc=doc)
    qm = lambda A: A.common.quaternion
    return [
        mk('Q4', Q, lambda A, v: A.Quaternion(v.vec(*Q)), 'Quaternion([w,x,y,z])'),
        mk('Q3', Q[1:], lambda A, v: A.Quaternion(v.vec(*Q[1:])), 'Quaternion([x,y,z]) (pure)'),
        mk('QA4', P + Q, lambda A, v: A.QuaternionArray(v.mat([P, Q])), 'QuaternionArray(2x4), two generic rows'),
        mk('QA3', P[1:] + Q[1:], lambda A, v: A.QuaternionArray(v.mat([P[1:], Q[1:]])), 'QuaternionArray(2x3)'),
        mk('QA4_1', Q, lambda A, v: A.QuaternionArray(v.mat([Q])), 'QuaternionArray(1x4)'),
        mk('add', P + Q, lambda A, v: A.Quaternion(v.vec(*P)) + A.Quaternion(v.vec(*Q)), 'Quaternion(p) + Quaternion(q)'),
        mk('sub', P + Q, lambda A, v: A.Quaternion(v.vec(*P)) - A.Quaternion(v.vec(*Q)), 'Quaternion(p) - Quaternion(q)'),
        mk('random', U, lambda A, v: _with_sym_rng([v.u1, v.u2, v.u3], lambda: qm(A).random_attitudes(1)),
           'random_attitudes(1) with its three uniform draws bound to u1,u2,u3'),
        mk('rotate_by', P + Q, lambda A, v: A.QuaternionArray(v.mat([P])).rotate_by(v.vec(*Q)),
           'QuaternionArray([p]).rotate_by(q), q raw'),
        mk('DCM_matrix', MF, lambda A, v: A.DCM(v.mat(M)), 'DCM(M) for a free 3x3: the _assert_SO3 gate'),
        mk('DCM_q', Q, lambda A, v: A.DCM(q=v.vec(*Q)), 'DCM(q=q)'),
        mk('Q_dcm', MF, lambda A, v: A.Quaternion(dcm=v.mat(M)), 'Quaternion(dcm=M): from_DCM check + shepperd + normalisations'),
        mk('DCM_axang_c', K, lambda A, v: A.DCM(axang=(v.vec(*K), ANG_C)),
           f'DCM(axang=(k, {ANG_C})): symbolic axis, concrete angle (isinstance(angle, float) cannot be met by a symbol)'),
    ]


STAGES = [['C11_norm.v', 'C11_gate.v'], ['C11_routes.v'], ['C11.v']]
