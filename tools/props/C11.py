"""C11 — constructors only ever produce valid rotations and reject what cannot be one."""
import math, itertools
import numpy as np
from pysym.gen import Target
from . import common as cm

PID = 'C11'
Q = ['w', 'x', 'y', 'z']
P = ['a', 'b', 'c', 'd']
M = [['m00', 'm01', 'm02'], ['m10', 'm11', 'm12'], ['m20', 'm21', 'm22']]
MF = [n for r in M for n in r]
U = ['u1', 'u2', 'u3']
K = ['k0', 'k1', 'k2']

LEVEL_TEXT = ("Coq theorems over the regenerated constructors (Quaternion, QuaternionArray, +/-, random_attitudes with bound "
              "draws, rotate_by, DCM matrix gate, DCM(q=), Quaternion(dcm=)) and over hand models of the angle routes tied by "
              "a proved agreement at fixed angles and a float correspondence; exhaustive decision grid; numeric search")
LEVEL_NOTE = ("rejection beyond the named families (arbitrary matrices farther than 1e-4 from SO(3)) is explored, not proved; "
              "float overflow (norms >= 1e155) is outside the property's range")
TECHNIQUE = "pysym regeneration + Coq (field/nra/interval) + hand models with correspondence + exhaustive finite grid"
RULE = ("vectors: direction uniform on the sphere x norm 10^U(-100,100) plus the edge set (axis vectors, denormal components, "
        "norm exactly 1e-100/1e100, +-0 mixes); matrices: R in SO(3) from the C01 edge quaternions, perturbed entrywise by "
        "<= 1e-12 (accept) or pushed > 1e-4 away along the named families reflection / scaling / shear / NaN / generic "
        "(reject); angle sets uniform in +-720 deg plus multiples of 90 deg; non-trivial = input is not the identity / unit axis")
TRUSTED = [
    "Coq 8.16.1 kernel; vm_compute for float copies and for the decision grid",
    "pysym tracing translator; the stub that binds random_attitudes' three uniform draws to symbols",
    "hand models coq/model/C11_routes.v (rotation / rot_seq / Rodrigues) and C11_decision.v, tied by correspondence",
    "NaN semantics of the gate hand-modelled over option R (every comparison with NaN is false)",
    "stdlib real-number axioms, Classical_Prop.classic (trigonometry), primitive-float axioms via interval",
    "real arithmetic stands for binary64 (measured by correspondence and search)",
]
PARTIAL = ("proved: normalisation, rejection of zero vectors, SO(3) membership of every route, acceptance radius 1e-12, "
           "rejection of reflections/scalings/shears/NaN; explored only: rejection of arbitrary matrices farther than 1e-4 "
           "from SO(3), float overflow/underflow outside 1e-100..1e100, average() (LAPACK eig)")


# ------------------------------------------------------------------------------------------
# binding the RNG draws of random_attitudes
# ------------------------------------------------------------------------------------------
class _Gen:
    def __init__(self, us):
        self.us = us

    def uniform(self, lo, hi, size=None):
        if not (lo == 0.0 and hi == 1.0 and size == 3):
            raise RuntimeError(f"random_attitudes draws changed: uniform({lo},{hi},{size})")
        from pysym import symnp
        return symnp.array(list(self.us))


class _Rnd:
    def __init__(self, us):
        self.us = us

    def default_rng(self, *a, **k):
        return _Gen(self.us)


def _with_sym_rng(us, f):
    from pysym import symnp
    old = symnp.random
    symnp.random = _Rnd(us)
    try:
        return f()
    finally:
        symnp.random = old


class _FixedGen:
    """stands in for numpy's Generator on the implementation side: returns the given draws"""
    def __init__(self, u):
        self.u = np.array(u, dtype=float)

    def uniform(self, lo, hi, size=None):
        assert lo == 0.0 and hi == 1.0
        if size == 3:
            return self.u.copy()
        return np.tile(self.u[:, None], (1, size[1]))


def random_attitude_with(u, n=1, representation='quaternion'):
    """ahrs.common.quaternion.random_attitudes with its three uniform draws bound to u"""
    import ahrs.common.quaternion as qm
    old = np.random.default_rng
    np.random.default_rng = lambda *a, **k: _FixedGen(u)
    try:
        return qm.random_attitudes(n, representation)
    finally:
        np.random.default_rng = old


# ------------------------------------------------------------------------------------------
# targets
# ------------------------------------------------------------------------------------------
AX_C = (0.3, -1.25, 2.0)          # concrete angles of the traced angle routes (tie of the hand models)
RPY_C = (0.5, -0.25, 2.0)
EUL_C = ('zxz', (0.5, -0.25, 2.0))
ANG_C = 0.75


def targets():
    mk = lambda n, i, f, doc='': Target(f'C11_{n}', i, f, doc=doc)
    qm = lambda A: A.common.quaternion
    return [
        mk('Q4', Q, lambda A, v: A.Quaternion(v.vec(*Q)), 'Quaternion([w,x,y,z])'),
        mk('Q3', Q[1:], lambda A, v: A.Quaternion(v.vec(*Q[1:])), 'Quaternion([x,y,z]) (pure)'),
        mk('QA4', P + Q, lambda A, v: A.QuaternionArray(v.mat([P, Q])), 'QuaternionArray(2x4), two generic rows'),
        mk('QA3', P[1:] + Q[1:], lambda A, v: A.QuaternionArray(v.mat([P[1:], Q[1:]])), 'QuaternionArray(2x3)'),
        mk('QA4_1', Q, lambda A, v: A.QuaternionArray(v.mat([Q])), 'QuaternionArray(1x4)'),
        mk('add', P + Q, lambda A, v: A.Quaternion(v.vec(*P)) + A.Quaternion(v.vec(*Q)), 'Quaternion(p) + Quaternion(q)'),
        mk('sub', P + Q, lambda A, v: A.Quaternion(v.vec(*P)) - A.Quaternion(v.vec(*Q)), 'Quaternion(p) - Quaternion(q)'),
        mk('random', U, lambda A, v: _with_sym_rng([v.u1, v.u2, v.u3], lambda: qm(A).random_attitudes(1)),
           'random_attitudes(1) with its three uniform draws bound to u1,u2,u3'),
        mk('rotate_by', P + Q, lambda A, v: A.QuaternionArray(v.mat([P])).rotate_by(v.vec(*Q)),
           'QuaternionArray([p]).rotate_by(q), q raw'),
        mk('DCM_matrix', MF, lambda A, v: A.DCM(v.mat(M)), 'DCM(M) for a free 3x3: the _assert_SO3 gate'),
        mk('DCM_q', Q, lambda A, v: A.DCM(q=v.vec(*Q)), 'DCM(q=q)'),
        mk('Q_dcm', MF, lambda A, v: A.Quaternion(dcm=v.mat(M)), 'Quaternion(dcm=M): from_DCM check + shepperd + normalisations'),
        mk('DCM_axang_c', K, lambda A, v: A.DCM(axang=(v.vec(*K), ANG_C)),
           f'DCM(axang=(k, {ANG_C})): symbolic axis, concrete angle (isinstance(angle, float) cannot be met by a symbol)'),
    ]


STAGES = [['C11_norm.v', 'C11_gate.v'], ['C11_routes.v', 'C11_qdcm.v', 'C11_gate_tol.v'], ['C11_tol.v', 'C11.v']]


def pregen(ctx):
    pass


# ------------------------------------------------------------------------------------------
# helpers
# ------------------------------------------------------------------------------------------
def cm_call(f, inp, who=None):
    from vlib.core import call_outcome
    r = call_outcome(f, inp)
    if r[0] == 'raise':
        return {'tag': f"{who or inp.get('entry', inp.get('route', f.__name__))}/raises-{r[1]}", 'observed': list(r[1:])}
    return r[1]


def _dir(rng):
    v = rng.standard_normal(4)
    return v / np.linalg.norm(v)


def _rot(rng, region=None):
    """a proper rotation matrix built independently of the package (from a unit quaternion)"""
    q = cm.rand_unit_quat(rng) if region is None else region
    return cm.Rspec(q)


def nearest_rotation(Mx):
    U, s, Vt = np.linalg.svd(Mx)
    D = np.diag([1.0, 1.0, np.sign(np.linalg.det(U @ Vt))])
    return U @ D @ Vt


# thin regions of the vector length: narrow bands around 1 (where an `isclose(norm, 1)` shortcut would bite), around 0
# (where an `isclose(norm, 0)` zero test would bite), and the ends of the property's range
BANDS = [1.0, 1 + 1e-3, 1 - 1e-3, 1 + 1e-5, 1 - 1e-5, 1 + 6e-6, 1 - 4e-6, 1 + 1e-6, 1 - 1e-6, 1 + 1e-7, 1 - 1e-7, 1 + 1e-9, 1 - 1e-9,
         1e-7, 1e-8, 1e-9, 1e-10, 1e-12, 1e-100, 3.7, 1e100]


def f32_normalised(v):
    """v normalised in single precision: unit to about 6e-8 only"""
    a = np.asarray(v, dtype=np.float32)
    return (a / np.linalg.norm(a)).astype(float)


def band_vectors(rng, dim, ndir=2):
    """(region, vector): a few directions (one axis-aligned, the rest generic; for dim 4 also a pure one) at every length of BANDS,
    plus their single-precision normalisations"""
    dirs = [np.eye(dim)[rng.integers(dim)]]
    for _ in range(ndir):
        d = rng.standard_normal(dim); dirs.append(d / np.linalg.norm(d))
    if dim == 4:
        d = np.r_[0.0, rng.standard_normal(3)]; dirs.append(d / np.linalg.norm(d))
    out = []
    for d in dirs:
        for b in BANDS:
            out.append((f'band-{b!r}', d * b))
        out.append(('float32-normalised', f32_normalised(d * 3.0)))
        out.append(('float32-normalised-scaled', f32_normalised(d * 3.0) * (1 + 3e-7)))
    return out


def vectors(rng, n, dim=4):
    """finite non-zero vectors: the edge set, the thin bands of the length, then direction on the sphere x norm 10^U(-100,100)"""
    out = []
    for k in range(dim):
        e = np.zeros(dim); e[k] = 1.0
        out += [('axis', e), ('axis-neg', -e), ('axis-1e-100', e * 1e-100), ('axis-1e100', e * 1e100)]
    out.append(('ones', np.ones(dim)))
    out.append(('ints', np.arange(1, dim + 1, dtype=float)))
    out.append(('neg-zero-mix', np.array([1.0, -0.0, 0.0, -0.0][:dim])))
    out.append(('denormal-component', np.array([1.0, 5e-324, 1e-310, 0.5][:dim])))
    out.append(('norm-1e-100', _dir(rng)[:dim] / np.linalg.norm(_dir(rng)[:dim]) * 1e-100))
    out.append(('norm-1e100', np.ones(dim) / math.sqrt(dim) * 1e100))
    out.append(('mixed-magnitudes', np.array([1e-60, 1e-20, 1.0, 1e-90][:dim])))
    out += band_vectors(rng, dim)
    n = max(n, len(out) + 20)
    while len(out) < n:
        d = rng.standard_normal(dim); d /= np.linalg.norm(d)
        out.append(('generic', d * 10.0 ** rng.uniform(-100, 100)))
    return out


# ------------------------------------------------------------------------------------------
# correspondence
# ------------------------------------------------------------------------------------------
def _impl():
    import ahrs
    f = lambda x: np.array(x, dtype=float)
    return {
        'Q4': lambda c: np.asarray(ahrs.Quaternion(f([c[k] for k in Q]))),
        'Q3': lambda c: np.asarray(ahrs.Quaternion(f([c[k] for k in Q[1:]]))),
        'QA4': lambda c: np.asarray(ahrs.QuaternionArray(f([[c[k] for k in P], [c[k] for k in Q]]))),
        'QA3': lambda c: np.asarray(ahrs.QuaternionArray(f([[c[k] for k in P[1:]], [c[k] for k in Q[1:]]]))),
        'QA4_1': lambda c: np.asarray(ahrs.QuaternionArray(f([[c[k] for k in Q]]))),
        'add': lambda c: np.asarray(ahrs.Quaternion(f([c[k] for k in P])) + ahrs.Quaternion(f([c[k] for k in Q]))),
        'sub': lambda c: np.asarray(ahrs.Quaternion(f([c[k] for k in P])) - ahrs.Quaternion(f([c[k] for k in Q]))),
        'random': lambda c: random_attitude_with([c[k] for k in U]),
        'rotate_by': lambda c: ahrs.QuaternionArray(f([[c[k] for k in P]])).rotate_by(f([c[k] for k in Q])),
        'DCM_matrix': lambda c: np.asarray(ahrs.DCM(f([[c[n] for n in r] for r in M]))),
        'DCM_q': lambda c: np.asarray(ahrs.DCM(q=f([c[k] for k in Q]))),
        'Q_dcm': lambda c: np.asarray(ahrs.Quaternion(dcm=f([[c[n] for n in r] for r in M]))),
        'DCM_axang_c': lambda c: np.asarray(ahrs.DCM(axang=(f([c[k] for k in K]), ANG_C))),
    }


def _matrix_cases(rng, n):
    """3x3 matrices: exact rotations, perturbed by <= 1e-12 (accepted), the rejected families, NaN entries,
    and matrices straddling the gate's own thresholds"""
    out = []
    qs = [q for _, q in cm.quats(rng, n)]
    for i, q in enumerate(qs):
        R = cm.Rspec(q)
        out.append(R)
        out.append(R + rng.uniform(-1e-12, 1e-12, (3, 3)))
        k = i % 8
        if k == 0:
            out.append(R @ np.diag([1.0, 1.0, -1.0]))
        elif k == 1:
            out.append(R * (1 + rng.choice([-1, 1]) * 10.0 ** rng.uniform(-4, 0)))
        elif k == 2:
            S = np.eye(3); S[0, 1] = rng.choice([-1, 1]) * 10.0 ** rng.uniform(-4, 0); out.append(R @ S)
        elif k == 3:
            Mn = R.copy(); Mn[rng.integers(3), rng.integers(3)] = np.nan; out.append(Mn)
        elif k == 4:
            out.append(R * (1 + rng.choice([-1, 1]) * 10.0 ** rng.uniform(-7, -5)))    # around the thresholds
        elif k == 5:
            out.append(R + rng.standard_normal((3, 3)) * 10.0 ** rng.uniform(-9, -6))
        elif k == 6:
            out.append(-R)
        else:
            out.append(rng.standard_normal((3, 3)))
    return out


def correspondence(ctx):
    I = _impl()
    rng = ctx.rng
    n = ctx.n(40, 400)
    vs4 = [v for _, v in vectors(rng, n, 4) if 1e-101 <= np.linalg.norm(v) <= 1e3]
    vs4 += [cm.rand_unit_quat(rng) * 10.0 ** rng.uniform(-3, 3) for _ in range(n)]
    vs3 = [v[:3] for v in vs4 if np.linalg.norm(v[:3]) > 0]
    z4 = np.zeros(4)
    ctx.correspond('C11_Q4', [cm.d(Q, v) for v in vs4] + [cm.d(Q, z4), cm.d(Q, [-0.0, 0.0, 0.0, -0.0])], I['Q4'])
    ctx.correspond('C11_Q3', [cm.d(Q[1:], v) for v in vs3] + [cm.d(Q[1:], z4[:3])], I['Q3'])
    pairs = [{**cm.d(P, vs4[i]), **cm.d(Q, vs4[(7 * i + 3) % len(vs4)])} for i in range(len(vs4))]
    zr = [{**cm.d(P, z4), **cm.d(Q, vs4[0])}, {**cm.d(P, vs4[1]), **cm.d(Q, z4)}, {**cm.d(P, z4), **cm.d(Q, z4)}]
    ctx.correspond('C11_QA4', pairs + zr, I['QA4'])
    ctx.correspond('C11_QA4_1', [cm.d(Q, v) for v in vs4[:n]] + [cm.d(Q, z4)], I['QA4_1'])
    p3 = [{**cm.d(P[1:], vs3[i]), **cm.d(Q[1:], vs3[(5 * i + 1) % len(vs3)])} for i in range(len(vs3))]
    ctx.correspond('C11_QA3', p3 + [{**cm.d(P[1:], z4[:3]), **cm.d(Q[1:], vs3[0])}], I['QA3'])
    # sums / differences: generic pairs, near-cancelling pairs, exactly cancelling pairs
    mod = [v for v in vs4 if 1e-3 <= np.linalg.norm(v) <= 1e3]
    ad = [{**cm.d(P, mod[i]), **cm.d(Q, mod[(3 * i + 1) % len(mod)])} for i in range(len(mod))]
    # nearly-but-not-exactly parallel operands are left out: after the two normalisations their sum / difference is pure rounding
    # noise (exactly zero in one evaluation order, a few ulp in another), so "zero vector: raise" vs "value" is not a fact of
    # either the model or the implementation; exactly cancelling pairs (same bits) are kept below
    def _generic(c):
        a = np.array([c[k] for k in P]); b = np.array([c[k] for k in Q])
        a, b = a / np.linalg.norm(a), b / np.linalg.norm(b)
        return min(np.linalg.norm(a - b), np.linalg.norm(a + b)) > 1e-9
    ad = [c for c in ad if _generic(c)]
    canc = [{**cm.d(P, v), **cm.d(Q, v)} for v in mod[:6]] + [{**cm.d(P, v), **cm.d(Q, -v)} for v in mod[:6]]
    ctx.correspond('C11_add', ad + canc + zr[:2], I['add'], tol_ulp=256)
    ctx.correspond('C11_sub', ad + canc + zr[:2], I['sub'], tol_ulp=256)
    us = [rng.uniform(0, 1, 3) for _ in range(n)] + [np.array(u, float) for u in
                                                      ([0, 0, 0], [1, 0, 0], [0.5, 0.25, 0.75], [1, 1, 1], [0, 0.5, 0.5], [1e-300, 0.1, 0.9])]
    ctx.correspond('C11_random', [cm.d(U, u) for u in us], I['random'], tol_ulp=256)
    ctx.correspond('C11_rotate_by', ad, I['rotate_by'], tol_ulp=256)
    ctx.correspond('C11_DCM_q', [cm.d(Q, v) for v in mod] + [cm.d(Q, z4)], I['DCM_q'])
    mats = _matrix_cases(rng, ctx.n(24, 240))
    mc = [cm.d(MF, Mx.reshape(-1)) for Mx in mats]
    ctx.correspond('C11_DCM_matrix', mc, I['DCM_matrix'])
    ctx.correspond('C11_Q_dcm', mc, I['Q_dcm'], tol_ulp=1024, up_to_sign=False)
    axes = [v[:3] for v in mod] + [np.zeros(3), np.array([0.0, 0.0, 2.0]), np.array([1e-100, 0.0, 0.0])]
    axes += [v for _, v in band_vectors(rng, 3, ndir=1) if 1e-100 <= np.linalg.norm(v) <= 1e3]
    ctx.correspond('C11_DCM_axang_c', [cm.d(K, a) for a in axes], I['DCM_axang_c'])
    _corr_routes(ctx)
    _corr_decision(ctx)


# ---- hand model of the angle routes, run in PrimFloat ------------------------------------------------
PRE_F = ['From Coq Require Import List. From Coq Require Import Uint63. From Coq Require Import PrimFloat.',
         'From AhrsModel Require Import C11_routes.', 'Import ListNotations.', 'Open Scope float_scope.',
         'Definition Fxyz := dcm_xyz float 0 1 PrimFloat.add PrimFloat.mul PrimFloat.opp.',
         'Definition Frs := rot_seq float 0 1 PrimFloat.add PrimFloat.mul PrimFloat.opp.',
         'Definition Frod := rodrigues float 0 1 PrimFloat.add PrimFloat.sub PrimFloat.mul PrimFloat.div PrimFloat.opp PrimFloat.sqrt.']


def _hx(x):
    from pysym import emit
    x = float(x)
    if x != x:
        return 'nan'
    return emit._hexf(x)


def _cs(ax, ang, degrees=False):
    """(c, s) the implementation's `rotation` uses for this angle: (cos, sin) as numpy computes them, or (1, 0)
    when the public function dcm.rotation takes one of its early exits (returns exactly the identity)"""
    from ahrs.common.dcm import rotation
    Rm = rotation(ax, ang, degrees=degrees)
    if np.array_equal(Rm, np.eye(3)):
        return 1.0, 0.0
    a = float(ang) * (np.pi / 180 if degrees else 1.0)
    if degrees:
        from ahrs.common.constants import DEG2RAD
        a = float(ang) * DEG2RAD
    return float(np.cos(a)), float(np.sin(a))


def _parse_floats(s):
    body = s[s.index('[') + 1:s.rindex(']')]
    out = []
    for t in body.split(';'):
        t = t.strip().replace('%float', '').strip('() ')
        if not t:
            continue
        out.append(float('nan') if t == 'nan' else float('inf') if t == 'infinity' else float('-inf') if t == 'neg_infinity'
                   else float.fromhex(t) if 'x' in t else float(t))
    return out


def angle_sets(rng, n):
    out = [(0.0, 0.0, 0.0), (math.pi / 2, 0.0, 0.0), (0.0, math.pi, 0.0), (0.0, 0.0, -math.pi / 2), (2 * math.pi, 1.0, -1.0),
           (math.pi, math.pi, math.pi), (1e-9, -1e-9, 1e-7), (90.0, 180.0, 360.0), (720.0, -45.0, 30.0), (10.0, -20.0, 30.0),
           (1e-300, 5.0, -7.0), (3.0, 4.0, 1e6)]
    while len(out) < n:
        out.append(tuple(float(x) for x in rng.uniform(-4 * math.pi, 4 * math.pi, 3)))
    return out


def _corr_routes(ctx):
    import ahrs
    rng = ctx.rng
    n = ctx.n(40, 300)
    exprs, calls = [], []
    for (a, b, c) in angle_sets(rng, n):
        for deg in (False, True):
            cs = [_cs('x', a, deg), _cs('y', b, deg), _cs('z', c, deg)]
            exprs.append('Fxyz ' + ' '.join(f"{_hx(u)} {_hx(w)}" for u, w in cs))
            calls.append((('xyz', a, b, c, deg), (lambda a=a, b=b, c=c, deg=deg: np.asarray(ahrs.DCM(x=a, y=b, z=c, degrees=deg)))))
        cs = [_cs('z', a), _cs('y', b), _cs('x', c)]
        exprs.append('Frs [' + '; '.join(f"({ax}, {_hx(u)}, {_hx(w)})" for ax, (u, w) in zip(('AZ', 'AY', 'AX'), cs)) + ']')
        calls.append((('rpy', a, b, c), (lambda a=a, b=b, c=c: np.asarray(ahrs.DCM(rpy=[a, b, c])))))
    seqs = ['z', 'x', 'zxz', 'xyz', 'ZYX', 'yxy', 'zyzx', 'xxyyzz', 'Xz']
    for i in range(n):
        seq = seqs[i % len(seqs)]
        angs = [float(x) for x in rng.uniform(-7, 7, len(seq))]
        if i % 5 == 0:
            angs[0] = 0.0
        cs = [_cs(ch, t) for ch, t in zip(seq, angs)]
        exprs.append('Frs [' + '; '.join(f"(A{ch.upper()}, {_hx(u)}, {_hx(w)})" for ch, (u, w) in zip(seq, cs)) + ']')
        calls.append((('euler', seq, angs), (lambda seq=seq, angs=angs: np.asarray(ahrs.DCM(euler=(seq, angs))))))
    bands3 = [v for _, v in band_vectors(rng, 3, ndir=1) if 1e-100 <= np.linalg.norm(v) <= 1e3]
    for i in range(n + len(bands3)):
        ax = rng.standard_normal(3) * 10.0 ** rng.uniform(-3, 3)
        if i % 7 == 0:
            ax = np.eye(3)[i % 3] * (2.0 if i % 2 else 1.0)
        if i >= n:
            ax = bands3[i - n]
        t = float(rng.uniform(-7, 7)) if i % 6 else [0.0, math.pi, -math.pi, 1e-9, 2 * math.pi, 100.0][(i // 6) % 6]
        exprs.append('Frod ' + ' '.join(_hx(x) for x in ax) + f" {_hx(np.cos(t))} {_hx(np.sin(t))}")
        calls.append((('axang', ax.tolist(), t), (lambda ax=ax, t=t: np.asarray(ahrs.DCM(axang=(ax.copy(), t))))))
    outs = ctx.coq_eval('C11_routes_model', PRE_F, exprs)
    if outs is None:
        return
    from vlib.core import call_outcome
    worst = 0.0
    for (key, f), o in zip(calls, outs):
        mv = np.array(_parse_floats(o))
        r = call_outcome(f)
        if r[0] == 'raise':
            ctx.disagree('C11_routes_model', key, mv, list(r[1:]), 'model returns a matrix, implementation raises')
            continue
        iv = np.asarray(r[1], float).reshape(-1)
        d = float(np.max(np.abs(mv - iv))) if mv.shape == iv.shape else float('inf')
        worst = max(worst, d)
        if not d <= 64 * 2.0 ** -52:
            ctx.disagree('C11_routes_model', key, mv, iv, f'hand model and implementation differ by {d:.3g}')
        else:
            ctx.agree('C11_routes_model')
    st = ctx.corr_stats['C11_routes_model']
    st['max_abs'] = worst
    ctx.say(f"[corr] C11_routes_model (hand model of rotation/rot_seq/Rodrigues in PrimFloat): {st['cases']} cases, "
            f"{st['disagree']} disagreements, max |diff| {worst:.3g}")


# ---- decision model: exhaustive grid -----------------------------------------------------------------
G_SHAPES = [(), (0,), (1,), (3,), (4,), (5,), (9,), (0, 4), (1, 3), (1, 4), (2, 3), (2, 4), (3, 3), (4, 4), (4, 3), (3, 4), (5, 4),
            (7, 3), (1, 5), (2, 2), (1, 3, 3), (2, 3, 3), (4, 3, 3), (1, 1, 4), (2, 2, 4), (1, 4, 4), (1, 1, 3, 3)]
G_DT = {'float64': 'F64', 'int64': 'I64', 'float32': 'F32', 'int32': 'I32', 'bool': 'Bool', 'complex128': 'C128', 'str': 'Str',
        'object': 'Obj'}
G_CONT = {'ndarray': 'Nd', 'list': 'Lst', 'tuple': 'Tup'}
G_CONTENT = {'generic': 'Generic', 'zero': 'Zero', 'zerorow': 'ZeroRow', 'nan': 'NaN', 'reflect': 'Reflect', 'scaled': 'Scaled'}
G_ROT = np.array([[0.0, -1.0, 0.0], [1.0, 0.0, 0.0], [0.0, 0.0, 1.0]])
G_SCALARS = {'IntPos': [1, 3, 4], 'IntNonPos': [0, -2], 'BoolT': [True], 'BoolF': [False], 'FloatS': [2.5, 0.0, float('nan')],
             'StrS': ['abcd', ''], 'NoneS': [None]}


def grid_build(shape, dt, cont, content):
    """the concrete argument of one grid cell, or None when the cell does not exist"""
    n = int(np.prod(shape)) if shape else 1
    if cont != 'ndarray' and (shape == () or dt in ('float32', 'int32') or (n == 0 and len(shape) > 1)):
        return None                     # a bare scalar is another container class; lists carry python numbers;
                                        # an empty nested list does not carry its shape
    if content == 'zero':
        if n == 0:
            return None
        a = np.zeros(shape)
    else:
        a = (np.arange(n) % 3 + 1.0).reshape(shape)       # small positive integers: representable in every dtype
        if len(shape) >= 2 and shape[-2:] == (3, 3):
            a = np.broadcast_to(G_ROT, shape).copy()
            if content == 'reflect':
                a[..., 2, 2] = -1
            if content == 'scaled':
                a = a * 2
        elif content in ('reflect', 'scaled'):
            return None
        if content == 'zerorow':
            if len(shape) != 2 or shape[0] < 1 or n == 0:
                return None
            a[-1] = 0
        if content == 'nan':
            if dt not in ('float64', 'float32', 'complex128') or n == 0:
                return None
            a = a.astype(float)
            a.reshape(-1)[0] = np.nan
    if dt == 'str':
        a = a.astype(int).astype(str)
    elif dt == 'object':
        if n == 0:
            return None
        a = a.astype(object)
        a.reshape(-1)[-1] = None
    else:
        a = a.astype(dt)
    if cont == 'ndarray':
        return a
    l = a.tolist()
    if cont == 'tuple':
        l = tuple(l)
    return l


def grid_outcome(ctor, x):
    import ahrs, warnings
    f = {'Quat': ahrs.Quaternion, 'QArr': ahrs.QuaternionArray, 'Dcm': ahrs.DCM}[ctor]
    try:
        with np.errstate(all='ignore'), warnings.catch_warnings():
            warnings.simplefilter('ignore')
            r = f(x) if x is not None else f()
        r = np.asarray(r)
        if r.dtype != np.dtype(float) or not np.all(np.isfinite(r)):
            return 'Ok-but-not-finite-float64'
        if ctor == 'Dcm':
            rr = r.reshape(-1, 3, 3)
            if any(cm.maxabs(m @ m.T, np.eye(3)) > 1e-5 or abs(np.linalg.det(m) - 1) > 1e-5 for m in rr):
                return 'Ok-but-not-a-rotation'
        elif r.size and cm.maxabs(np.linalg.norm(r.reshape(-1, 4), axis=1), 1.0) > 1e-12:
            return 'Ok-but-not-unit'
        return 'Ok'
    except Exception as e:                                    # noqa: the class of the exception is the observation
        if isinstance(e, TypeError):
            return 'TErr'
        if isinstance(e, ValueError):
            return 'VErr'
        return 'raises-' + type(e).__name__


def grid_cells():
    cells = []
    for ctor in ('Quat', 'QArr', 'Dcm'):
        for cont, dt, shape, content in itertools.product(G_CONT, G_DT, G_SHAPES, G_CONTENT):
            x = grid_build(shape, dt, cont, content)
            if x is None:
                continue
            coq = f"({ctor}, {G_CONT[cont]}, {G_DT[dt]}, [{'; '.join(str(k) + '%nat' for k in shape)}], {G_CONTENT[content]})"
            cells.append(((ctor, cont, dt, list(shape), content), coq, x))
        for k, vals in G_SCALARS.items():
            for v in vals:
                cells.append(((ctor, k, repr(v)), f"({ctor}, {k}, F64, [], Generic)", v))
    return cells


def _corr_decision(ctx):
    cells = grid_cells()
    pre = ['From Coq Require Import List.', 'From AhrsModel Require Import C11_decision.', 'Import ListNotations.']
    expr = 'map (fun c => match c with (a, b, d, s, x) => decide a b d s x end) [' + '; '.join(c[1] for c in cells) + ']'
    outs = ctx.coq_eval('C11_decision', pre, [expr])
    if outs is None:
        return
    model = [t.strip() for t in outs[0].strip('[] ').split(';')]
    if len(model) != len(cells):
        ctx.disagree('C11_decision', 'grid', len(model), len(cells), 'parsed a different number of verdicts')
        return
    dist = {}
    for (key, _, x), mv in zip(cells, model):
        iv = grid_outcome(key[0], x)
        dist[iv] = dist.get(iv, 0) + 1
        if iv != mv:
            ctx.disagree('C11_decision', key, mv, iv, 'decision model and constructor differ')
            # a disagreement on the grid is a concrete input: report it through the search oracle as well
            inp = {'ctor': key[0], 'cell': list(key[1:]), 'expected': mv}
            ctx.check('decision', inp, o_decision(inp), nontrivial_key=None)
        else:
            ctx.agree('C11_decision')
    st = ctx.corr_stats['C11_decision']
    st.update({'exhaustive': True, 'cells': len(cells), 'distribution': dist,
               'domain': 'ctor x {ndarray,list,tuple} x 8 dtypes x %d shapes (ranks 0..4) x 6 content classes + scalar/str/None arguments'
                         % len(G_SHAPES)})
    ctx.say(f"[corr] C11_decision: exhaustive grid of {len(cells)} cells, {st['disagree']} disagreements, outcomes {dist}")


# ------------------------------------------------------------------------------------------
# search oracles
# ------------------------------------------------------------------------------------------
TOL = 1e-12
REJ = (ValueError, TypeError)


def _cell_arg(inp):
    cell = inp['cell']
    if len(cell) == 2:                       # scalar / str / None argument
        return eval(cell[1], {'nan': float('nan')})
    cont, dt, shape, content = cell
    return grid_build(tuple(shape), dt, cont, content)


def o_decision(inp):
    """one cell of the decision grid on the implementation: expected verdict is the decision model's"""
    got = grid_outcome(inp['ctor'], _cell_arg(inp))
    if got != inp['expected']:
        c = inp['cell']
        cls = c[3] if len(c) == 4 else c[0]
        kind = 'accepts' if got.startswith('Ok') else got if got.startswith('raises-') else 'rejects-with-' + got
        return {'tag': f"{inp['ctor']}/{kind}-{cls}" + ('' if got in ('Ok', 'VErr', 'TErr') or got.startswith('raises-') else '-' + got),
                'observed': got, 'expected': inp['expected']}
    return None


def _as_container(a, form):
    a = np.asarray(a, dtype=float)
    if form == 'list':
        return a.tolist()
    if form == 'tuple':
        return tuple(a.tolist())
    if form == 'int':
        return a.astype(int)
    return a


def o_quat(inp):
    """Quaternion(v) / QuaternionArray(rows): unit norm, same direction, real float64"""
    import ahrs
    rows = np.array(inp['rows'], dtype=float)
    form = inp.get('form', 'ndarray')
    entry = inp['entry']
    kw = {}
    if inp.get('order') == 'S':
        kw['order'] = 'S'
    if entry == 'Quaternion':
        q = np.asarray(ahrs.Quaternion(_as_container(rows[0], form), **kw))[None, :]
    else:
        q = np.asarray(ahrs.QuaternionArray(_as_container(rows, form), **kw))
    if q.dtype != np.dtype(float) or cm.bad(q) or q.shape != (rows.shape[0], 4):
        return {'tag': f'{entry}/shape-dtype-or-nonfinite', 'observed': q}
    nr = np.linalg.norm(q, axis=1)
    if cm.maxabs(nr, 1.0) > TOL:
        return {'tag': f'{entry}/not-unit', 'observed': nr, 'expected': 1.0}
    v = rows if rows.shape[1] == 4 else np.c_[np.zeros(rows.shape[0]), rows]
    v = v / np.max(np.abs(v), axis=1)[:, None]
    v = v / np.linalg.norm(v, axis=1)[:, None]
    if cm.maxabs(q, v) > TOL:
        return {'tag': f'{entry}/not-same-direction', 'observed': q, 'expected': v}
    return None


def o_ops(inp):
    """sums / differences, random attitudes, rotated arrays, averages are real unit quaternions"""
    import ahrs
    op = inp['op']

    def unitq(q, tag, shape):
        q = np.asarray(q)
        if np.iscomplexobj(q):
            return {'tag': f'{tag}/complex', 'observed': q}
        if q.dtype != np.dtype(float) or cm.bad(q) or q.shape != shape:
            return {'tag': f'{tag}/shape-dtype-or-nonfinite', 'observed': q}
        nr = np.linalg.norm(q.reshape(-1, 4), axis=1)
        if cm.maxabs(nr, 1.0) > TOL:
            return {'tag': f'{tag}/not-unit', 'observed': nr, 'expected': 1.0}
        return None
    if op in ('add', 'sub'):
        p, q = np.array(inp['p'], float), np.array(inp['q'], float)
        a, b = ahrs.Quaternion(p), ahrs.Quaternion(q)
        for o in (a, b):
            if cm.maxabs(np.linalg.norm(np.asarray(o)), 1.0) > TOL:
                return {'tag': 'Quaternion/not-unit', 'observed': np.asarray(o)}
        s = np.asarray(a) + np.asarray(b) if op == 'add' else np.asarray(a) - np.asarray(b)
        if np.linalg.norm(s) < 1e-9:
            try:
                r = (a + b) if op == 'add' else (a - b)
            except REJ:
                return None
            if np.linalg.norm(s) == 0.0:
                return {'tag': f'{op}/wraps-vanishing', 'observed': np.asarray(r)}
            return unitq(r, op, (4,))
        r = (a + b) if op == 'add' else (a - b)
        e = unitq(r, op, (4,))
        if e:
            return e
        if cm.maxabs(np.asarray(r), s / np.linalg.norm(s)) > 1e-9 / max(np.linalg.norm(s), 1e-3):
            return {'tag': f'{op}/not-same-direction', 'observed': np.asarray(r), 'expected': s / np.linalg.norm(s)}
        return None
    if op == 'random':
        from ahrs.common.quaternion import random_attitudes
        n, rep = inp['n'], inp.get('representation', 'quaternion')
        if inp.get('u') is not None:
            r = random_attitude_with(inp['u'], n, rep)
        elif inp.get('via') == 'QuaternionArray':
            r = np.asarray(ahrs.QuaternionArray(n))
        elif inp.get('via') == 'Quaternion':
            r = np.asarray(ahrs.Quaternion(random=True))
        else:
            r = random_attitudes(n, rep)
        r = np.asarray(r)
        if rep == 'rotmat':
            rr = r.reshape(-1, 3, 3)
            if r.shape != ((3, 3) if n == 1 else (n, 3, 3)) or cm.bad(r):
                return {'tag': 'random_attitudes/rotmat-shape-or-nonfinite', 'observed': r.shape}
            res = max(max(cm.maxabs(m @ m.T, np.eye(3)), abs(np.linalg.det(m) - 1)) for m in rr)
            return {'tag': 'random_attitudes/rotmat-not-SO3', 'observed': res} if res > TOL else None
        return unitq(r, 'random_attitudes', (4,) if (n == 1 and inp.get('via') != 'QuaternionArray') else (n, 4))
    if op == 'rotate_by':
        rows, q = np.array(inp['rows'], float), np.array(inp['q'], float)
        Qa = ahrs.QuaternionArray(rows)
        r = Qa.rotate_by(_as_container(q, inp.get('form', 'ndarray')))
        e = unitq(r, 'rotate_by', (rows.shape[0], 4))
        if e:
            return e
        qn = q / np.linalg.norm(q)
        rows4 = rows if rows.shape[1] == 4 else np.c_[np.zeros(rows.shape[0]), rows]
        ref = np.array([cm.qmul(qn, p / np.linalg.norm(p)) for p in rows4])
        if cm.maxabs(np.asarray(r), ref) > 1e-11:
            return {'tag': 'rotate_by/not-the-product', 'observed': np.asarray(r), 'expected': ref}
        if inp.get('twice'):
            r2 = Qa.rotate_by(q)
            if cm.maxabs(np.asarray(r2), np.asarray(r)) > 0:
                return {'tag': 'rotate_by/second-call-differs', 'observed': np.asarray(r2), 'expected': np.asarray(r)}
        return None
    if op == 'average':
        rows = np.array(inp['rows'], float)
        Qa = ahrs.QuaternionArray(rows)
        w = inp.get('weights')
        r = Qa.average(weights=np.array(w, float)) if w is not None else Qa.average()
        e = unitq(r, 'average', (4,))
        if e:
            return e
        # the average is the dominant eigenvector of sum w_i^2 q_i q_i^T (up to sign), whenever that one is well separated
        A = np.asarray(Qa, float) * (np.array(w, float)[:, None] if w is not None else 1.0)
        ev, V = np.linalg.eigh(A.T @ A)
        if ev[-1] - ev[-2] > 1e-3 * ev[-1]:
            ref = V[:, -1]
            if min(cm.maxabs(np.asarray(r), ref), cm.maxabs(np.asarray(r), -ref)) > 1e-8:
                return {'tag': 'average/not-the-dominant-eigenvector', 'observed': np.asarray(r), 'expected': ref}
        if inp.get('twice'):
            r2 = Qa.average(weights=np.array(w, float)) if w is not None else Qa.average()
            if cm.maxabs(np.asarray(r2), np.asarray(r)) > 0:
                return {'tag': 'average/second-call-differs', 'observed': np.asarray(r2), 'expected': np.asarray(r)}
        return None
    raise ValueError(op)


def _so3_res(m):
    return max(cm.maxabs(m @ m.T, np.eye(3)), abs(np.linalg.det(m) - 1))


def o_dcm_route(inp):
    """every way of building a DCM yields a proper rotation matrix (float64, finite, residual <= 1e-12)"""
    import ahrs
    route = inp['route']
    if route == 'matrix':
        Mx = np.array(inp['M'], float)
        arg = _as_container(Mx, inp.get('form', 'ndarray'))
        r = np.asarray(ahrs.DCM(arg))
        if r.shape != Mx.shape or r.dtype != np.dtype(float) or cm.bad(r) or cm.maxabs(r, Mx) > 0:
            return {'tag': f"DCM(matrix)/{inp.get('form', 'ndarray')}-not-wrapped-as-given", 'observed': r, 'expected': Mx}
        return None
    if route == 'q':
        q = np.array(inp['q'], float)
        r = np.asarray(ahrs.DCM(q=_as_container(q, inp.get('form', 'ndarray'))))
        ref = cm.Rspec(q / np.max(np.abs(q)) / np.linalg.norm(q / np.max(np.abs(q))))
    elif route == 'xyz':
        kw = {k: inp[k] for k in ('x', 'y', 'z') if k in inp}
        if inp.get('degrees'):
            kw['degrees'] = True
        r = np.asarray(ahrs.DCM(**kw))
        f = math.pi / 180 if inp.get('degrees') else 1.0
        ref = _Rx(inp.get('x', 0.0) * f) @ _Ry(inp.get('y', 0.0) * f) @ _Rz(inp.get('z', 0.0) * f)
    elif route == 'rpy':
        a = inp['angles']
        r = np.asarray(ahrs.DCM(rpy=_as_container(a, inp.get('form', 'list'))))
        ref = _Rz(a[0]) @ _Ry(a[1]) @ _Rx(a[2])
    elif route == 'euler':
        seq, a = inp['seq'], inp['angles']
        r = np.asarray(ahrs.DCM(euler=(seq, list(a))))
        ref = np.eye(3)
        for ch, t in zip(seq, a):
            ref = ref @ {'x': _Rx, 'y': _Ry, 'z': _Rz}[ch.lower()](t)
    elif route == 'axang':
        ax, t = np.array(inp['axis'], float), inp['angle']
        r = np.asarray(ahrs.DCM(axang=(_as_container(ax, inp.get('form', 'ndarray')), t)))
        k = ax / np.max(np.abs(ax)); k = k / np.linalg.norm(k)
        Kx = np.array([[0, -k[2], k[1]], [k[2], 0, -k[0]], [-k[1], k[0], 0]])
        ref = np.eye(3) + math.sin(t) * Kx + (1 - math.cos(t)) * Kx @ Kx
    else:
        raise ValueError(route)
    if r.shape != (3, 3) or r.dtype != np.dtype(float) or cm.bad(r):
        return {'tag': f'DCM({route}=)/shape-dtype-or-nonfinite', 'observed': r}
    if _so3_res(r) > TOL:
        return {'tag': f'DCM({route}=)/not-SO3', 'observed': _so3_res(r), 'expected': f'<= {TOL}'}
    scale = 1.0 if route not in ('xyz', 'rpy', 'euler') else max(1.0, max(abs(float(x)) for x in (inp.get('angles') or [inp.get(k, 0.0) for k in 'xyz'])))
    if cm.maxabs(r, ref) > 1e-11 * scale:
        return {'tag': f'DCM({route}=)/not-the-rotation-asked-for', 'observed': r, 'expected': ref}
    return None


def _Rx(t):
    c, s = math.cos(t), math.sin(t)
    return np.array([[1, 0, 0], [0, c, -s], [0, s, c]])


def _Ry(t):
    c, s = math.cos(t), math.sin(t)
    return np.array([[c, 0, s], [0, 1, 0], [-s, 0, c]])


def _Rz(t):
    c, s = math.cos(t), math.sin(t)
    return np.array([[c, -s, 0], [s, c, 0], [0, 0, 1]])


def o_so3_boundary(inp):
    """3x3 matrices within 1e-12 of SO(3) are accepted (and converted to unit quaternions), matrices farther than
    1e-4 are rejected with ValueError/TypeError, by DCM(M), Quaternion(dcm=M) and QuaternionArray(DCM=[M])"""
    import ahrs
    Mx = np.array([[float(x) for x in r] for r in inp['M']], float)
    entry, expect = inp['entry'], inp['expect']
    call = {'DCM': lambda: np.asarray(ahrs.DCM(Mx.copy())),
            'Quaternion(dcm=)': lambda: np.asarray(ahrs.Quaternion(dcm=Mx.copy())),
            'QuaternionArray(DCM=)': lambda: np.asarray(ahrs.QuaternionArray(DCM=np.array([Mx, Mx])))}[entry]
    try:
        with np.errstate(all='ignore'):
            r = call()
    except REJ as e:
        if expect == 'accept':
            return {'tag': f'{entry}/rejects-near-SO3', 'observed': f'{type(e).__name__}: {e}', 'expected': 'accepted'}
        return None
    if expect == 'reject':
        return {'tag': f"{entry}/accepts-non-SO3", 'observed': r, 'expected': 'ValueError/TypeError',
                'note': inp.get('family', '')}
    if entry == 'DCM':
        ok = r.shape == (3, 3) and not cm.bad(r) and cm.maxabs(r, Mx) == 0
    else:
        ok = not cm.bad(r) and cm.maxabs(np.linalg.norm(r.reshape(-1, 4), axis=1), 1.0) <= TOL
        if ok:
            ok = all(cm.maxabs(cm.Rspec(q), Mx) <= 1e-6 for q in r.reshape(-1, 4))
    return None if ok else {'tag': f'{entry}/accepted-but-wrong-result', 'observed': r, 'expected': Mx}


def _nrm(a):
    a = np.asarray(a, float)
    return a / np.linalg.norm(a, axis=-1, keepdims=True)


def _pad(a):
    a = np.asarray(a, float)
    return np.concatenate([np.zeros(a.shape[:-1] + (1,)), a], axis=-1)


def own_cases():
    """name -> (build(ahrs, p, q, X, Y) -> result, reference(p, q, X, Y) or None, kind).  p, q: 4-vectors; X, Y: N x 4 arrays.
    Every input handed to a constructor / operator is an INSTANCE of the package's own classes or an array derived from one
    (arithmetic, scalar multiples, slices, views, versor(s)=False objects, subclass-preserving NumPy results)."""
    def Qt(a, *x, **k):
        return a.Quaternion(*x, **k)

    def QA(a, *x, **k):
        return a.QuaternionArray(*x, **k)

    def D(a, *x, **k):
        return a.DCM(*x, **k)
    Rq = lambda v: cm.Rspec(_nrm(v))
    C = {
        # ---- Quaternion(<object>)
        'Q(Q)': (lambda a, p, q, X, Y: Qt(a, Qt(a, p)), lambda p, q, X, Y: _nrm(p), 'unit'),
        'Q(Q versor=False)': (lambda a, p, q, X, Y: Qt(a, Qt(a, p, versor=False)), lambda p, q, X, Y: _nrm(p), 'unit'),
        'Q(Q versor=False unit-ish)': (lambda a, p, q, X, Y: Qt(a, Qt(a, _nrm(p) * (1 + 3e-6), versor=False)), lambda p, q, X, Y: _nrm(p), 'unit'),
        'Q(3*Q)': (lambda a, p, q, X, Y: Qt(a, 3 * Qt(a, p)), lambda p, q, X, Y: _nrm(p), 'unit'),
        'Q(Q/7)': (lambda a, p, q, X, Y: Qt(a, Qt(a, p) / 7), lambda p, q, X, Y: _nrm(p), 'unit'),
        'Q((1+1e-6)*Q)': (lambda a, p, q, X, Y: Qt(a, (1 + 1e-6) * Qt(a, p)), lambda p, q, X, Y: _nrm(p), 'unit'),
        'Q(-Q)': (lambda a, p, q, X, Y: Qt(a, -Qt(a, p)), lambda p, q, X, Y: -_nrm(p), 'unit'),
        'Q(np.add(Q,Q))': (lambda a, p, q, X, Y: Qt(a, np.add(Qt(a, p), Qt(a, q))), lambda p, q, X, Y: _nrm(_nrm(p) + _nrm(q)), 'unit'),
        'Q(np.subtract(Q,Q))': (lambda a, p, q, X, Y: Qt(a, np.subtract(Qt(a, p), Qt(a, q))), lambda p, q, X, Y: _nrm(_nrm(p) - _nrm(q)), 'unit'),
        'Q(Q+Q)': (lambda a, p, q, X, Y: Qt(a, Qt(a, p) + Qt(a, q)), lambda p, q, X, Y: _nrm(_nrm(p) + _nrm(q)), 'unit'),
        'Q(Q[1:])': (lambda a, p, q, X, Y: Qt(a, Qt(a, p)[1:]), lambda p, q, X, Y: _nrm(_pad(np.asarray(p)[1:])), 'unit'),
        'Q(Q.view(ndarray))': (lambda a, p, q, X, Y: Qt(a, Qt(a, p, versor=False).view(np.ndarray)), lambda p, q, X, Y: _nrm(p), 'unit'),
        'Q(QA[k])': (lambda a, p, q, X, Y: Qt(a, QA(a, X, versors=False)[0]), lambda p, q, X, Y: _nrm(X[0]), 'unit'),
        'Q(Q.conjugate)': (lambda a, p, q, X, Y: Qt(a, Qt(a, p, versor=False).conjugate), lambda p, q, X, Y: _nrm(cm.qconj(p)), 'unit'),
        'Q(Q*Q)': (lambda a, p, q, X, Y: Qt(a, Qt(a, p, versor=False) * Qt(a, q, versor=False)), lambda p, q, X, Y: _nrm(cm.qmul(p, q)), 'unit'),
        'Q(order=S object)': (lambda a, p, q, X, Y: Qt(a, Qt(a, p, versor=False, order='S')), lambda p, q, X, Y: _nrm(p), 'unit'),
        # ---- + / - with object operands
        'Q + Q(versor=False)': (lambda a, p, q, X, Y: Qt(a, p) + Qt(a, q, versor=False), None, 'unit'),
        'Q(versor=False) - Q': (lambda a, p, q, X, Y: Qt(a, p, versor=False) - Qt(a, q), None, 'unit'),
        'Q(versor=False) + Q(versor=False)': (lambda a, p, q, X, Y: Qt(a, p, versor=False) + Qt(a, q, versor=False), None, 'unit'),
        'Q + 3*Q': (lambda a, p, q, X, Y: Qt(a, p) + 3 * Qt(a, q), None, 'unit'),
        '(3*Q) - Q': (lambda a, p, q, X, Y: (3 * Qt(a, p)) - Qt(a, q), None, 'unit'),
        'Q + QA[k]': (lambda a, p, q, X, Y: Qt(a, p) + QA(a, X)[0], lambda p, q, X, Y: _nrm(_nrm(p) + _nrm(X[0])), 'unit'),
        'Q - Q.view(ndarray)': (lambda a, p, q, X, Y: Qt(a, p) - Qt(a, q).view(np.ndarray), lambda p, q, X, Y: _nrm(_nrm(p) - _nrm(q)), 'unit'),
        # ---- QuaternionArray(<object>)
        'QA(QA)': (lambda a, p, q, X, Y: QA(a, QA(a, X)), lambda p, q, X, Y: _nrm(X), 'unit'),
        'QA(QA versors=False)': (lambda a, p, q, X, Y: QA(a, QA(a, X, versors=False)), lambda p, q, X, Y: _nrm(X), 'unit'),
        'QA(QA+QA)': (lambda a, p, q, X, Y: QA(a, QA(a, X) + QA(a, Y)), lambda p, q, X, Y: _nrm(_nrm(X) + _nrm(Y)), 'unit'),
        'QA(QA-QA)': (lambda a, p, q, X, Y: QA(a, QA(a, X) - QA(a, Y)), lambda p, q, X, Y: _nrm(_nrm(X) - _nrm(Y)), 'unit'),
        'QA(3*QA)': (lambda a, p, q, X, Y: QA(a, 3 * QA(a, X)), lambda p, q, X, Y: _nrm(X), 'unit'),
        'QA(QA/2)': (lambda a, p, q, X, Y: QA(a, QA(a, X) / 2), lambda p, q, X, Y: _nrm(X), 'unit'),
        'QA((1+1e-6)*QA)': (lambda a, p, q, X, Y: QA(a, (1 + 1e-6) * QA(a, X)), lambda p, q, X, Y: _nrm(X), 'unit'),
        'QA(-QA)': (lambda a, p, q, X, Y: QA(a, -QA(a, X)), lambda p, q, X, Y: -_nrm(X), 'unit'),
        'QA(QA[:,1:])': (lambda a, p, q, X, Y: QA(a, QA(a, X)[:, 1:]), lambda p, q, X, Y: _nrm(_pad(_nrm(X)[:, 1:])), 'unit'),
        'QA(QA[1:])': (lambda a, p, q, X, Y: QA(a, QA(a, X, versors=False)[1:]), lambda p, q, X, Y: _nrm(X[1:]), 'unit'),
        'QA(QA[::-1])': (lambda a, p, q, X, Y: QA(a, QA(a, X, versors=False)[::-1]), lambda p, q, X, Y: _nrm(X[::-1]), 'unit'),
        'QA(QA[[0,0]])': (lambda a, p, q, X, Y: QA(a, QA(a, X, versors=False)[[0, 0]]), lambda p, q, X, Y: _nrm(X[[0, 0]]), 'unit'),
        'QA(QA.view(ndarray))': (lambda a, p, q, X, Y: QA(a, QA(a, X, versors=False).view(np.ndarray)), lambda p, q, X, Y: _nrm(X), 'unit'),
        'QA(np.abs(QA))': (lambda a, p, q, X, Y: QA(a, np.abs(QA(a, X, versors=False))), lambda p, q, X, Y: _nrm(np.abs(X)), 'unit'),
        'QA(QA*QA elementwise)': (lambda a, p, q, X, Y: QA(a, QA(a, X) * QA(a, Y) + 2.0), None, 'unit'),
        'QA([Q,Q])': (lambda a, p, q, X, Y: QA(a, [Qt(a, p, versor=False), Qt(a, q)]), lambda p, q, X, Y: _nrm(np.array([p, q])), 'unit'),
        'QA(np.array([Q,Q]))': (lambda a, p, q, X, Y: QA(a, np.array([Qt(a, p, versor=False), Qt(a, q, versor=False)])), lambda p, q, X, Y: _nrm(np.array([p, q])), 'unit'),
        'QA(2*QA(versors=False), order=S)': (lambda a, p, q, X, Y: QA(a, 2 * QA(a, X, versors=False), order='S'), lambda p, q, X, Y: _nrm(X), 'unit'),
        # ---- rotate_by / average on and with objects
        'QA.rotate_by(Q)': (lambda a, p, q, X, Y: QA(a, X).rotate_by(Qt(a, q)), lambda p, q, X, Y: np.array([cm.qmul(_nrm(q), r) for r in _nrm(X)]), 'unit'),
        'QA.rotate_by(Q versor=False)': (lambda a, p, q, X, Y: QA(a, X).rotate_by(Qt(a, q, versor=False)), lambda p, q, X, Y: np.array([cm.qmul(_nrm(q), r) for r in _nrm(X)]), 'unit'),
        'QA.rotate_by(3*Q)': (lambda a, p, q, X, Y: QA(a, X).rotate_by(3 * Qt(a, q)), lambda p, q, X, Y: np.array([cm.qmul(_nrm(q), r) for r in _nrm(X)]), 'unit'),
        'QA.rotate_by(QA[k])': (lambda a, p, q, X, Y: QA(a, X).rotate_by(QA(a, Y, versors=False)[0]), lambda p, q, X, Y: np.array([cm.qmul(_nrm(Y[0]), r) for r in _nrm(X)]), 'unit'),
        'QA(3*QA).rotate_by(Q)': (lambda a, p, q, X, Y: QA(a, 3 * QA(a, X)).rotate_by(Qt(a, q)), lambda p, q, X, Y: np.array([cm.qmul(_nrm(q), r) for r in _nrm(X)]), 'unit'),
        'QA(QA versors=False).rotate_by(Q)': (lambda a, p, q, X, Y: QA(a, QA(a, X, versors=False)).rotate_by(Qt(a, q)), lambda p, q, X, Y: np.array([cm.qmul(_nrm(q), r) for r in _nrm(X)]), 'unit'),
        'QA(versors=False).rotate_by(Q)': (lambda a, p, q, X, Y: QA(a, X, versors=False).rotate_by(Qt(a, q)), None, 'unit'),
        'QA(QA+QA).average()': (lambda a, p, q, X, Y: QA(a, QA(a, X) + QA(a, X + 0.05 * Y)).average(), None, 'unit'),
        'QA(QA versors=False).average()': (lambda a, p, q, X, Y: QA(a, QA(a, X, versors=False)).average(), None, 'unit'),
        'QA(3*QA).average()': (lambda a, p, q, X, Y: QA(a, 3 * QA(a, X)).average(), None, 'unit'),
        'QA(QA[:,1:]).average()': (lambda a, p, q, X, Y: QA(a, QA(a, X)[:, 1:]).average(), None, 'unit'),
        # ---- DCM(<object>) and conversions between the classes
        'DCM(DCM)': (lambda a, p, q, X, Y: D(a, D(a, q=p)), lambda p, q, X, Y: Rq(p), 'so3'),
        'DCM(DCM@DCM)': (lambda a, p, q, X, Y: D(a, D(a, q=p) @ D(a, q=q)), lambda p, q, X, Y: Rq(p) @ Rq(q), 'so3'),
        'DCM(DCM.T)': (lambda a, p, q, X, Y: D(a, D(a, q=p).T), lambda p, q, X, Y: Rq(p).T, 'so3'),
        'DCM(DCM.I)': (lambda a, p, q, X, Y: D(a, D(a, q=p).I), lambda p, q, X, Y: Rq(p).T, 'so3'),
        'DCM(DCM.view(ndarray))': (lambda a, p, q, X, Y: D(a, D(a, q=p).view(np.ndarray)), lambda p, q, X, Y: Rq(p), 'so3'),
        'DCM(np.array([DCM,DCM]))': (lambda a, p, q, X, Y: D(a, np.array([D(a, q=p), D(a, q=q)])), lambda p, q, X, Y: np.array([Rq(p), Rq(q)]), 'so3'),
        'DCM(Q.to_DCM())': (lambda a, p, q, X, Y: D(a, Qt(a, p).to_DCM()), lambda p, q, X, Y: Rq(p), 'so3'),
        'DCM(q=Q)': (lambda a, p, q, X, Y: D(a, q=Qt(a, p)), lambda p, q, X, Y: Rq(p), 'so3'),
        'DCM(q=Q versor=False)': (lambda a, p, q, X, Y: D(a, q=Qt(a, p, versor=False)), lambda p, q, X, Y: Rq(p), 'so3'),
        'DCM(q=3*Q)': (lambda a, p, q, X, Y: D(a, q=3 * Qt(a, p)), lambda p, q, X, Y: Rq(p), 'so3'),
        'DCM(q=QA(versors=False)[k])': (lambda a, p, q, X, Y: D(a, q=QA(a, X, versors=False)[0]), lambda p, q, X, Y: Rq(X[0]), 'so3'),
        'DCM(axang=(Q[1:],t))': (lambda a, p, q, X, Y: D(a, axang=(Qt(a, p, versor=False)[1:], 0.75)), None, 'so3'),
        'DCM(-DCM)': (lambda a, p, q, X, Y: D(a, -D(a, q=p)), None, 'reject'),
        'DCM(2*DCM)': (lambda a, p, q, X, Y: D(a, 2 * D(a, q=p)), None, 'reject'),
        'DCM((1+1e-4)*DCM)': (lambda a, p, q, X, Y: D(a, (1 + 1e-4) * D(a, q=p)), None, 'reject'),
        'DCM(DCM[::-1])': (lambda a, p, q, X, Y: D(a, D(a, q=p)[::-1]), None, 'reject'),
        'DCM(DCM+DCM)': (lambda a, p, q, X, Y: D(a, D(a, q=p) + D(a, q=q)), None, 'reject'),
        # ---- memory layout: transposed / Fortran-ordered / strided inputs hold the same numbers
        'DCM(ndarray.T)': (lambda a, p, q, X, Y: D(a, Rq(p).T), lambda p, q, X, Y: Rq(p).T, 'so3'),
        'DCM(asfortranarray)': (lambda a, p, q, X, Y: D(a, np.asfortranarray(Rq(p))), lambda p, q, X, Y: Rq(p), 'so3'),
        'DCM(swapaxes(stack))': (lambda a, p, q, X, Y: D(a, np.swapaxes(np.array([Rq(p), Rq(q)]), -1, -2)), lambda p, q, X, Y: np.array([Rq(p).T, Rq(q).T]), 'so3'),
        'DCM(strided view)': (lambda a, p, q, X, Y: D(a, np.kron(Rq(p), np.ones((2, 2)))[::2, ::2]), lambda p, q, X, Y: Rq(p), 'so3'),
        'QA(asfortranarray)': (lambda a, p, q, X, Y: QA(a, np.asfortranarray(X)), lambda p, q, X, Y: _nrm(X), 'unit'),
        'QA(ndarray.T of 4xN)': (lambda a, p, q, X, Y: QA(a, np.ascontiguousarray(X.T).T), lambda p, q, X, Y: _nrm(X), 'unit'),
        'QA(asfortranarray Nx3)': (lambda a, p, q, X, Y: QA(a, np.asfortranarray(X[:, 1:])), lambda p, q, X, Y: _nrm(_pad(X[:, 1:])), 'unit'),
        'QA(strided view)': (lambda a, p, q, X, Y: QA(a, np.repeat(X, 2, axis=1)[:, ::2]), lambda p, q, X, Y: _nrm(X), 'unit'),
        'QA(asfortranarray, versors=False)': (lambda a, p, q, X, Y: QA(a, np.asfortranarray(_nrm(X)), versors=False), lambda p, q, X, Y: _nrm(X), 'unit'),
        'Q(strided view)': (lambda a, p, q, X, Y: Qt(a, np.repeat(p, 2)[::2]), lambda p, q, X, Y: _nrm(p), 'unit'),
        'QA(asfortranarray).rotate_by(Q)': (lambda a, p, q, X, Y: QA(a, np.asfortranarray(X)).rotate_by(Qt(a, q)), lambda p, q, X, Y: np.array([cm.qmul(_nrm(q), r) for r in _nrm(X)]), 'unit'),
        'Q(dcm=ndarray.T)': (lambda a, p, q, X, Y: np.asarray(Qt(a, dcm=Rq(p).T)) * np.sign(np.asarray(Qt(a, dcm=Rq(p).T)) @ _nrm(cm.qconj(p))), lambda p, q, X, Y: _nrm(cm.qconj(p)), 'unit'),
        'Q(dcm=DCM)': (lambda a, p, q, X, Y: Qt(a, dcm=D(a, q=p)), None, 'unit'),
        'Q(dcm=DCM@DCM)': (lambda a, p, q, X, Y: Qt(a, dcm=D(a, q=p) @ D(a, q=q)), None, 'unit'),
        'Q(dcm=DCM.T)': (lambda a, p, q, X, Y: Qt(a, dcm=D(a, q=p).T), None, 'unit'),
        'Q(dcm=2*DCM)': (lambda a, p, q, X, Y: Qt(a, dcm=2 * D(a, q=p)), None, 'reject'),
        'Q(dcm=-DCM)': (lambda a, p, q, X, Y: Qt(a, dcm=-D(a, q=p)), None, 'reject'),
        'Q(dcm=shear of DCM)': (lambda a, p, q, X, Y: Qt(a, dcm=D(a, q=p) @ np.array([[1, 1e-3, 0], [0, 1, 0], [0, 0, 1.0]])), None, 'reject'),
        'QA(DCM=stack of DCM)': (lambda a, p, q, X, Y: QA(a, DCM=np.array([D(a, q=p), D(a, q=q), D(a, q=p) @ D(a, q=q)])), None, 'unit'),
    }
    return C


def o_own_objects(inp):
    """constructors and operators fed with instances of the package's own classes and arrays derived from them"""
    import ahrs
    case = inp['case']
    build, ref, kind = own_cases()[case]
    p, q = np.array(inp['p'], float), np.array(inp['q'], float)
    X, Y = np.array(inp['X'], float), np.array(inp['Y'], float)
    try:
        with np.errstate(all='ignore'):
            r = np.asarray(build(ahrs, p, q, X, Y))
    except REJ as e:
        if kind == 'reject':
            return None
        return {'tag': f'{case}/rejects-valid-input', 'observed': f'{type(e).__name__}: {e}'}
    if kind == 'reject':
        return {'tag': f'{case}/accepts-non-rotation', 'observed': r, 'expected': 'ValueError/TypeError'}
    if np.iscomplexobj(r) or r.dtype != np.dtype(float) or cm.bad(r):
        return {'tag': f'{case}/nonfinite-or-not-real', 'observed': r}
    if kind == 'unit':
        if r.shape[-1] != 4:
            return {'tag': f'{case}/shape', 'observed': r.shape}
        nr = np.linalg.norm(r.reshape(-1, 4), axis=1)
        if cm.maxabs(nr, 1.0) > TOL:
            return {'tag': f'{case}/not-unit', 'observed': nr, 'expected': 1.0}
    else:
        res = max(_so3_res(m) for m in r.reshape(-1, 3, 3))
        if res > TOL:
            return {'tag': f'{case}/not-SO3', 'observed': res, 'expected': f'<= {TOL}'}
    if ref is not None:
        e = np.asarray(ref(p, q, X, Y), float)
        if e.shape != r.shape or cm.maxabs(r, e) > 1e-11:
            return {'tag': f'{case}/not-the-expected-value', 'observed': r, 'expected': e}
    return None


ZERO_ROUTES = {
    # route -> (what, strict).  strict: a constructor that must raise ValueError/TypeError and never return an object;
    # not strict: a plain method returning an ndarray, which on the unmodified code answers NaN: it must never answer a FINITE result
    'DCM(q=)': ('quaternion', True), 'DCM.from_quaternion': ('quaternion', False), 'DCM.from_q': ('quaternion', False),
    'Quaternion': ('quaternion', True), 'Quaternion(versor=False)': ('quaternion', True), "Quaternion(order='S')": ('quaternion', True),
    'QuaternionArray': ('quaternion', True), 'QuaternionArray(versors=False)': ('quaternion', True),
    'DCM(axang=)': ('axis', True), 'DCM.from_axisangle': ('axis', False), 'DCM.from_axang': ('axis', False),
    'DCM': ('matrix', True), 'Quaternion(dcm=)': ('matrix', True),
    'rotate_by': ('quaternion', False), 'DCM(q=Quaternion-row-of-zeros view)': ('quaternion', True),
}


def o_zero_inputs(inp):
    """an exactly-zero quaternion / axis / matrix (alone, or as one row / one matrix of a batch, at the first, a middle or the last
    position) can never be turned into a rotation: constructors raise ValueError/TypeError, plain methods never answer a finite result"""
    import ahrs
    route = inp['route']
    what, strict = ZERO_ROUTES[route]
    dim = {'quaternion': inp.get('dim', 4), 'axis': 3, 'matrix': 9}[what]
    N, pos = inp.get('N', 0), inp.get('pos', 0)
    zero = np.zeros(dim) * (-1.0 if inp.get('negzero') else 1.0)
    if inp.get('mixzero'):
        zero[::2] = -0.0
    if what == 'matrix':
        zero = zero.reshape(3, 3)
        good = cm.Rspec(_nrm(np.array([1.0, 2.0, 3.0, 4.0])))
    else:
        good = np.arange(1.0, dim + 1.0)
    if N:
        arg = np.array([good * (k + 1) if what != 'matrix' else good for k in range(N)])
        arg[pos] = zero
    else:
        arg = zero
    form = inp.get('form', 'ndarray')
    arg = arg.tolist() if form == 'list' else tuple(arg.tolist()) if form == 'tuple' else arg
    ang = inp.get('angle', 0.3)
    rows = np.array([[1.0, 2.0, 3.0, 4.0], [0.0, 1.0, 0.0, 0.0], [4.0, 3.0, 2.0, 1.0]])
    call = {
        'DCM(q=)': lambda: ahrs.DCM(q=arg),
        'DCM.from_quaternion': lambda: ahrs.DCM().from_quaternion(np.array(arg, float)),
        'DCM.from_q': lambda: ahrs.DCM().from_q(np.array(arg, float)),
        'Quaternion': lambda: ahrs.Quaternion(arg),
        'Quaternion(versor=False)': lambda: ahrs.Quaternion(arg, versor=False),
        "Quaternion(order='S')": lambda: ahrs.Quaternion(arg, order='S'),
        'QuaternionArray': lambda: ahrs.QuaternionArray(arg),
        'QuaternionArray(versors=False)': lambda: ahrs.QuaternionArray(arg, versors=False),
        'DCM(axang=)': lambda: ahrs.DCM(axang=(arg, ang)),
        'DCM.from_axisangle': lambda: ahrs.DCM().from_axisangle(np.array(arg, float), ang),
        'DCM.from_axang': lambda: ahrs.DCM().from_axang(np.array(arg, float), ang),
        'DCM': lambda: ahrs.DCM(np.array(arg, float) if form == 'ndarray' else arg),
        'Quaternion(dcm=)': lambda: ahrs.Quaternion(dcm=np.array(arg, float)),
        'rotate_by': lambda: ahrs.QuaternionArray(rows).rotate_by(arg),
        'DCM(q=Quaternion-row-of-zeros view)': lambda: ahrs.DCM(q=(ahrs.QuaternionArray(rows) * 0.0)[pos % 3] if not N else ahrs.QuaternionArray(rows) * np.array([[float(k != pos % 3)] for k in range(3)])),
    }[route]
    try:
        with np.errstate(all='ignore'):
            r = np.asarray(call())
    except REJ:
        return None
    where = '' if not N else '-in-batch-' + ('first' if pos == 0 else 'last' if pos == N - 1 else 'middle')
    if strict:
        return {'tag': f'{route}/zero-{what}-accepted{where}', 'observed': r, 'expected': 'ValueError'}
    if r.dtype.kind == 'f' and r.size and np.all(np.isfinite(r)):
        return {'tag': f'{route}/zero-{what}-gives-finite-result{where}', 'observed': r, 'expected': 'ValueError or a non-finite answer'}
    return None


DCM_METHODS = [('shepperd', {}), ('hughes', {}), ('chiaverini', {}), ('sarabandi', {}), ('sarabandi', {'threshold': 0.5}),
               ('itzhack', {'version': 1}), ('itzhack', {'version': 2}), ('itzhack', {'version': 3})]


def rotation_regions(rng, n):
    """valid rotation matrices from the thin regions of SO(3), built without the package: exact half-turns about generic axes
    (as 2nn^T - I and as the matrix of a pure quaternion), near-half-turns, identity, near-identity, quarter turns, scalar part < 0"""
    out = [('identity', np.eye(3))]
    for ax in np.eye(3):
        out.append(('half-turn', 2 * np.outer(ax, ax) - np.eye(3)))
        out.append(('quarter-turn', cm.Rspec(cm.axang_q(ax, math.pi / 2))))
    for ax in ([1, 1, 0], [1, 1, 1], [0, 1, -1], [1, 2, 3]):
        a = np.array(ax, float) / np.linalg.norm(ax)
        out.append(('half-turn', 2 * np.outer(a, a) - np.eye(3)))
        out.append(('half-turn', cm.Rspec(np.r_[0.0, a])))
    for _ in range(n):
        a = rng.standard_normal(3); a /= np.linalg.norm(a)
        out.append(('half-turn', 2 * np.outer(a, a) - np.eye(3)))
        out.append(('half-turn', cm.Rspec(np.r_[0.0, a])))
        for d in (1e-12, 1e-9, 1e-7, 1e-6, 1e-4, 1e-3):
            out.append(('near-half-turn', cm.Rspec(cm.axang_q(a, math.pi - d))))
            out.append(('near-half-turn', cm.Rspec(cm.axang_q(a, math.pi + d))))
            out.append(('near-identity', cm.Rspec(cm.axang_q(a, d))))
        out.append(('generic', cm.Rspec(cm.rand_unit_quat(rng))))
        out.append(('quarter-turn', cm.Rspec(cm.axang_q(a, math.pi / 2))))
        out.append(('generic', cm.Rspec(cm.axang_q(a, math.pi + 0.3))))
    return out


def o_dcm_methods(inp):
    """Quaternion(dcm=R, method=m) / QuaternionArray(DCM=[R..], method=m) on a VALID rotation matrix, every method: accepted, real
    float64, unit to 1e-12.  (Which of +-q / whether it is the right rotation is property C02, not checked here.)"""
    import ahrs
    Rm = np.array(inp['M'], float)
    entry, m, kw = inp['entry'], inp['method'], dict(inp.get('kw', {}))
    reg = inp.get('region', 'generic')
    cls = reg if reg in ('half-turn', 'near-half-turn') else 'rotation'
    try:
        with np.errstate(all='ignore'):
            if entry == 'Quaternion(dcm=)':
                q = np.asarray(ahrs.Quaternion(dcm=Rm.copy(), method=m, **kw))[None, :]
                nrow = 1
            else:
                nrow = int(inp.get('N', 2))
                q = np.asarray(ahrs.QuaternionArray(DCM=np.array([Rm] * nrow), method=m, **kw))
    except REJ as e:
        return {'tag': f'{entry}/{m}/rejects-valid-{cls}', 'observed': f'{type(e).__name__}: {e}', 'expected': 'a unit quaternion'}
    if np.iscomplexobj(q) or q.dtype != np.dtype(float) or cm.bad(q) or q.shape != (nrow, 4):
        return {'tag': f'{entry}/{m}/nonfinite-or-not-real-{cls}', 'observed': q}
    nr = np.linalg.norm(q, axis=1)
    if cm.maxabs(nr, 1.0) > TOL:
        return {'tag': f'{entry}/{m}/not-unit-{cls}', 'observed': nr, 'expected': 1.0}
    return None


ORACLES = {'zero_inputs': o_zero_inputs, 'own_objects': o_own_objects, 'dcm_methods': o_dcm_methods, 'quat': o_quat, 'ops': o_ops, 'dcm_route': o_dcm_route, 'so3_boundary': o_so3_boundary, 'decision': o_decision}

NS = (1, 2, 3, 4, 5, 7)


def search(ctx, scale):
    rng = ctx.rng
    n = 40 * scale
    # ---- constructors on finite non-zero vectors, norms 1e-100 .. 1e100, all container forms, N in NS
    v4, v3 = vectors(rng, n, 4), vectors(rng, n, 3)
    forms = ('ndarray', 'list', 'tuple')
    for i in range(max(len(v4), len(v3))):
        (r4, a), (r3, b) = v4[i % len(v4)], v3[i % len(v3)]
        for entry in ('Quaternion', 'QuaternionArray'):
            for rows, reg in ((a, r4), (b, r3)):
                inp = {'entry': entry, 'rows': [rows.tolist()], 'form': forms[i % 3], 'region': reg}
                if i % 4 == 1:
                    inp['order'] = 'S'
                ctx.check('quat', inp, cm_call(o_quat, inp), nontrivial_key=(entry, len(rows), reg, tuple(np.round(rows / np.linalg.norm(rows), 6))))
        N = NS[i % len(NS)]
        for dim, pool in ((4, v4), (3, v3)):
            rows = [pool[(i * 3 + k) % len(pool)][1].tolist() for k in range(N)]
            inp = {'entry': 'QuaternionArray', 'rows': rows, 'form': forms[(i + 1) % 3]}
            ctx.check('quat', inp, cm_call(o_quat, inp), nontrivial_key=('QA', N, dim, i))
    # exactly representable integer inputs in integer dtype / lists
    for N in NS:
        rows = [[(k + j) % 5 - 2 if (k + j) % 5 != 2 else 3 for j in range(4)] for k in range(N)]
        for form in ('int', 'list'):
            inp = {'entry': 'QuaternionArray', 'rows': rows, 'form': form}
            ctx.check('quat', inp, cm_call(o_quat, inp), nontrivial_key=('QA-int', N, form))
        inp = {'entry': 'Quaternion', 'rows': [rows[0]], 'form': 'int'}
        ctx.check('quat', inp, cm_call(o_quat, inp), nontrivial_key=('Q-int', N))
    # ---- sums, differences
    mod = [v for _, v in v4 if 1e-100 <= np.linalg.norm(v) <= 1e100]
    for i, p in enumerate(mod):
        q = mod[(7 * i + 2) % len(mod)]
        for op in ('add', 'sub'):
            inp = {'op': op, 'p': p.tolist(), 'q': q.tolist()}
            ctx.check('ops', inp, cm_call(o_ops, inp, op), nontrivial_key=(op, i))
        if i < 6:
            for op, qq in (('sub', p), ('add', -p), ('sub', p * 3.0), ('add', p * (1 + 1e-9))):
                inp = {'op': op, 'p': p.tolist(), 'q': qq.tolist()}
                ctx.check('ops', inp, cm_call(o_ops, inp, op), nontrivial_key=(op, 'cancel', i))
    # pure operands (3-vectors / scalar part exactly 0), every length band, mixed with 4-vectors
    pure = [v for _, v in v3 if 1e-100 <= np.linalg.norm(v) <= 1e100]
    for i, p in enumerate(pure):
        q = pure[(5 * i + 1) % len(pure)]
        q4 = mod[(3 * i + 1) % len(mod)]
        for op in ('add', 'sub'):
            for qq in (q, q4, np.r_[0.0, q]):
                inp = {'op': op, 'p': p.tolist(), 'q': np.asarray(qq).tolist()}
                ctx.check('ops', inp, cm_call(o_ops, inp, op), nontrivial_key=(op, 'pure', i, len(qq)))
    # ---- random attitudes: bound draws (corners of the cube included), free draws, every N, both representations
    us = [[0, 0, 0], [1, 0, 0], [0, 1, 1], [1, 1, 1], [0.5, 0.5, 0.5], [1e-300, 0.25, 0.75], [1 - 2 ** -53, 0.1, 0.2]]
    us += [rng.uniform(0, 1, 3).tolist() for _ in range(n)]
    for i, u in enumerate(us):
        for rep in ('quaternion', 'rotmat'):
            inp = {'op': 'random', 'n': NS[i % len(NS)], 'u': u, 'representation': rep}
            ctx.check('ops', inp, cm_call(o_ops, inp, 'random_attitudes'), nontrivial_key=('random', rep, i))
    for N in NS:
        for via in (None, 'QuaternionArray'):
            inp = {'op': 'random', 'n': N, 'via': via}
            ctx.check('ops', inp, cm_call(o_ops, inp, 'random_attitudes'), nontrivial_key=('random-free', N, via))
    inp = {'op': 'random', 'n': 1, 'via': 'Quaternion'}
    ctx.check('ops', inp, cm_call(o_ops, inp, 'random_attitudes'), nontrivial_key=('random-free', 'Quaternion'))
    # ---- rotate_by, average over N rows
    for i in range(n):
        N = NS[i % len(NS)]
        rows = [(cm.rand_unit_quat(rng) * 10.0 ** rng.uniform(-3, 3)).tolist() for _ in range(N)]
        q = cm.rand_unit_quat(rng) * 10.0 ** rng.uniform(-50, 50)
        inp = {'op': 'rotate_by', 'rows': rows, 'q': q.tolist(), 'form': forms[i % 3], 'twice': i % 2 == 0}
        ctx.check('ops', inp, cm_call(o_ops, inp, 'rotate_by'), nontrivial_key=('rotate_by', N, i))
        base = cm.rand_unit_quat(rng)
        rows = [(base + 0.1 * rng.standard_normal(4)).tolist() for _ in range(N)]
        inp = {'op': 'average', 'rows': rows}
        if i % 3 == 0:
            inp['weights'] = rng.uniform(0.5, 2.0, N).tolist()
        ctx.check('ops', inp, cm_call(o_ops, inp, 'average'), nontrivial_key=('average', N, i))
    # thin regions: rotating quaternion at every length band; rows that are pure quaternions / given as an N-by-3 array /
    # half-turn sets; averages of half-turn sets (dominant eigenvector with scalar part exactly 0), of identical rows,
    # of a single row, of axis-aligned rows, with and without weights, called twice
    bq = band_vectors(rng, 4, ndir=1)
    for i, (reg, q) in enumerate(bq):
        N = NS[i % len(NS)]
        kind = i % 3
        if kind == 0:
            rows = [(rng.standard_normal(3) * 10.0 ** rng.uniform(-3, 3)).tolist() for _ in range(N)]           # N-by-3
        elif kind == 1:
            rows = [np.r_[0.0, rng.standard_normal(3)].tolist() for _ in range(N)]                                 # pure, N-by-4
        else:
            rows = [(cm.rand_unit_quat(rng) * BANDS[(i + k) % len(BANDS)]).tolist() for k in range(N)]
        inp = {'op': 'rotate_by', 'rows': rows, 'q': q.tolist(), 'form': forms[i % 3], 'twice': i % 2 == 0, 'region': reg}
        ctx.check('ops', inp, cm_call(o_ops, inp, 'rotate_by'), nontrivial_key=('rotate_by', 'band', reg, i))
    av = []
    for N in NS:
        v = rng.standard_normal(3)
        av.append(('N-by-3 noisy', (v + 0.05 * rng.standard_normal((N, 3))).tolist()))
        av.append(('pure N-by-4 noisy', np.c_[np.zeros(N), v + 0.05 * rng.standard_normal((N, 3))].tolist()))
        av.append(('copies of a half-turn', np.tile(np.r_[0.0, v], (N, 1)).tolist()))
        av.append(('copies of an axis half-turn', np.tile([0.0, 0.0, 0.0, 2.0], (N, 1)).tolist()))
        av.append(('copies of the identity', np.tile([1.0, 0.0, 0.0, 0.0], (N, 1)).tolist()))
        av.append(('copies of a generic quaternion', np.tile(cm.rand_unit_quat(rng) * 3.0, (N, 1)).tolist()))
        av.append(('half-turns about x+-0.1y', [[0.0, 1.0, 0.1 * (-1) ** k, 0.0] for k in range(N)]))
        av.append(('negative scalar parts', (-np.abs(cm.rand_unit_quat(rng)) + 0.05 * rng.standard_normal((N, 4))).tolist()))
        av.append(('tiny scalar parts', np.c_[1e-9 * rng.standard_normal(N), v + 0.05 * rng.standard_normal((N, 3))].tolist()))
        av.append(('length bands', [(np.r_[0.3, v] * BANDS[(N + k) % len(BANDS)]).tolist() for k in range(N)]))
    for i, (reg, rows) in enumerate(av):
        inp = {'op': 'average', 'rows': rows, 'region': reg, 'twice': i % 2 == 0}
        if i % 4 == 1:
            inp['weights'] = rng.uniform(0.5, 2.0, len(rows)).tolist()
        ctx.check('ops', inp, cm_call(o_ops, inp, 'average'), nontrivial_key=('average', reg, len(rows)))
    # ---- DCM routes
    qs = cm.quats(rng, n)
    # thin regions: DCM(q=) and DCM(axang=) with the quaternion / axis at every length band (a valid axis of any non-zero
    # length must give the rotation asked for: never rejected, never merely "accepted by the gate")
    for i, (reg, q) in enumerate(band_vectors(rng, 4, ndir=1)):
        inp = {'route': 'q', 'q': q.tolist(), 'form': forms[i % 3], 'region': reg}
        ctx.check('dcm_route', inp, cm_call(o_dcm_route, inp, 'DCM(q=)'), nontrivial_key=('q', 'band', reg, i))
    angs = [0.75, -2.0, math.pi, 1e-6, 3.0, -0.1, math.pi / 2, 6.0]
    for i, (reg, ax) in enumerate(band_vectors(rng, 3, ndir=2)):
        inp = {'route': 'axang', 'axis': ax.tolist(), 'angle': angs[i % len(angs)], 'form': forms[i % 3], 'region': reg}
        ctx.check('dcm_route', inp, cm_call(o_dcm_route, inp, 'DCM(axang=)'), nontrivial_key=('axang', 'band', reg, i))
    for i, (reg, q) in enumerate(qs):
        R = cm.Rspec(q)
        for form in forms + ('int',):
            Mx = R if form != 'int' else np.round(cm.Rspec(np.array([[1, 0, 0, 0], [0, 1, 0, 0], [.5, .5, .5, .5], [0, 0, 1, 0]][i % 4], float)))
            inp = {'route': 'matrix', 'M': Mx.tolist(), 'form': form, 'region': reg}
            ctx.check('dcm_route', inp, cm_call(o_dcm_route, inp, f'DCM(matrix)/{form}'), nontrivial_key=('matrix', form, i))
        inp = {'route': 'q', 'q': (q * 10.0 ** rng.uniform(-100, 100)).tolist(), 'form': forms[i % 3]}
        ctx.check('dcm_route', inp, cm_call(o_dcm_route, inp, 'DCM(q=)'), nontrivial_key=('q', i))
    seqs = ['z', 'x', 'y', 'zxz', 'xyz', 'ZYX', 'yxy', 'zyzx', 'xxyyzz', 'Xz']
    for i, (a, b, c) in enumerate(angle_sets(rng, n)):
        inp = {'route': 'xyz', 'x': a, 'y': b, 'z': c, 'degrees': i % 3 == 1}
        if i % 5 == 4:
            del inp['y']
        ctx.check('dcm_route', inp, cm_call(o_dcm_route, inp, 'DCM(xyz=)'), nontrivial_key=('xyz', i))
        inp = {'route': 'rpy', 'angles': [a, b, c], 'form': ('list', 'ndarray', 'tuple')[i % 3]}
        ctx.check('dcm_route', inp, cm_call(o_dcm_route, inp, 'DCM(rpy=)'), nontrivial_key=('rpy', i))
        seq = seqs[i % len(seqs)]
        angs = ([a, b, c] * 2)[:len(seq)]
        inp = {'route': 'euler', 'seq': seq, 'angles': angs}
        ctx.check('dcm_route', inp, cm_call(o_dcm_route, inp, 'DCM(euler=)'), nontrivial_key=('euler', seq, i))
        ax = rng.standard_normal(3) * 10.0 ** rng.uniform(-100, 100) if i % 4 else np.eye(3)[i % 3] * (3.0 if i % 8 else 1.0)
        inp = {'route': 'axang', 'axis': ax.tolist(), 'angle': a, 'form': forms[i % 3]}
        ctx.check('dcm_route', inp, cm_call(o_dcm_route, inp, 'DCM(axang=)'), nontrivial_key=('axang', i))
    # ---- the acceptance boundary
    fams = ('reflection', 'scaled', 'shear', 'nan', 'generic', 'neg')
    for i, (reg, q) in enumerate(qs):
        R = cm.Rspec(q)
        near = R + rng.uniform(-1e-12, 1e-12, (3, 3))
        fam = fams[i % len(fams)]
        # the first cases sit right at the edge of the rejected class (distance just above 1e-4)
        eps = rng.choice([-1, 1]) * (1.01e-4 if i < 18 else 10.0 ** rng.uniform(-3.9, 0.5))
        if fam == 'reflection':
            far = R @ np.diag([1.0, -1.0, 1.0][i % 3:] + [1.0, -1.0, 1.0][:i % 3]) if i % 2 else R @ np.array([[0, 1, 0], [1, 0, 0], [0, 0, 1.0]])
        elif fam == 'scaled':
            far = (1 + eps) * R
        elif fam == 'shear':
            S = np.eye(3); S[0, 1] = eps; far = R @ S
        elif fam == 'nan':
            far = R.copy(); far[i % 3, (i // 3) % 3] = np.nan
        elif fam == 'neg':
            far = -R
        else:
            far = R + rng.standard_normal((3, 3)) * 10.0 ** rng.uniform(-3.3, 0)
            if np.linalg.norm(far - nearest_rotation(far)) <= 1.2e-4:
                far = R * 1.01
        for entry in ('DCM', 'Quaternion(dcm=)', 'QuaternionArray(DCM=)'):
            inp = {'entry': entry, 'M': near.tolist(), 'expect': 'accept', 'region': reg}
            ctx.check('so3_boundary', inp, cm_call(o_so3_boundary, inp, entry), nontrivial_key=(entry, 'near', i))
            inp = {'entry': entry, 'M': [[repr(x) if x != x else x for x in r] for r in far.tolist()], 'expect': 'reject', 'family': fam}
            ctx.check('so3_boundary', inp, cm_call(o_so3_boundary, inp, entry), nontrivial_key=(entry, fam, i))
    # ---- exactly-zero quaternion / axis / matrix through every route, alone and at every position of a batch
    for route, (what, strict) in ZERO_ROUTES.items():
        batch = route in ('DCM(q=)', 'DCM.from_quaternion', 'DCM.from_q', 'QuaternionArray', 'QuaternionArray(versors=False)', 'DCM',
                          'DCM(q=Quaternion-row-of-zeros view)')
        single = not route.startswith('QuaternionArray')
        cases = []
        if single:
            for form in forms:
                for neg in (False, True):
                    cases.append({'route': route, 'form': form, 'negzero': neg})
            cases.append({'route': route, 'mixzero': True})
            if route.startswith('Quaternion') and 'dcm' not in route:
                cases += [{'route': route, 'dim': 3, 'form': f} for f in forms]
            if what == 'axis':
                cases += [{'route': route, 'angle': a} for a in (0.0, math.pi, -2.0, 1e-9)]
        if batch:
            for N in NS:
                for pos in sorted({0, N // 2, N - 1}):
                    for form in (forms if N in (1, 3) else forms[:1]):
                        c = {'route': route, 'N': N, 'pos': pos, 'form': form, 'negzero': (N + pos) % 2 == 1}
                        cases.append(c)
                        if route.startswith('QuaternionArray'):
                            cases.append({**c, 'dim': 3})
        for inp in cases:
            ctx.check('zero_inputs', inp, cm_call(o_zero_inputs, inp, route),
                      nontrivial_key=(route, inp.get('N', 0), inp.get('pos', 0), inp.get('form'), inp.get('dim'), inp.get('negzero'), inp.get('angle')))
    # ---- instances of the package's own classes and arrays derived from them as inputs
    names = list(own_cases())
    for rep in range(2 * scale):
        N = NS[rep % len(NS)] if rep else 5
        N = max(N, 2)
        for case in names:
            sc = (1.0, 3.0, 1e-3, 1 + 1e-6, 1e3)[(rep + len(case)) % 5]
            inp = {'case': case, 'p': (cm.rand_unit_quat(rng) * sc).tolist(), 'q': (cm.rand_unit_quat(rng) * (2.0 if rep % 2 else 0.5)).tolist(),
                   'X': (rng.standard_normal((N, 4)) * sc).tolist(), 'Y': rng.standard_normal((N, 4)).tolist()}
            ctx.check('own_objects', inp, cm_call(o_own_objects, inp, case), nontrivial_key=(case, rep))
    # ---- every DCM -> quaternion method, through both constructors, on valid rotations of every thin region
    for i, (reg, Rm) in enumerate(rotation_regions(rng, 5 * scale)):
        for m, kw in DCM_METHODS:
            for entry in ('Quaternion(dcm=)', 'QuaternionArray(DCM=)'):
                inp = {'entry': entry, 'method': m, 'kw': kw, 'M': Rm.tolist(), 'region': reg}
                if entry.startswith('QuaternionArray'):
                    inp['N'] = NS[i % len(NS)]
                ctx.check('dcm_methods', inp, cm_call(o_dcm_methods, inp, f'{entry}/{m}'),
                          nontrivial_key=(entry, m, tuple(kw.items()), reg, i) if reg != 'identity' else None)
    # ---- rejections of what cannot be a rotation (a sample of the decision grid goes through the oracle as well)
    cells = grid_cells()
    pick = [c for c in cells if c[0][-1] in ('zero', 'zerorow', 'nan', 'reflect', 'scaled') or len(c[0]) == 3]
    for c in pick[::max(1, len(pick) // (150 * scale))]:
        key = c[0]
        exp = 'VErr' if len(key) == 5 else None
        if exp is None:
            continue
        x = c[2]
        got = grid_outcome(key[0], x)
        if got in ('VErr', 'TErr') or (key[0] == 'QArr' and key[-1] in ('reflect', 'scaled')) or (np.size(np.asarray(x, dtype=object)) == 0):
            exp = got
        inp = {'ctor': key[0], 'cell': list(key[1:]), 'expected': exp}
        ctx.check('decision', inp, cm_call(o_decision, inp, key[0]), nontrivial_key=('cell',) + tuple(str(k) for k in key))
    ctx.samples.append({'kind': 'search', 'oracle': 'quat', 'input': {'entry': 'Quaternion', 'rows': [v4[20][1].tolist()]}})
    ctx.samples.append({'kind': 'search', 'oracle': 'so3_boundary', 'input': {'entry': 'DCM', 'M': cm.Rspec(qs[9][1]).tolist(), 'expect': 'accept'}})
