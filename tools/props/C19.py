"""C19 — public functions never modify the caller's arrays and are repeatable.

static : tools/pyfx extracts an effect program for every callable of the package (regenerated on every run into
         <build>/gen/C19effects.v); coq/model/Effects.v holds the semantics, the points-to/may-mutate analysis and its
         soundness proof; coq/props/C19 runs the analysis by vm_compute and compares the flagged callables with the
         mutators recorded as known findings that still reproduce (empty once the fixes are in).
dynamic: every public callable is really called on synthesised arguments; the bytes of every ndarray reachable from the
         arguments (and from the object, for methods) are compared before/after; the observed mutated set must be inside
         the model's predicted set (correspondence) and empty unless documented (search oracle); a second call on equal
         arguments must return the same value unless the callable is a documented random generator."""
import os, sys, json, importlib, inspect, hashlib, math, copy, zlib
import numpy as np
from . import common as cm
import pyfx
from pyfx import tables as TB

PID = 'C19'
LEVEL_TEXT = ("Coq: axiom-free soundness of a may-alias/may-mutate/global-state analysis over an effect language "
              "(Effects.v), run by vm_compute on the effect programs pyfx extracts from every callable of the package on every run; "
              "the Python->effect abstraction is trusted and validated by byte-level observation of real calls")
TECHNIQUE = "effect extraction (pyfx) + verified static analysis in Coq + dynamic byte-level correspondence"
RULE = ("every public callable x argument synthesis table (1-D and 2-D, unit and non-unit quaternions, degrees and radians, "
        "float64 / int / list / float32 operands, every bool option both ways, str options over their documented values); "
        "non-trivial = the call returned without raising and at least one ndarray argument was observed")
TRUSTED = ["Coq 8.16.1 kernel; vm_compute", "pyfx: the Python->effect-language abstraction (validated dynamically on every run)",
           "hand tables of tools/pyfx/tables.py (NumPy functions: fresh / view / in-place; 1-D parameters; documented in-place and random callables)"]
PARTIAL = ("static claim: callables on a call-graph cycle (QuaternionArray(int) -> random_attitudes -> QuaternionArray) are analysed with "
           "the unknown-callee rule (sound, imprecise for global state); repeatability is proved as 'a second call sees the same inputs', "
           "determinism of the numerical code itself is observed, not proved; callables the argument table cannot call are listed in the evidence")
COQ_TIMEOUT = 300
STAGES = [['C19_analysis.v'], ['C19.v', ('C19_refuted.v', {'finding': 'static/mutators-present'})]]

REPO = os.environ.get('AHRS_REPO', '/repo')
_RES = None


def _res():
    global _RES
    if _RES is None:
        _RES = pyfx.analyze(REPO)
    return _RES


# ====================================================================== static side: regeneration
def _global_allowed(name):
    q = name.split('[')[0]
    if q in TB.DOCUMENTED_RANDOM:
        return True
    return any(q.startswith(p) for p in TB.GLOBAL_ALLOWED_PREFIX)


def _exempt(name):
    return (name, '*') in TB.DOCUMENTED_INPLACE or name.split('[')[0] in TB.OWN_STATE_INPLACE


def pregen(ctx):
    res = _res()
    attr_id = {}

    def akey(e, p):          # attributes are identified per class
        return (res.pkg.funcs[e.qual].cls, p.split('.', 1)[1])
    for e in res.entries:
        for p in e.params[e.n_explicit:]:
            if not p.startswith('@'):
                attr_id.setdefault(akey(e, p), len(attr_id))
    expected = sorted(_expected_mutators(ctx))
    # the `_refuted` witness file only exists (and only compiles) while some recorded mutator still reproduces
    global STAGES
    STAGES = [['C19_analysis.v'], ['C19.v'] + ([('C19_refuted.v', {'finding': 'static/mutators-present'})] if expected else [])]
    L = ['Definition gtop : list nat := [0; 1; 2].']
    L.append('Definition exempt_inplace : list bool := [' + '; '.join('true' if _exempt(e.name) else 'false' for e in res.entries) + '].')
    L.append('Definition global_allowed : list bool := [' + '; '.join('true' if _global_allowed(e.name) else 'false' for e in res.entries) + '].')
    ap, ax = [], []
    for e in res.entries:
        pairs = [(i, attr_id[akey(e, p)]) for i, p in enumerate(e.params) if i >= e.n_explicit and not p.startswith('@')]
        ap.append('[' + '; '.join(f'({i}, {a})' for i, a in pairs) + ']')
        ax.append('[' + '; '.join(f'({e.vars[p]}, {attr_id[akey(e, p)]})' for p in e.params[e.n_explicit:] if not p.startswith('@')) + ']')
    L.append('Definition attr_params : list (list (nat * nat)) := [' + ';\n  '.join(ap) + '].')
    L.append('Definition attr_exit : list (list (nat * nat)) := [' + ';\n  '.join(ax) + '].')
    L.append('Definition n_self : list nat := [' + '; '.join('1' if (res.pkg.funcs[e.qual].cls and res.pkg.funcs[e.qual].kind in ('method', 'property')) else '0' for e in res.entries) + '].')
    def is_arr(e):
        f = res.pkg.funcs[e.qual]
        return bool(f.cls and res.pkg.classes[f.cls].is_array and f.kind in ('method', 'property'))
    L.append('Definition array_class : list bool := [' + '; '.join('true' if is_arr(e) else 'false' for e in res.entries) + '].')
    # constructors of classes that own documented in-place operations: they must hand out an object that shares no
    # memory with the caller's data (otherwise the documented in-place operation rewrites the CALLER's array)
    inplace_classes = {res.pkg.funcs[n.split('[')[0]].cls for (n, _p) in TB.DOCUMENTED_INPLACE if n.split('[')[0] in res.pkg.funcs}
    L.append('Definition ctor_required : list bool := [' + '; '.join(
        'true' if (res.pkg.funcs[e.qual].cls in inplace_classes and e.qual.split('.')[-1] in ('__new__', '__init__')) else 'false'
        for e in res.entries) + '].')
    L.append('Definition is_ctor : list bool := [' + '; '.join('true' if e.qual.split('.')[-1] in ('__init__', '__new__') else 'false' for e in res.entries) + '].')
    L.append('Definition shared_ok : list bool := [' + '; '.join('true' if e.qual in TB.SHARED_RETURN_OK else 'false' for e in res.entries) + '].')
    L.append('Definition expected_mutators : list string := [' + '; '.join(f'"{n}"' for n in expected) + '].')
    path = os.path.join(ctx.build, 'gen', 'C19effects.v')
    pyfx.emit_coq(res, path, L)
    r = ctx.coqc(path)
    if r['rc'] != 0:
        ctx.broken.append({'kind': 'translation', 'target': 'C19effects', 'error': 'generated effect programs do not compile',
                           'detail': (r['err'] or r['out'])[-1500:]})
        ctx.say('[pyfx] C19effects.v does not compile\n' + (r['err'] or r['out'])[-800:])
    npub = sum(1 for e in res.entries if e.public)
    ctx.targets_meta['pyfx'] = {'callables': len(res.entries), 'public': npub, 'unclassified': dict(res.unclassified),
                                'expected_mutators': expected,
                                'notes': {e.name: e.notes for e in res.entries if getattr(e, 'notes', None)}}
    ctx.say(f"[pyfx] {len(res.entries)} callables ({npub} public variants) -> gen/C19effects.v; "
            f"{len(res.unclassified)} unclassified{': ' + ', '.join(sorted(res.unclassified)) if res.unclassified else ''}; "
            f"expected mutators (known findings that still reproduce): {len(expected)}")
    for n, why in sorted(res.unclassified.items()):
        pub = pyfx.is_public(n.split('[')[0].split('.')[-1])
        if pub:
            ctx.say(f"[pyfx] UNCLASSIFIED (dynamic check only; static claim partial): {n}: {why}")


def _static_findings_left():
    """static names (callable variants) of the recorded findings that still reproduce on the implementation"""
    from vlib.core import load_findings, call_outcome
    out = set()
    for k in load_findings(PID):
        if k.get('status', 'known') != 'known' or not k.get('static_name') or k.get('oracle') == 'static':
            continue
        r = call_outcome(ORACLES[k['oracle']], k['witness'])
        if r[0] == 'val' and r[1] is not None and r[1].get('tag') == k['tag']:
            out.add(k['static_name'])
    return out


def _expected_mutators(ctx):
    return _static_findings_left()


# ====================================================================== dynamic side: argument synthesis
def _rng(*key):
    return np.random.default_rng(zlib.crc32(repr(key).encode()))


def _quat(r, unit):
    q = r.standard_normal(4)
    q /= np.linalg.norm(q)
    if q[0] > 0 and r.random() < 0.5:
        q = -q
    return q if unit else q * r.uniform(1.5, 4.0)


def _rotm(r):
    return cm.Rspec(_quat(r, True))


def _form(r, a, form):
    """the same numbers as float64 array (default), int-valued array, list, float32"""
    if form == 'pkg':        # the package's own array classes where a quaternion / rotation matrix fits (isinstance shortcuts!)
        import ahrs
        a = np.array(a, dtype=float)
        try:
            if a.shape == (4,):
                return ahrs.Quaternion(a, versor=False)
            if a.ndim == 2 and a.shape[1] == 4:
                return ahrs.QuaternionArray(a, versors=False)
            if a.shape == (3, 3):
                return ahrs.DCM(a)
        except Exception:
            pass
        return a
    if form == 'list':
        return np.asarray(a).tolist()
    if form == 'f32':
        return np.asarray(a, dtype=np.float32)
    if form == 'int':
        return np.rint(np.asarray(a) * 3 + 4 * np.sign(np.asarray(a))).astype(int)
    return np.array(a, dtype=float)


N_ROWS = (5, 3, 4, 1, 2, 7)

# candidate generators by parameter name: (rng, variant index) -> value.  variant 0: single sample, 1: batch (N rows)
def _cands(pname, ann, default, r, case):
    n = N_ROWS[case % len(N_ROWS)]
    unit = (case % 2 == 0)
    form = ('f64', 'f64', 'f64', 'list', 'f64', 'pkg', 'f32', 'int')[case % 8]
    P = pname.lower()
    out = []
    ann = ann or ''

    def arr(a):
        return _form(r, a, form)
    if P in ('q', 'p', 'q0', 'q1', 'q2', 'quaternion', 'q_1', 'q_2', 'qa', 'qb', 'quaternions'):
        out += [arr(_quat(r, unit)), arr(np.array([_quat(r, unit) for _ in range(n)]))]
    elif P in ('acc', 'a', 'gyr', 'mag', 'm', 'v', 'x', 'w1', 'w2', 'v1', 'v2', 'axis', 'vector', 'b0', 'ecef', 'rpy', 'angles', 'euler'):
        scale = {'acc': 9.81, 'a': 9.81, 'mag': 50.0, 'm': 50.0, 'angles': 40.0 if case % 3 == 0 else 1.0, 'rpy': 1.0}.get(P, 1.0)
        out += [arr(r.standard_normal(3) * scale), arr(r.standard_normal((n, 3)) * scale)]
    elif P in ('dcm', 'r', 'r1', 'r2', 'array', 'rotation', 'rotations', 'dcms', 'c'):
        out += [arr(_rotm(r)) if form not in ('int', 'f32', 'list') else _rotm(r), np.array([_rotm(r) for _ in range(n)])]
    elif P in ('w', 'weights'):
        out += [arr(np.array([2.0, 2.0])), arr(np.array([2.0, 2.0])), arr(np.array([1.0, 3.0]))]     # two sensors; do not sum to one
    elif P in ('t_array', 't', 'times'):
        out += [np.linspace(0.0, 1.0, 4), 0.5]
    elif P in ('angular_positions', 'ang_pos'):
        out += [arr(r.standard_normal((n + 3, 3)) * 0.3)]
    elif P in ('q_prev', 'q_m'):
        out += [arr(_quat(r, unit))]
    elif P in ('in_array', 'data', 'y', 'signal'):
        out += [arr(r.standard_normal(40))]
    elif P in ('lat', 'latitude', 'lon', 'longitude', 'az', 'elev', 'angle', 'ang', 'lat0', 'lon0', 'phi', 'theta', 'psi'):
        edge = [float(r.uniform(-60, 60)), 0.0, 360.0, float(2 * np.pi)]
        out += [edge[case % 4], np.array(float(r.uniform(-60, 60))), r.uniform(-60, 60, 3)]
    elif P in ('z', 'y0', 'x0', 'z0', 'ratio', 'a_local', 'alpha', 'gain', 'threshold',) and 'ndarray' not in ann:
        out += [float(r.uniform(0.1, 0.9))]
    elif P in ('omega', 'q_am', 'q_omega', 'state', 'db', 'b'):
        out += [arr(r.standard_normal(3) * 0.1) if P in ('omega', 'db', 'b') else arr(_quat(r, True))]
    elif P in ('h', 'height', 'slant', 'n', 'e', 'd', 'u', 'dt', 'frequency', 'h0', 'alt', 'distance', 'up', 'east', 'north', 'down'):
        out += [float(r.uniform(0.5, 100.0))]
    elif P in ('in_deg', 'degrees', 'inplace', 'versor', 'versors', 'as_angles', 'deg'):
        out += [bool(case % 2), bool(case % 2)]      # independent of the shape choice: over six cases every (value, shape order) pair occurs
    elif P == 'frame':
        out += [('NED', 'ENU')[case % 2]]
    elif P == 'order':
        out += ['H', 'S'] if case % 4 != 3 else ['S', 'H']
    elif P == 'representation':
        out += [('quaternion', 'rotmat', 'angles', 'axisangle')[case % 4], 'quaternion']
    elif P == 'seq' or P == 'sequence':
        out += ['zyx', 'xyz']
    elif P in ('axes',):
        out += ['xyz']
    elif P == 'ax':
        out += ['x', 'y', 'z']
    elif P == 'method':
        out += [None]      # resolved from the default below
    elif P == 'num' or P == 'size' or P == 'num_samples' or P == 'num_rotations':
        out += [int(n)]
    elif P == 'version':
        out += [1 + case % 2, 1]
    elif P == 'date':
        out += [2022.5]
    return out


_METHODS = {'dcm2quat': ['chiaverini', 'hughes', 'itzhack', 'sarabandi', 'shepperd'], 'to_quaternion': ['chiaverini', 'hughes', 'itzhack', 'sarabandi', 'shepperd'],
            'from_DCM': ['chiaverini', 'hughes', 'itzhack', 'sarabandi', 'shepperd'], 'FLAE': ['symbolic', 'eig', 'newton']}


def _live(qual):
    """the live object of a callable qualname: (object, owner class or None)"""
    parts = qual.split('.')
    for i in range(len(parts), 0, -1):
        try:
            mod = importlib.import_module('ahrs.' + '.'.join(parts[:i]))
        except Exception:
            continue
        obj, owner = mod, None
        for p in parts[i:]:
            owner = obj if inspect.isclass(obj) else None
            if inspect.isclass(obj):
                obj = obj.__dict__[p] if p in obj.__dict__ else getattr(obj, p)
            else:
                obj = getattr(obj, p)
        return obj, owner
    raise ImportError(qual)


def _CTOR_KW(r):
    """keyword arrays a constructor may keep by reference (weights deliberately do not sum to one)"""
    return (('b0', np.array([0.01, -0.02, 0.03])), ('q0', _quat(r, True)), ('weights', np.array([2.0, 2.0])),
            ('magnetic_ref', np.array([20.0, 1.0, 40.0])), ('mag_ref', np.array([20.0, 1.0, 40.0])),
            ('P', np.identity(4) * 0.5), ('noises', np.array([0.3, 0.5, 0.8])), ('var_acc', 0.25), ('var_mag', 0.64),
            ('adaptive', True))


def _instance(cls, r, case):
    """an instance of a package class to call a method on, plus the caller arrays handed to its constructor"""
    name = cls.__name__
    n = N_ROWS[case % len(N_ROWS)] + 3
    if name == 'Quaternion':
        q = _quat(r, case % 2 == 0)
        kw = {'order': 'S'} if case % 5 == 4 else {}
        return cls(q, **kw), {'ctor.q': q}
    if name == 'QuaternionArray':
        Q = np.array([_quat(r, case % 2 == 0) for _ in range(n)])
        if case % 3 == 1:
            Q[1:-1:3] = np.nan
        return cls(Q), {'ctor.q': Q}
    if name == 'DCM':
        R = _rotm(r)
        return cls(R), {'ctor.array': R}
    if name in ('WMM',):
        return cls(), {}
    if name in ('WGS', 'ReferenceEllipsoid'):
        return cls(), {}
    if name == 'Sensors':
        return cls(num_samples=50), {}
    # attitude estimators: built without data, then used sample by sample; every third case built WITH caller data
    acc = r.standard_normal((n, 3)) + np.array([0, 0, 9.81])
    gyr = r.standard_normal((n, 3)) * 0.1
    mag = r.standard_normal((n, 3)) * 5 + np.array([20.0, 1.0, -40.0])
    sig = inspect.signature(cls.__init__).parameters
    kw, held = {}, {}
    if case % 3 == 2:
        for k, v in (('acc', acc), ('gyr', gyr), ('mag', mag)):
            if k in sig:
                kw[k] = v
                held['ctor.' + k] = v
    try:
        src = inspect.getsource(cls)
    except Exception:
        src = ''
    for k, v in _CTOR_KW(r):
        if case % 2 == 1 and (k in sig or (any(p.kind == p.VAR_KEYWORD for p in sig.values()) and (f"'{k}'" in src or f'"{k}"' in src))):
            kw[k] = v
            held['ctor.' + k] = v
    try:
        return cls(**kw), held
    except Exception:
        kw = {k: v for k, v in kw.items() if k in ('acc', 'gyr', 'mag')}
        held = {k: v for k, v in held.items() if k[5:] in kw}
        return cls(**kw), held


def synthesize(qual, case):
    """-> (callable taking (args, kwargs), args, kwargs, held) or raises LookupError when no arguments can be built"""
    obj, owner = _live(qual)
    r = _rng(qual, case)
    held = {}
    if isinstance(obj, property):
        inst, held = _instance(owner, r, case)
        return (lambda i, o=obj: o.fget(i)), [inst], {}, held, None
    fn = obj.__func__ if isinstance(obj, (staticmethod, classmethod)) else obj
    sig = inspect.signature(fn)
    params = list(sig.parameters.values())
    args, kwargs, names = [], {}, []
    isctor = fn.__name__ in ('__init__', '__new__')
    start = 0
    if owner is not None and not isinstance(obj, staticmethod):
        start = 1
        if isctor:
            target = owner
        else:
            inst, held = _instance(owner, r, case)
            args.append(inst)
            names.append(params[0].name)
    short = qual.split('.')[-1]
    for p in params[start:]:
        if p.kind in (p.VAR_POSITIONAL,):
            continue
        if p.kind == p.VAR_KEYWORD:
            if isctor and owner is not None and owner.__name__ not in ('Quaternion', 'QuaternionArray', 'DCM') and case % 2 == 1:
                kwargs['q0'] = [_quat(r, True)]
            if isctor and owner is not None and case % 2 == 0:
                try:
                    src = inspect.getsource(owner)
                except Exception:
                    src = ''
                for k, v in _CTOR_KW(r):
                    if isinstance(v, np.ndarray) and k != 'q0' and (f"'{k}'" in src or f'"{k}"' in src) and k not in kwargs:
                        kwargs[k] = [v]
            continue
        ann = p.annotation if isinstance(p.annotation, str) else getattr(p.annotation, '__name__', str(p.annotation))
        c = _cands(p.name, ann, p.default, r, case)
        if p.name == 'method':
            ms = _METHODS.get(short) or _METHODS.get(owner.__name__ if owner else '', None)
            c = [ms[case % len(ms)]] if ms else []
        if str(ann).replace('Optional[', '').rstrip(']') in TB.SCALAR_ANN:
            c = [v for v in c if isinstance(v, (int, float, str, bool))]       # the documented type: no array is passed for a float
        if (qual, p.name) in TB.RANK1:
            c = [v for v in c if np.ndim(v) == 1]                               # documented as ONE sample / ONE quaternion
        if p.default is None and case % 6 == 4 and c and isinstance(c[0], (np.ndarray, list)):
            continue            # optional array arguments (mag=None ...) are left out in every sixth case (case 4: batch forms first, float64)
        if not c:
            if p.default is not p.empty:
                continue
            raise LookupError(f'no generator for parameter {p.name}')
        if p.default is not p.empty and isinstance(p.default, (bool, str, int, float)) and not isinstance(c[0], type(p.default)) \
                and not isinstance(p.default, float):
            continue
        kwargs[p.name] = c
    return fn, args, kwargs, held, (owner if isctor else None)


def _combos(kwargs, case):
    """a few joint choices of the per-parameter candidates (single-sample forms together, batch forms together)"""
    keys = list(kwargs)
    out = []
    for j in range(3):
        out.append({k: kwargs[k][min(j, len(kwargs[k]) - 1)] if j < 2 else kwargs[k][(case + i) % len(kwargs[k])]
                    for i, k in enumerate(keys)})
    return out


def _arrays(obj, path, out, seen, depth=0):
    if id(obj) in seen or depth > 4:
        return
    if isinstance(obj, np.ndarray):
        seen.add(id(obj))
        out.append((path, obj))
        d = getattr(obj, '__dict__', None)
        if d:
            for k, v in d.items():
                _arrays(v, f'{path}.{k}', out, seen, depth + 1)
    elif isinstance(obj, (list, tuple)):
        for i, v in enumerate(obj):
            _arrays(v, f'{path}[{i}]', out, seen, depth + 1)
    elif isinstance(obj, dict):
        for k, v in obj.items():
            _arrays(v, f'{path}[{k}]', out, seen, depth + 1)
    elif hasattr(obj, '__dict__') and type(obj).__module__.startswith('ahrs'):
        seen.add(id(obj))
        for k, v in vars(obj).items():
            _arrays(v, f'{path}.{k}', out, seen, depth + 1)


def _sig(a):
    """everything a caller can observe of an array it owns: bytes, shape, strides, dtype, flags, type"""
    return (a.tobytes(), a.shape, a.strides, str(a.dtype), bool(a.flags.writeable), type(a).__name__)


def _snap(named):
    out, seen = [], set()
    for name, o in named:
        _arrays(o, name, out, seen)
    return [(p, a, _sig(a), a.shape, str(a.dtype)) for p, a in out]


def _canon(x):
    """a comparable rendering of a return value"""
    if isinstance(x, np.ndarray):
        return ('nd', x.shape, str(x.dtype), np.ascontiguousarray(x).tobytes())
    if isinstance(x, (list, tuple)):
        return tuple(_canon(v) for v in x)
    if isinstance(x, dict):
        return tuple((k, _canon(v)) for k, v in sorted(x.items(), key=lambda kv: str(kv[0])))
    if isinstance(x, (float, np.floating)):
        return ('f', np.float64(x).tobytes())
    if isinstance(x, (int, str, bool, type(None), np.integer, np.bool_)):
        return x
    if hasattr(x, '__dict__') and type(x).__module__.startswith('ahrs'):
        return ('obj', type(x).__name__, tuple((k, _canon(v)) for k, v in sorted(vars(x).items())))
    return repr(x)


def _result_arrays(x, depth=0):
    out = []
    if isinstance(x, np.ndarray):
        out.append(x)
    elif isinstance(x, (list, tuple)) and depth < 3:
        for v in x:
            out += _result_arrays(v, depth + 1)
    elif isinstance(x, dict) and depth < 3:
        for v in x.values():
            out += _result_arrays(v, depth + 1)
    elif hasattr(x, '__dict__') and type(x).__module__.startswith('ahrs') and depth < 2:
        for v in vars(x).values():
            out += _result_arrays(v, depth + 1)
    return out


_POISON = (1e300, float('nan'), -7.25e-300, 123.456)


def _poison_heap(shapes, k):
    """leave freshly released heap blocks of the byte sizes in play filled with a sentinel (a different one before each call):
    a result read from uninitialised memory (np.empty*) then differs between two identical calls"""
    v = _POISON[k % len(_POISON)]
    sizes = set()
    for shp in shapes:
        n = int(np.prod(shp)) if len(shp) else 1
        sizes.add(n)
    sizes |= {1, 3, 4, 9, 16}
    junk = []
    for n in sorted(sizes)[:40]:
        if 0 < n <= 200000:
            junk += [np.full(n, v) for _ in range(12)]
    del junk


def _shapes_in_play(objs):
    out = set()
    for o in objs:
        for a in _result_arrays(o):
            out.add(tuple(a.shape))
            if a.ndim == 2:
                out.add((a.shape[0],)); out.add((a.shape[0], 3)); out.add((a.shape[0], 4))
    return out


def observe(qual, case):
    """call `qual` on synthesised arguments.  Returns a dict:
       status 'ok' | 'uncovered'; mutated: list of argument paths whose bytes changed; repeat: True/False/None; variant"""
    import warnings
    try:
        fn, args0, cand, held, ctor_of = synthesize(qual, case)
    except LookupError as e:
        return {'status': 'uncovered', 'why': str(e)}
    except Exception as e:
        return {'status': 'uncovered', 'why': f'{type(e).__name__}: {e}'[:120]}
    last = None
    for j in [(case + t_) % 3 for t_ in range(3)]:      # case 0 starts with single samples, case 1 with batches, case 2 mixed
        def build(j=j):
            # synthesis is deterministic in (qual, case): building twice gives equal, independent arguments, and the
            # instance of a method still shares memory with the arrays its constructor was given
            fn_, a, cand_, h, ctor_ = synthesize(qual, case)
            return fn_, a, _combos(cand_, case)[j], h, ctor_
        fn, a1, k1, h1, ctor_of = build()
        combo = k1
        names = [('self', a1[0])] if a1 else []
        named = names + [(k, v) for k, v in k1.items()] + [('self.ctor.' + k[5:] if names else k, v) for k, v in h1.items()]
        before = _snap(named)
        shapes = _shapes_in_play([list(k1.values()), a1])
        try:
            with np.errstate(all='ignore'), warnings.catch_warnings():
                warnings.simplefilter('ignore')
                _poison_heap(shapes, 0)
                r1 = ctor_of(**k1) if ctor_of is not None else fn(*a1, **k1)
        except Exception as e:
            last = f'{type(e).__name__}: {e}'[:100]
            continue
        mutated = []
        for (p, arr, b, shp, dt) in before:
            try:
                nb = _sig(arr)
            except Exception:
                nb = None
            if nb != b:
                # NaN payloads aside, identical bytes are required
                mutated.append(p)
        # which of the changed arrays are the caller's?  arguments always; object state only when it shares memory with
        # an array handed in by the caller (constructor data / arguments)
        caller = [(p, arr) for (p, arr, b, shp, dt) in before if not p.startswith('self.') and p != 'self']
        res = {'status': 'ok', 'mutated': [], 'state_mutated': [], 'nd_args': len(before), 'kwargs': sorted(k1), 'combo': {k: _brief(v) for k, v in combo.items()}}
        for p in mutated:
            if p.startswith('self'):
                arr = [a for (pp, a, *_r) in before if pp == p][0]
                res['state_mutated'].append(p)
                for hk, hv in h1.items():        # object state that IS an array the caller handed to the constructor
                    if isinstance(hv, np.ndarray) and np.shares_memory(arr, hv) and hk not in res['mutated']:
                        res['mutated'].append(hk)
            else:
                res['mutated'].append(p)
        # repeatability: a second call on equal (fresh) arguments returns the same value
        fn2, a2, k2, h2, ctor2 = build()
        try:
            with np.errstate(all='ignore'), warnings.catch_warnings():
                warnings.simplefilter('ignore')
                _poison_heap(shapes | _shapes_in_play([r1]), 1)
                r2 = ctor2(**k2) if ctor2 is not None else fn2(*a2, **k2)
            res['repeat'] = (_canon(r1) == _canon(r2))
        except Exception as e:
            res['repeat'] = False
            res['repeat_error'] = f'{type(e).__name__}: {e}'[:100]
        # result independence: results of two calls share no memory; scribbling over the first result (the caller owns it)
        # must not change what a third identical call returns
        if 'repeat_error' not in res:
            try:
                A1 = _result_arrays(r1)
                A2 = _result_arrays(r2)
                argarrs = [a for (_p, a, *_r) in before]
                res['results_share'] = any(np.shares_memory(x, y) for x in A1 for y in A2)
                res['result_views_argument'] = any(np.shares_memory(x, y) for x in A1 for y in argarrs if x.size and y.size)
                want = _canon(r2)
                wrote = []
                for x in A1:
                    if x.flags.writeable and x.size and x.dtype.kind in 'fiuc':
                        wrote.append((x, x.copy()))
                        x[...] = 7 if x.dtype.kind in 'iu' else np.nan
                if wrote:
                    try:
                        fn3, a3, k3, h3, ctor3 = build()
                        with np.errstate(all='ignore'), warnings.catch_warnings():
                            warnings.simplefilter('ignore')
                            r3 = ctor3(**k3) if ctor3 is not None else fn3(*a3, **k3)
                        res['independent'] = (_canon(r3) == want) if res.get('repeat') else None
                    except Exception as e:
                        res['independent'] = False if res.get('repeat') else None
                        res['independent_error'] = f'{type(e).__name__}: {e}'[:100]
                    finally:
                        for x, saved in wrote:       # the result may BE module-level state: put it back for the rest of the run
                            x[...] = saved
            except Exception as e:
                res['independent_error'] = f'{type(e).__name__}: {e}'[:100]
        res['variant'] = _variant_of(qual, k1)
        return res
    return {'status': 'uncovered', 'why': f'every argument combination raised ({last})'}


def _brief(v):
    if isinstance(v, np.ndarray):
        return f'ndarray{v.shape}:{v.dtype}'
    if isinstance(v, list):
        return f'list[{len(v)}]'
    return v if isinstance(v, (int, float, str, bool, type(None))) else type(v).__name__


def _variant_of(qual, kwargs):
    res = _res()
    f = res.pkg.funcs.get(qual)
    if f is None or f.variants == [None]:
        return qual
    vn = f.variants[0][0]
    if f.variants[0][1] in ('None', 'given'):
        return f"{qual}[{vn}={'given' if kwargs.get(vn) is not None else 'None'}]"
    d = f.defaults.get(vn)
    val = kwargs.get(vn, d.value if d is not None else False)
    return f'{qual}[{vn}={bool(val)}]'


def _holds_memory_with(held_arrays, arr):
    return any(np.shares_memory(h, arr) for h in held_arrays)


# ====================================================================== oracles
def _documented_inplace(variant):
    return (variant, '*') in TB.DOCUMENTED_INPLACE


def o_mutation(inp):
    """no public callable changes the bytes of an array it was given (unless documented in-place)"""
    ob = observe(inp['callable'], inp['case'])
    if ob['status'] != 'ok':
        return None
    if _documented_inplace(ob['variant']):
        return None
    bad = list(ob['mutated'])
    # object state counts when it is the caller's memory (constructor data)
    for p in ob['state_mutated']:
        if p.startswith('self.ctor') or inp.get('count_state'):
            bad.append(p)
    bad = [_argname(p) for p in bad]
    if bad:
        return {'tag': f"{inp['callable']}/mutates-{sorted(set(bad))[0]}", 'observed': {'changed': sorted(set(bad)), 'args': ob['combo']},
                'expected': 'bytes of every ndarray argument unchanged'}
    return None


def _argname(path):
    for sep in ('[', '.'):
        if sep in path and not path.startswith('self'):
            path = path.split(sep)[0]
    return path


def o_repeat(inp):
    """a second call with equal arguments returns the same value (documented random generators excepted)"""
    q = inp['callable']
    if q in TB.DOCUMENTED_RANDOM or any(q.startswith(p) for p in TB.RANDOM_PREFIX):
        return None
    ob = observe(q, inp['case'])
    if ob['status'] != 'ok' or ob.get('repeat') is None:
        return None
    if q in TB.RANDOM_WHEN_OMITTED and any(a not in ob['combo'] for a in TB.RANDOM_WHEN_OMITTED[q]):
        return None          # documented: draws the missing arguments at random
    if ob.get('results_share') and not (_documented_inplace(ob['variant'])):
        return {'tag': f'{q}/results-share-memory', 'observed': 'the arrays returned by two calls share memory', 'expected': 'independent results',
                'note': str(ob['combo'])}
    if ob.get('independent') is False:
        return {'tag': f'{q}/result-not-independent', 'observed': 'after the caller overwrote the array it got from the first call, an identical call returned a different value',
                'expected': 'equal results', 'note': str(ob['combo'])}
    if not ob['repeat']:
        return {'tag': f'{q}/not-repeatable', 'observed': ob.get('repeat_error', 'second call returned a different value'), 'expected': 'equal results',
                'note': str(ob['combo'])}
    return None


def o_static(inp):
    """replay hook of the static finding: does the tree still contain recorded mutators?"""
    left = _static_findings_left()
    if left:
        return {'tag': 'static/mutators-present', 'observed': sorted(left), 'expected': []}
    return None


# ---------------------------------------------------------------------- object life cycles
ARRAY_CLASSES = {'common.quaternion.Quaternion': 'Quaternion', 'common.quaternion.QuaternionArray': 'QuaternionArray', 'common.dcm.DCM': 'DCM'}


def _lc_data(cname, r, data):
    """float64 caller data for the constructor; `data` selects the shape of trouble (sign jump, NaN rows...)"""
    if cname == 'Quaternion':
        return _quat(r, False) if data % 2 == 0 else _quat(r, True)
    if cname == 'QuaternionArray':
        base = _quat(r, False)
        Q = np.tile(base, (6, 1)) + r.standard_normal((6, 4)) * 0.05
        if data % 2 == 0:
            Q[1:3] *= -1.0                       # a sign jump: remove_jumps has work to do
        return Q
    return _rotm(r)


def _lc_options(cname):
    if cname == 'Quaternion':
        return [dict(versor=v, order=o) for v in (True, False) for o in ('H', 'S')]
    if cname == 'QuaternionArray':
        return [dict(versors=v, order=o) for v in (True, False) for o in ('H', 'S')]
    return [dict()]


def _lc_members(cls):
    out = []
    for n in sorted(set(dir(cls))):
        if n.startswith('_') and n not in pyfx.extract.ARITH_DUNDERS:
            continue
        for k in cls.__mro__:
            if n in k.__dict__ and k.__module__.startswith('ahrs'):
                out.append(n)
                break
    return out


def _lc_args(cls, name, r, n_rows, optional, trial):
    """arguments of method `name`; optional=True also fills defaulted parameters that have a generator"""
    obj = None
    for k in cls.__mro__:
        if name in k.__dict__:
            obj = k.__dict__[name]
            break
    if isinstance(obj, property):
        return None
    fn = obj.__func__ if isinstance(obj, (staticmethod, classmethod)) else obj
    kw = {}
    for p in list(inspect.signature(fn).parameters.values())[1:]:
        if p.kind in (p.VAR_POSITIONAL, p.VAR_KEYWORD):
            continue
        if p.default is not p.empty and not optional:
            continue
        if p.name == 'weights':
            kw[p.name] = np.array([1.0, 2.0, 3.0, 3.0, 2.0, 1.0])[:n_rows] if trial % 2 == 0 else np.array([1.0, 5.0, 2.0])
        elif p.name == 'span':
            if trial % 2 == 1:
                kw[p.name] = (1, 4)
        elif p.name == 'inplace':
            kw[p.name] = bool(trial % 2)
        elif p.name == 'method':
            if p.default is p.empty:
                raise LookupError('method')
        else:
            c_ = _cands(p.name, None, p.default, r, trial)
            ann = p.annotation if isinstance(p.annotation, str) else getattr(p.annotation, '__name__', str(p.annotation))
            if str(ann).replace('Optional[', '').rstrip(']') in TB.SCALAR_ANN:
                c_ = [v for v in c_ if isinstance(v, (int, float, str, bool))]
            if cls.__name__ == 'QuaternionArray' and p.name in ('q', 'p'):
                c_ = c_[:1]
            if not c_:
                if p.default is p.empty:
                    raise LookupError(p.name)
                continue
            # estimators and Quaternion take one sample per call (batches go through the constructors); the trial then
            # selects magnitudes / options, not shapes
            kw[p.name] = c_[min(trial % 2, len(c_) - 1)] if cls.__name__ in ('QuaternionArray', 'DCM') else c_[0]
            if p.name in ('acc', 'a') and isinstance(kw[p.name], np.ndarray) and kw[p.name].ndim == 1 and kw[p.name].dtype.kind == 'f':
                # off-nominal magnitudes: 15 % above, exactly at, 15 % below, twice the reference gravity
                v = kw[p.name]
                ref = getattr(sys.modules.get(cls.__module__), 'GRAVITY', 9.80665)      # the module's own reference gravity
                ref = float(ref) if isinstance(ref, (int, float, np.floating)) else 9.80665
                kw[p.name] = v / np.linalg.norm(v) * ref * (1.15, 1.0, 0.85, 2.0)[trial % 4]
    return kw


def _is_documented_mutator(qual, kw):
    v = _variant_of(qual, kw)
    return (v, '*') in TB.DOCUMENTED_INPLACE or qual in TB.OWN_STATE_INPLACE


def lifecycle(cqual, opt, data, member, optional, trial):
    """construct from the caller's float64 data with option set `opt`, call `member` twice on the SAME object.
    Returns None (could not be exercised) or a dict of observations."""
    import warnings
    cls, _o = _live(cqual)
    cname = cls.__name__
    r = _rng(cqual, data, 'lc')
    held = {}
    if cname in ARRAY_CLASSES.values():
        arr = _lc_data(cname, r, data)
        opts = _lc_options(cname)
        kwc = opts[opt % len(opts)]
        held = {'ctor.data': arr}
        try:
            inst = cls(arr, **kwc)
        except Exception:
            return None
    else:
        try:
            inst, held = _instance(cls, r, 2 + 3 * (opt % 2) if opt % 2 == 0 else 1)
        except Exception:
            return None
        kwc = {}
    raw = {k: (v, _sig(v)) for k, v in held.items() if isinstance(v, np.ndarray)}
    n_rows = inst.shape[0] if isinstance(inst, np.ndarray) and inst.ndim == 2 else 6
    try:
        kw = _lc_args(cls, member, _rng(cqual, member, trial), n_rows, optional, trial)
    except LookupError:
        return None
    isprop = kw is None
    kw = kw or {}
    argraw = {k: (v, _sig(v)) for k, v in kw.items() if isinstance(v, np.ndarray)}
    qual = f'{cqual}.{member}'
    res = {'ctor_options': kwc, 'kwargs': {k: _brief(v) for k, v in kw.items()}, 'ctor_changed': [], 'state_changed': [], 'args_changed': [],
           'mutator': _is_documented_mutator(qual, kw), 'aliases_ctor_data': False}
    if isinstance(inst, np.ndarray):
        res['aliases_ctor_data'] = any(np.shares_memory(inst, v) or any(isinstance(a, np.ndarray) and np.shares_memory(a, v)
                                                                        for a in vars(inst).values()) for v, _b in raw.values())

    def state():
        s = _snap([('self', inst)])
        return {p: b for (p, a, b, shp, dt) in s}

    def config():
        d = getattr(inst, '__dict__', {})
        return {k: v for k, v in d.items() if isinstance(v, (bool, int, float, str, np.floating, np.integer)) and k not in TB.CARRIED_SCALARS}
    confs = []

    ncall = [0]

    def call():
        with np.errstate(all='ignore'), warnings.catch_warnings():
            warnings.simplefilter('ignore')
            _poison_heap(_shapes_in_play([list(kw.values()), inst]), ncall[0])
            ncall[0] += 1
            if isprop:
                return getattr(inst, member)
            return getattr(inst, member)(**kw)
    outs = []
    for i in range(2):
        st0 = state()
        try:
            out = call()
        except Exception as e:
            if i == 0:
                return None if not res['aliases_ctor_data'] else res
            res['second_raised'] = f'{type(e).__name__}: {e}'[:120]
            break
        outs.append(_canon(out))
        confs.append(config())
        st1 = state()
        res['state_changed'] += [p for p in st0 if p in st1 and st0[p] != st1[p] and p not in res['state_changed']]
        res['ctor_changed'] += [k for k, (v, b) in raw.items() if _sig(v) != b and k not in res['ctor_changed']]
        res['args_changed'] += [k for k, (v, b) in argraw.items() if _sig(v) != b and k not in res['args_changed']]
    if len(outs) == 2:
        res['same'] = outs[0] == outs[1]
        res['config_drift'] = sorted(k for k in confs[0] if k in confs[1] and _canon(confs[0][k]) != _canon(confs[1][k]))
    return res


def o_lifecycle(inp):
    """object life cycle: the constructor's input arrays are never changed by any later method call; a method that is not
    a documented in-place operation leaves the object's own arrays alone and answers the same question the same way twice"""
    cq, m = inp['class'], inp['member']
    ob = lifecycle(cq, inp['opt'], inp['data'], m, inp['optional'], inp['trial'])
    if ob is None:
        return None
    q = f'{cq}.{m}'
    if cq in ARRAY_CLASSES and ob['aliases_ctor_data']:
        return {'tag': f'{cq}.__new__/keeps-caller-array', 'observed': {'ctor_options': ob['ctor_options']},
                'expected': 'the object owns a copy of the data it was constructed from'}
    if ob['ctor_changed']:
        return {'tag': f'{q}/mutates-constructor-data', 'observed': ob, 'expected': 'constructor input bytes unchanged'}
    if ob['args_changed'] and not ob['mutator']:
        return {'tag': f"{q}/mutates-{sorted(ob['args_changed'])[0]}", 'observed': ob, 'expected': 'argument bytes unchanged'}
    if q in TB.DOCUMENTED_RANDOM or any(q.startswith(p) for p in TB.RANDOM_PREFIX) or ob['mutator']:
        return None
    if ob.get('config_drift'):
        # identical arguments, same object: a configuration scalar (gain, alpha, weight...) that keeps changing from call to call
        return {'tag': f'{q}/configuration-drifts', 'observed': {'attributes': ob['config_drift'], 'same_result': ob.get('same'), 'kwargs': ob['kwargs'],
                                                               'ctor_options': ob['ctor_options']},
                'expected': 'configuration attributes equal after the first and after the second identical call'}
    strict = cq in ARRAY_CLASSES or inp.get('isprop')
    if strict and ob['state_changed']:
        return {'tag': f'{q}/query-mutates-object', 'observed': ob, 'expected': "the object's arrays unchanged by a method that is not a documented in-place operation"}
    if strict and ('second_raised' in ob or ob.get('same') is False):
        return {'tag': f'{q}/not-repeatable-on-same-object', 'observed': ob, 'expected': 'second identical call returns the same value'}
    return None


ORACLES = {'mutation': o_mutation, 'repeat': o_repeat, 'static': o_static, 'lifecycle': o_lifecycle}


def _public_quals():
    res = _res()
    seen, out = set(), []
    for e in res.entries:
        if e.public and e.qual not in seen:
            seen.add(e.qual)
            out.append(e.qual)
    for n in res.unclassified:
        q = n.split('[')[0]
        if pyfx.is_public(q.split('.')[-1]) and q not in seen:
            seen.add(q)
            out.append(q)
    return sorted(out)


# ====================================================================== correspondence: model's predicted set vs observation
def _model_sets(ctx):
    """{variant name: set of parameter names the Coq analysis says may be mutated} (None = analysis gave up)"""
    pre = ['From Coq Require Import List String.', 'From AhrsModel Require Import Effects.',
           'From AhrsGen Require Import C19effects.', 'From AhrsProps Require Import C19_analysis.', 'Import ListNotations.']
    out = ctx.coq_eval('model_sets', pre, ['map snd mutated_table', 'tainted_attrs', 'flagged', 'map fst global_table'])
    if out is None:
        return None
    import re
    res = _res()
    items = re.findall(r'Some \[([^\]]*)\]|None', out[0])
    body = out[0]
    toks = re.findall(r'(Some \[[^\]]*\]|None)', body)
    sets = {}
    for e, t in zip(res.entries, toks):
        if t == 'None':
            sets[e.name] = None
        else:
            idx = [int(x) for x in re.findall(r'\d+', t)]
            sets[e.name] = {e.params[i] for i in idx}
    flagged = re.findall(r'"([^"]*)"', out[2])
    globs = re.findall(r'"([^"]*)"', out[3])
    return sets, flagged, globs


def correspondence(ctx):
    ms = _model_sets(ctx)
    if ms is None:
        return
    sets, flagged, globs = ms
    ctx.model_sets, ctx.flagged = sets, flagged
    ctx.say(f"[static] callables the analysis flags as mutators of a caller array: {flagged if flagged else 'none'}")
    ctx.targets_meta['pyfx']['flagged'] = flagged
    ctx.targets_meta['pyfx']['static_global_readers'] = globs
    quals = _public_quals()
    ncase = ctx.n(4, 14)
    uncovered, covered = {}, 0
    observed_mut = {}
    for q in quals:
        ok_any = False
        for case in range(ncase):
            ob = observe(q, case)
            if ob['status'] != 'ok':
                uncovered.setdefault(q, ob.get('why', ''))
                continue
            ok_any = True
            label = 'effects:' + q.rsplit('.', 2)[-2] if q.count('.') > 1 else 'effects'
            pred = sets.get(ob['variant'], 'absent')
            changed = {_argname(p) for p in ob['mutated']} | {p.replace('self.ctor.', 'ctor.') for p in ob['state_mutated'] if p.startswith('self.ctor')}
            # object state: self.<attr> paths map to the implicit parameters self.<attr>
            state = {'.'.join(p.split('.')[:2]).split('[')[0] for p in ob['state_mutated']}
            if pred == 'absent':
                ctx.agree('effects(unclassified: dynamic only)')
                continue
            ctx.agree('effects')
            if pred is None:
                continue
            allowed = set(pred)
            # kwargs of the callee: a changed keyword argument is the parameter `kwargs` (or its named parameter)
            f = _res().pkg.funcs.get(q)
            names = set(f.params) if f else set()
            miss = set()
            for c in changed:
                if c.startswith('ctor.'):
                    continue
                pn = c if c in names else (f.kwarg if f and f.kwarg else c)
                if pn not in allowed:
                    miss.add(c)
            me = f.params[0] if (f and f.cls and f.kind in ('method', 'property') and f.params) else 'self'
            for s_ in state:
                pn = s_.replace('self', me, 1)
                if pn == me and (f'{me}.A' in allowed or f'{me}.array' in allowed):
                    continue        # an ndarray subclass of this package IS a view of its own .A / .array buffer
                if pn not in allowed and not (pn == me and me in allowed):
                    # object state the model says is untouched
                    miss.add(s_)
            if miss:
                ctx.disagree('effects', {'callable': q, 'case': case, 'args': ob['combo']}, sorted(allowed), sorted(miss),
                             note='the real call changed an array the effect model says it cannot change (abstraction unsound here)')
            if changed:
                observed_mut.setdefault(q, set()).update(changed)
        if ok_any:
            covered += 1
            uncovered.pop(q, None)
    ctx.targets_meta['pyfx']['dynamic_covered'] = covered
    ctx.targets_meta['pyfx']['dynamic_uncovered'] = uncovered
    ctx.targets_meta['pyfx']['observed_mutations'] = {k: sorted(v) for k, v in observed_mut.items()}
    ctx.say(f"[corr] effects: {covered}/{len(quals)} public callables called successfully; uncovered: {len(uncovered)}"
            f"{' (' + ', '.join(sorted(uncovered)[:12]) + (' ...' if len(uncovered) > 12 else '') + ')' if uncovered else ''}")
    # every flagged callable must be observed to mutate for SOME argument (else the static flag is a false alarm to fix)
    for n in flagged:
        q = n.split('[')[0]
        if q not in observed_mut and q not in uncovered:
            ctx.say(f"[static] note: {n} is flagged statically but no synthesised call changed an argument")


def search(ctx, scale):
    quals = _public_quals()
    ncase = 6 * scale if scale == 1 else 24
    for q in quals:
        for case in range(ncase):
            inp = {'callable': q, 'case': case}
            ob = observe(q, case)
            if ob['status'] != 'ok':
                continue
            key = (q, ob['variant'], tuple(sorted((k, str(v)) for k, v in ob['combo'].items())))
            r = _safe(o_mutation, inp)
            ctx.check('mutation', inp, r, nontrivial_key=key if ob['nd_args'] else None)
            r = _safe(o_repeat, inp)
            ctx.check('repeat', inp, r, nontrivial_key=key)
    # object life cycles: every class x constructor options x every public member x (without / with optional arguments), twice
    res = _res()
    for cq, ci in sorted(res.pkg.classes.items()):
        if not pyfx.is_public(cq.split('.')[-1]):
            continue
        try:
            cls, _o = _live(cq)
        except Exception:
            continue
        nopt = len(_lc_options(cls.__name__)) if cq in ARRAY_CLASSES else 2
        for member in _lc_members(cls):
            isprop = isinstance(next((k.__dict__[member] for k in cls.__mro__ if member in k.__dict__), None), property)
            for opt in range(nopt):
                for optional in ((False,) if isprop else (False, True)):
                    for trial in range(1 if isprop else (2 if not optional else (2 if scale == 1 else 4))):
                        for data in range(2 if cq in ARRAY_CLASSES else 1):
                            inp = {'class': cq, 'member': member, 'opt': opt, 'data': data, 'optional': optional, 'trial': trial, 'isprop': isprop}
                            r = _safe(o_lifecycle, inp)
                            ctx.check('lifecycle', inp, r, nontrivial_key=(cq, member, opt, optional, trial, data) if r is None else None)
    inp = {}
    ctx.check('static', inp, o_static(inp))
    ctx.samples.append({'kind': 'search', 'oracle': 'mutation', 'input': {'callable': 'common.orientation.q2R', 'case': 0},
                        'observation': {k: v for k, v in observe('common.orientation.q2R', 0).items() if k != 'kwargs'}})


def _safe(f, inp):
    from vlib.core import call_outcome
    r = call_outcome(f, inp)
    if r[0] == 'raise':
        return {'tag': f"{inp.get('callable', inp.get('class', '?') + '.' + str(inp.get('member', '')))}/oracle-raises-{r[1]}", 'observed': list(r[1:])}
    return r[1]
